import Uft.Lemmas.PyTrace
import Uft.Lemmas.PyHook
/-
C19 — Python programs are traced at function granularity with balanced calls.
Property theorems only (helpers are in Lemmas/PyTrace.lean).

`c : Cfg α` is the configuration (`-F` and `-N` entries in option order, libcall
mode, which functions are library functions, and `fixed`: with/without the
repair of finding F2).  A Python run is a forest `f : Calls α` of calls; the
interpreter hands `eventsL f` (or, after `os._exit`, a prefix of it) to
`uftrace_trace_python`, which is `run c St.init`.

The second half ("end to end", Model/PyHook.lean) puts the decision between what
comes before it in `uftrace_trace_python` — the first-frame test by address, the
rb-tree / shared-memory symbol table and the `python.fake.sym` file — and what
comes after it: libmcount's `__cygprof_entry` / `__cygprof_exit` (the shared hook
model `Uft.Mcount`) including an exit hook that arrives with nothing on the
shadow stack.
-/
namespace Uft.PyTrace

variable {α : Type}

/-- C19, state: after a call (tree) has returned, `count_in`, `count_out` and
    `libcall_count` are what they were before it — from any state a nested
    stream can reach, in particular from program start. -/
theorem c19_state_restored (c : Cfg α) (hf : c.fixed = true) (s : St) (hw : WF c s)
    (t : Call α) (f : Calls α) :
    (run c s (events t)).1 = s ∧ (run c s (eventsL f)).1 = s := by
  rw [run_call c hf t s hw, run_calls c hf f s hw]
  simp

/-- C19, selection: the hook calls made for a whole program are exactly the
    documented selection (`specCalls`: `-F` functions with everything they
    call, `-N` functions and their callees left out, first matching option
    wins, library calls per `--no-libcall` / default / `--nest-libcall`). -/
theorem c19_refines_doc (c : Cfg α) (hf : c.fixed = true) (f : Calls α) :
    (run c St.init (eventsL f)).2 = specCalls c false false 0 f := by
  rw [run_calls c hf f St.init (wf_init c)]
  simp [envA, envB, envL, St.init]

/-- … and the same holds for every sub-run started inside a program (the
    environment of the specification is read off the counters). -/
theorem c19_refines_doc_inside (c : Cfg α) (hf : c.fixed = true) (s : St) (hw : WF c s)
    (f : Calls α) :
    (run c s (eventsL f)).2 = specCalls c (envA s) (envB s) (envL s) f := by
  rw [run_calls c hf f s hw]

/-- C19, balance: for every program and every configuration the emitted
    enter/exit sequence is a Dyck word, and whatever prefix of the event stream
    the tracer gets to see (the program may stop at any point, e.g. `os._exit`)
    no prefix of the emitted sequence has more exits than enters. -/
theorem c19_balanced_output (c : Cfg α) (hf : c.fixed = true) (f : Calls α) :
    Balanced (run c St.init (eventsL f)).2 ∧
    ∀ k j, exits (((run c St.init ((eventsL f).take k)).2).take j) ≤
           enters (((run c St.init ((eventsL f).take k)).2).take j) := by
  have hb : walk 0 (run c St.init (eventsL f)).2 = some 0 := by
    rw [c19_refines_doc c hf f]
    exact walk_specCalls c f false false 0 0
  refine ⟨hb, ?_⟩
  intro k j
  have hsplit := run_append c ((eventsL f).take k) ((eventsL f).drop k) St.init
  rw [List.take_append_drop] at hsplit
  have hout : (run c St.init (eventsL f)).2 =
      (run c St.init ((eventsL f).take k)).2 ++
        (run c (run c St.init ((eventsL f).take k)).1 ((eventsL f).drop k)).2 := by
    rw [hsplit]
  rw [hout] at hb
  have hp := walk_prefix _ 0 0 hb
  by_cases hj : j ≤ ((run c St.init ((eventsL f).take k)).2).length
  · have := hp j
    rw [List.take_append_of_le_length hj] at this
    omega
  · have hlen : ((run c St.init ((eventsL f).take k)).2).length ≤ j := by omega
    have := hp ((run c St.init ((eventsL f).take k)).2).length
    rw [List.take_append_of_le_length (Nat.le_refl _), List.take_length] at this
    rw [List.take_of_length_le hlen]
    omega

/-- the enter and exit counts of a whole run agree (corollary, stated for the
    trace file: as many exit records as entry records) -/
theorem c19_counts_equal (c : Cfg α) (hf : c.fixed = true) (f : Calls α) :
    enters (run c St.init (eventsL f)).2 = exits (run c St.init (eventsL f)).2 := by
  have := walk_counts _ 0 0 (c19_balanced_output c hf f).1
  omega

/-- The defect is confined to mixing `-F` and `-N`: when the mode is not opt-in
    or no entry is an opt-out entry, the code as found behaves exactly like the
    repaired code on *every* event stream (nested or not). -/
theorem c19_prefix_agrees_without_mixing (c : Cfg α)
    (h : c.gmode ≠ .fin ∨ ∀ n, firstMatch c.flist n ≠ some .fout)
    (s : St) (evs : List (Ev α)) :
    run { c with fixed := false } s evs = run { c with fixed := true } s evs := by
  have hg : ∀ b, ({ c with fixed := b } : Cfg α).gmode = c.gmode := fun _ => rfl
  have hl : ∀ b, ({ c with fixed := b } : Cfg α).flist = c.flist := fun _ => rfl
  have hskip : ∀ (n : α) (ci co : Int) (ent : Bool),
      skipDecision false c.gmode (firstMatch c.flist n) ci co ent =
      skipDecision true c.gmode (firstMatch c.flist n) ci co ent := by
    intro n ci co ent
    rcases h with h | h
    · cases hgm : c.gmode <;> simp_all [skipDecision]
    · have := h n
      simp [skipDecision, this]
  have hstep : ∀ (s : St) (e : Ev α),
      stepSt { c with fixed := false } s e = stepSt { c with fixed := true } s e ∧
      stepOut { c with fixed := false } s e = stepOut { c with fixed := true } s e := by
    intro s e
    have hr : reaches { c with fixed := false } s e = reaches { c with fixed := true } s e := by
      simp only [reaches, hg, hl, hskip]
    simp only [stepSt, stepOut, hr, hg, hl]
    simp [libAfter, canTrace]
  induction evs generalizing s with
  | nil => simp [run]
  | cons e es ih =>
    simp only [run]
    rw [(hstep s e).1, (hstep s e).2, ih]

/-- What the code does with the stray `return` events that follow an uncaught
    exception or `sys.exit()` (python/uftrace.py has no `finally`, so the returns
    of the runpy frames that were entered before tracing started are still
    delivered): the counters are not corrupted (the clamp), and unless the mode
    is opt-in or `--no-libcall`, one unpaired `cygprof_exit` is made per event —
    libmcount drops it with "unpaired cygprof exit".  Stated so that the
    behaviour is on record; such streams are outside `eventsL`. -/
theorem c19_stray_return_unpaired_exit (c : Cfg α) (n : α) (hl : c.isLib n = true)
    (hm : firstMatch c.flist n = none) :
    stepSt c St.init ⟨.ret, n⟩ = St.init ∧
    stepOut c St.init ⟨.ret, n⟩ = (if c.gmode = .fin ∨ c.lmode = .none then [] else [.exit]) := by
  cases hg : c.gmode <;> cases hlm : c.lmode <;>
    simp [stepSt, stepOut, reaches, skipDecision, cinAfter, coutAfter, libAfter, canTrace,
      St.init, EvKind.isEntry, hm, hg, hlm, hl]

/-! ### pseudo addresses (`convert_function_addr`): what ties an `enter` to a name -/

/-- an address, once handed out, never changes while more events arrive -/
theorem c19_addr_stable [BEq α] [LawfulBEq α] (syms : List α) (evs : List (Ev α)) (n : α)
    (h : n ∈ syms) : addrOf (symsOf syms evs) n = addrOf syms n := by
  obtain ⟨t, ht⟩ := symsOf_prefix evs syms
  simp [addrOf, ht, List.idxOf_append, h]

/-- two names never share an address -/
theorem c19_addr_injective [BEq α] [LawfulBEq α] (syms : List α) (a b : α)
    (ha : a ∈ syms) (hb : b ∈ syms) (h : addrOf syms a = addrOf syms b) : a = b := by
  simp only [addrOf, Nat.add_right_cancel_iff] at h
  have h1 := List.getElem_idxOf (List.idxOf_lt_length_of_mem ha)
  have h2 := List.getElem_idxOf (List.idxOf_lt_length_of_mem hb)
  simp only [h] at h1
  exact h1.symm.trans h2

/-- every function seen in any event (also a filtered one) has an address -/
theorem c19_addr_assigned [BEq α] [LawfulBEq α] : ∀ (evs : List (Ev α)) (syms : List α) (e : Ev α),
    e ∈ evs → e.name ∈ symsOf syms evs
  | [], _, _, h => by simp at h
  | x :: xs, syms, e, h => by
    simp only [symsOf]
    rcases List.mem_cons.mp h with rfl | h
    · obtain ⟨t, ht⟩ := symsOf_prefix xs (intern syms e.name)
      rw [ht]
      apply List.mem_append_left
      simp only [intern]
      split
      · rename_i hc; simpa using hc
      · simp
    · exact c19_addr_assigned xs _ e h
instance (l : List (Out α)) : Decidable (Balanced l) := by
  unfold Balanced; infer_instance

/-! ### finding F2 as a theorem about the code as found, and non-vacuity -/

/-- `-F a -N g` with names `0 = a`, `1 = g` -/
def cfgMixed (fixed : Bool) : Cfg Nat :=
  { fixed := fixed
    filters := some [{ hit := fun n => n == 0, mode := .fin }, { hit := fun n => n == 1, mode := .fout }]
    lmode := .single
    isLib := fun _ => false }

/-- `a()` calls `g()` -/
def progAG : Calls Nat := .cons (.node 0 .py (.cons (.node 1 .py .nil) .nil)) .nil

/-- F2 witness: the code as found emits `enter a, exit, exit` for
    `[call a, call g, return g, return a]` under `-F a -N g`: the second prefix
    of length 3 has more exits than enters, the sequence is not balanced, and it
    is not the documented selection `enter a, exit`. -/
theorem c19_prefix_unbalanced_witness :
    (run (cfgMixed false) St.init (eventsL progAG)).2 = [.enter 0, .exit, .exit] ∧
    ¬ Balanced (run (cfgMixed false) St.init (eventsL progAG)).2 ∧
    enters ((run (cfgMixed false) St.init (eventsL progAG)).2.take 3) <
      exits ((run (cfgMixed false) St.init (eventsL progAG)).2.take 3) ∧
    specCalls (cfgMixed false) false false 0 progAG = [.enter 0, .exit] := by
  decide

/-- the same program with the repaired code -/
example : (run (cfgMixed true) St.init (eventsL progAG)).2 = [.enter 0, .exit] := by decide

/-- non-vacuity of the `WF` hypothesis: program start, and the state inside
    `a()` of the example -/
example : WF (cfgMixed true) St.init := wf_init _
example : WF (cfgMixed true) { cin := 1, cout := 0, lib := 0 } := by
  simp [WF, cfgMixed, Cfg.gmode]

/-- non-vacuity of `c19_prefix_agrees_without_mixing`: an `-N`-only and an
    `-F`-only configuration satisfy its hypothesis -/
example : (cfgMixed false).gmode = .fin := by decide
example : ({ cfgMixed false with filters := some [{ hit := fun n => n == 1, mode := .fout }] } : Cfg Nat).gmode
    ≠ .fin := by decide
example : ∀ n, firstMatch ({ cfgMixed false with
    filters := some [{ hit := fun n => n == 0, mode := .fin }] } : Cfg Nat).flist n ≠ some .fout := by
  intro n
  simp only [Cfg.flist, firstMatch]
  split <;> simp

/-- non-vacuity of `c19_stray_return_unpaired_exit`: a library function that no
    filter names, default mode -/
example : (({ cfgMixed true with isLib := fun n => n == 7 } : Cfg Nat).isLib 7 = true) ∧
    firstMatch ({ cfgMixed true with isLib := fun n => n == 7 } : Cfg Nat).flist 7 = none := by decide

/-- non-vacuity of the address theorems: the table after `[call 5, call 3, return 3]` -/
example : symsOf [] [(⟨.call, 5⟩ : Ev Nat), ⟨.call, 3⟩, ⟨.ret, 3⟩] = [5, 3] ∧
    addrOf [5, 3] 3 = 2 ∧ 3 ∈ [5, 3] := by decide

/-- the specification is not trivial: single-depth library calls with a
    callback (`a` → lib `1` → main `2` → lib `3`), default libcall mode -/
example :
    specCalls ({ fixed := true, filters := none, lmode := .single, isLib := fun n => n % 2 == 1 } : Cfg Nat)
      false false 0
      (.cons (.node 0 .py (.cons (.node 1 .c (.cons (.node 2 .py (.cons (.node 3 .cexc .nil) .nil)) .nil)) .nil)) .nil)
    = [.enter 0, .enter 1, .enter 2, .exit, .exit, .exit] := by decide

/-! ## end to end: first frame, symbol table, libmcount's hooks (Model/PyHook.lean) -/
section EndToEnd
open Uft.PyHook

variable {β : Type}

/-! ### the symbol table (`convert_function_addr`, `get_new_sym_addr`, `write_symtab`)

`ops` is any history of lookups by any number of processes that share the
region and `fork` their private trees (multiprocessing); `cmp` is `strcmp`. -/

/-- C19, symbol addresses: whatever the order of first appearance and whichever
    process saw them, two different names never get the same address; and one
    process has one address per name. -/
theorem c19_sym_addr_injective (cmp : β → β → Ordering) (hc : CmpEq cmp) (isLib : β → Bool) (ops : List (Op β))
    (p q : Nat) (a b : β) (sa sb : Sym β)
    (ha : ((World.init.run cmp isLib ops).trees p).find cmp a = some sa)
    (hb : ((World.init.run cmp isLib ops).trees q).find cmp b = some sb) :
    (sa.addr = sb.addr → a = b) ∧ (p = q → a = b → sa.addr = sb.addr) := by
  have hw := worldOk_run cmp hc isLib ops World.init (worldOk_init cmp isLib)
  constructor
  · intro e
    obtain ⟨_, _, l1, hl1, ha1, _, hn1⟩ := hw.trees p a sa ha
    obtain ⟨_, _, l2, hl2, ha2, _, hn2⟩ := hw.trees q b sb hb
    have := line_addr_inj _ hw.shm l1 l2 hl1 hl2 (by rw [ha1, ha2, e])
    rw [← hn1, ← hn2, this]
  · intro hpq hab
    subst hpq; subst hab
    rw [ha] at hb
    cases hb
    rfl

/-- … and the address a process has for a name never changes afterwards (as long
    as its pid is not handed to a new child). -/
theorem c19_sym_addr_stable (cmp : β → β → Ordering) (hc : CmpEq cmp) (isLib : β → Bool) (ops more : List (Op β))
    (p : Nat) (n : β) (s : Sym β) (hnf : ∀ q c, Op.fork q c ∈ more → c ≠ p)
    (h : ((World.init.run cmp isLib ops).trees p).find cmp n = some s) :
    ((World.init.run cmp isLib (ops ++ more)).trees p).find cmp n = some s := by
  have : World.init.run cmp isLib (ops ++ more) = (World.init.run cmp isLib ops).run cmp isLib more := by
    simp [World.run, List.foldl_append]
  rw [this]
  exact world_keeps cmp hc isLib more _ p n s hnf h

/-- C19, symbol file: every address any process holds for a name resolves,
    through the `python.fake.sym` that `write_symtab` produces from the shared
    region and the reader's "first line whose range holds the address", to that
    name; the entry says `P` exactly for a library function. -/
theorem c19_fake_sym_resolves (cmp : β → β → Ordering) (hc : CmpEq cmp) (isLib : β → Bool) (ops : List (Op β))
    (p : Nat) (n : β) (s : Sym β)
    (h : ((World.init.run cmp isLib ops).trees p).find cmp n = some s) :
    resolve (symFile (World.init.run cmp isLib ops).shm) s.addr = some n ∧ s.lib = isLib n := by
  have hw := worldOk_run cmp hc isLib ops World.init (worldOk_init cmp isLib)
  obtain ⟨_, h2, l, hl, ha, _, hn⟩ := hw.trees p n s h
  refine ⟨?_, h2⟩
  rw [← ha, ← hn]
  exact resolve_line _ hw.shm l hl

/-- the written file is sorted: line `i` carries address `i + 1` (the
    `__sym_end` line last) -/
theorem c19_fake_sym_sorted (cmp : β → β → Ordering) (hc : CmpEq cmp) (isLib : β → Bool) (ops : List (Op β))
    (i : Nat) (hi : i < (symFile (World.init.run cmp isLib ops).shm).length) :
    ((symFile (World.init.run cmp isLib ops).shm)[i]).addr = 1 + i :=
  symFile_consec _ (worldOk_run cmp hc isLib ops World.init (worldOk_init cmp isLib)).shm i hi

/-! ### libmcount's exit hook with nothing on the shadow stack -/

/-- C19, lone exit (repaired guard, F-C19-UNPAIRED-OOB): an exit hook that arrives
    with `idx == 0` changes nothing — no frame is popped, `idx` does not go
    negative, nothing outside `rstack` is looked at. -/
theorem c19_lone_exit_ignored (h : HookCfg) (hg : h.guard = true) (s : HSt) (now : Nat) (hz : s.m.idx = 0) :
    cygExit h s now = s := by
  unfold cygExit
  simp [hz, hg]

/-- the code as found (F-C19-UNPAIRED-OOB), characterised: once the thread has
    been through an entry hook, what a lone exit does is decided by bit 14 of a
    word that is not part of `rstack` -/
theorem c19_prefix_lone_exit_reads_below (h : HookCfg) (hg : h.guard = false) (s : HSt) (now : Nat)
    (hp : s.prepared = true) (hz : s.m.idx = 0) :
    cygExit h s now = if cygFlag h.below then { s with oob := true } else s := by
  unfold cygExit
  cases hb : cygFlag h.below <;> simp [hz, hg, hp, hb]

/-- the same for the whole callback: the `return` / `c_return` / `c_exception`
    of a function that was entered before tracing started (runpy's frames after
    `sys.exit()` or an uncaught exception), at program level, leaves the filter
    counters, `libcall_count` and libmcount's state as they are. -/
theorem c19_lone_exit_event_ignored (c : PCfg β) (hg : c.hk.guard = true) (s : PSt β) (F : Nat)
    (n : Node β) (k : CKind) (hfirst : s.first = some F) (hfr : n.frame ≠ F) (hpy : s.py = St.init)
    (hz : s.hk.m.idx = 0) (hm : firstMatch c.py.flist n.name = none) :
    (pstep c s ⟨k.exit, n⟩).py = St.init ∧ (pstep c s ⟨k.exit, n⟩).hk = s.hk := by
  have hsk : skips c s.first n.frame = false := by rw [hfirst]; exact skips_false c F _ hfr
  have hm' : firstMatch (liftCfg c.py).flist n = none := by rw [liftCfg_flist_none]; exact hm
  unfold pstep
  simp only [hsk, Bool.false_eq_true, ↓reduceIte, hpy]
  refine ⟨stepSt_stray _ n k hm', ?_⟩
  rcases stepOut_stray (liftCfg c.py) St.init n k with h2 | h2
  · simp [h2]
  · simp [h2, hookOut, c19_lone_exit_ignored c.hk hg s.hk _ hz]

/-! ### the first frame -/

/-- the code as found and the repaired code alike: once `first_frame = F`, a
    run sees exactly the events whose frame object does not sit at address `F`;
    on a forest these are the events of the forest without the calls at `F`
    (their callees move up one level). -/
theorem c19_first_frame_drops (c : PCfg β) (hk : c.skipFirst = true) (F : Nat) (s : PSt β)
    (hs : s.first = some F) (f : Calls (Node β)) :
    prun c s (eventsL f) = prun c s (eventsL (pruneCalls F f .nil)) := by
  rw [prun_filter c hk F (eventsL f) s hs]
  have := filter_eventsL F f .nil
  simp only [eventsL, List.append_nil] at this
  rw [this]

/-! ### the whole tracer on a whole run -/

/-- C19, end to end.  Repaired code (`fixed`, `guard`; the first frame is kept
    allocated, so no later frame object has its address — hypothesis `hfr`),
    libmcount without filters of its own (`Plain`; `-F` and `-N` are applied by the
    Python side).  A run is the first event (dropped), a program forest `f0` of
    calls (Python functions also when ended by an exception, generator
    resumptions, C functions, C functions that raise; any recursion) and, after
    `sys.exit()` / an uncaught exception, the lone exits `tl` of the frames that
    were running before tracing started, each followed by the forest that still
    runs at that level (atexit callbacks, `threading._shutdown`).  Then

    * the records libmcount writes are exactly the documented selection of
      `f0` and of the forests of `tl`, in order, as entry/exit records with
      `depth` = nesting depth, the entry/exit clock readings of each call, and
      the address the final symbol table holds for the function's name (cut at
      `--max-stack` levels);
    * that stream is well nested; the shadow stack is empty at the end, `idx`
      never went below 0 and nothing outside `rstack` was touched; the filter
      counters are back at 0;
    * every function of an event that was not dropped has an address, and that
      address resolves through the written `python.fake.sym` to its name.  -/
theorem c19_end_to_end_balanced (c : PCfg β) (hcmp : CmpEq c.cmp) (hf : c.py.fixed = true)
    (hg : c.hk.guard = true) (hsk : c.skipFirst = true)
    (hp : Uft.Mcount.Plain c.hk.m) (hs4 : c.hk.m.s4fixed = true)
    (hdo : c.hk.m.maxStack ≤ c.hk.m.depthOpt) (hmin : c.hk.m.minSize = 0) (hen : c.hk.m.enabled0 = true)
    (e0 : Ev (Node β)) (f0 : Calls (Node β)) (tl : List (CKind × Node β × Calls (Node β)))
    (hfr : ∀ e ∈ progEvents f0 tl, e.name.frame ≠ e0.name.frame)
    (hck : ClockOkL f0) (hcl : ∀ x ∈ tl, ClockOkL x.2.2)
    (hnm : ∀ x ∈ tl, firstMatch c.py.flist x.2.1.name = none) :
    let s := prun c (PSt.init c) (e0 :: progEvents f0 tl)
    let addr := addrIn c.cmp s.tree
    s.hk.m.out = Uft.Mcount.evCallsB 0 c.hk.m.maxStack (selProg (liftCfg c.py) addr f0 tl) ∧
    Uft.Mcount.WellNested s.hk.m.out ∧
    s.hk.m.frames = [] ∧ s.hk.m.over = 0 ∧ s.hk.oob = false ∧ s.py = St.init ∧
    ∀ e ∈ progEvents f0 tl, addr e.name.name ≠ 0 ∧
      resolve (symFile s.shm) (addr e.name.name) = some e.name.name := by
  intro s addr
  have hs0 : s = prun c { PSt.init c with first := some e0.name.frame } (progEvents f0 tl) := by
    show prun c (PSt.init c) (e0 :: progEvents f0 tl) = _
    rw [prun_cons, pstep_init c hsk]
  have haddr : ∀ n sym, s.tree.find c.cmp n = some sym → addr n = sym.addr := by
    intro n sym h
    simp [addr, addrIn, h]
  have hA := prun_eq_prunA c hcmp e0.name.frame addr (progEvents f0 tl)
    { PSt.init c with first := some e0.name.frame } rfl hfr (by rw [← hs0]; exact haddr)
  rw [← hs0] at hA
  have hinit : ({ PSt.init c with first := some e0.name.frame } : PSt β).py = St.init ∧
      ({ PSt.init c with first := some e0.name.frame } : PSt β).hk = HSt.init c.hk := ⟨rfl, rfl⟩
  rw [hinit.1, hinit.2] at hA
  obtain ⟨g1, g2, g3⟩ := prunA_guard c hg addr (progEvents f0 tl) (St.init, HSt.init c.hk) (hInv_init c.hk)
  rw [← hA] at g1 g2 g3
  simp only at g1 g2 g3
  have hgw : Uft.Mcount.GoodW (Uft.Mcount.St.init c.hk.m) 0 := by
    refine ⟨?_, trivial, fun _ => rfl, fun f hf => by simp [Uft.Mcount.St.init] at hf⟩
    constructor <;> simp [Uft.Mcount.St.init, hmin, hen, Uft.Mcount.NoSkip]
  have hnm' : ∀ x ∈ tl, firstMatch (liftCfg c.py).flist x.2.1 = none := by
    intro x hx
    rw [liftCfg_flist_none]
    exact hnm x hx
  obtain ⟨m1, m2, m3⟩ := mrun_prog c hf hp hs4 hdo addr tl f0 (Uft.Mcount.St.init c.hk.m) hgw hck hcl hnm'
  have hm0 : (HSt.init c.hk).m = Uft.Mcount.St.init c.hk.m := rfl
  rw [hm0] at g1 g2
  rw [← g2] at m2 m3
  rw [← g1] at m1
  have hfr0 : s.hk.m.frames = [] := List.eq_nil_of_length_eq_zero m3.good.len
  have hout : s.hk.m.out = Uft.Mcount.evCallsB 0 c.hk.m.maxStack (selProg (liftCfg c.py) addr f0 tl) := by
    simpa [Uft.Mcount.eager, hfr0, Uft.Mcount.pending, Uft.Mcount.St.init] using m2
  refine ⟨hout, ?_, hfr0, m3.good.over, g3.2, m1, ?_⟩
  · rw [hout]
    exact Uft.Mcount.nest_evCallsB _ [] _
  · intro e he
    have hto : TabOk c s := tabOk_prun c hcmp _ _ (tabOk_init c)
    obtain ⟨sym, hsym⟩ : ∃ sym, s.tree.find c.cmp e.name.name = some sym := by
      rw [hs0]
      exact prun_seen c hcmp e0.name.frame _ _ e rfl he (hfr e he)
    have ha := haddr _ _ hsym
    obtain ⟨_, _, l, hl, hla, _, _⟩ := hto.tree _ _ hsym
    obtain ⟨i, hi, rfl⟩ := List.getElem_of_mem hl
    have hpos := hto.shm.pos i hi
    refine ⟨by omega, ?_⟩
    rw [ha]
    exact tab_resolves c s hto _ _ hsym

/-- the address every hook call of a run carries is the one the final symbol
    table holds for the function's name (for any event stream, nested or not):
    the run is the table-free machine `prunA` with those addresses -/
theorem c19_hook_addresses_are_final (c : PCfg β) (hcmp : CmpEq c.cmp) (F : Nat) (s0 : PSt β)
    (hs : s0.first = some F) (evs : List (Ev (Node β))) (hfr : ∀ e ∈ evs, e.name.frame ≠ F) :
    ((prun c s0 evs).py, (prun c s0 evs).hk) =
      prunA c (addrIn c.cmp (prun c s0 evs).tree) (s0.py, s0.hk) evs :=
  prun_eq_prunA c hcmp F _ evs s0 hs hfr (fun n sym h => by simp [addrIn, h])

/-! ### the two findings as theorems about the code as found, and non-vacuity -/

/-- no filters, default libcall mode, names ≥ 100 are library functions; the
    libmcount side with default options -/
def wcfg (guard : Bool) (below : Nat) : PCfg Nat :=
  { py := { fixed := true, filters := none, lmode := .single, isLib := fun n => decide (100 ≤ n) }
    skipFirst := true
    cmp := compare
    hk := { m := {}, guard := guard, below := below } }

/-- `exec` (name 0) called from uftrace.py's frame (address 1); `a()` (name 5,
    frame 2, clock 20…21); then, after `sys.exit()`, the `return` of
    `runpy._run_code` (name 100, frame 3) that was entered before tracing
    started -/
def evsStray : List (Ev (Node Nat)) :=
  [⟨.ccall, ⟨0, 1, 10, 10⟩⟩, ⟨.call, ⟨5, 2, 20, 21⟩⟩, ⟨.ret, ⟨5, 2, 20, 21⟩⟩, ⟨.ret, ⟨100, 3, 30, 30⟩⟩]

/-- F-C19-UNPAIRED-OOB witness.  The code as found looks at `rstack[-1].flags`:
    when bit 14 of that foreign word is set (16384) the lone exit is taken for
    the exit of a frame that lies before the array (`oob`); when it is clear
    the exit is dropped.  The repaired code drops it whatever the word is, and
    the trace is that of the program: one call. -/
theorem c19_prefix_unpaired_oob_witness :
    (prun (wcfg false 16384) (PSt.init (wcfg false 16384)) evsStray).hk.oob = true ∧
    (prun (wcfg false 0) (PSt.init (wcfg false 0)) evsStray).hk.oob = false ∧
    (prun (wcfg true 16384) (PSt.init (wcfg true 16384)) evsStray).hk.oob = false ∧
    (prun (wcfg true 16384) (PSt.init (wcfg true 16384)) evsStray).hk.m.out =
      [⟨20, 0, 0, 1⟩, ⟨21, 1, 0, 1⟩] := by
  decide

/-- the stream of `evsStray` with the address of `a()`'s frame object decided by
    the allocator: uftrace.py's frame (address 1) has been released (its
    `c_return` of `exec` was the last event on it) when `a`'s frame is created -/
def evsAlias (pin : Bool) : List (Ev (Node Nat)) :=
  [⟨.ccall, ⟨0, 1, 10, 10⟩⟩, ⟨.cret, ⟨0, 1, 11, 11⟩⟩,
   ⟨.call, ⟨5, laterFrameAddr pin 1 2, 20, 21⟩⟩, ⟨.ret, ⟨5, laterFrameAddr pin 1 2, 20, 21⟩⟩]

/-- F-C19-FIRSTFRAME-ALIAS witness.  The code as found keeps `first_frame` by
    address without a reference: when the allocator hands the address out again
    (`pin = false`), the call of `a()` leaves no record and `a` not even a
    symbol, although the documented selection is `a() { }`.  With the reference
    held (`pin = true`) the frame of `a` is elsewhere and the call is recorded. -/
theorem c19_prefix_firstframe_alias_witness :
    (prun (wcfg true 0) (PSt.init (wcfg true 0)) (evsAlias false)).hk.m.out = [] ∧
    (prun (wcfg true 0) (PSt.init (wcfg true 0)) (evsAlias false)).shm.count = 0 ∧
    (prun (wcfg true 0) (PSt.init (wcfg true 0)) (evsAlias true)).hk.m.out = [⟨20, 0, 0, 1⟩, ⟨21, 1, 0, 1⟩] ∧
    specCalls (wcfg true 0).py false false 0 (.cons (.node 5 .py .nil) .nil) = [.enter 5, .exit] := by
  decide

/-- non-vacuity of `c19_end_to_end_balanced`: `wcfg true _` meets the
    configuration hypotheses; a program `a() { os.getpid() }` followed by the
    lone return of `runpy._run_code` and an atexit callback meets the others -/
example : CmpEq (wcfg true 0).cmp := fun _ _ => Nat.compare_eq_eq
example : Uft.Mcount.Plain (wcfg true 0).hk.m := ⟨rfl, rfl, rfl, rfl, rfl, fun _ => rfl⟩
example : (wcfg true 0).hk.m.maxStack ≤ (wcfg true 0).hk.m.depthOpt := by decide
def progF0 : Calls (Node Nat) :=
  .cons (.node ⟨5, 2, 20, 25⟩ .py (.cons (.node ⟨101, 2, 21, 22⟩ .c .nil) .nil)) .nil
def progTl : List (CKind × Node Nat × Calls (Node Nat)) :=
  [(.py, ⟨100, 3, 30, 30⟩, .cons (.node ⟨6, 4, 31, 32⟩ .py .nil) .nil)]
example : (∀ e ∈ progEvents progF0 progTl, e.name.frame ≠ 1) ∧ ClockOkL progF0 ∧ (∀ x ∈ progTl, ClockOkL x.2.2) ∧
    (∀ x ∈ progTl, firstMatch (wcfg true 0).py.flist x.2.1.name = none) ∧
    (prun (wcfg true 0) (PSt.init (wcfg true 0)) (⟨.ccall, ⟨0, 1, 10, 10⟩⟩ :: progEvents progF0 progTl)).hk.m.out =
      [⟨20, 0, 0, 1⟩, ⟨21, 0, 1, 2⟩, ⟨22, 1, 1, 2⟩, ⟨25, 1, 0, 1⟩, ⟨31, 0, 0, 4⟩, ⟨32, 1, 0, 4⟩] := by
  refine ⟨by decide, by simp [progF0, ClockOkL, ClockOk], by simp [progTl, ClockOkL, ClockOk], by decide, by decide⟩

/-- non-vacuity of the symbol-table theorems: two processes, the child forked
    after `5` was seen; `7` is first seen by the child, `9` by the parent, then
    `7` by the parent too (a second line for the same name) -/
example :
    let w := World.init.run compare (fun n => decide (100 ≤ n))
      [Op.lookup 1 5, .fork 1 2, .lookup 2 7, .lookup 1 9, .lookup 1 7]
    (symFile w.shm).map (fun l => (l.addr, l.name)) =
      [(1, some 5), (2, some 7), (3, some 9), (4, some 7), (5, none)] ∧
    addrIn compare (w.trees 2) 7 = 2 ∧ addrIn compare (w.trees 1) 7 = 4 ∧
    resolve (symFile w.shm) 2 = some 7 ∧ resolve (symFile w.shm) 4 = some 7 := by
  decide

/-- non-vacuity of `c19_lone_exit_ignored` / `c19_lone_exit_event_ignored`: the
    state after `a()` has returned -/
example : (prun (wcfg true 0) (PSt.init (wcfg true 0)) (evsStray.take 3)).hk.m.idx = 0 ∧
    (prun (wcfg true 0) (PSt.init (wcfg true 0)) (evsStray.take 3)).py = St.init ∧
    (prun (wcfg true 0) (PSt.init (wcfg true 0)) (evsStray.take 3)).first = some 1 := by
  decide

/-- non-vacuity of `c19_first_frame_drops`: a forest with a call at the first
    frame's address whose Python callee survives one level up -/
example :
    pruneCalls 1 (.cons (.node ⟨5, 1, 20, 25⟩ .py (.cons (.node ⟨101, 1, 21, 22⟩ .c .nil)
      (.cons (.node ⟨6, 4, 23, 24⟩ .py .nil) .nil))) .nil) .nil =
    (.cons (.node ⟨6, 4, 23, 24⟩ .py .nil) .nil : Calls (Node Nat)) := by
  simp [pruneCalls, pruneCall]

/-! ### names come from the code object of the event (Model/PyHook §6) -/

/-- C19, names: for every history of code objects — created, freed, their addresses handed out
    again to other code objects any number of times (functions made by exec()/compile(), class
    bodies, the top-level code of imported modules) — the symbol under which an event is recorded
    carries the name of the code object that lives at the event's address **at that event**; every
    such symbol is the final table's entry for that name, and two events are recorded under the
    same address exactly when their current names are equal (never because their code objects have,
    or had, the same address). -/
theorem c19_name_is_current_code_object (cmp : β → β → Ordering) (hc : CmpEq cmp) (isLib : β → Bool)
    (evs : List (CEv β)) :
    (runCode cmp isLib .leaf Shm.empty evs).map (Option.map Sym.name) = evs.map (fun e => e.heap e.code) ∧
    (∀ s, some s ∈ runCode cmp isLib .leaf Shm.empty evs →
      (runCodeTab cmp isLib .leaf Shm.empty evs).1.find cmp s.name = some s) ∧
    (∀ s1 s2, some s1 ∈ runCode cmp isLib .leaf Shm.empty evs → some s2 ∈ runCode cmp isLib .leaf Shm.empty evs →
      (s1.addr = s2.addr ↔ s1.name = s2.name)) := by
  have h0 := treeOk_leaf cmp isLib (Shm.empty : Shm β)
  have hfin := runCode_final cmp hc isLib evs .leaf Shm.empty h0 shmOk_empty
  refine ⟨runCode_names cmp hc isLib evs .leaf Shm.empty shmOk_empty h0, hfin, ?_⟩
  intro s1 s2 h1 h2
  have hok := runCodeTab_ok cmp hc isLib evs .leaf Shm.empty shmOk_empty h0
  have f1 := hfin s1 h1
  have f2 := hfin s2 h2
  constructor
  · intro e
    obtain ⟨_, _, l1, hl1, ha1, _, hn1⟩ := hok.2 s1.name s1 f1
    obtain ⟨_, _, l2, hl2, ha2, _, hn2⟩ := hok.2 s2.name s2 f2
    have := line_addr_inj _ hok.1 l1 l2 hl1 hl2 (by rw [ha1, ha2, e])
    rw [← hn1, ← hn2, this]
  · intro e
    rw [e] at f1
    rw [f1] at f2
    cases f2
    rfl

/-- non-vacuity: rule_0 (name 10) is compiled at address 500, called and dropped; rule_1 (name 11)
    gets the same address; the module's top-level code (name 7) had it before both -/
example :
    let heap0 : CodeHeap Nat := fun a => if a = 500 then some 7 else if a = 600 then some 3 else none
    let heap1 : CodeHeap Nat := fun a => if a = 500 then some 10 else if a = 600 then some 3 else none
    let heap2 : CodeHeap Nat := fun a => if a = 500 then some 11 else if a = 600 then some 3 else none
    (runCode compare (fun _ => false) .leaf Shm.empty
      [⟨500, heap0⟩, ⟨600, heap0⟩, ⟨500, heap1⟩, ⟨600, heap1⟩, ⟨500, heap2⟩, ⟨700, heap2⟩, ⟨500, heap0⟩]).map
        (Option.map fun s => (s.name, s.addr)) =
      [some (7, 1), some (3, 2), some (10, 3), some (3, 2), some (11, 4), none, some (7, 1)] := by
  decide

/-! ### which directory is the program (Model/PyHook §7) -/

/-- C19, library classification with the repaired launcher: however the script was started
    (relative or absolute name, through symbolic links of any kind — `real` is arbitrary), a module
    imported from the directory the launcher put in front of `sys.path` (a file below it, in a
    package or not) is program code. -/
theorem c19_sibling_modules_are_program_code (l : Launch) (rel : Path) (h : rel ≠ []) :
    isProgramFile true l (sysPath0 true l ++ rel) = true := by
  have hl : 0 < rel.length := List.length_pos_iff.mpr h
  simp only [isProgramFile, underDir, mainDir, sysPath0, ↓reduceIte, isPrefixOf_append_self, Bool.true_and,
    List.length_append, decide_eq_true_eq]
  omega

/-- … and the modules next to the script are looked up where the script really is -/
theorem c19_sys_path_is_script_dir (l : Launch) : sysPath0 true l = (l.real l.abs).dropLast := rfl

/-- `app/` holds the project, `link -> app`, `bin/tool -> ../app/main.py` -/
def realW : Path → Path
  | ["W", "link", f] => ["W", "app", f]
  | ["W", "bin", "tool"] => ["W", "app", "main.py"]
  | p => p

/-- F-C19-SCRIPTDIR witness (the launcher as found): started as `link/main.py` the neighbour
    `helper.py` is imported from W/link but the program's directory is W/app — its functions count as
    library calls; started as `bin/tool` (a symbolic link to the script) the neighbours are looked up in
    W/bin, where they are not; started by a plain name both agree -/
theorem c19_prefix_scriptdir_witness :
    let viaDir : Launch := { arg := ["link", "main.py"], isAbs := false, cwd := ["W"], real := realW }
    let viaLink : Launch := { arg := ["bin", "tool"], isAbs := false, cwd := ["W"], real := realW }
    let plain : Launch := { arg := ["app", "main.py"], isAbs := false, cwd := ["W"], real := realW }
    isProgramFile false viaDir (sysPath0 false viaDir ++ ["helper.py"]) = false ∧
    sysPath0 false viaLink = ["W", "bin"] ∧ (realW viaLink.abs).dropLast = ["W", "app"] ∧
    isProgramFile false plain (sysPath0 false plain ++ ["pkg", "core.py"]) = true ∧
    isProgramFile true viaDir (sysPath0 true viaDir ++ ["helper.py"]) = true ∧
    sysPath0 true viaLink = ["W", "app"] := by
  decide

end EndToEnd

end Uft.PyTrace
