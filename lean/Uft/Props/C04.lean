import Uft.Props.C03
import Uft.Gen.TaskStart
/-
C04 — A crashing or killed tracee still leaves a replayable prefix trace.

Same machine as C03 (`Uft.Shmem.step`), whose `Reachable` already contains
  * `kill t` after ANY producer micro-step (bytes stored / size advanced / REC_END sent / next buffer
    marked RECORDING / REC_START sent / LOST marker placed): SIGKILL, the end of the SIGSEGV/SIGABRT
    handler, _exit, exec (the old image is gone; `rFlush` is what flush_old_shmem does at the new
    TASK_START);
  * `pFinishTrigger t` (mcount_trace_finish: FINISH message, pipe closed — later sends are dropped)
    and `pFinish t` (mtd_dtor);
  * the recorder's shutdown steps `rRead` (stop_tracing drains the pipe), `rStop` (stop_all_writers),
    `wWrite`/`wSplice` (writers finish before pthread_join returns), `rFlush` (flush_shmem_list),
    `rRemaining` (record_remaining_buffer).
Modelling decision (Outside): once the pipe is closed by the finish trigger no thread stores further
records (`canEmit`); the real threads may complete the hook they are in.  `rFlush` needs the thread to
have stopped (killed / mtd_dtor / finished): the recorder's shutdown starts after POLLHUP, i.e. after
every writer of the FIFO is gone.

The crash handler itself (segv_handler + mcount_rstack_restore) is `Crash.segvFlush` over the hook
model `Uft.Mcount`; `fixed = false` is the code as it is (finding F11).
-/
namespace Uft.C04
open Uft Uft.Shmem Uft.Writers Uft.Crash Uft.C03

variable {cfg : Cfg} {nw : Nat} {s : State}

/-- **Crash prefix.**  Whatever was killed wherever: the complete records in a thread's file are always
    an in-order prefix of the records whose size update completed (`kept` is logged by `pBump`, see
    `c04_bump_is_logged`), and once nothing of the thread is under way any more (pipe read, REC_START
    list flushed, queues written) the file holds all of them. -/
theorem c04_crash_prefix (h : Reachable cfg nw s) (t : Tid) :
    clean (s.file t) <+: survivors (s.prod t).log ∧
    (Drained s t → clean (s.file t) = survivors (s.prod t).log) :=
  ⟨c03_file_is_prefix h t, drained_exact (inv_reachable h)⟩

/-- the lower bound of `c04_crash_prefix`: a record is in the log as soon as `size` covers it -/
theorem c04_bump_is_logged {s' : State} {t : Tid} (hf : cfg.fixed = true)
    (hs : step cfg s (.pBump t) = some s') :
    ∃ r c, (s.prod t).pc = .wrote r ∧ (s.prod t).curr = some c ∧
      (s'.prod t).log = (s.prod t).log ++ [.kept r] ∧
      dataAt (s'.prod t).bufs c = dataAt (s.prod t).bufs c ++
        (match (s.prod t).bufs[c]? with | some _ => [.whole r] | none => []) := by
  simp only [step] at hs
  split at hs
  · rename_i r c hpc hc
    split at hs
    · simp at hs
    · simp only [hf, Bool.not_true, Bool.and_false, Bool.false_eq_true, if_false] at hs
      injection hs with hs; subst hs
      refine ⟨r, c, hpc, hc, by simp, ?_⟩
      simp only [setProd_prod_same]
      cases hb : (s.prod t).bufs[c]? with
      | none => simp [appendData, hb]
      | some b => rw [appendData_eq, dataAt_modData_eq _ hb]
  · simp at hs

/-- **Whole records.**  With the single size update a file never contains a torn record, whatever the
    instant of the kill. -/
theorem c04_crash_whole_records (hf : cfg.fixed = true) (h : Reachable cfg nw s) (t : Tid) :
    ∀ it ∈ s.file t, it.isTorn = false :=
  (nt_reachable hf h t).1

theorem c04_crash_prefix_exact (hf : cfg.fixed = true) (h : Reachable cfg nw s) (t : Tid) :
    s.file t <+: survivors (s.prod t).log ∧ (Drained s t → s.file t = survivors (s.prod t).log) := by
  have := c04_crash_prefix h t
  rw [clean_of_nt (c04_crash_whole_records hf h t)] at this
  exact this

/-- a payload record: header 16 bytes + 16 bytes of arguments -/
def rp : Rec := { id := 7, size := 32, payload := true }

/-- the code as it is (record_ret_stack advances `size` past the header, copies the payload, advances
    `size` again): a thread killed between the two stores leaves a header without payload, and the
    recorder's flush copies it into the file (finding F12) -/
def tornRun : List Action :=
  [.pPrepare 1, .pWrite 1 rp, .pBump 1, .kill 1, .rRead, .rFlush 1 0, .rStop, .rRemaining]

theorem c04_prefix_torn_record_witness :
    ∃ s, Reachable { maxsize := 48, fixed := false } 1 s ∧ Drained s 1 ∧ s.file 1 = [.torn rp] := by
  have hd : (run { maxsize := 48, fixed := false } (State.init 1) tornRun).map
      (fun s => (s.file 1, pipeToks 1 s.pipe, shmToks 1 s.shmemList, s.pool.queue 1)) =
      some ([.torn rp], [], [], []) := by decide
  cases hr : run { maxsize := 48, fixed := false } (State.init 1) tornRun with
  | none => simp [hr] at hd
  | some s =>
    simp only [hr, Option.map_some, Option.some.injEq, Prod.mk.injEq] at hd
    exact ⟨s, reachable_of_run Reachable.init hr, ⟨hd.2.1, hd.2.2.1, hd.2.2.2⟩, hd.1⟩

/-- with the repair the same schedule cannot even take the torn step: the file stays whole -/
example : (run { maxsize := 48, fixed := true } (State.init 1) tornRun).map (fun s => s.file 1) =
    some [.whole rp] := by decide

/-- **SIGSEGV / SIGABRT include the open calls.**  With the index clamped to the shadow stack the handler
    never leaves the array, and record_trace_data on the top frame hands the ENTRY of every open call that
    is neither skipped nor already written to the buffer (those records then reach the file by
    `c04_crash_prefix`: the handler's emission is ordinary `pWrite`/`pBump`… steps followed by `kill`). -/
theorem c04_segv_includes_open_calls (st : Mcount.St) (hc : WClosed st.frames) (hidx : st.idx > 0) :
    ∃ fs recs, segvFlush true st = .flushed fs recs ∧ AllW fs ∧
      ∀ f ∈ st.frames, f.skip = false → f.written = false → Mcount.entryRec f ∈ recs := by
  refine ⟨(Mcount.recordTrace st.frames).1, (Mcount.recordTrace st.frames).2, ?_, recordTrace_allW hc,
    recordTrace_recs hc⟩
  have : st.idx ≠ 0 := by omega
  simp [segvFlush, this]

/-- non-vacuity: two open calls, none written -/
example : WClosed [({ addr := 2, start := 5, depth := 1 } : Mcount.Frame), { addr := 1, start := 3, depth := 0 }] := by
  simp [WClosed, AllW]

/-- **SIGSEGV / SIGABRT, exactly — under any record-time filter.**  For every shadow stack that satisfies
    record_trace_data's premise, with frames the filters made NORECORD (a -N function, a call beyond -D, outside -F,
    below -Z, a location filter) or DISABLED (trace_off) ANYWHERE, the innermost frame included: the handler hands over
    exactly the ENTRY records of the recordable open calls that were not written yet (`pendingEntries`: outermost
    first), then the EXIT of the top frame if it was returning - no record of a filtered-out frame, none twice - and
    afterwards every recordable open call is written. -/
theorem c04_segv_exact (st : Mcount.St) (hc : WClosed st.frames) (hidx : st.idx > 0) :
    ∃ fs, segvFlush true st = .flushed fs (pendingEntries st.frames ++ exitPart st.frames) ∧ AllW fs ∧ WClosed fs := by
  refine ⟨(Mcount.recordTrace st.frames).1, ?_, recordTrace_allW hc, recordTrace_WClosed hc⟩
  have : st.idx ≠ 0 := by omega
  simp [segvFlush, this, recordTrace_exact hc]

/-- the statement of the property, in the three clauses a reader asks for: (1) every RECORDABLE open call is included,
    (2) every ENTRY record handed over belongs to a recordable open call that was still owed, (3) a filtered-out
    innermost frame makes no difference to its callers -/
theorem c04_segv_includes_recordable_open_calls (st : Mcount.St) (hc : WClosed st.frames) (hidx : st.idx > 0) :
    ∃ fs recs, segvFlush true st = .flushed fs recs ∧
      (∀ f ∈ st.frames, f.skip = false → f.written = false → Mcount.entryRec f ∈ recs) ∧
      (∀ r ∈ recs, r ∈ exitPart st.frames ∨
        ∃ f ∈ st.frames, f.skip = false ∧ f.written = false ∧ r = Mcount.entryRec f) ∧
      (∀ top rest, st.frames = top :: rest → top.skip = true → top.written = false →
        recs = pendingEntries rest ++ exitPart st.frames) := by
  obtain ⟨fs, he, _, _⟩ := c04_segv_exact st hc hidx
  refine ⟨fs, _, he, ?_, ?_, ?_⟩
  · intro f hf hs hw
    exact List.mem_append_left _ (mem_pendingEntries.mpr ⟨f, hf, hs, hw, rfl⟩)
  · intro r hr
    rcases List.mem_append.mp hr with h | h
    · exact Or.inr (mem_pendingEntries.mp h)
    · exact Or.inl h
  · intro top rest he2 hs hw
    rw [he2]
    simp [pendingEntries, hs]

/-- non-vacuity: the crash happens in a -N function (NORECORD) called from a call beyond the reach of a time filter that
    is itself below a disabled frame; the three recordable callers are handed over outermost first, the two filtered
    frames are not -/
example :
    segvFlush true { frames := [({ addr := 9, start := 50, depth := 3, norecord := true } : Mcount.Frame),
                                 { addr := 4, start := 40, depth := 2 },
                                 { addr := 3, start := 30, depth := 2, disabled := true },
                                 { addr := 2, start := 20, depth := 1 },
                                 { addr := 1, start := 10, depth := 0 }] } =
      .flushed [{ addr := 9, start := 50, depth := 3, norecord := true },
                { addr := 4, start := 40, depth := 2, written := true },
                { addr := 3, start := 30, depth := 2, disabled := true },
                { addr := 2, start := 20, depth := 1, written := true },
                { addr := 1, start := 10, depth := 0, written := true }]
               [{ time := 10, type := 0, depth := 0, addr := 1 }, { time := 20, type := 0, depth := 1, addr := 2 },
                { time := 40, type := 0, depth := 2, addr := 4 }] := by
  simp [segvFlush, Mcount.St.idx, Mcount.recordTrace, Mcount.flushBelow, Mcount.Frame.skip, Mcount.entryRec]

/-- **… after ANY call history under ANY option set.**  `WClosed` is not an assumption about the thread: every state
    the hook model reaches from the initial one - any sequence of entries and returns through either hook family, under
    any filter / trigger / depth / time / size / trace_on-off configuration (`cfg`), with flushes and forks in between -
    satisfies it.  So whenever the thread crashes with an open call, the handler hands over exactly the ENTRY records
    of its recordable open calls that were still owed, outermost first, whatever the filters did to the innermost
    frame. -/
theorem c04_segv_after_any_history (cfg : Mcount.Cfg) (ops : List HookOp) :
    let st := runHooks cfg (Mcount.St.init cfg) ops
    st.idx > 0 →
    ∃ fs, segvFlush true st = .flushed fs (pendingEntries st.frames ++ exitPart st.frames) ∧ AllW fs := by
  intro st hidx
  have hc : WClosed st.frames := runHooks_WClosed cfg ops _ (by simp [Mcount.St.init, WClosed])
  obtain ⟨fs, h1, h2, _⟩ := c04_segv_exact st hc hidx
  exact ⟨fs, h1, h2⟩

/-- non-vacuity: `-N f2` (trigger `filter = out` on function 2), the thread enters f0, f1, f2 through cygprof hooks and
    crashes in f2: its frame is NORECORD, the ENTRY records of f0 and f1 are handed over -/
example :
    let cfg : Mcount.Cfg := { trig := fun f => if f = 2 then { filter := some false } else {} }
    let st := runHooks cfg (Mcount.St.init cfg) [.enter .cyg 0 1000, .enter .cyg 1 1010, .enter .cyg 2 1020]
    (st.frames.map (·.norecord), pendingEntries st.frames) =
      ([true, false, false], [{ time := 1000, type := 0, depth := 0, addr := 0 }, { time := 1010, type := 0, depth := 1, addr := 1 }]) := by
  decide

/-- the finish trigger and the fork / exec / exit flush call record_trace_data for the frame of the triggering
    function / library call, which the filters may have made NORECORD as well: same statement -/
theorem c04_flush_filtered_top_keeps_callers {top : Mcount.Frame} {rest : List Mcount.Frame}
    (hc : WClosed (top :: rest)) (hs : top.skip = true) (hw : top.written = false) :
    (Mcount.recordTrace (top :: rest)).2 = pendingEntries rest ++ exitPart (top :: rest) ∧
      AllW (Mcount.recordTrace (top :: rest)).1 :=
  ⟨recordTrace_filtered_top hc hs hw, recordTrace_allW hc⟩

/-- the code as it is: with -finstrument-functions the call depth is counted beyond `--max-stack`
    (`cygprof_entry` "even if it already exceeds the rstack max"), and the crash handler — like every
    caller of mcount_rstack_restore — uses `rstack[idx - 1]`: outside the array (finding F11) -/
theorem c04_prefix_segv_wild_witness :
    segvFlush false { frames := List.replicate 8 ({ addr := 1, start := 1, depth := 0, cyg := true, written := true } : Mcount.Frame),
                      over := 12 } = .wild 19 := by
  simp [segvFlush, Mcount.St.idx]

/-- **flush_shmem_list covers the unended buffer.**  For a stopped thread with nothing left in the pipe,
    a REC_START the recorder still holds is the buffer the thread was filling; flushing it is enabled,
    queues its bytes exactly once — behind everything of that thread already queued — and leaves no
    REC_START of the thread behind. -/
theorem c04_flush_covers_unended (h : Reachable cfg nw s) {t : Tid} {i : Nat}
    (hstop : Crash.stopped s t = true) (hpipe : s.pipe.any (msgOf t) = false) (hm : (⟨t, i⟩ : WBuf) ∈ s.shmemList) :
    ∃ s', step cfg s (.rFlush t i) = some s' ∧ (s.prod t).opn = some i ∧ (s'.prod t).opn = none ∧
      shmToks t s'.shmemList = [] ∧ inFlight s' t = inFlight s t ++ dataAt (s.prod t).bufs i ∧
      s'.file t = s.file t := by
  have hi := inv_reachable h
  have hvt := hi.view t
  unfold VInv at hvt
  rw [pipeToks_nil_of_not_any hpipe] at hvt
  obtain ⟨hshm, ho, _⟩ := hvt.flush_opn (shmToks_allS t s.shmemList) (mem_shmToks hm)
  obtain ⟨b, hb, hr⟩ := hvt.d.valid i (by simp [ho])
  have hsh' : shmToks t (s.shmemList.erase ⟨t, i⟩) = [] := by
    rw [shmToks_erase_self, hshm]; simp
  have hg : (s.shmemList.contains ⟨t, i⟩ && (!(s.prod t).alive || (s.prod t).done || s.pipeClosed) &&
      !s.pipe.any (msgOf t)) = true := by
    simp only [Crash.stopped] at hstop
    simp [hm, hstop, hpipe]
  simp only [step, hg, if_true]
  refine ⟨_, rfl, ho, ?_, ?_, ?_, ?_⟩
  · unfold recordMmap
    simp only [setProd_prod_same, hb]
    split <;> simp [ho]
  · unfold recordMmap
    simp only [setProd_prod_same, hb]
    split <;> simpa using hsh'
  · unfold recordMmap
    simp only [setProd_prod_same, hb]
    split
    · have := qidx_enqueue (s := s) hi.pool ⟨t, i⟩ t
      simp only [if_true] at this
      simp [inFlight, qidx, this]
    · rename_i hne
      have hne : b.data = [] := by
        cases hd : b.data with
        | nil => rfl
        | cons a l => simp [hr, hd] at hne
      simp [inFlight, qidx, dataAt, hb, hne]
  · unfold recordMmap
    simp only [setProd_prod_same, hb]
    split <;> rfl

/-- no action of the shutdown sequence is enabled any more -/
structure ShutdownDone (cfg : Cfg) (s : State) : Prop where
  read : step cfg s .rRead = none
  write : ∀ w, step cfg s (.wWrite w) = none
  splice : ∀ w, step cfg s (.wSplice w) = none
  remaining : step cfg s .rRemaining = none
  flush : ∀ t i, step cfg s (.rFlush t i) = none

/-- **The recorder's shutdown terminates and completes.**  Environment hypotheses, explicit: every thread
    has stopped (`hstop`: all tasks are dead or finished — what POLLHUP on the FIFO and check_tid_list
    establish) and stop_all_writers has run (`hdone`).  Then (1) every schedule of shutdown steps — in
    whatever order the main thread and the writer threads take them — is at most `mu s` steps long, and
    (2) when none of them is enabled any more, nothing of any thread is under way and every file holds
    exactly the records whose size update completed: no step of the sequence (in particular
    flush_shmem_list) can have been skipped. -/
theorem c04_recorder_loop_exits (h : Reachable cfg nw s)
    (hstop : ∀ t, (s.prod t).started = true → Crash.stopped s t = true)
    (hdone : s.bufDone = true) :
    (∀ acts s', (∀ a ∈ acts, isShutdownAct a = true) → run cfg s acts = some s' → acts.length ≤ mu s) ∧
    (ShutdownDone cfg s → ∀ t, Drained s t ∧ clean (s.file t) = survivors (s.prod t).log) := by
  refine ⟨?_, ?_⟩
  · intro acts s' ha hr
    have := run_shutdown_bounded acts s s' ha hr
    omega
  · intro hd t
    have hq : Quiescent cfg s :=
      ⟨hd.read, hd.write, hd.splice, by simp only [hdone, if_true]; exact hd.remaining, hd.flush, hstop⟩
    have := quiescent_drained (inv_reachable h) hq t
    exact ⟨this, drained_exact (inv_reachable h) this⟩

/-- non-vacuity of `c04_recorder_loop_exits`: a thread killed in the middle of its second buffer; the
    shutdown sequence is enabled step by step, ends in `ShutdownDone`-shape, and the file is complete -/
def killRun : List Action :=
  [.pPrepare 1, .pWrite 1 r1, .pBump 1, .pWrite 1 r2, .pBump 1, .pWrite 1 r3, .pBump 1,
   .pEnd 1 r4, .pPick 1 true, .pStart 1, .pMark 1, .pBump 1, .pWrite 1 r1, .kill 1,
   .rRead, .rRead, .rRead, .rStop, .rFlush 1 1, .rRemaining, .rRemaining]

example : (run {} (State.init 1) killRun).map
    (fun s => (s.file 1, s.pipe.length, s.shmemList.length, s.pool.writeList.length, mu s)) =
    some ([.whole r1, .whole r2, .whole r3, .whole r4], 0, 0, 0, 0) := by decide

/-- **The prefix is replayable.**  Any property of record streams that is inherited by prefixes and
    holds of what the thread emitted holds of the file — whatever was killed whenever. -/
theorem c04_prefix_is_replayable (h : Reachable cfg nw s) (t : Tid) (P : List Item → Prop)
    (hP : ∀ a b, P (a ++ b) → P a) (hfull : P (survivors (s.prod t).log)) : P (clean (s.file t)) := by
  obtain ⟨rest, hr⟩ := c03_file_is_prefix h t
  rw [← hr] at hfull
  exact hP _ _ hfull

/-- the instance the readers need (fstack): ENTRY/EXIT nest — never more EXITs than ENTRYs — with records
    identified as in the harness (`id` even = ENTRY, odd = EXIT of the same call; a LOST marker restarts
    the count, A17) -/
def nestOk : Nat → List Item → Bool
  | _, [] => true
  | d, .whole r :: l => if r.id % 2 = 0 then nestOk (d + 1) l else (d > 0 && nestOk (d - 1) l)
  | _, .lost _ :: l => nestOk 0 l
  | d, .torn _ :: l => nestOk d l

theorem nestOk_prefix : ∀ (a b : List Item) (d : Nat), nestOk d (a ++ b) = true → nestOk d a = true
  | [], _, _, _ => rfl
  | .whole r :: a, b, d, h => by
    simp only [List.cons_append, nestOk] at h ⊢
    split at h
    · rename_i he; simp only [he, if_true]; exact nestOk_prefix a b _ h
    · rename_i he
      simp only [he, if_false, Bool.and_eq_true] at h ⊢
      exact ⟨h.1, nestOk_prefix a b _ h.2⟩
  | .lost n :: a, b, d, h => by
    simp only [List.cons_append, nestOk] at h ⊢; exact nestOk_prefix a b _ h
  | .torn r :: a, b, d, h => by
    simp only [List.cons_append, nestOk] at h ⊢; exact nestOk_prefix a b _ h

theorem c04_prefix_nests (h : Reachable cfg nw s) (t : Tid)
    (hfull : nestOk 0 (survivors (s.prod t).log) = true) : nestOk 0 (clean (s.file t)) = true :=
  c04_prefix_is_replayable h t (fun l => nestOk 0 l = true) (fun a b => nestOk_prefix a b 0) hfull

/-! ### exec: a tid that lives on in a new image -/

/-- the test of the TASK_START case as it stands in cmds/record.c (regenerated on every run) -/
abbrev codeKnown := Uft.Gen.TaskStart.isKnown

/-- the handler around that test has the shape the model `Crash.handle` gives it: a match flushes the
    announced tid's old buffer and leaves the loop, the task is added only when nothing matched, and
    flush_old_shmem takes the first entry of that tid only (facts regenerated from the source) -/
theorem c04_taskstart_shape :
    Uft.Gen.TaskStart.flushesAnnouncedTid = true ∧ Uft.Gen.TaskStart.breaksAfterFlush = true ∧
    Uft.Gen.TaskStart.addsWhenNoEntry = true ∧ Uft.Gen.TaskStart.flushOldFirstEntryOnly = true := by
  decide

/-- the code's test recognises a task by its tid alone — whatever pid its entry carries (entries made by
    FORK_START/FORK_END carry the PARENT's pid) -/
theorem c04_taskstart_matches_by_tid (pp pt mp mt : Int) : codeKnown pp pt mp mt = (pt == mt) := by
  simp [codeKnown, Uft.Gen.TaskStart.isKnown]

/-- **Order across exec.**  For every sequence of control messages that respects the producers' protocol
    (`valid`: a REC_END ends the one buffer the recorder holds for that tid; a new image starts its first buffer
    while at most the dead image's last one is still announced; a TASK_START comes from a task not seen before, or
    from a new image of a known task), the recorder hands the buffers of every tid to the writers in the order in
    which that tid started them: first all buffers of the image before the exec — including the one it was filling
    when it vanished — then those of the image after it.  With the writer pool's per-tid FIFO
    (`Writers.enqueue_queue`, `popHead_queue`) and C03's per-image conservation: `<tid>.dat` = records made
    before the exec ++ records made after it. -/
theorem c04_exec_flush_order (msgs : List CMsg) (hv : valid codeKnown {} msgs = true) (t : Int) :
    ofTid t (runRec codeKnown msgs).enq = startsOf t msgs := by
  have := fold_order c04_taskstart_matches_by_tid t msgs {} hv
  simpa [runRec, ofTid] using this

/-- fork (parent 100, child 101), the child fills buffer 0, switches to 1, and execs while filling 1; the new
    image starts buffer 10, announces itself, fills 10, 11 -/
def forkExecMsgs : List CMsg :=
  [.recStart 100 50, .taskStart 100 100, .forkStart 100, .recStart 101 0, .forkEnd 100 101,
   .recEnd 101 0, .recStart 101 1,
   .recStart 101 10, .taskStart 101 101, .recEnd 101 10, .recStart 101 11, .recEnd 101 11, .taskEnd 101]

/-- non-vacuity: that sequence is valid for the code's test, and the order is the order of starting -/
example : valid codeKnown {} forkExecMsgs = true := by decide
example : ofTid 101 (runRec codeKnown forkExecMsgs).enq = [(101, 0), (101, 1), (101, 10), (101, 11)] := by decide

/-- a test that also compares the pid misses the forked child (its entry carries pid 100): the buffer the old
    image was filling is queued only by flush_shmem_list at the very end, after the new image's buffers -/
theorem c04_prefix_exec_pid_match_witness :
    ofTid 101 (runRec (fun pp pt mp mt => pp == mp && pt == mt) forkExecMsgs).enq =
      [(101, 0), (101, 10), (101, 11), (101, 1)] := by decide

end Uft.C04
