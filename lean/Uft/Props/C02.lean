import Uft.Gen.Layout
import Uft.Model.Mcount
/-
C02 — The recorded trace is exactly each thread's call history.
Part 1: the record word. `Gen.Layout.packWord` is regenerated from
libmcount/record.c (writer) and the unpack functions from the compiled
bit-field layout of uftrace.h (reader) on every run.
-/
namespace Uft.C02
open Uft.Gen.Layout

/-- Writer and reader agree on every field, for every record the format can
    express (type 2 bits, depth 10 bits, address 48 bits). -/
theorem c02_unpack_pack (type depth addr : Nat) (more : Bool)
    (ht : type < 4) (hd : depth < 1024) (ha : addr < 2 ^ 48) :
    unpackType (packWord type more depth addr) = type ∧
    unpackMore (packWord type more depth addr) = (if more then 1 else 0) ∧
    unpackMagic (packWord type more depth addr) = RECORD_MAGIC ∧
    unpackDepth (packWord type more depth addr) = depth ∧
    unpackAddr (packWord type more depth addr) = addr := by
  have h4 : type = 0 ∨ type = 1 ∨ type = 2 ∨ type = 3 := by omega
  have hm : depth &&& 1023 = depth % 1024 := Nat.and_two_pow_sub_one_eq_mod depth 10
  rcases h4 with rfl | rfl | rfl | rfl <;> cases more <;>
    simp [packWord, unpackType, unpackMore, unpackMagic, unpackDepth, unpackAddr, field,
      RECORD_MAGIC, typeShift, typeWidth, moreShift, moreWidth, magicShift, magicWidth,
      depthShift, depthWidth, addrShift, addrWidth, Nat.shiftLeft_eq, Nat.shiftRight_eq_div_pow, hm] <;>
    omega

/-- Whatever the depth (also beyond the 10-bit field, reachable with
    --max-stack > 1024), the address, type and magic of a record are never
    corrupted; only the depth field wraps modulo 1024 (format limit, finding F5b).
    Before the repair of F5 the writer added `depth << 6` unmasked and the carry
    went into the address. -/
theorem c02_addr_never_corrupted (type depth addr : Nat) (more : Bool)
    (ht : type < 4) (ha : addr < 2 ^ 48) :
    unpackAddr (packWord type more depth addr) = addr ∧
    unpackType (packWord type more depth addr) = type ∧
    unpackMagic (packWord type more depth addr) = RECORD_MAGIC ∧
    unpackDepth (packWord type more depth addr) = depth % 1024 := by
  have h4 : type = 0 ∨ type = 1 ∨ type = 2 ∨ type = 3 := by omega
  have hm : depth &&& 1023 = depth % 1024 := Nat.and_two_pow_sub_one_eq_mod depth 10
  rcases h4 with rfl | rfl | rfl | rfl <;> cases more <;>
    simp [packWord, unpackType, unpackMagic, unpackDepth, unpackAddr, field,
      RECORD_MAGIC, typeShift, typeWidth, magicShift, magicWidth,
      depthShift, depthWidth, addrShift, addrWidth, Nat.shiftLeft_eq, Nat.shiftRight_eq_div_pow, hm] <;>
    omega

example : (2 : Nat) < 4 ∧ (1023 : Nat) < 1024 ∧ (0xffffffffffff : Nat) < 2 ^ 48 := by decide

end Uft.C02
