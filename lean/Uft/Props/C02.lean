import Uft.Gen.Layout
import Uft.Model.Mcount
import Uft.Lemmas.Mcount
import Uft.Lemmas.McountOverflow
import Uft.Lemmas.StreamShape
/-
C02 — The recorded trace is exactly each thread's call history.
Part 1: the record word. `Gen.Layout.packWord` is regenerated from
libmcount/record.c (writer) and the unpack functions from the compiled
bit-field layout of uftrace.h (reader) on every run.
-/
namespace Uft.C02
open Uft.Gen.Layout

/-- Writer and reader agree on every field, for every record the format can
    express (type 2 bits, depth 10 bits, address 48 bits). -/
theorem c02_unpack_pack (type depth addr : Nat) (more : Bool)
    (ht : type < 4) (hd : depth < 1024) (ha : addr < 2 ^ 48) :
    unpackType (packWord type more depth addr) = type ∧
    unpackMore (packWord type more depth addr) = (if more then 1 else 0) ∧
    unpackMagic (packWord type more depth addr) = RECORD_MAGIC ∧
    unpackDepth (packWord type more depth addr) = depth ∧
    unpackAddr (packWord type more depth addr) = addr := by
  have h4 : type = 0 ∨ type = 1 ∨ type = 2 ∨ type = 3 := by omega
  have hm : depth &&& 1023 = depth % 1024 := Nat.and_two_pow_sub_one_eq_mod depth 10
  rcases h4 with rfl | rfl | rfl | rfl <;> cases more <;>
    simp [packWord, unpackType, unpackMore, unpackMagic, unpackDepth, unpackAddr, field,
      RECORD_MAGIC, typeShift, typeWidth, moreShift, moreWidth, magicShift, magicWidth,
      depthShift, depthWidth, addrShift, addrWidth, Nat.shiftLeft_eq, Nat.shiftRight_eq_div_pow, hm] <;>
    omega

/-- Whatever the depth (also beyond the 10-bit field, reachable with
    --max-stack > 1024), the address, type and magic of a record are never
    corrupted; only the depth field wraps modulo 1024 (format limit, finding F5b).
    Before the repair of F5 the writer added `depth << 6` unmasked and the carry
    went into the address. -/
theorem c02_addr_never_corrupted (type depth addr : Nat) (more : Bool)
    (ht : type < 4) (ha : addr < 2 ^ 48) :
    unpackAddr (packWord type more depth addr) = addr ∧
    unpackType (packWord type more depth addr) = type ∧
    unpackMagic (packWord type more depth addr) = RECORD_MAGIC ∧
    unpackDepth (packWord type more depth addr) = depth % 1024 := by
  have h4 : type = 0 ∨ type = 1 ∨ type = 2 ∨ type = 3 := by omega
  have hm : depth &&& 1023 = depth % 1024 := Nat.and_two_pow_sub_one_eq_mod depth 10
  rcases h4 with rfl | rfl | rfl | rfl <;> cases more <;>
    simp [packWord, unpackType, unpackMagic, unpackDepth, unpackAddr, field,
      RECORD_MAGIC, typeShift, typeWidth, magicShift, magicWidth,
      depthShift, depthWidth, addrShift, addrWidth, Nat.shiftLeft_eq, Nat.shiftRight_eq_div_pow, hm] <;>
    omega

example : (2 : Nat) < 4 ∧ (1023 : Nat) < 1024 ∧ (0xffffffffffff : Nat) < 2 ^ 48 := by decide

/-!
Part 2: the hooks emit exactly the executed history.

`runCall` drives the model of the entry/exit hooks (`Uft/Model/Mcount.lean`,
validated against the real libmcount by the H1 correspondence run) over an
arbitrary call tree.  The hooks write lazily (an ENTRY is written only when a
descendant or the call itself is recorded); `pending` are the ENTRY records
still owed for the open frames.  The theorem says: what has been written plus
what is owed is exactly the eager trace — nothing missing, spurious,
duplicated or reordered; depth = number of open calls; time stamps are the
clock readings of the hooks — for every call tree of any size and depth up to
--max-stack, for both the -pg/fentry and the -finstrument-functions hooks.
-/
open Uft.Mcount

theorem pending_cons_unwritten (F : Frame) (fs : List Frame) (h : F.written = false) :
    pending (F :: fs) = pending fs ++ [entryRec F] := by
  simp [pending, h]

theorem markTo_cons_unwritten (F : Frame) (fs : List Frame) (h : F.written = false) :
    markTo (F :: fs) = markW F :: markTo fs := by
  simp [markTo, h]

mutual
theorem emit_call (cfg : Cfg) (hp : Plain cfg) (k : Kind) :
    ∀ (c : Call) (s : St) (d : Nat), Good s d → d + c.height ≤ cfg.maxStack →
      d + c.height ≤ cfg.depthOpt → c.okFor cfg →
      (runCall cfg k s c).out = s.out ++ pending s.frames ++ evCall d c ∧
      (runCall cfg k s c).frames = markTo s.frames ∧
      Good (runCall cfg k s c) d
  | .node f t0 t1 kids, s, d, hg, hm, hd, ht => by
    simp only [Call.height] at hm hd
    simp only [Call.okFor] at ht
    obtain ⟨e1, e2, e3, e4⟩ := entry_plain cfg hp k s d f t0 hg (by omega) (by omega)
    have hk := emit_calls cfg hp k kids (entry cfg k s f t0).1 (d + 1) e4 (by omega) (by omega) ht.2
    have hFw : (plainFrame k f t0 d).written = false := rfl
    simp only [runCall, e1, ↓reduceIte]
    cases kids with
    | nil =>
      simp only [runCalls]
      obtain ⟨x1, x2, x3⟩ := exit_plain' cfg hp k (entry cfg k s f t0).1 d f t0 t1 false s.frames
        (by rw [e3]; rfl) e4 ht.1.2 ht.1.1 (by simp)
      refine ⟨?_, x2, x3⟩
      rw [x1, e2]
      simp [evCall, evCalls, entryRec, plainFrame]
    | cons c rest =>
      obtain ⟨k1, k2, k3⟩ := hk
      simp only at k1 k2
      rw [e3, markTo_cons_unwritten _ _ hFw] at k2
      rw [e3, pending_cons_unwritten _ _ hFw, e2] at k1
      obtain ⟨x1, x2, x3⟩ := exit_plain' cfg hp k
        (runCalls cfg k (entry cfg k s f t0).1 (.cons c rest)) d f t0 t1 true (markTo s.frames)
        (by rw [k2]; rfl) k3 ht.1.2 ht.1.1 (fun _ => markTo_markTo _)
      refine ⟨?_, by rw [x2, markTo_markTo], x3⟩
      rw [x1, k1]
      simp [evCall, entryRec, plainFrame]
theorem emit_calls (cfg : Cfg) (hp : Plain cfg) (k : Kind) :
    ∀ (cs : Calls) (s : St) (d : Nat), Good s d → d + cs.height ≤ cfg.maxStack →
      d + cs.height ≤ cfg.depthOpt → cs.okFor cfg →
      (runCalls cfg k s cs).out =
        s.out ++ (match cs with | .nil => [] | .cons _ _ => pending s.frames) ++ evCalls d cs ∧
      (runCalls cfg k s cs).frames = (match cs with | .nil => s.frames | .cons _ _ => markTo s.frames) ∧
      Good (runCalls cfg k s cs) d
  | .nil, s, d, hg, _, _, _ => by simp [runCalls, evCalls, hg]
  | .cons c rest, s, d, hg, hm, hd, ht => by
    simp only [Calls.height] at hm hd
    simp only [Calls.okFor] at ht
    obtain ⟨c1, c2, c3⟩ := emit_call cfg hp k c s d hg (by omega) (by omega) ht.1
    obtain ⟨r1, r2, r3⟩ := emit_calls cfg hp k rest (runCall cfg k s c) d c3 (by omega) (by omega) ht.2
    simp only [runCalls]
    refine ⟨?_, ?_, r3⟩
    · rw [r1, c1]
      cases rest with
      | nil => simp [evCalls]
      | cons c' r' => simp [evCalls, c2, pending_markTo]
    · rw [r2]
      cases rest with
      | nil => simp [c2]
      | cons c' r' => simp [c2, markTo_markTo]
end

/-- C02 main statement on the hook model: starting from a fresh thread, after
    any forest of completed calls the written stream is exactly the eager trace
    of that forest (for every tree shape, recursion, any depth ≤ max-stack and
    ≤ the depth limit, both instrumentation flavours). -/
theorem c02_emit_exact (cfg : Cfg) (hp : Plain cfg) (k : Kind) (cs : Calls)
    (hm : cs.height ≤ cfg.maxStack) (hd : cs.height ≤ cfg.depthOpt) (ht : cs.timed)
    (hmin : cfg.minSize = 0) (hen : cfg.enabled0 = true) :
    (runCalls cfg k (St.init cfg) cs).out = evCalls 0 cs ∧
    (runCalls cfg k (St.init cfg) cs).frames = [] := by
  have hg : Good (St.init cfg) 0 := by
    constructor <;> simp [St.init, hmin, hen, NoSkip]
  obtain ⟨h1, h2, _⟩ := emit_calls cfg hp k cs (St.init cfg) 0 hg (by omega) (by omega) (okFors_of_timed cfg cs ht)
  constructor
  · rw [h1]; cases cs <;> simp [St.init, pending]
  · rw [h2]; cases cs <;> simp [St.init, markTo]

/-- … and for the repaired exit hooks (`s4fixed`, finding S4: the time test is `>=`) without any
    assumption on durations: also calls whose entry and exit read the same clock value (and even
    a clock that stepped back) are recorded — nothing missing.  The only clock assumption left
    is that an exit does not read 0, libmcount's marker of a still open call. -/
theorem c02_emit_exact_any_duration (cfg : Cfg) (hp : Plain cfg) (hf : cfg.s4fixed = true) (k : Kind) (cs : Calls)
    (hm : cs.height ≤ cfg.maxStack) (hd : cs.height ≤ cfg.depthOpt) (he : cs.ended)
    (hmin : cfg.minSize = 0) (hen : cfg.enabled0 = true) :
    (runCalls cfg k (St.init cfg) cs).out = evCalls 0 cs ∧
    (runCalls cfg k (St.init cfg) cs).frames = [] := by
  have hg : Good (St.init cfg) 0 := by
    constructor <;> simp [St.init, hmin, hen, NoSkip]
  obtain ⟨h1, h2, _⟩ := emit_calls cfg hp k cs (St.init cfg) 0 hg (by omega) (by omega) (okFors_of_ended cfg hf cs he)
  constructor
  · rw [h1]; cases cs <;> simp [St.init, pending]
  · rw [h2]; cases cs <;> simp [St.init, markTo]

/-- before the repair a call of zero measured duration was silently dropped (pre-fix witness) -/
theorem c02_prefix_zero_duration_witness :
    (runCalls { s4fixed := false } .pg (St.init { s4fixed := false }) (.cons (.node 1 10 10 .nil) .nil)).out = [] ∧
    (runCalls {} .pg (St.init {}) (.cons (.node 1 10 10 .nil) .nil)).out =
      [⟨10, 0, 0, 1⟩, ⟨10, 1, 0, 1⟩] := by
  constructor <;> decide

/-- The same for a prefix of an execution (calls still open): written ++ owed
    = eager trace, at every call boundary inside any tree. This is
    `emit_call`/`emit_calls` with an arbitrary `Good` start state; stated here
    for one more call entered after a completed forest. -/
theorem c02_emit_prefix (cfg : Cfg) (hp : Plain cfg) (k : Kind) (cs : Calls) (f t0 : Nat)
    (hm : cs.height ≤ cfg.maxStack) (hd : cs.height ≤ cfg.depthOpt) (ht : cs.timed)
    (hmin : cfg.minSize = 0) (hen : cfg.enabled0 = true)
    (hm1 : 0 < cfg.maxStack) (hd1 : 0 < cfg.depthOpt) :
    let s := (entry cfg k (runCalls cfg k (St.init cfg) cs) f t0).1
    s.out ++ pending s.frames = evCalls 0 cs ++ [{ time := t0, type := 0, depth := 0, addr := f }] := by
  have hg : Good (St.init cfg) 0 := by
    constructor <;> simp [St.init, hmin, hen, NoSkip]
  obtain ⟨h1, h2, h3⟩ := emit_calls cfg hp k cs (St.init cfg) 0 hg (by omega) (by omega) (okFors_of_timed cfg cs ht)
  obtain ⟨e1, e2, e3, e4⟩ := entry_plain cfg hp k _ 0 f t0 h3 hm1 hd1
  have hfr : (runCalls cfg k (St.init cfg) cs).frames = [] := by
    rw [h2]; cases cs <;> simp [St.init, markTo]
  have hout : (runCalls cfg k (St.init cfg) cs).out = evCalls 0 cs := by
    rw [h1]; cases cs <;> simp [St.init, pending]
  simp only [e2, e3, hfr, hout]
  simp [pending, plainFrame, entryRec]

/-- Calls deeper than --max-stack are dropped, never corrupted, for both hook
    flavours (-pg / -mfentry / patched entries, where the overflowing call is not
    hijacked at all, and -finstrument-functions, where the hooks keep counting
    beyond the array): for every forest of any depth, the written stream is
    exactly the eager trace of the forest cut at `maxStack` open calls
    (`evCallsB`): every call at depth < maxStack appears with its true depth,
    address and time stamps, in order, and nothing else does — including all
    calls made after the overflow. -/
theorem c02_overflow_drop (cfg : Cfg) (hp : Plain cfg) (k : Kind) (hdo : cfg.maxStack ≤ cfg.depthOpt) (cs : Calls)
    (ht : cs.timed) (hmin : cfg.minSize = 0) (hen : cfg.enabled0 = true) :
    (runCalls cfg k (St.init cfg) cs).out = evCallsB 0 cfg.maxStack cs := by
  have hg : GoodW (St.init cfg) 0 := by
    refine ⟨?_, trivial, fun _ => rfl, fun f hf => by simp [St.init] at hf⟩
    constructor <;> simp [St.init, hmin, hen, NoSkip]
  obtain ⟨h1, h2, _⟩ := over_calls cfg hp k hdo cs (St.init cfg) 0 hg (Nat.zero_le _) (okFors_of_timed cfg cs ht)
  have hfr : (runCalls cfg k (St.init cfg) cs).frames = [] := by
    simpa [St.init] using h2
  simp only [eager, hfr, pending, List.append_nil] at h1
  rw [h1]; simp [St.init, pending]

/-- the same for the repaired exit hooks without any assumption on durations -/
theorem c02_overflow_drop_any_duration (cfg : Cfg) (hp : Plain cfg) (hf : cfg.s4fixed = true) (k : Kind)
    (hdo : cfg.maxStack ≤ cfg.depthOpt) (cs : Calls)
    (he : cs.ended) (hmin : cfg.minSize = 0) (hen : cfg.enabled0 = true) :
    (runCalls cfg k (St.init cfg) cs).out = evCallsB 0 cfg.maxStack cs := by
  have hg : GoodW (St.init cfg) 0 := by
    refine ⟨?_, trivial, fun _ => rfl, fun f hf => by simp [St.init] at hf⟩
    constructor <;> simp [St.init, hmin, hen, NoSkip]
  obtain ⟨h1, h2, _⟩ := over_calls cfg hp k hdo cs (St.init cfg) 0 hg (Nat.zero_le _) (okFors_of_ended cfg hf cs he)
  have hfr : (runCalls cfg k (St.init cfg) cs).frames = [] := by
    simpa [St.init] using h2
  simp only [eager, hfr, pending, List.append_nil] at h1
  rw [h1]; simp [St.init, pending]

/-- the -finstrument-functions hooks leave their counter balanced after an overflow:
    the state after the forest has no frame and no pending overflow count -/
theorem c02_overflow_cyg_balanced (cfg : Cfg) (hp : Plain cfg) (hdo : cfg.maxStack ≤ cfg.depthOpt) (cs : Calls)
    (ht : cs.timed) (hmin : cfg.minSize = 0) (hen : cfg.enabled0 = true) :
    (runCalls cfg .cyg (St.init cfg) cs).frames = [] ∧ (runCalls cfg .cyg (St.init cfg) cs).over = 0 := by
  have hg : GoodW (St.init cfg) 0 := by
    refine ⟨?_, trivial, fun _ => rfl, fun f hf => by simp [St.init] at hf⟩
    constructor <;> simp [St.init, hmin, hen, NoSkip]
  obtain ⟨_, h2, h3⟩ := over_calls cfg hp .cyg hdo cs (St.init cfg) 0 hg (Nat.zero_le _) (okFors_of_timed cfg cs ht)
  exact ⟨by simpa [St.init] using h2, h3.good.over⟩

/-- non-vacuity of `c02_overflow_drop`: recursion three deep with --max-stack 2 keeps
    exactly the two outer levels -/
example : evCallsB 0 2 (Calls.cons (.node 1 10 50 (.cons (.node 1 20 40 (.cons (.node 2 25 30 .nil) .nil)) .nil)) .nil)
    = [⟨10, 0, 0, 1⟩, ⟨20, 0, 1, 1⟩, ⟨40, 1, 1, 1⟩, ⟨50, 1, 0, 1⟩] := by
  decide

/-- A forked child continues the parent's open calls: its own stream starts
    empty, contains no ENTRY for an inherited frame, and the return of an
    inherited call writes exactly one EXIT record carrying the parent's depth
    and address (for any parent state between hooks, any depth). -/
theorem c02_fork_child_continues (cfg : Cfg) (hp : Plain cfg) (s : St) (d t : Nat) (F : Frame)
    (rest : List Frame) (hg : Good s (d + 1)) (hfr : s.frames = F :: rest) (ht : t ≠ 0) :
    (forkChild s).out = [] ∧
    (exit cfg (forkChild s) t).out = [{ time := t, type := 1, depth := F.depth, addr := F.addr }] ∧
    (exit cfg (forkChild s) t).frames = rest.map fun f => { f with written := true } := by
  obtain ⟨h1, h2, h3, h4, h5, h6, h7, h8, h9, h10, h11⟩ := hg
  have hF := h11 F (by simp [hfr])
  have ht' : (t == 0) = false := by simpa using ht
  refine ⟨rfl, ?_, ?_⟩ <;>
    simp [exit, forkChild, h1, hfr, hF.1, exitFilterRecord, hp.fast, h4, recordTrace, ht, ht', exitRec]

/-- non-vacuity: a recursive tree of depth 3 meets the hypotheses -/
example : (Calls.cons (.node 1 10 50 (.cons (.node 1 20 40 (.cons (.node 2 25 30 .nil) .nil)) .nil)) .nil).timed ∧
    (Calls.cons (.node 1 10 50 (.cons (.node 1 20 40 (.cons (.node 2 25 30 .nil) .nil)) .nil)) .nil).height ≤ 1024 := by
  simp [Calls.timed, Call.timed, Calls.height, Call.height]

example : Plain ({} : Cfg) := by constructor <;> simp

/-!
Part 3: the structural clauses of C02, stated outright on what the hooks write
(corollaries of `c02_emit_exact` / `c02_overflow_drop` and the shape lemmas of
`Uft/Lemmas/StreamShape.lean`).  `WellNested` is an independent stack-machine
checker: every ENTRY carries depth = number of open recorded calls, every EXIT
closes the innermost open call with the same address and depth, nothing stays
open.
-/

/-- Entries and exits nest properly with matching addresses and each record's
    depth equals the number of open recorded calls — for every forest, recursion,
    both hook flavours. -/
theorem c02_stream_well_nested (cfg : Cfg) (hp : Plain cfg) (k : Kind) (cs : Calls)
    (hm : cs.height ≤ cfg.maxStack) (hd : cs.height ≤ cfg.depthOpt) (ht : cs.timed)
    (hmin : cfg.minSize = 0) (hen : cfg.enabled0 = true) :
    WellNested (runCalls cfg k (St.init cfg) cs).out := by
  rw [(c02_emit_exact cfg hp k cs hm hd ht hmin hen).1]
  exact evCalls_wellNested cs

/-- Time stamps never decrease in the written stream, provided the clock readings
    the hooks take along the execution never decrease (`Calls.clocked`, what
    CLOCK_MONOTONIC gives), and every record's time stamp *is* the hook's clock
    reading (`c02_emit_exact`), which the program's own readings just before the
    call and just after the return bracket. -/
theorem c02_stream_time_monotone (cfg : Cfg) (hp : Plain cfg) (k : Kind) (cs : Calls) (lo : Nat)
    (hm : cs.height ≤ cfg.maxStack) (hd : cs.height ≤ cfg.depthOpt) (ht : cs.timed)
    (hc : cs.clocked lo) (hmin : cfg.minSize = 0) (hen : cfg.enabled0 = true) :
    (runCalls cfg k (St.init cfg) cs).out.Pairwise (fun a b => a.time ≤ b.time) := by
  rw [(c02_emit_exact cfg hp k cs hm hd ht hmin hen).1]
  exact evCalls_time_pairwise cs lo hc

/-- A prefix of an execution (one call open after a completed forest): what is
    written plus the ENTRY still owed is accepted by the checker with exactly that
    call open. -/
theorem c02_prefix_nested (cfg : Cfg) (hp : Plain cfg) (k : Kind) (cs : Calls) (f t0 : Nat)
    (hm : cs.height ≤ cfg.maxStack) (hd : cs.height ≤ cfg.depthOpt) (ht : cs.timed)
    (hmin : cfg.minSize = 0) (hen : cfg.enabled0 = true)
    (hm1 : 0 < cfg.maxStack) (hd1 : 0 < cfg.depthOpt) :
    let s := (entry cfg k (runCalls cfg k (St.init cfg) cs) f t0).1
    NestedPrefix (s.out ++ pending s.frames) [f] := by
  intro s
  have h := c02_emit_prefix cfg hp k cs f t0 hm hd ht hmin hen hm1 hd1
  simp only at h
  show nestRun (some []) (s.out ++ pending s.frames) = some [f]
  rw [h, nestRun_append]
  have := evCalls_wellNested cs
  unfold WellNested at this
  rw [this]
  simp [nestRun, nestStep]

/-- also beyond --max-stack (deeper calls dropped): the written stream is still
    well nested with true depths -/
theorem c02_overflow_stream_well_nested (cfg : Cfg) (hp : Plain cfg) (k : Kind) (hdo : cfg.maxStack ≤ cfg.depthOpt)
    (cs : Calls) (ht : cs.timed) (hmin : cfg.minSize = 0) (hen : cfg.enabled0 = true) :
    WellNested (runCalls cfg k (St.init cfg) cs).out := by
  rw [c02_overflow_drop cfg hp k hdo cs ht hmin hen]
  exact nest_evCallsB cs [] cfg.maxStack

/-- non-vacuity: a clocked, timed recursive forest -/
example : (Calls.cons (.node 1 10 50 (.cons (.node 1 20 40 (.cons (.node 2 25 30 .nil) .nil)) .nil)) .nil).clocked 5 := by
  simp [Calls.clocked, Call.clocked, Calls.lastT, Call.t1]

/-- the checker rejects a stream with a wrong depth, a wrong address or a missing exit -/
example : ¬ WellNested [⟨1, 0, 0, 7⟩, ⟨2, 0, 2, 8⟩, ⟨3, 1, 2, 8⟩, ⟨4, 1, 0, 7⟩] := by decide
example : ¬ WellNested [⟨1, 0, 0, 7⟩, ⟨4, 1, 0, 9⟩] := by decide
example : ¬ WellNested [⟨1, 0, 0, 7⟩] := by decide

end Uft.C02
