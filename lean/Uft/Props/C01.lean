import Uft.Gen.Stubs
import Uft.Gen.HookShape
import Uft.Lemmas.Asm
/- C01 — Tracing never changes what the traced program computes: the stubs. -/
namespace Uft.C01
open Uft.Asm Uft.Asm.Reg Uft.Gen.Stubs

/-- instructions before the first call / after it -/
def pre : List Instr → List Instr
  | [] => []
  | .call _ :: _ => []
  | i :: r => i :: pre r
def post : List Instr → List Instr
  | [] => []
  | .call _ :: r => r
  | _ :: r => post r

/-- What an entry stub must guarantee to the instrumented function: every
    general register it could observe is unchanged (arguments rdi…r9, rax = the
    variadic vector count, r10 = static chain, r11, all callee-saved), the
    stack pointer is popped by one slot and control returns to the instruction
    after the `call mcount`. -/
def EntryOK (env : Env) (s : List Instr) (m : M) : Prop :=
  (∀ r, r ≠ .rsp → (exec env s m).gpr r = m.gpr r) ∧
  (exec env s m).gpr .rsp = m.gpr .rsp + 8 ∧
  (exec env s m).rip = m.mem (m.gpr .rsp)

/- symbolic execution of an entry stub with the frame layout
    `sub $48; spill rdi,rsi,rdx,rcx,r8,r9; …; and -16; push old-rsp,rax,r10,r11; call; pop…; reload; add $48; ret` -/
set_option hygiene false in
macro "entry_stub_proof" s:ident c:str : tactic => `(tactic| (
  have hs : $s = pre $s ++ (.call $c :: post $s) := by rfl
  have hal := align16_bounds (m.gpr .rsp - 48)
  unfold EntryOK
  rw [hs, exec_append, exec_cons]
  simp only [step]
  -- the machine just before the call
  have p_rsp : (exec env (pre $s) m).gpr .rsp = align16 (m.gpr .rsp - 48) - 32 := by
    simp (disch := omega) [pre, $s:ident, exec_cons, step, mem_setM_eq, mem_setM_ne]
    try omega
  have p_cs : ∀ r, r = .rbx ∨ r = .rbp ∨ r = .r12 ∨ r = .r13 ∨ r = .r14 ∨ r = .r15 →
      (exec env (pre $s) m).gpr r = m.gpr r := by
    intro r hr
    rcases hr with rfl | rfl | rfl | rfl | rfl | rfl <;>
      simp (disch := omega) [pre, $s:ident, exec_cons, step, mem_setM_eq, mem_setM_ne]
  have p_mem : ∀ k, k = 0 ∨ k = 8 ∨ k = 16 ∨ k = 24 ∨ k = 32 ∨ k = 40 →
      (exec env (pre $s) m).mem (m.gpr .rsp - 48 + k) =
        (if k = 0 then m.gpr .r9 else if k = 8 then m.gpr .r8 else if k = 16 then m.gpr .rcx
         else if k = 24 then m.gpr .rdx else if k = 32 then m.gpr .rsi else m.gpr .rdi) := by
    intro k hk
    rcases hk with rfl | rfl | rfl | rfl | rfl | rfl <;>
      simp (disch := omega) [pre, $s:ident, exec_cons, step, mem_setM_eq, mem_setM_ne]
  have p_ret : (exec env (pre $s) m).mem (m.gpr .rsp) = m.mem (m.gpr .rsp) := by
    simp (disch := omega) [pre, $s:ident, exec_cons, step, mem_setM_eq, mem_setM_ne]
  have p_push : ∀ k, k = 0 ∨ k = 8 ∨ k = 16 ∨ k = 24 →
      (exec env (pre $s) m).mem (align16 (m.gpr .rsp - 48) - 32 + k) =
        (if k = 0 then m.gpr .r11 else if k = 8 then m.gpr .r10 else if k = 16 then m.gpr .rax
         else m.gpr .rsp - 48) := by
    intro k hk
    rcases hk with rfl | rfl | rfl | rfl <;>
      simp (disch := omega) [pre, $s:ident, exec_cons, step, mem_setM_eq, mem_setM_ne]
  generalize exec env (pre $s) m = P at *
  -- the callee
  have q_rsp := h.rsp P
  have q_mem := h.mem P
  have q_rbx := h.rbx P
  have q_rbp := h.rbp P
  have q_r12 := h.r12 P
  have q_r13 := h.r13 P
  have q_r14 := h.r14 P
  have q_r15 := h.r15 P
  generalize env.callee $c P = Q at *
  have q0 : ∀ a, a = align16 (m.gpr .rsp - 48) - 32 → Q.mem a = m.gpr .r11 := by
    intro a ha; rw [q_mem a (by omega) (by omega), ha]; simpa using p_push 0 (by simp)
  have q8 : ∀ a, a = align16 (m.gpr .rsp - 48) - 32 + 8 → Q.mem a = m.gpr .r10 := by
    intro a ha; rw [q_mem a (by omega) (by omega), ha]; simpa using p_push 8 (by simp)
  have q16 : ∀ a, a = align16 (m.gpr .rsp - 48) - 32 + 16 → Q.mem a = m.gpr .rax := by
    intro a ha; rw [q_mem a (by omega) (by omega), ha]; simpa using p_push 16 (by simp)
  have q24 : ∀ a, a = align16 (m.gpr .rsp - 48) - 32 + 24 → Q.mem a = m.gpr .rsp - 48 := by
    intro a ha; rw [q_mem a (by omega) (by omega), ha]; simpa using p_push 24 (by simp)
  have s0 : ∀ a, a = m.gpr .rsp - 48 → Q.mem a = m.gpr .r9 := by
    intro a ha; rw [q_mem a (by omega) (by omega), ha]; simpa using p_mem 0 (by simp)
  have s8 : ∀ a, a = m.gpr .rsp - 48 + 8 → Q.mem a = m.gpr .r8 := by
    intro a ha; rw [q_mem a (by omega) (by omega), ha]; simpa using p_mem 8 (by simp)
  have s16 : ∀ a, a = m.gpr .rsp - 48 + 16 → Q.mem a = m.gpr .rcx := by
    intro a ha; rw [q_mem a (by omega) (by omega), ha]; simpa using p_mem 16 (by simp)
  have s24 : ∀ a, a = m.gpr .rsp - 48 + 24 → Q.mem a = m.gpr .rdx := by
    intro a ha; rw [q_mem a (by omega) (by omega), ha]; simpa using p_mem 24 (by simp)
  have s32 : ∀ a, a = m.gpr .rsp - 48 + 32 → Q.mem a = m.gpr .rsi := by
    intro a ha; rw [q_mem a (by omega) (by omega), ha]; simpa using p_mem 32 (by simp)
  have s40 : ∀ a, a = m.gpr .rsp - 48 + 40 → Q.mem a = m.gpr .rdi := by
    intro a ha; rw [q_mem a (by omega) (by omega), ha]; simpa using p_mem 40 (by simp)
  have sret : ∀ a, a = m.gpr .rsp → Q.mem a = m.mem (m.gpr .rsp) := by
    intro a ha; rw [q_mem a (by omega) (by omega), ha]; exact p_ret
  have c_rbx := p_cs .rbx (by simp)
  have c_rbp := p_cs .rbp (by simp)
  have c_r12 := p_cs .r12 (by simp)
  have c_r13 := p_cs .r13 (by simp)
  have c_r14 := p_cs .r14 (by simp)
  have c_r15 := p_cs .r15 (by simp)
  refine ⟨?_, ?_, ?_⟩
  · intro r hr
    cases r <;>
      simp (disch := omega) [post, $s:ident, exec_cons, step, q_rsp, p_rsp, q0, q8, q16, q24, s0, s8, s16, s24, s32,
        s40, sret, q_rbx, q_rbp, q_r12, q_r13, q_r14, q_r15, c_rbx, c_rbp, c_r12, c_r13, c_r14, c_r15] at hr ⊢
  · simp (disch := omega) [post, $s:ident, exec_cons, step, q_rsp, p_rsp, q0, q8, q16, q24, s0, s8, s16, s24, s32,
      s40, sret]
    try omega
  · simp (disch := omega) [post, $s:ident, exec_cons, step, q_rsp, p_rsp, q0, q8, q16, q24, s0, s8, s16, s24, s32,
      s40, sret]
))

theorem c01_mcount_stub (env : Env) (m : M) (hsp : m.gpr .rsp ≥ 4096)
    (h : ABI (env.callee "mcount_entry") (m.gpr .rsp + 8)) : EntryOK env mcount m := by
  entry_stub_proof mcount "mcount_entry"

theorem c01_fentry_stub (env : Env) (m : M) (hsp : m.gpr .rsp ≥ 4096)
    (h : ABI (env.callee "mcount_entry") (m.gpr .rsp + 8)) : EntryOK env fentry m := by
  entry_stub_proof fentry "mcount_entry"

/-- What an exit stub must guarantee to the caller of the traced function:
    the registers in `regs` and both return vector registers are exactly what
    the traced function left there, the stack pointer is where a plain `ret`
    would have left it, and control continues at the address the C exit hook
    returned (the original return address, see `Shadow`). -/
def ExitOK (env : Env) (s : List Instr) (sym : String) (regs : List Reg) (m : M) : Prop :=
  (∀ r ∈ regs, (exec env s m).gpr r = m.gpr r) ∧
  ((exec env s m).xlo 0 = m.xlo 0 ∧ (exec env s m).xhi 0 = m.xhi 0 ∧
   (exec env s m).xlo 1 = m.xlo 1 ∧ (exec env s m).xhi 1 = m.xhi 1) ∧
  (exec env s m).gpr .rsp = m.gpr .rsp ∧
  (exec env s m).rip = (env.callee sym (exec env (pre s) m)).gpr .rax

/-- after an external (PLT) call the caller may only rely on the return
    registers, on callee-saved registers, and uftrace also keeps rdi -/
def pltRegs : List Reg := [.rax, .rbx, .rdx, .rdi, .rbp, .r12, .r13, .r14, .r15]

def allButRsp : List Reg :=
  [.rax, .rbx, .rcx, .rdx, .rsi, .rdi, .rbp, .r8, .r9, .r10, .r11, .r12, .r13, .r14, .r15]

/- symbolic execution of an exit stub with a frame of `F` bytes:
   `sub $F; spill…; mov rsp,rdi; and -16; sub $16; store rdi; call; load rsp; store rax → return slot; reload…; add; ret` -/
set_option hygiene false in
macro "exit_stub_proof" s:ident c:str F:num : tactic => `(tactic| (
  have hs : $s = pre $s ++ (.call $c :: post $s) := by rfl
  have hal := align16_bounds (m.gpr .rsp - $F)
  have hex : exec env $s m = exec env (post $s) (env.callee $c (exec env (pre $s) m)) := by
    conv => lhs; rw [hs]
    rw [exec_append, exec_cons]; rfl
  unfold ExitOK
  rw [hex]
  have p_rsp : (exec env (pre $s) m).gpr .rsp = align16 (m.gpr .rsp - $F) - 16 := by
    simp (disch := omega) [pre, $s:ident, exec_cons, step, mem_setM_eq, mem_setM_ne]
  have p_top : (exec env (pre $s) m).mem (align16 (m.gpr .rsp - $F) - 16) = m.gpr .rsp - $F := by
    simp (disch := omega) [pre, $s:ident, exec_cons, step, mem_setM_eq, mem_setM_ne]
  have p_cs : (exec env (pre $s) m).gpr .rbx = m.gpr .rbx ∧ (exec env (pre $s) m).gpr .rbp = m.gpr .rbp ∧
      (exec env (pre $s) m).gpr .r12 = m.gpr .r12 ∧ (exec env (pre $s) m).gpr .r13 = m.gpr .r13 ∧
      (exec env (pre $s) m).gpr .r14 = m.gpr .r14 ∧ (exec env (pre $s) m).gpr .r15 = m.gpr .r15 := by
    simp (disch := omega) [pre, $s:ident, exec_cons, step, mem_setM_eq, mem_setM_ne]
  have q_rsp := h.rsp (exec env (pre $s) m)
  have q_mem := h.mem (exec env (pre $s) m)
  have q_rbx := (h.rbx (exec env (pre $s) m)).trans p_cs.1
  have q_rbp := (h.rbp (exec env (pre $s) m)).trans p_cs.2.1
  have q_r12 := (h.r12 (exec env (pre $s) m)).trans p_cs.2.2.1
  have q_r13 := (h.r13 (exec env (pre $s) m)).trans p_cs.2.2.2.1
  have q_r14 := (h.r14 (exec env (pre $s) m)).trans p_cs.2.2.2.2.1
  have q_r15 := (h.r15 (exec env (pre $s) m)).trans p_cs.2.2.2.2.2
  rw [p_rsp] at q_rsp q_mem
  generalize env.callee $c (exec env (pre $s) m) = Q at *
  have q_mem' : ∀ a, align16 (m.gpr .rsp - $F) - 16 ≤ a → a < m.gpr .rsp →
      Q.mem a = (exec env (pre $s) m).mem a := q_mem
  have q_top : ∀ a, a = align16 (m.gpr .rsp - $F) - 16 → Q.mem a = m.gpr .rsp - $F := by
    intro a ha; rw [q_mem' a (by omega) (by omega), ha]; exact p_top
  try (have e0 : Q.mem (m.gpr .rsp - $F + 0) = (exec env (pre $s) m).mem (m.gpr .rsp - $F + 0) := q_mem' _ (by omega) (by omega)
       simp (disch := omega) [pre, $s:ident, exec_cons, step, mem_setM_eq, mem_setM_ne] at e0)
  try (have e8 : Q.mem (m.gpr .rsp - $F + 8) = (exec env (pre $s) m).mem (m.gpr .rsp - $F + 8) := q_mem' _ (by omega) (by omega)
       simp (disch := omega) [pre, $s:ident, exec_cons, step, mem_setM_eq, mem_setM_ne] at e8)
  try (have e16 : Q.mem (m.gpr .rsp - $F + 16) = (exec env (pre $s) m).mem (m.gpr .rsp - $F + 16) := q_mem' _ (by omega) (by omega)
       simp (disch := omega) [pre, $s:ident, exec_cons, step, mem_setM_eq, mem_setM_ne] at e16)
  try (have e24 : Q.mem (m.gpr .rsp - $F + 24) = (exec env (pre $s) m).mem (m.gpr .rsp - $F + 24) := q_mem' _ (by omega) (by omega)
       simp (disch := omega) [pre, $s:ident, exec_cons, step, mem_setM_eq, mem_setM_ne] at e24)
  try (have e32 : Q.mem (m.gpr .rsp - $F + 32) = (exec env (pre $s) m).mem (m.gpr .rsp - $F + 32) := q_mem' _ (by omega) (by omega)
       simp (disch := omega) [pre, $s:ident, exec_cons, step, mem_setM_eq, mem_setM_ne] at e32)
  try (have e40 : Q.mem (m.gpr .rsp - $F + 40) = (exec env (pre $s) m).mem (m.gpr .rsp - $F + 40) := q_mem' _ (by omega) (by omega)
       simp (disch := omega) [pre, $s:ident, exec_cons, step, mem_setM_eq, mem_setM_ne] at e40)
  try (have e48 : Q.mem (m.gpr .rsp - $F + 48) = (exec env (pre $s) m).mem (m.gpr .rsp - $F + 48) := q_mem' _ (by omega) (by omega)
       simp (disch := omega) [pre, $s:ident, exec_cons, step, mem_setM_eq, mem_setM_ne] at e48)
  try (have e56 : Q.mem (m.gpr .rsp - $F + 56) = (exec env (pre $s) m).mem (m.gpr .rsp - $F + 56) := q_mem' _ (by omega) (by omega)
       simp (disch := omega) [pre, $s:ident, exec_cons, step, mem_setM_eq, mem_setM_ne] at e56)
  try (have e64 : Q.mem (m.gpr .rsp - $F + 64) = (exec env (pre $s) m).mem (m.gpr .rsp - $F + 64) := q_mem' _ (by omega) (by omega)
       simp (disch := omega) [pre, $s:ident, exec_cons, step, mem_setM_eq, mem_setM_ne] at e64)
  try (have e72 : Q.mem (m.gpr .rsp - $F + 72) = (exec env (pre $s) m).mem (m.gpr .rsp - $F + 72) := q_mem' _ (by omega) (by omega)
       simp (disch := omega) [pre, $s:ident, exec_cons, step, mem_setM_eq, mem_setM_ne] at e72)
  try (have e80 : Q.mem (m.gpr .rsp - $F + 80) = (exec env (pre $s) m).mem (m.gpr .rsp - $F + 80) := q_mem' _ (by omega) (by omega)
       simp (disch := omega) [pre, $s:ident, exec_cons, step, mem_setM_eq, mem_setM_ne] at e80)
  try (have e88 : Q.mem (m.gpr .rsp - $F + 88) = (exec env (pre $s) m).mem (m.gpr .rsp - $F + 88) := q_mem' _ (by omega) (by omega)
       simp (disch := omega) [pre, $s:ident, exec_cons, step, mem_setM_eq, mem_setM_ne] at e88)
  try (have e96 : Q.mem (m.gpr .rsp - $F + 96) = (exec env (pre $s) m).mem (m.gpr .rsp - $F + 96) := q_mem' _ (by omega) (by omega)
       simp (disch := omega) [pre, $s:ident, exec_cons, step, mem_setM_eq, mem_setM_ne] at e96)
  try (have e104 : Q.mem (m.gpr .rsp - $F + 104) = (exec env (pre $s) m).mem (m.gpr .rsp - $F + 104) := q_mem' _ (by omega) (by omega)
       simp (disch := omega) [pre, $s:ident, exec_cons, step, mem_setM_eq, mem_setM_ne] at e104)
  clear q_mem q_mem' p_top p_cs hs
  refine ⟨?_, ⟨?_, ?_, ?_, ?_⟩, ?_, ?_⟩
  · intro r hr
    cases r <;> first
      | (exfalso; revert hr; decide)
      | simp (disch := omega) [post, $s:ident, exec_cons, step, q_rsp, q_top, mem_setM_eq, mem_setM_ne,
          q_rbx, q_rbp, q_r12, q_r13, q_r14, q_r15, *]
  all_goals
    simp (disch := omega) [post, $s:ident, exec_cons, step, q_rsp, q_top, mem_setM_eq, mem_setM_ne, *]
  all_goals try omega))

/- The symbolic execution of a 30-instruction stub for 15 registers needs more
   than the default heartbeat budget; the limit stays finite. -/
set_option maxHeartbeats 1000000 in
theorem c01_mcount_return_stub (env : Env) (m : M) (hsp : m.gpr .rsp ≥ 4096)
    (h : ABI (env.callee "mcount_exit") (m.gpr .rsp)) :
    ExitOK env mcount_return "mcount_exit" allButRsp m := by
  exit_stub_proof mcount_return "mcount_exit" 112


set_option maxHeartbeats 1000000 in
theorem c01_dynamic_return_stub (env : Env) (m : M) (hsp : m.gpr .rsp ≥ 4096)
    (h : ABI (env.callee "mcount_exit") (m.gpr .rsp)) :
    ExitOK env dynamic_return "mcount_exit" allButRsp m := by
  exit_stub_proof dynamic_return "mcount_exit" 112

set_option maxHeartbeats 1000000 in
theorem c01_plthook_return_stub (env : Env) (m : M) (hsp : m.gpr .rsp ≥ 4096)
    (h : ABI (env.callee "plthook_exit") (m.gpr .rsp)) :
    ExitOK env plthook_return "plthook_exit" pltRegs m := by
  exit_stub_proof plthook_return "plthook_exit" 72

/-- What the PLT hook stub guarantees to the library function (or to the
    dynamic linker's resolver) it forwards to: argument registers, rax and the
    callee-saved registers are unchanged; if the C hook returned 0 control goes
    to the resolver with the two PLT words still on the stack, otherwise to the
    address the hook returned with those two words popped. -/
def PltOK (env : Env) (m : M) : Prop :=
  let Q := env.callee "plthook_entry" (exec env (pre plt_hooker) m)
  (∀ r ∈ [Reg.rdi, .rsi, .rdx, .rcx, .r8, .r9, .rax, .rbx, .rbp, .r12, .r13, .r14, .r15],
      (exec env plt_hooker m).gpr r = m.gpr r) ∧
  (Q.gpr .rax = 0 → (exec env plt_hooker m).rip = env.resolver ∧ (exec env plt_hooker m).gpr .rsp = m.gpr .rsp) ∧
  (Q.gpr .rax ≠ 0 → (exec env plt_hooker m).rip = Q.gpr .rax ∧ (exec env plt_hooker m).gpr .rsp = m.gpr .rsp + 16)

set_option maxHeartbeats 1000000 in
theorem c01_plt_hooker_stub (env : Env) (m : M) (hsp : m.gpr .rsp ≥ 4096)
    (h : ABI (env.callee "plthook_entry") (m.gpr .rsp)) : PltOK env m := by
  have hs : plt_hooker = pre plt_hooker ++ (.call "plthook_entry" :: post plt_hooker) := by rfl
  have hal := align16_bounds (m.gpr .rsp - 48)
  have hex : exec env plt_hooker m = exec env (post plt_hooker) (env.callee "plthook_entry" (exec env (pre plt_hooker) m)) := by
    conv => lhs; rw [hs]
    rw [exec_append, exec_cons]; rfl
  unfold PltOK
  rw [hex]
  have p_rsp : (exec env (pre plt_hooker) m).gpr .rsp = align16 (m.gpr .rsp - 48) - 16 := by
    simp (disch := omega) [pre, plt_hooker, exec_cons, step, mem_setM_eq, mem_setM_ne]
    try omega
  have p_top : (exec env (pre plt_hooker) m).mem (align16 (m.gpr .rsp - 48) - 16) = m.gpr .rax ∧
      (exec env (pre plt_hooker) m).mem (align16 (m.gpr .rsp - 48) - 16 + 8) = m.gpr .rsp - 48 := by
    constructor <;> simp (disch := omega) [pre, plt_hooker, exec_cons, step, mem_setM_eq, mem_setM_ne]
  have p_cs : (exec env (pre plt_hooker) m).gpr .rbx = m.gpr .rbx ∧ (exec env (pre plt_hooker) m).gpr .rbp = m.gpr .rbp ∧
      (exec env (pre plt_hooker) m).gpr .r12 = m.gpr .r12 ∧ (exec env (pre plt_hooker) m).gpr .r13 = m.gpr .r13 ∧
      (exec env (pre plt_hooker) m).gpr .r14 = m.gpr .r14 ∧ (exec env (pre plt_hooker) m).gpr .r15 = m.gpr .r15 := by
    simp (disch := omega) [pre, plt_hooker, exec_cons, step, mem_setM_eq, mem_setM_ne]
  have q_rsp := h.rsp (exec env (pre plt_hooker) m)
  have q_mem := h.mem (exec env (pre plt_hooker) m)
  have q_rbx := (h.rbx (exec env (pre plt_hooker) m)).trans p_cs.1
  have q_rbp := (h.rbp (exec env (pre plt_hooker) m)).trans p_cs.2.1
  have q_r12 := (h.r12 (exec env (pre plt_hooker) m)).trans p_cs.2.2.1
  have q_r13 := (h.r13 (exec env (pre plt_hooker) m)).trans p_cs.2.2.2.1
  have q_r14 := (h.r14 (exec env (pre plt_hooker) m)).trans p_cs.2.2.2.2.1
  have q_r15 := (h.r15 (exec env (pre plt_hooker) m)).trans p_cs.2.2.2.2.2
  rw [p_rsp] at q_rsp q_mem
  generalize env.callee "plthook_entry" (exec env (pre plt_hooker) m) = Q at *
  have q_top0 : ∀ a, a = align16 (m.gpr .rsp - 48) - 16 → Q.mem a = m.gpr .rax := by
    intro a ha; rw [q_mem a (by omega) (by omega), ha]; exact p_top.1
  have q_top8 : ∀ a, a = align16 (m.gpr .rsp - 48) - 16 + 8 → Q.mem a = m.gpr .rsp - 48 := by
    intro a ha; rw [q_mem a (by omega) (by omega), ha]; exact p_top.2
  have e0 : Q.mem (m.gpr .rsp - 48 + 0) = (exec env (pre plt_hooker) m).mem (m.gpr .rsp - 48 + 0) := q_mem _ (by omega) (by omega)
  simp (disch := omega) [pre, plt_hooker, exec_cons, step, mem_setM_eq, mem_setM_ne] at e0
  have e8 : Q.mem (m.gpr .rsp - 48 + 8) = (exec env (pre plt_hooker) m).mem (m.gpr .rsp - 48 + 8) := q_mem _ (by omega) (by omega)
  simp (disch := omega) [pre, plt_hooker, exec_cons, step, mem_setM_eq, mem_setM_ne] at e8
  have e16 : Q.mem (m.gpr .rsp - 48 + 16) = (exec env (pre plt_hooker) m).mem (m.gpr .rsp - 48 + 16) := q_mem _ (by omega) (by omega)
  simp (disch := omega) [pre, plt_hooker, exec_cons, step, mem_setM_eq, mem_setM_ne] at e16
  have e24 : Q.mem (m.gpr .rsp - 48 + 24) = (exec env (pre plt_hooker) m).mem (m.gpr .rsp - 48 + 24) := q_mem _ (by omega) (by omega)
  simp (disch := omega) [pre, plt_hooker, exec_cons, step, mem_setM_eq, mem_setM_ne] at e24
  have e32 : Q.mem (m.gpr .rsp - 48 + 32) = (exec env (pre plt_hooker) m).mem (m.gpr .rsp - 48 + 32) := q_mem _ (by omega) (by omega)
  simp (disch := omega) [pre, plt_hooker, exec_cons, step, mem_setM_eq, mem_setM_ne] at e32
  have e40 : Q.mem (m.gpr .rsp - 48 + 40) = (exec env (pre plt_hooker) m).mem (m.gpr .rsp - 48 + 40) := q_mem _ (by omega) (by omega)
  simp (disch := omega) [pre, plt_hooker, exec_cons, step, mem_setM_eq, mem_setM_ne] at e40
  clear q_mem p_top p_cs hs hex
  refine ⟨?_, ?_, ?_⟩
  · intro r hr
    cases r <;> first
      | (exfalso; revert hr; decide)
      | (simp (disch := omega) [post, plt_hooker, exec_cons, step, q_rsp, q_top0, q_top8, mem_setM_eq, mem_setM_ne,
          q_rbx, q_rbp, q_r12, q_r13, q_r14, q_r15, *]
         try (split <;> simp (disch := omega) [q_rbx, q_rbp, q_r12, q_r13, q_r14, q_r15, *]))
  · intro h0
    simp (disch := omega) [post, plt_hooker, exec_cons, step, q_rsp, q_top0, q_top8, mem_setM_eq, mem_setM_ne, h0, *]
    try omega
  · intro h0
    simp (disch := omega) [post, plt_hooker, exec_cons, step, q_rsp, q_top0, q_top8, mem_setM_eq, mem_setM_ne, h0, *]
    try omega

/-- `__dentry__` (entry of dynamically patched functions): like the other
    entry stubs, but control continues at the address `mcount_find_code`
    returns (the saved copy of the patched instructions). -/
def DentryOK (env : Env) (m : M) (dest : Nat) : Prop :=
  (∀ r, r ≠ .rsp → (exec env dentry m).gpr r = m.gpr r) ∧
  (exec env dentry m).gpr .rsp = m.gpr .rsp + 8 ∧
  (exec env dentry m).rip = dest

/-- instructions between the two calls of `__dentry__` -/
def mid : List Instr := pre (post dentry)

set_option maxHeartbeats 2000000 in
theorem c01_dentry_stub (env : Env) (m : M) (hsp : m.gpr .rsp ≥ 4096)
    (h1 : ABI (env.callee "mcount_entry") (m.gpr .rsp + 8))
    (h2 : ABI (env.callee "mcount_find_code") (m.gpr .rsp + 8)) :
    DentryOK env m
      ((env.callee "mcount_find_code" (exec env mid (env.callee "mcount_entry" (exec env (pre dentry) m)))).gpr .rax) := by
  have hs : dentry = pre dentry ++ (.call "mcount_entry" :: (mid ++ (.call "mcount_find_code" :: post (post dentry)))) := by rfl
  have hal := align16_bounds (m.gpr .rsp - 48)
  have hex : exec env dentry m = exec env (post (post dentry)) (env.callee "mcount_find_code"
      (exec env mid (env.callee "mcount_entry" (exec env (pre dentry) m)))) := by
    conv => lhs; rw [hs]
    rw [exec_append, exec_cons, exec_append, exec_cons]; rfl
  unfold DentryOK
  rw [hex]
  have p1_rsp : (exec env (pre dentry) m).gpr .rsp = align16 (m.gpr .rsp - 48) - 32 := by
    simp (disch := omega) [pre, dentry, exec_cons, step, mem_setM_eq, mem_setM_ne]
    try omega
  have p1_cs : (exec env (pre dentry) m).gpr .rbx = m.gpr .rbx ∧ (exec env (pre dentry) m).gpr .rbp = m.gpr .rbp ∧
      (exec env (pre dentry) m).gpr .r12 = m.gpr .r12 ∧ (exec env (pre dentry) m).gpr .r13 = m.gpr .r13 ∧
      (exec env (pre dentry) m).gpr .r14 = m.gpr .r14 ∧ (exec env (pre dentry) m).gpr .r15 = m.gpr .r15 := by
    simp (disch := omega) [pre, dentry, exec_cons, step, mem_setM_eq, mem_setM_ne]
  have p1_R0 : (exec env (pre dentry) m).mem (align16 (m.gpr .rsp - 48) - 32 + 0) = m.gpr .r11 := by
    simp (disch := omega) [pre, dentry, exec_cons, step, mem_setM_eq, mem_setM_ne]
  have p1_R8 : (exec env (pre dentry) m).mem (align16 (m.gpr .rsp - 48) - 32 + 8) = m.gpr .r10 := by
    simp (disch := omega) [pre, dentry, exec_cons, step, mem_setM_eq, mem_setM_ne]
  have p1_R16 : (exec env (pre dentry) m).mem (align16 (m.gpr .rsp - 48) - 32 + 16) = m.gpr .rax := by
    simp (disch := omega) [pre, dentry, exec_cons, step, mem_setM_eq, mem_setM_ne]
  have p1_R24 : (exec env (pre dentry) m).mem (align16 (m.gpr .rsp - 48) - 32 + 24) = m.gpr .rsp - 48 := by
    simp (disch := omega) [pre, dentry, exec_cons, step, mem_setM_eq, mem_setM_ne]
  have p1_B0 : (exec env (pre dentry) m).mem (m.gpr .rsp - 48 + 0) = m.gpr .r9 := by
    simp (disch := omega) [pre, dentry, exec_cons, step, mem_setM_eq, mem_setM_ne]
  have p1_B8 : (exec env (pre dentry) m).mem (m.gpr .rsp - 48 + 8) = m.gpr .r8 := by
    simp (disch := omega) [pre, dentry, exec_cons, step, mem_setM_eq, mem_setM_ne]
  have p1_B16 : (exec env (pre dentry) m).mem (m.gpr .rsp - 48 + 16) = m.gpr .rcx := by
    simp (disch := omega) [pre, dentry, exec_cons, step, mem_setM_eq, mem_setM_ne]
  have p1_B24 : (exec env (pre dentry) m).mem (m.gpr .rsp - 48 + 24) = m.gpr .rdx := by
    simp (disch := omega) [pre, dentry, exec_cons, step, mem_setM_eq, mem_setM_ne]
  have p1_B32 : (exec env (pre dentry) m).mem (m.gpr .rsp - 48 + 32) = m.gpr .rsi := by
    simp (disch := omega) [pre, dentry, exec_cons, step, mem_setM_eq, mem_setM_ne]
  have p1_B40 : (exec env (pre dentry) m).mem (m.gpr .rsp - 48 + 40) = m.gpr .rdi := by
    simp (disch := omega) [pre, dentry, exec_cons, step, mem_setM_eq, mem_setM_ne]
  have p1_B48 : (exec env (pre dentry) m).mem (m.gpr .rsp - 48 + 48) = m.mem (m.gpr .rsp) := by
    simp (disch := omega) [pre, dentry, exec_cons, step, mem_setM_eq, mem_setM_ne]
  have q1_rsp := (h1.rsp (exec env (pre dentry) m)).trans p1_rsp
  have q1_mem := h1.mem (exec env (pre dentry) m)
  have q1_rbx := (h1.rbx (exec env (pre dentry) m)).trans p1_cs.1
  have q1_rbp := (h1.rbp (exec env (pre dentry) m)).trans p1_cs.2.1
  have q1_r12 := (h1.r12 (exec env (pre dentry) m)).trans p1_cs.2.2.1
  have q1_r13 := (h1.r13 (exec env (pre dentry) m)).trans p1_cs.2.2.2.1
  have q1_r14 := (h1.r14 (exec env (pre dentry) m)).trans p1_cs.2.2.2.2.1
  have q1_r15 := (h1.r15 (exec env (pre dentry) m)).trans p1_cs.2.2.2.2.2
  rw [p1_rsp] at q1_mem
  generalize env.callee "mcount_entry" (exec env (pre dentry) m) = Q1 at *
  have q1_R0 : ∀ a, a = align16 (m.gpr .rsp - 48) - 32 + 0 → Q1.mem a = m.gpr .r11 := by
    intro a ha; rw [q1_mem a (by omega) (by omega), ha]; exact p1_R0
  have q1_R8 : ∀ a, a = align16 (m.gpr .rsp - 48) - 32 + 8 → Q1.mem a = m.gpr .r10 := by
    intro a ha; rw [q1_mem a (by omega) (by omega), ha]; exact p1_R8
  have q1_R16 : ∀ a, a = align16 (m.gpr .rsp - 48) - 32 + 16 → Q1.mem a = m.gpr .rax := by
    intro a ha; rw [q1_mem a (by omega) (by omega), ha]; exact p1_R16
  have q1_R24 : ∀ a, a = align16 (m.gpr .rsp - 48) - 32 + 24 → Q1.mem a = m.gpr .rsp - 48 := by
    intro a ha; rw [q1_mem a (by omega) (by omega), ha]; exact p1_R24
  have q1_B0 : ∀ a, a = m.gpr .rsp - 48 + 0 → Q1.mem a = m.gpr .r9 := by
    intro a ha; rw [q1_mem a (by omega) (by omega), ha]; exact p1_B0
  have q1_B8 : ∀ a, a = m.gpr .rsp - 48 + 8 → Q1.mem a = m.gpr .r8 := by
    intro a ha; rw [q1_mem a (by omega) (by omega), ha]; exact p1_B8
  have q1_B16 : ∀ a, a = m.gpr .rsp - 48 + 16 → Q1.mem a = m.gpr .rcx := by
    intro a ha; rw [q1_mem a (by omega) (by omega), ha]; exact p1_B16
  have q1_B24 : ∀ a, a = m.gpr .rsp - 48 + 24 → Q1.mem a = m.gpr .rdx := by
    intro a ha; rw [q1_mem a (by omega) (by omega), ha]; exact p1_B24
  have q1_B32 : ∀ a, a = m.gpr .rsp - 48 + 32 → Q1.mem a = m.gpr .rsi := by
    intro a ha; rw [q1_mem a (by omega) (by omega), ha]; exact p1_B32
  have q1_B40 : ∀ a, a = m.gpr .rsp - 48 + 40 → Q1.mem a = m.gpr .rdi := by
    intro a ha; rw [q1_mem a (by omega) (by omega), ha]; exact p1_B40
  have q1_B48 : ∀ a, a = m.gpr .rsp - 48 + 48 → Q1.mem a = m.mem (m.gpr .rsp) := by
    intro a ha; rw [q1_mem a (by omega) (by omega), ha]; exact p1_B48
  clear q1_mem
  -- between the calls: rdx := saved rsp, rdi := return address; nothing is stored
  have hP2 : exec env mid Q1 = setR (setR Q1 .rdx (m.gpr .rsp - 48)) .rdi (m.mem (m.gpr .rsp)) := by
    simp (disch := omega) [mid, post, pre, dentry, exec_cons, step, q1_rsp, q1_R0, q1_R8, q1_R16, q1_R24, q1_B0, q1_B8, q1_B16, q1_B24, q1_B32, q1_B40, q1_B48]
  have q2_rsp := h2.rsp (exec env mid Q1)
  have q2_mem := h2.mem (exec env mid Q1)
  have q2_rbx := h2.rbx (exec env mid Q1)
  have q2_rbp := h2.rbp (exec env mid Q1)
  have q2_r12 := h2.r12 (exec env mid Q1)
  have q2_r13 := h2.r13 (exec env mid Q1)
  have q2_r14 := h2.r14 (exec env mid Q1)
  have q2_r15 := h2.r15 (exec env mid Q1)
  have p2_rsp : (exec env mid Q1).gpr .rsp = align16 (m.gpr .rsp - 48) - 32 := by
    rw [hP2]; simp [q1_rsp]
  rw [p2_rsp] at q2_rsp q2_mem
  have p2_cs : (exec env mid Q1).gpr .rbx = m.gpr .rbx ∧ (exec env mid Q1).gpr .rbp = m.gpr .rbp ∧
      (exec env mid Q1).gpr .r12 = m.gpr .r12 ∧ (exec env mid Q1).gpr .r13 = m.gpr .r13 ∧
      (exec env mid Q1).gpr .r14 = m.gpr .r14 ∧ (exec env mid Q1).gpr .r15 = m.gpr .r15 := by
    rw [hP2]; simp [q1_rbx, q1_rbp, q1_r12, q1_r13, q1_r14, q1_r15]
  have p2_memeq : ∀ a, (exec env mid Q1).mem a = Q1.mem a := by
    intro a; rw [hP2]; simp
  rw [p2_cs.1] at q2_rbx; rw [p2_cs.2.1] at q2_rbp; rw [p2_cs.2.2.1] at q2_r12
  rw [p2_cs.2.2.2.1] at q2_r13; rw [p2_cs.2.2.2.2.1] at q2_r14; rw [p2_cs.2.2.2.2.2] at q2_r15
  generalize env.callee "mcount_find_code" (exec env mid Q1) = Q2 at *
  have q2_R0 : ∀ a, a = align16 (m.gpr .rsp - 48) - 32 + 0 → Q2.mem a = m.gpr .r11 := by
    intro a ha; rw [q2_mem a (by omega) (by omega), p2_memeq]; exact q1_R0 a ha
  have q2_R8 : ∀ a, a = align16 (m.gpr .rsp - 48) - 32 + 8 → Q2.mem a = m.gpr .r10 := by
    intro a ha; rw [q2_mem a (by omega) (by omega), p2_memeq]; exact q1_R8 a ha
  have q2_R16 : ∀ a, a = align16 (m.gpr .rsp - 48) - 32 + 16 → Q2.mem a = m.gpr .rax := by
    intro a ha; rw [q2_mem a (by omega) (by omega), p2_memeq]; exact q1_R16 a ha
  have q2_R24 : ∀ a, a = align16 (m.gpr .rsp - 48) - 32 + 24 → Q2.mem a = m.gpr .rsp - 48 := by
    intro a ha; rw [q2_mem a (by omega) (by omega), p2_memeq]; exact q1_R24 a ha
  have q2_B0 : ∀ a, a = m.gpr .rsp - 48 + 0 → Q2.mem a = m.gpr .r9 := by
    intro a ha; rw [q2_mem a (by omega) (by omega), p2_memeq]; exact q1_B0 a ha
  have q2_B8 : ∀ a, a = m.gpr .rsp - 48 + 8 → Q2.mem a = m.gpr .r8 := by
    intro a ha; rw [q2_mem a (by omega) (by omega), p2_memeq]; exact q1_B8 a ha
  have q2_B16 : ∀ a, a = m.gpr .rsp - 48 + 16 → Q2.mem a = m.gpr .rcx := by
    intro a ha; rw [q2_mem a (by omega) (by omega), p2_memeq]; exact q1_B16 a ha
  have q2_B24 : ∀ a, a = m.gpr .rsp - 48 + 24 → Q2.mem a = m.gpr .rdx := by
    intro a ha; rw [q2_mem a (by omega) (by omega), p2_memeq]; exact q1_B24 a ha
  have q2_B32 : ∀ a, a = m.gpr .rsp - 48 + 32 → Q2.mem a = m.gpr .rsi := by
    intro a ha; rw [q2_mem a (by omega) (by omega), p2_memeq]; exact q1_B32 a ha
  have q2_B40 : ∀ a, a = m.gpr .rsp - 48 + 40 → Q2.mem a = m.gpr .rdi := by
    intro a ha; rw [q2_mem a (by omega) (by omega), p2_memeq]; exact q1_B40 a ha
  have q2_B48 : ∀ a, a = m.gpr .rsp - 48 + 48 → Q2.mem a = m.mem (m.gpr .rsp) := by
    intro a ha; rw [q2_mem a (by omega) (by omega), p2_memeq]; exact q1_B48 a ha
  clear q2_mem p2_memeq hP2 hs hex
  refine ⟨?_, ?_, ?_⟩
  · intro r hr
    cases r <;>
      simp (disch := omega) [post, dentry, exec_cons, step, q2_rsp, mem_setM_eq, mem_setM_ne,
        q2_rbx, q2_rbp, q2_r12, q2_r13, q2_r14, q2_r15, q2_R0, q2_R8, q2_R16, q2_R24, q2_B0, q2_B8, q2_B16, q2_B24, q2_B32, q2_B40, q2_B48] at hr ⊢
  · simp (disch := omega) [post, dentry, exec_cons, step, q2_rsp, mem_setM_eq, mem_setM_ne, q2_R0, q2_R8, q2_R16, q2_R24, q2_B0, q2_B8, q2_B16, q2_B24, q2_B32, q2_B40, q2_B48]
    try omega
  · simp (disch := omega) [post, dentry, exec_cons, step, q2_rsp, mem_setM_eq, mem_setM_ne, q2_R0, q2_R8, q2_R16, q2_R24, q2_B0, q2_B8, q2_B16, q2_B24, q2_B32, q2_B40, q2_B48]

/-! ### Finding F3 (fixed): the exit stubs used to save xmm0 only -/

/-- `mcount_return` as it was before the repair (96-byte frame, no xmm1 slot) -/
def mcount_return_prefix : List Instr := [
  .subi 96 .rsp, .store .r11 80 .rsp, .store .r10 72 .rsp, .store .r9 64 .rsp, .store .r8 56 .rsp,
  .store .rdi 48 .rsp, .store .rsi 40 .rsp, .store .rcx 32 .rsp, .storex 0 16 .rsp, .store .rdx 8 .rsp,
  .store .rax 0 .rsp, .mov .rsp .rdi, .and16 .rsp, .subi 16 .rsp, .store .rdi 0 .rsp,
  .call "mcount_exit",
  .load 0 .rsp .rsp, .store .rax 88 .rsp, .load 0 .rsp .rax, .load 8 .rsp .rdx, .loadx 16 .rsp 0,
  .load 32 .rsp .rcx, .load 40 .rsp .rsi, .load 48 .rsp .rdi, .load 56 .rsp .r8, .load 64 .rsp .r9,
  .load 72 .rsp .r10, .load 80 .rsp .r11, .addi 88 .rsp, .ret ]

/-- an ABI-conforming exit hook that uses a vector register (as libc's string
    functions do on a buffer switch) -/
def vecClobber : Env := { callee := fun _ m => setX m 1 0 0, resolver := 0 }

theorem vecClobber_abi (hi : Nat) : ABI (vecClobber.callee "mcount_exit") hi := by
  constructor <;> intros <;> rfl

def m0 : M := { gpr := fun _ => 8192, xlo := fun _ => 7, xhi := fun _ => 9, mem := fun _ => 0, rip := 0 }

/-- F3 witness: with the old stub the second FP return register is lost … -/
theorem c01_prefix_xmm1_witness :
    (exec vecClobber mcount_return_prefix m0).xlo 1 ≠ m0.xlo 1 ∧
    (exec vecClobber mcount_return_prefix m0).xlo 0 = m0.xlo 0 := by
  decide

/-- … and with the current stub (regenerated from the source) it is kept, for the same callee. -/
example : (exec vecClobber mcount_return m0).xlo 1 = m0.xlo 1 := by decide

/-- Entry stubs never touch vector registers themselves: if the C entry hook
    does not (libmcount's own code is built with -mgeneral-regs-only; its libc
    calls on slow paths are the part that is not provable, see DESIGN C01), the
    floating-point arguments xmm0–7 reach the traced function unchanged. -/
theorem c01_entry_vec_partial (env : Env) (m : M) (i : Nat)
    (hv : NoVec (env.callee "mcount_entry")) :
    ((exec env mcount m).xlo i = m.xlo i ∧ (exec env mcount m).xhi i = m.xhi i) ∧
    ((exec env fentry m).xlo i = m.xlo i ∧ (exec env fentry m).xhi i = m.xhi i) := by
  have h1 : mcount = pre mcount ++ (.call "mcount_entry" :: post mcount) := by rfl
  have h2 : fentry = pre fentry ++ (.call "mcount_entry" :: post fentry) := by rfl
  constructor
  · rw [h1, exec_append, exec_cons]
    simp only [step]
    have := hv (exec env (pre mcount) m) i
    generalize env.callee "mcount_entry" (exec env (pre mcount) m) = Q at *
    have hp : (exec env (pre mcount) m).xlo i = m.xlo i ∧ (exec env (pre mcount) m).xhi i = m.xhi i := by
      simp [pre, mcount, exec_cons, step]
    have e1 : (exec env (post mcount) Q).xlo i = Q.xlo i ∧ (exec env (post mcount) Q).xhi i = Q.xhi i := by
      simp [post, mcount, exec_cons, step]
    exact ⟨e1.1.trans (this.1.trans hp.1), e1.2.trans (this.2.trans hp.2)⟩
  · rw [h2, exec_append, exec_cons]
    simp only [step]
    have := hv (exec env (pre fentry) m) i
    generalize env.callee "mcount_entry" (exec env (pre fentry) m) = Q at *
    have hp : (exec env (pre fentry) m).xlo i = m.xlo i ∧ (exec env (pre fentry) m).xhi i = m.xhi i := by
      simp [pre, fentry, exec_cons, step]
    have e1 : (exec env (post fentry) Q).xlo i = Q.xlo i ∧ (exec env (post fentry) Q).xhi i = Q.xhi i := by
      simp [post, fentry, exec_cons, step]
    exact ⟨e1.1.trans (this.1.trans hp.1), e1.2.trans (this.2.trans hp.2)⟩

/-- every exported C hook saves `errno` before doing anything else and restores
    it before every return (shape facts regenerated from the sources) -/
theorem c01_hooks_preserve_errno :
    ∀ h ∈ Uft.Gen.HookShape.hooks, h.found = true ∧ h.savesErrnoFirst = true ∧ h.restoresBeforeReturn = true := by
  decide

/-! ### ABI side conditions of the stubs themselves

The machine model addresses memory by 8-byte words.  That is exact only if every
memory operand of a stub is a multiple of 8 away from the (8-aligned) stack pointer:
`c01_stub_offsets_word_aligned` checks it on the regenerated instruction lists (a
`movdqu %xmm1, 84(%rsp)` that would partially overwrite a neighbouring slot is
rejected here, not silently accepted).  And the SysV ABI wants the stack pointer
16-byte aligned at every `call`: `c01_stub_calls_aligned`. -/

def Instr.offsetsOk : Instr → Bool
  | .subi n _ | .addi n _ => n % 8 == 0
  | .store _ off _ | .load off _ _ | .lea off _ _ => off % 8 == 0
  | .storex _ off _ | .loadx off _ _ => off % 8 == 0
  | _ => true

def allStubs : List (List Instr) :=
  [mcount, fentry, dentry, mcount_return, dynamic_return, plthook_return, plt_hooker]

theorem c01_stub_offsets_word_aligned : ∀ s ∈ allStubs, s.all Instr.offsetsOk = true := by
  decide

theorem align16_mod (x : Nat) : align16 x % 16 = 0 := by unfold align16; omega

/-- At the `call` of every stub the stack pointer is 16-byte aligned, whatever its value at the
    stub's entry (each stub aligns it itself before pushing an even number of words). -/
theorem c01_stub_calls_aligned (env : Env) (m : M) (hsp : m.gpr .rsp ≥ 4096) :
    (exec env (pre mcount) m).gpr .rsp % 16 = 0 ∧
    (exec env (pre fentry) m).gpr .rsp % 16 = 0 ∧
    (exec env (pre dentry) m).gpr .rsp % 16 = 0 ∧
    (exec env (pre plt_hooker) m).gpr .rsp % 16 = 0 ∧
    (exec env (pre mcount_return) m).gpr .rsp % 16 = 0 ∧
    (exec env (pre dynamic_return) m).gpr .rsp % 16 = 0 ∧
    (exec env (pre plthook_return) m).gpr .rsp % 16 = 0 := by
  have b48 := align16_bounds (m.gpr .rsp - 48)
  have a48 := align16_mod (m.gpr .rsp - 48)
  have b112 := align16_bounds (m.gpr .rsp - 112)
  have a112 := align16_mod (m.gpr .rsp - 112)
  have b72 := align16_bounds (m.gpr .rsp - 72)
  have a72 := align16_mod (m.gpr .rsp - 72)
  refine ⟨?_, ?_, ?_, ?_, ?_, ?_, ?_⟩
  · have : (exec env (pre mcount) m).gpr .rsp = align16 (m.gpr .rsp - 48) - 32 := by
      simp (disch := omega) [pre, mcount, exec_cons, step]; omega
    rw [this]; omega
  · have : (exec env (pre fentry) m).gpr .rsp = align16 (m.gpr .rsp - 48) - 32 := by
      simp (disch := omega) [pre, fentry, exec_cons, step]; omega
    rw [this]; omega
  · have : (exec env (pre dentry) m).gpr .rsp = align16 (m.gpr .rsp - 48) - 32 := by
      simp (disch := omega) [pre, dentry, exec_cons, step]; omega
    rw [this]; omega
  · have : (exec env (pre plt_hooker) m).gpr .rsp = align16 (m.gpr .rsp - 48) - 16 := by
      simp (disch := omega) [pre, plt_hooker, exec_cons, step]; omega
    rw [this]; omega
  · have : (exec env (pre mcount_return) m).gpr .rsp = align16 (m.gpr .rsp - 112) - 16 := by
      simp (disch := omega) [pre, mcount_return, exec_cons, step]
    rw [this]; omega
  · have : (exec env (pre dynamic_return) m).gpr .rsp = align16 (m.gpr .rsp - 112) - 16 := by
      simp (disch := omega) [pre, dynamic_return, exec_cons, step]
    rw [this]; omega
  · have : (exec env (pre plthook_return) m).gpr .rsp = align16 (m.gpr .rsp - 72) - 16 := by
      simp (disch := omega) [pre, plthook_return, exec_cons, step]
    rw [this]; omega

end Uft.C01
