import Uft.Lemmas.PyTraceGenEq
/- C19 — tie by translation (translators/c2lean.py): the definitions generated on every run from the current
text of python/trace-python.c (`Uft/Gen/PyTraceC.lean`) compute what the hand-written model
`Uft/Model/PyTrace.lean` computes.  Mapping and abstractions: see `Uft/Lemmas/PyTraceGenEq.lean`. -/
namespace Uft.C19Gen
open Uft.PyTrace Uft.Gen.C Uft.PyTraceGenEq
open Uft.Gen.PyTraceC (Oracles can_trace match_filter apply_filters)

/-- **can_trace.**  For every configuration, name, value of `libcall_count` and direction: the generated
    `can_trace` returns the model's `canTrace`, leaves the model's `libAfter` in `libcall_count` and changes
    nothing else.  Hypotheses: `sym->flag & UFT_PYSYM_F_LIBCALL` is `Cfg.isLib name`; `libcall_mode` encodes
    `Cfg.lmode`. -/
theorem c19_gen_can_trace_eq {α : Type} (c : Cfg α) (n : α) (o : Oracles) (isEntry : Bool) (sym : Ptr) (s : GSt)
    (hflag : ((s.sym_flag &&& 1) == 0) = !c.isLib n) (hmode : LibEnc c.lmode s.libcall_mode) :
    can_trace o isEntry sym s =
      ({ s with libcall_count := libAfter c s.libcall_count isEntry n }, canTrace c s.libcall_count isEntry n) :=
  can_trace_eq c n o isEntry sym s hflag hmode

example : ∃ (c : Cfg Nat) (s : GSt), ((s.sym_flag &&& 1) == 0) = !c.isLib 7 ∧ LibEnc c.lmode s.libcall_mode ∧
    c.isLib 7 = true ∧ c.lmode = .single :=
  ⟨{ fixed := true, filters := none, lmode := .single, isLib := fun _ => true },
   { sym_flag := 1, libcall_mode := 1 }, by decide, ⟨by decide, by decide⟩, rfl, rfl⟩

/-- **match_filter** changes no memory; its value is the outcome of the comparison selected by
    `filter->p.type` — the value the model takes as the predicate `Filter.hit`. -/
theorem c19_gen_match_filter_eq (o : Oracles) (filter fname : Ptr) (s : GSt) :
    match_filter o filter fname s =
      (s, if s.filter_p_type = 1 then o.strcmp "match_filter:1" s.filter_p_patt fname == 0
          else if s.filter_p_type = 2 then
            o.regexec "match_filter:2" (Ptr.fld (Ptr.fld filter "p") "re") fname 0 Ptr.null 0 == 0
          else if s.filter_p_type = 3 then o.fnmatch "match_filter:3" s.filter_p_patt fname 0 == 0
          else false) :=
  match_filter_eq o filter fname s


/-- **apply_filters** — including its `list_for_each_entry … break` loop over the filter list, which the model has
    as `firstMatch`.  For every configuration, name, event and counter values the generated function leaves the
    model's `cinAfter` / `coutAfter` in `filter_state.count_in` / `count_out`, changes nothing else, and returns the
    model's `skipDecision` with `fixed = true` (the code has the repair of finding F2).  Hypotheses: the linked list
    `filters` holds, element by element, the model's filters (`ElemRel`: the mode, and `match_filter` on the element
    is the filter's match predicate); `filter_state.mode` encodes `Cfg.gmode`.  `isEntryOf` is the code's own
    `!strcmp(event, "call") || !strcmp(event, "c_call")`. -/
theorem c19_gen_apply_filters_eq {α : Type} (c : Cfg α) (n : α) (o : Oracles) (event sym : Ptr) (isPy : Bool) (s : GSt)
    (hel : All₂ (ElemRel o n s.sym_name) c.flist s.filters_elems) (hmode : GEnc c.gmode s.filter_state_mode) :
    apply_filters o event sym isPy s =
      ({ s with filter_state_count_in := cinAfter (firstMatch c.flist n) s.filter_state_count_in (isEntryOf o event)
                filter_state_count_out := coutAfter (firstMatch c.flist n) s.filter_state_count_out (isEntryOf o event) },
       skipDecision true c.gmode (firstMatch c.flist n)
         (cinAfter (firstMatch c.flist n) s.filter_state_count_in (isEntryOf o event))
         (coutAfter (firstMatch c.flist n) s.filter_state_count_out (isEntryOf o event)) (isEntryOf o event)) :=
  apply_filters_eq c n o event sym isPy s hel hmode

/-- the hypotheses of `c19_gen_apply_filters_eq` can be met for every filter list -/
example {α : Type} (n : α) (sname : Ptr) (fl : List (Filter α)) :
    All₂ (ElemRel demoOracles n sname) fl (fl.map (encElem n)) :=
  all₂_demo n sname fl

end Uft.C19Gen
