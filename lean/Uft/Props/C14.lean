import Uft.Lemmas.Pattern
import Uft.Lemmas.Patch
/-
C14 — Dynamic patching instruments exactly the selected functions, safely.
Property theorems only (helpers: Lemmas/Pattern.lean, Lemmas/Patch.lean).

Vocabulary: `c : Code` is a module's memory from map->start; `a` = sym->addr;
`prologueOff c a` = the patch site (after an optional endbr64); `start + o` its
address; `tramp` = mdi->trampoline; a symbol's *window* is [addr, addr+10) (an
optional endbr64 plus the 5-byte `call rel32` / NOP or the 6-byte `call *GOT(%rip)`).
-/
namespace Uft.Patch
open Uft.Pattern Uft.Gen.PatchTables

/-! ## which functions are selected -/

/-- Last match wins: the verdict of `match_pattern_list` for a symbol is the
    polarity of the last item of the list that applies to it (module is a prefix
    of the library name / soname and the pattern matches); no item ⇒ 0. -/
theorem c14_last_match_wins (M : Nat → String → Bool) (ps : List Patt) (lib : String)
    (so : Option String) (s : String) :
    decidePatch M ps lib so s = ((ps.filter (applies M lib so s)).getLast?).map (·.positive) :=
  decidePatch_eq M ps lib so s

/-- Order matters exactly this way: a later -P or -U item that applies overrides
    everything before it, one that does not apply changes nothing. -/
theorem c14_later_item_overrides (M : Nat → String → Bool) (ps : List Patt) (p : Patt)
    (lib : String) (so : Option String) (s : String) :
    decidePatch M (ps ++ [p]) lib so s =
      if applies M lib so s p then some p.positive else decidePatch M ps lib so s := by
  simp [decidePatch, List.foldl_append]

/-- Items given for another module (`pattern@module` whose module is not a prefix
    of this library's basename or soname) never influence the verdict. -/
theorem c14_other_module_ignored (M : Nat → String → Bool) (ps : List Patt) (lib : String)
    (so : Option String) (s : String) :
    decidePatch M ps lib so s =
      decidePatch M (ps.filter fun p => moduleMatches p lib so) lib so s := by
  rw [decidePatch_eq, decidePatch_eq, List.filter_filter]
  congr 2
  apply List.filter_congr
  intro p _
  simp only [applies]
  cases moduleMatches p lib so <;> simp

/-- `-U f` reaches the list as `!f`: an item is negative iff it starts with '!'. -/
theorem c14_parse_polarity (defMod : String) (i : Nat) (item : String) :
    (parseItem defMod i item).positive = !(item.toList.head? == some '!') := by
  unfold parseItem
  cases h : item.toList with
  | nil => simp
  | cons c r =>
    by_cases hc : c = '!'
    · subst hc; simp
    · simp only [List.head?_cons]
      split
      · rename_i heq; simp only [List.cons.injEq] at heq; exact absurd heq.1 hc
      · simp [hc]

/-! ## what a patch does to the bytes -/

/-- Functions that cannot be patched are left byte-for-byte untouched: if the
    bytes at the site are none of the four NOP patterns, the image is returned
    unchanged (for every module type, size and trampoline). -/
theorem c14_unpatchable_untouched (ty : DynType) (ms ss : Nat) (c : Code) (start a tramp : Nat)
    (h : isNopPrologue c (prologueOff c a) = false) :
    (patchFunc ty ms ss c start a tramp).1 = c ∧
    (patchFunc ty ms ss c start a tramp).2 ≠ .success := by
  rcases patchFunc_cases ty ms ss c start a tramp with h1 | ⟨_, h2, _, _⟩
  · exact h1
  · rcases patchFentry_shape c start a tramp with ⟨h3, _⟩ | ⟨_, h4, _⟩
    · rw [h3] at h2; cases h2
    · rw [h] at h4; cases h4

example : ∃ c a, isNopPrologue c (prologueOff c a) = false := ⟨[0x55, 0x48, 0x89, 0xe5, 0xc3], 0, by decide⟩

/-- The size filter: a function smaller than max(-Z, CALL_INSN_SIZE+1) is never
    touched. -/
theorem c14_size_filter (ty : DynType) (ms ss : Nat) (c : Code) (start a tramp : Nat)
    (h : ss < max ms 6) :
    patchFunc ty ms ss c start a tramp = (c, .skipped) := by
  unfold patchFunc
  rw [effMinSize_eq]
  simp [h]

example : (5 : Nat) < max 0 6 := by decide

/-- A patch is local: the image keeps its length; every byte outside the five
    bytes at the site is unchanged; unless the result is SUCCESS nothing at all
    changes; on SUCCESS the five bytes are `e8 rel32` with
    rel32 = (uint32)(trampoline - (site + 5)). -/
theorem c14_patch_is_local (ty : DynType) (ms ss : Nat) (c : Code) (start a tramp : Nat) :
    (patchFunc ty ms ss c start a tramp).1.length = c.length ∧
    (∀ i, i < prologueOff c a ∨ prologueOff c a + 5 ≤ i →
      (patchFunc ty ms ss c start a tramp).1[i]? = c[i]?) ∧
    ((patchFunc ty ms ss c start a tramp).2 ≠ .success → (patchFunc ty ms ss c start a tramp).1 = c) ∧
    ((patchFunc ty ms ss c start a tramp).2 = .success → prologueOff c a + 5 ≤ c.length →
      ∀ k, k < 5 → (patchFunc ty ms ss c start a tramp).1[prologueOff c a + k]? =
        (0xe8 :: le32 (targetAddr tramp (start + prologueOff c a)))[k]?) := by
  refine ⟨length_patchFunc _ _ _ _ _ _ _, ?_, ?_, ?_⟩
  · intro i hi
    rcases patchFunc_cases ty ms ss c start a tramp with ⟨h1, _⟩ | ⟨h1, _, _, _⟩
    · rw [h1]
    · rw [h1]
      rcases patchFentry_shape c start a tramp with ⟨h2, _⟩ | ⟨h2, _, _⟩
      · rw [h2]
      · rw [h2]; exact getElem?_writeAt_outside _ _ _ _ (by rw [length_callInsn]; exact hi)
  · intro hns
    rcases patchFunc_cases ty ms ss c start a tramp with ⟨h1, _⟩ | ⟨h1, h2, _, _⟩
    · exact h1
    · rw [h1] at hns; exact absurd h2 hns
  · intro hs hin k hk
    rcases patchFunc_cases ty ms ss c start a tramp with ⟨_, h2⟩ | ⟨h1, _, _, _⟩
    · exact absurd hs h2
    · rw [h1]
      rcases patchFentry_shape c start a tramp with ⟨h2, _⟩ | ⟨h2, _, _⟩
      · rw [h1, h2] at hs; cases hs
      · rw [h2]
        exact getElem?_writeAt_inside _ _ _ k (by rw [length_callInsn]; exact hk)
          (by rw [length_callInsn]; exact hin)

example : (patchFunc .patchable 0 16 [0x90, 0x90, 0x90, 0x90, 0x90, 0xc3] 0x1000 0 0x1ff0).2 = .success := by
  decide

/-- The displacement written is exact: its four bytes decode to
    `targetAddr`, and whenever the trampoline is within ±2 GiB of the end of the
    call instruction (it is: it sits at the end of the module's own text
    segment) the call lands exactly on the trampoline. -/
theorem c14_call_reaches_trampoline (tramp site : Nat) (ht : tramp < 2 ^ 64) (hs : site + 5 < 2 ^ 64)
    (hlo : (site : Int) + 5 - 2 ^ 31 ≤ tramp) (hhi : (tramp : Int) < site + 5 + 2 ^ 31) :
    dec32 (le32 (targetAddr tramp site)) = targetAddr tramp site ∧
    callDest site (targetAddr tramp site) = tramp :=
  ⟨dec32_le32 _ (targetAddr_lt _ _), callDest_targetAddr tramp site ht hs hlo hhi⟩

example : callDest 0x1000 (targetAddr 0x1ff0 0x1000) = 0x1ff0 := by decide
example : callDest 0x2000 (targetAddr 0x1ff0 0x2000) = 0x1ff0 := by decide

/-- What gcc emits for `-fpatchable-function-entry=5` (five 0x90) and for
    `-pg -mfentry -mnop-mcount` (0f 1f 44 00 00), each optionally after endbr64
    (`-fcf-protection`), is recognised: such a function of sufficient size is
    patched.  (Stated on literal bytes, so a changed table breaks it.) -/
theorem c14_compiler_prologues_recognized (ms ss : Nat) (rest : List UInt8) (start tramp : Nat)
    (hsz : max ms 6 ≤ ss) (ty : DynType) (hty : ty = .fentryNop ∨ ty = .patchable) :
    (targetAddr tramp (start + 0) ≠ 0 →
      (patchFunc ty ms ss ([0x90, 0x90, 0x90, 0x90, 0x90] ++ rest) start 0 tramp).2 = .success ∧
      (patchFunc ty ms ss ([0x0f, 0x1f, 0x44, 0x00, 0x00] ++ rest) start 0 tramp).2 = .success) ∧
    (targetAddr tramp (start + 4) ≠ 0 →
      (patchFunc ty ms ss ([0xf3, 0x0f, 0x1e, 0xfa, 0x90, 0x90, 0x90, 0x90, 0x90] ++ rest) start 0 tramp).2 = .success ∧
      (patchFunc ty ms ss ([0xf3, 0x0f, 0x1e, 0xfa, 0x0f, 0x1f, 0x44, 0x00, 0x00] ++ rest) start 0 tramp).2 = .success) := by
  have tab : ∀ (c : Code) (o : Nat), prologueOff c 0 = o →
      (matchAt c o patchable_gcc_nop = true ∨ matchAt c o fentry_nop_patt2 = true) →
      targetAddr tramp (start + o) ≠ 0 → (patchFunc ty ms ss c start 0 tramp).2 = .success := by
    intro c o ho hm ht
    rw [patchFunc_success_iff, ho]
    refine ⟨hsz, hty, ?_, ht⟩
    unfold isNopPrologue
    rcases hm with h | h <;> simp [h]
  constructor
  · intro ht
    constructor
    · exact tab _ 0 (by simp [prologueOff, matchAt, rd, endbr64]) (by simp [matchAt, rd, patchable_gcc_nop]) ht
    · exact tab _ 0 (by simp [prologueOff, matchAt, rd, endbr64]) (by simp [matchAt, rd, fentry_nop_patt2]) ht
  · intro ht
    constructor
    · exact tab _ 4 (by simp [prologueOff, matchAt, rd, endbr64]) (by simp [matchAt, rd, patchable_gcc_nop]) ht
    · exact tab _ 4 (by simp [prologueOff, matchAt, rd, endbr64]) (by simp [matchAt, rd, fentry_nop_patt2]) ht

/-! ## unpatch (-U)

`unpatchFuncG cfg c a loc` = mcount_unpatch_func for the symbol at `a` (`loc` = its
`__mcount_loc` entry for DYNAMIC_PG).  `cfg.fixed` / `cfg.skipEndbr` = false is the
code as it is, true the repaired code (findings C14-UNPATCH-ANY-CALL, C14-UNPATCH-ENDBR;
witnesses below).  `unpatchSite cfg c a` = where unpatch_fentry_func looks. -/

/-- What "the instruction at offset `o` is a call that enters the tracer" means
    (`entersTracer`, the test of the repaired unpatch_func), spelled out:
    * `e8 rel32` whose target is this module's trampoline (a NOP patched earlier), or
      lies in a PLT entry of the module named `__fentry__`, `mcount` or `_mcount`; or
    * `ff 15 disp32` whose GOT slot lies inside the module's mapping, entirely outside
      its code segment, and holds the address of `__fentry__` / `mcount`. -/
theorem c14_tracer_call_meaning (cfg : Cfg) (c : Code) (o : Nat) :
    entersTracer cfg c o ↔
      ((rd c o = 0xe8 ∧
          ((cfg.tramp ≠ 0 ∧ callTarget cfg c o = cfg.tramp) ∨
           ∃ s, findSym cfg.symtab ((callTarget cfg c o + 2 ^ 64 - cfg.start % 2 ^ 64) % 2 ^ 64) = some s ∧
             s.isPlt = true ∧ s.name ∈ entryNames)) ∨
       (rd c o = 0xff ∧ rd c (o + 1) = 0x15 ∧
          cfg.start ≤ gotSlot cfg c o ∧ gotSlot cfg c o + 8 ≤ cfg.start + cfg.mapLen ∧
          (gotSlot cfg c o - cfg.start + 8 ≤ cfg.textLo ∨ cfg.textHi ≤ gotSlot cfg c o - cfg.start) ∧
          rd64 c (gotSlot cfg c o - cfg.start) ∈ cfg.entryFuncs)) := by
  unfold entersTracer
  rw [callsEntryDirect_iff, callsEntryGot_iff]

/-- An unpatch is local, for the code as it is and for the repaired code, every
    module type and every `__mcount_loc` entry: the image keeps its length; unless
    the result is SUCCESS nothing at all changes; on SUCCESS exactly one instruction
    — at the unpatch site of the symbol (DYNAMIC_FENTRY / DYNAMIC_PATCHABLE) or at
    its `__mcount_loc` entry (DYNAMIC_PG) — is replaced: an `e8 rel32` by the 5-byte
    NOP, an `ff 15 disp32` by the 6-byte NOP, and every byte outside those 5
    (resp. 6) bytes is unchanged. -/
theorem c14_unpatch_is_local (cfg : Cfg) (c : Code) (a : Nat) (loc : Option Nat) :
    (unpatchFuncG cfg c a loc).1.length = c.length ∧
    ((unpatchFuncG cfg c a loc).2 ≠ .success → (unpatchFuncG cfg c a loc).1 = c) ∧
    ((unpatchFuncG cfg c a loc).2 = .success →
      ∃ o, (((cfg.ty = .fentry ∨ cfg.ty = .patchable) ∧ o = unpatchSite cfg c a) ∨ (cfg.ty = .pg ∧ loc = some o)) ∧
        ((rd c o = 0xe8 ∧ (unpatchFuncG cfg c a loc).1 = writeAt c o unpatch_nop5 ∧
            ∀ i, i < o ∨ o + 5 ≤ i → (unpatchFuncG cfg c a loc).1[i]? = c[i]?) ∨
         (rd c o = 0xff ∧ rd c (o + 1) = 0x15 ∧ (unpatchFuncG cfg c a loc).1 = writeAt c o unpatch_nop6 ∧
            ∀ i, i < o ∨ o + 6 ≤ i → (unpatchFuncG cfg c a loc).1[i]? = c[i]?))) := by
  have hl5 := nop_lengths.2.2.2.2.2.1
  have hl6 := nop_lengths.2.2.2.2.2.2.1
  have key : ∀ o, ((unpatchAtG cfg c o).2 ≠ .success → (unpatchAtG cfg c o).1 = c) ∧
      ((unpatchAtG cfg c o).2 = .success →
        ((rd c o = 0xe8 ∧ (unpatchAtG cfg c o).1 = writeAt c o unpatch_nop5 ∧
            ∀ i, i < o ∨ o + 5 ≤ i → (unpatchAtG cfg c o).1[i]? = c[i]?) ∨
         (rd c o = 0xff ∧ rd c (o + 1) = 0x15 ∧ (unpatchAtG cfg c o).1 = writeAt c o unpatch_nop6 ∧
            ∀ i, i < o ∨ o + 6 ≤ i → (unpatchAtG cfg c o).1[i]? = c[i]?))) := by
    intro o
    refine ⟨fun h => by rw [unpatchAtG_not_success cfg c o h], fun h => ?_⟩
    rcases unpatchAtG_success cfg c o h with ⟨h1, e⟩ | ⟨h1, h2, e⟩
    · left
      refine ⟨h1, by rw [e], fun i hi => ?_⟩
      rw [e]; exact getElem?_writeAt_outside _ _ _ _ (by rw [hl5]; exact hi)
    · right
      refine ⟨h1, h2, by rw [e], fun i hi => ?_⟩
      rw [e]; exact getElem?_writeAt_outside _ _ _ _ (by rw [hl6]; exact hi)
  refine ⟨length_unpatchFuncG cfg c a loc, ?_, ?_⟩
  · rcases unpatchFuncG_shape cfg c a loc with e | ⟨o, _, e⟩ <;> rw [e]
    · intro _; rfl
    · exact (key o).1
  · rcases unpatchFuncG_shape cfg c a loc with e | ⟨o, ho, e⟩ <;> rw [e]
    · intro h; cases h
    · intro h; exact ⟨o, ho, (key o).2 h⟩

/-- non-vacuity: both SUCCESS shapes occur (a `call __fentry__@plt` and, behind an
    endbr64, a `call *__fentry__@GOTPCREL(%rip)`) -/
example :
    let cfg : Cfg := { ty := .fentry, minSize := 0, start := 0x400000, tramp := 0x400ff0, locs := [],
                       mapLen := 0x1000, textLo := 0, textHi := 0x50, entryFuncs := [0x7f0000001000, 0x7f0000002000],
                       symtab := [⟨"__fentry__", 0x10, 16, false, true⟩, ⟨"traced", 0x30, 9, true, false⟩] }
    let c : Code := List.replicate 0x30 0 ++ [0xe8, 0xdb, 0xff, 0xff, 0xff, 0x8d, 0x47, 0x07, 0xc3]
    let g : Code := List.replicate 0x30 0 ++ [0xf3, 0x0f, 0x1e, 0xfa, 0xff, 0x15, 0x26, 0x00, 0x00, 0x00, 0x8d, 0x47, 0x07, 0xc3] ++
      List.replicate 0x22 0 ++ [0x00, 0x10, 0x00, 0x00, 0x00, 0x7f, 0x00, 0x00]
    (unpatchFuncG cfg c 0x30 none).2 = .success ∧ (unpatchFuncG cfg g 0x30 none).2 = .success ∧
    unpatchSite cfg g 0x30 = 0x34 := by
  decide

/-- -U is exact on a statically instrumented function (repaired code, module types
    DYNAMIC_FENTRY and DYNAMIC_PATCHABLE): look at the function's entry after an
    optional endbr64.  If it is a call that enters the tracer, the unpatch succeeds,
    replaces exactly that call by the NOP of its length, and the entry then holds no
    call instruction any more — the function is no longer traced.  If it is anything
    else — in particular a call of the function's own — the image is returned
    unchanged. -/
theorem c14_unpatch_exact (cfg : Cfg) (hfx : cfg.fixed = true) (hse : cfg.skipEndbr = true)
    (hty : cfg.ty = .fentry ∨ cfg.ty = .patchable) (c : Code) (a : Nat) (loc : Option Nat)
    (hin : prologueOff c a + 6 ≤ c.length) :
    (entersTracer cfg c (prologueOff c a) →
      (unpatchFuncG cfg c a loc).2 = .success ∧
      ((unpatchFuncG cfg c a loc).1 = writeAt c (prologueOff c a) unpatch_nop5 ∨
       (unpatchFuncG cfg c a loc).1 = writeAt c (prologueOff c a) unpatch_nop6) ∧
      rd (unpatchFuncG cfg c a loc).1 (prologueOff c a) ≠ 0xe8 ∧
      rd (unpatchFuncG cfg c a loc).1 (prologueOff c a) ≠ 0xff) ∧
    (¬ entersTracer cfg c (prologueOff c a) → unpatchFuncG cfg c a loc = (c, .skipped)) := by
  have hu : unpatchFuncG cfg c a loc = unpatchAtG cfg c (prologueOff c a) := by
    unfold unpatchFuncG
    rcases hty with e | e <;> simp [e, unpatchSite_true cfg hse]
  rw [hu]
  constructor
  · intro he
    rcases unpatchAtG_of_enters cfg c _ he with ⟨_, e⟩ | ⟨_, _, e⟩
    · rw [e]
      refine ⟨rfl, Or.inl rfl, ?_, ?_⟩ <;> simp only <;> rw [no_call_after_nop5 c _ (by omega)] <;> decide
    · rw [e]
      refine ⟨rfl, Or.inr rfl, ?_, ?_⟩ <;> simp only <;> rw [no_call_after_nop6 c _ hin] <;> decide
  · intro hne
    exact unpatchAtG_of_not_enters cfg hfx c _ hne

/-- non-vacuity of both directions: the instrumented `traced` enters the tracer, the
    `wrapper` that begins with a call of its own does not -/
example :
    let cfg : Cfg := { ty := .fentry, minSize := 0, start := 0x400000, tramp := 0, locs := [],
                       mapLen := 0x1000, textLo := 0, textHi := 0x50,
                       symtab := [⟨"__fentry__", 0x10, 16, false, true⟩, ⟨"leaf", 0x20, 8, true, false⟩] }
    let c : Code := List.replicate 0x30 0 ++ [0xf3, 0x0f, 0x1e, 0xfa, 0xe8, 0xd7, 0xff, 0xff, 0xff, 0xc3]
    let w : Code := List.replicate 0x30 0 ++ [0xe8, 0xeb, 0xff, 0xff, 0xff, 0x83, 0xc0, 0x01, 0xc3, 0x90]
    entersTracer cfg c (prologueOff c 0x30) ∧ ¬ entersTracer cfg w (prologueOff w 0x30) := by
  refine ⟨Or.inl (by decide), fun h => ?_⟩
  rcases h with ⟨_, h⟩ | ⟨h, _⟩
  · revert h; decide
  · revert h; decide

/-- Patch then unpatch is the identity on the entry bytes — and on the whole image:
    a function that started with the `-mnop-mcount` NOP (0f 1f 44 00 00, the NOP that
    unpatch writes), optionally behind an endbr64, and was patched successfully is
    restored byte for byte by a later unpatch of a DYNAMIC_PATCHABLE module.  Holds
    for the repaired code with endbr64 (`skipEndbr`), and for the code as it is when
    the function has no endbr64; the repaired unpatch_func recognises the call written
    by the patcher because it targets the trampoline (which is within ±2 GiB: it sits
    at the end of the module's own code segment). -/
theorem c14_unpatch_restores (cfg : Cfg) (hty : cfg.ty = .patchable) (ss : Nat) (c : Code) (a : Nat)
    (loc : Option Nat)
    (hse : cfg.skipEndbr = true ∨ matchAt c a endbr64 = false)
    (hnop : matchAt c (prologueOff c a) unpatch_nop5 = true)
    (hs : (patchFunc cfg.ty cfg.minSize ss c cfg.start a cfg.tramp).2 = .success)
    (hin : prologueOff c a + 5 ≤ c.length)
    (ht0 : cfg.tramp ≠ 0) (ht : cfg.tramp < 2 ^ 64) (hst : cfg.start + prologueOff c a + 5 < 2 ^ 64)
    (hlo : ((cfg.start + prologueOff c a : Nat) : Int) + 5 - 2 ^ 31 ≤ cfg.tramp)
    (hhi : (cfg.tramp : Int) < ((cfg.start + prologueOff c a : Nat) : Int) + 5 + 2 ^ 31) :
    unpatchFuncG cfg (patchFunc cfg.ty cfg.minSize ss c cfg.start a cfg.tramp).1 a loc = (c, .success) := by
  have hl5 := nop_lengths.2.2.2.2.2.1
  rcases patchFunc_cases cfg.ty cfg.minSize ss c cfg.start a cfg.tramp with ⟨_, h2⟩ | ⟨h1, _, _, _⟩
  · exact absurd hs h2
  · rw [h1]
    rcases patchFentry_shape c cfg.start a cfg.tramp with ⟨h2, _⟩ | ⟨h2, _, _⟩
    · rw [h1, h2] at hs; cases hs
    · rw [h2]
      simp only
      -- the unpatch site of the patched function is the patch site
      have hsite : unpatchSite cfg (writeAt c (prologueOff c a)
          (callInsn (targetAddr cfg.tramp (cfg.start + prologueOff c a)))) a = prologueOff c a := by
        rcases hse with e | e
        · rw [unpatchSite_true cfg e, prologueOff_patched c a _ hin]
        · have ho : prologueOff c a = a := by simp [prologueOff, e]
          have hp := prologueOff_patched c a (targetAddr cfg.tramp (cfg.start + prologueOff c a)) hin
          unfold unpatchSite
          split
          · exact hp
          · exact ho.symm
      have hw : rd (writeAt c (prologueOff c a) (callInsn (targetAddr cfg.tramp (cfg.start + prologueOff c a))))
          (prologueOff c a) = 0xe8 := by
        have := rd_writeAt_inside c (prologueOff c a)
          (callInsn (targetAddr cfg.tramp (cfg.start + prologueOff c a))) 0 (by simp [length_callInsn])
          (by rw [length_callInsn]; exact hin)
        rw [Nat.add_zero] at this
        rw [this]; rfl
      have hent := callsEntryDirect_patched cfg c (prologueOff c a) hin ht0 ht hst hlo hhi
      unfold unpatchFuncG
      simp only [hty, hsite]
      unfold unpatchAtG
      simp only [hw, beq_self_eq_true, if_true, hent, Bool.not_true, Bool.and_false, Bool.false_eq_true, if_false]
      rw [writeAt_writeAt _ _ _ _ (by rw [length_callInsn]; exact hl5.symm),
        writeAt_of_matchAt c _ unpatch_nop5 hnop]

/-- non-vacuity (with endbr64, repaired code) -/
example :
    let cfg : Cfg := { ty := .patchable, minSize := 0, start := 0x1000, tramp := 0x1ff0, locs := [] }
    let c : Code := [0xf3, 0x0f, 0x1e, 0xfa, 0x0f, 0x1f, 0x44, 0x00, 0x00, 0xc3]
    cfg.skipEndbr = true ∧ matchAt c (prologueOff c 0) unpatch_nop5 = true ∧
    (patchFunc cfg.ty cfg.minSize 10 c cfg.start 0 cfg.tramp).2 = .success ∧
    unpatchFuncG cfg (patchFunc cfg.ty cfg.minSize 10 c cfg.start 0 cfg.tramp).1 0 none = (c, .success) := by
  decide

/-- In general (any of the four NOP patterns) patch-then-unpatch leaves a function
    that differs from the original at most in its five NOP bytes, which again form a
    NOP that the patcher accepts (the function stays patchable and behaves the same). -/
theorem c14_unpatch_gives_nop (cfg : Cfg) (hty : cfg.ty = .patchable) (ss : Nat) (c : Code) (a : Nat)
    (loc : Option Nat)
    (hse : cfg.skipEndbr = true ∨ matchAt c a endbr64 = false)
    (hs : (patchFunc cfg.ty cfg.minSize ss c cfg.start a cfg.tramp).2 = .success)
    (hin : prologueOff c a + 5 ≤ c.length)
    (ht0 : cfg.tramp ≠ 0) (ht : cfg.tramp < 2 ^ 64) (hst : cfg.start + prologueOff c a + 5 < 2 ^ 64)
    (hlo : ((cfg.start + prologueOff c a : Nat) : Int) + 5 - 2 ^ 31 ≤ cfg.tramp)
    (hhi : (cfg.tramp : Int) < ((cfg.start + prologueOff c a : Nat) : Int) + 5 + 2 ^ 31) :
    unpatchFuncG cfg (patchFunc cfg.ty cfg.minSize ss c cfg.start a cfg.tramp).1 a loc =
      (writeAt c (prologueOff c a) unpatch_nop5, .success) ∧
    (∀ i, i < prologueOff c a ∨ prologueOff c a + 5 ≤ i → (writeAt c (prologueOff c a) unpatch_nop5)[i]? = c[i]?) ∧
    isNopPrologue (writeAt c (prologueOff c a) unpatch_nop5) (prologueOff c a) = true := by
  have hl5 := nop_lengths.2.2.2.2.2.1
  refine ⟨?_, fun i hi => getElem?_writeAt_outside _ _ _ _ (by rw [hl5]; exact hi), ?_⟩
  · rcases patchFunc_cases cfg.ty cfg.minSize ss c cfg.start a cfg.tramp with ⟨_, h2⟩ | ⟨h1, _, _, _⟩
    · exact absurd hs h2
    · rw [h1]
      rcases patchFentry_shape c cfg.start a cfg.tramp with ⟨h2, _⟩ | ⟨h2, _, _⟩
      · rw [h1, h2] at hs; cases hs
      · rw [h2]
        simp only
        have hsite : unpatchSite cfg (writeAt c (prologueOff c a)
            (callInsn (targetAddr cfg.tramp (cfg.start + prologueOff c a)))) a = prologueOff c a := by
          rcases hse with e | e
          · rw [unpatchSite_true cfg e, prologueOff_patched c a _ hin]
          · have ho : prologueOff c a = a := by simp [prologueOff, e]
            have hp := prologueOff_patched c a (targetAddr cfg.tramp (cfg.start + prologueOff c a)) hin
            unfold unpatchSite
            split
            · exact hp
            · exact ho.symm
        have hw : rd (writeAt c (prologueOff c a) (callInsn (targetAddr cfg.tramp (cfg.start + prologueOff c a))))
            (prologueOff c a) = 0xe8 := by
          have := rd_writeAt_inside c (prologueOff c a)
            (callInsn (targetAddr cfg.tramp (cfg.start + prologueOff c a))) 0 (by simp [length_callInsn])
            (by rw [length_callInsn]; exact hin)
          rw [Nat.add_zero] at this
          rw [this]; rfl
        have hent := callsEntryDirect_patched cfg c (prologueOff c a) hin ht0 ht hst hlo hhi
        unfold unpatchFuncG
        simp only [hty, hsite]
        unfold unpatchAtG
        simp only [hw, beq_self_eq_true, if_true, hent, Bool.not_true, Bool.and_false, Bool.false_eq_true, if_false]
        rw [writeAt_writeAt _ _ _ _ (by rw [length_callInsn]; exact hl5.symm)]
  · have hm : matchAt (writeAt c (prologueOff c a) unpatch_nop5) (prologueOff c a) fentry_nop_patt2 = true := by
      rw [matchAt_iff]
      intro k hk
      have hk5 : k < unpatch_nop5.length := by rw [hl5]; exact (by simpa [nop_lengths.2.2.2.1] using hk)
      rw [rd_writeAt_inside _ _ _ k hk5 (by rw [hl5]; exact hin)]
      rfl
    simp [isNopPrologue, hm]

example :
    let cfg : Cfg := { ty := .patchable, minSize := 0, start := 0x1000, tramp := 0x1ff0, locs := [] }
    let c : Code := [0x90, 0x90, 0x90, 0x90, 0x90, 0xc3]
    (patchFunc cfg.ty cfg.minSize 6 c cfg.start 0 cfg.tramp).2 = .success ∧
    unpatchFuncG cfg (patchFunc cfg.ty cfg.minSize 6 c cfg.start 0 cfg.tramp).1 0 none =
      ([0x0f, 0x1f, 0x44, 0x00, 0x00, 0xc3], .success) := by
  decide

/-- Pre-fix behaviour (the code as it is, `skipEndbr = false`), in general:
    unpatch_fentry_func looks at the first byte of the *symbol*, so no function that
    starts with endbr64 is ever unpatched, whatever follows the endbr64. -/
theorem c14_prefix_unpatch_endbr_all_skipped (cfg : Cfg) (hse : cfg.skipEndbr = false)
    (hty : cfg.ty = .fentry ∨ cfg.ty = .patchable) (c : Code) (a : Nat) (loc : Option Nat)
    (h : matchAt c a endbr64 = true) :
    unpatchFuncG cfg c a loc = (c, .skipped) := by
  have h0 := matchAt_endbr_first c a h
  have h1 : (rd c a == 0xe8) = false := by rw [h0]; decide
  have h2 : (rd c a == 0xff) = false := by rw [h0]; decide
  unfold unpatchFuncG
  rcases hty with e | e <;> simp [e, unpatchSite_false cfg hse, unpatchAtG, h1, h2]

example : matchAt [0xf3, 0x0f, 0x1e, 0xfa, 0xe8, 0, 0, 0, 0] 0 endbr64 = true := by decide

/-- Pre-fix witness for finding C14-UNPATCH-ENDBR (`skipEndbr = false` = the code as
    it is): `traced: endbr64; call __fentry__@plt; lea 7(%rdi),%eax; ret` of a
    `-pg -mfentry -fcf-protection` program is selected by `-U traced`; the code as it
    is leaves it untouched — the function keeps calling the tracer and is still
    traced, against the -U clause of the property.  The repaired code turns exactly
    the call into the 5-byte NOP. -/
theorem c14_prefix_unpatch_endbr_witness :
    let cfg (se : Bool) : Cfg := { ty := .fentry, minSize := 0, start := 0x400000, tramp := 0, locs := [],
                                   skipEndbr := se, mapLen := 0x1000, textLo := 0, textHi := 0x50,
                                   symtab := [⟨"__fentry__", 0x10, 16, false, true⟩, ⟨"traced", 0x30, 13, true, false⟩] }
    let c : Code := List.replicate 0x30 0 ++ [0xf3, 0x0f, 0x1e, 0xfa, 0xe8, 0xd7, 0xff, 0xff, 0xff, 0x8d, 0x47, 0x07, 0xc3]
    entersTracer (cfg true) c (prologueOff c 0x30) ∧
    unpatchFuncG (cfg false) c 0x30 none = (c, .skipped) ∧
    unpatchFuncG (cfg true) c 0x30 none =
      (List.replicate 0x30 0 ++ [0xf3, 0x0f, 0x1e, 0xfa, 0x0f, 0x1f, 0x44, 0x00, 0x00, 0x8d, 0x47, 0x07, 0xc3], .success) := by
  refine ⟨Or.inl (by decide), by decide, by decide⟩

/-! ## the per-module loop: exactly the selected functions -/

/-- The traced set is exact.  Run the patch loop of a `-fpatchable-function-entry`
    or `-mnop-mcount` module over symbols whose 10-byte windows are disjoint and
    inside the image, none of them instrumented initially.  Then a function ends
    up instrumented (call opcode at its site) iff its last matching option is a
    -P, it is at least max(-Z, 6) bytes long, its prologue is one of the NOP
    patterns and the displacement is non-zero.  In particular a function whose
    last match is a -U, or that matches nothing, is not instrumented. -/
theorem c14_traced_set_exact (cfg : Cfg) (hty : cfg.ty = .fentryNop ∨ cfg.ty = .patchable)
    (verdict : String → Option Bool) (syms : List Sym) (st : LoopSt)
    (hd : Disjoint syms) (ht : InText cfg syms) (hin : ∀ s ∈ syms, s.addr + 10 ≤ st.code.length)
    (h0 : ∀ s ∈ syms, instrumented st.code s = false) :
    ∀ s ∈ syms,
      (instrumented (runSyms cfg verdict st syms).code s = true ↔
        (verdict s.name = some true ∧ max cfg.minSize 6 ≤ s.size ∧
          isNopPrologue st.code (prologueOff st.code s.addr) = true ∧
          targetAddr cfg.tramp (cfg.start + prologueOff st.code s.addr) ≠ 0)) := by
  intro s hs
  have hpg : cfg.ty ≠ .pg := by rcases hty with e | e <;> rw [e] <;> decide
  rw [instrumented_congr _ _ s (runSyms_window cfg hpg verdict syms hd ht st s hs),
    instrumented_stepCode cfg hpg _ _ s (hin s hs) (h0 s hs), patchFunc_success_iff]
  constructor
  · rintro ⟨h1, h2, _, h4, h5⟩; exact ⟨h1, h2, h4, h5⟩
  · rintro ⟨h1, h2, h4, h5⟩; exact ⟨h1, h2, hty, h4, h5⟩

example : Disjoint [⟨"a", 0, 16, true, false⟩, ⟨"b", 16, 16, true, false⟩] ∧
    InText { ty := .patchable, minSize := 0, start := 0x1000, tramp := 0x1ff0, locs := [], textLo := 0, textHi := 4096 }
      [⟨"a", 0, 16, true, false⟩, ⟨"b", 16, 16, true, false⟩] := by
  simp [Disjoint, InText]

/-- Nothing else is modified: a byte of the module that differs after the loop
    lies in the window of a symbol that some -P or -U item selected; and the
    image never changes length.  (Holds for the code as it is and for the
    repaired code; `c14_loop_modifies_only_nops_and_tracer_calls` below says what
    the repaired code may overwrite *inside* such a window.) -/
theorem c14_only_selected_modified (cfg : Cfg) (hty : cfg.ty ≠ .pg)
    (verdict : String → Option Bool) (syms : List Sym) (st : LoopSt) (hd : Disjoint syms)
    (ht : InText cfg syms) (i : Nat)
    (h : (runSyms cfg verdict st syms).code[i]? ≠ st.code[i]?) :
    ∃ s ∈ syms, s.addr ≤ i ∧ i < s.addr + 10 ∧ verdict s.name ≠ none := by
  apply Classical.byContradiction
  intro hno
  apply h
  by_cases hw : ∃ s ∈ syms, s.addr ≤ i ∧ i < s.addr + 10
  · obtain ⟨s, hs, h1, h2⟩ := hw
    rw [runSyms_window cfg hty verdict syms hd ht st s hs i h1 h2]
    have hv : verdict s.name = none := by
      cases hvv : verdict s.name with
      | none => rfl
      | some b => exact absurd ⟨s, hs, h1, h2, by simp [hvv]⟩ hno
    simp [stepCode, hv]
  · exact runSyms_outside cfg hty verdict syms st i (fun s hs => by
      by_cases h1 : s.addr ≤ i
      · by_cases h2 : i < s.addr + 10
        · exact absurd ⟨s, hs, h1, h2⟩ hw
        · right; omega
      · left; omega)

theorem c14_loop_keeps_length (cfg : Cfg) (verdict : String → Option Bool) (syms : List Sym)
    (st : LoopSt) : (runSyms cfg verdict st syms).code.length = st.code.length :=
  length_runSyms cfg verdict syms st

/-! ## module type detection (genuine defect: endbr64 + NOP is not recognised) -/

/-- Repaired code (`detectType` = `detectTypeG true`): detection agrees with the
    patcher.  If some local/global function whose name does not start with '_'
    has a prologue that `patch_fentry_code` accepts (a NOP pattern, after an
    optional endbr64), a module without a patchable/xray section is classified
    DYNAMIC_FENTRY_NOP, so its selected functions do get patched. -/
theorem c14_detect_agrees_with_patcher (c : Code) (syms : List DSym) (fb : DynType) (s : DSym)
    (hs : s ∈ syms) (hlg : s.lg = true) (hname : s.name.toList.head? ≠ some '_')
    (hp : isNopPrologue c (prologueOff c s.addr) = true) :
    detectType none c syms fb = .fentryNop := by
  have hany : syms.any (scanHit true c) = true := by
    rw [List.any_eq_true]
    refine ⟨s, hs, ?_⟩
    simp [scanHit, hlg, hp, hname]
  simp [detectType, detectTypeG, hany]

example : ∃ (c : Code) (s : DSym), s.lg = true ∧ s.name.toList.head? ≠ some '_' ∧
    isNopPrologue c (prologueOff c s.addr) = true :=
  ⟨[0xf3, 0x0f, 0x1e, 0xfa, 0x0f, 0x1f, 0x44, 0x00, 0x00, 0xc3], ⟨"f", 0, true⟩, rfl, by decide, by decide⟩

/-- The repair only adds the endbr64 case: on images where no scanned symbol
    starts with endbr64 the repaired and the current detection coincide. -/
theorem c14_detect_fix_conservative (sect : Option DynType) (c : Code) (syms : List DSym)
    (fb : DynType) (h : ∀ s ∈ syms, matchAt c s.addr endbr64 = false) :
    detectTypeG false sect c syms fb = detectTypeG true sect c syms fb := by
  have : ∀ s ∈ syms, scanHit false c s = scanHit true c s := by
    intro s hs
    simp [scanHit, prologueOff, h s hs]
  have hany : syms.any (scanHit false c) = syms.any (scanHit true c) := by
    clear h
    induction syms with
    | nil => rfl
    | cons a r ih =>
      simp only [List.any_cons]
      rw [this a List.mem_cons_self, ih (fun s hs => this s (List.mem_cons_of_mem _ hs))]
  simp only [detectTypeG, hany]

/-- Pre-fix witness (the code as it is, `fixed = false`): a module built with
    `-pg -mfentry -mnop-mcount -fcf-protection` — every function is
    `endbr64; nopl 0(%rax,%rax,1)` — is classified DYNAMIC_NONE, so nothing is
    patched, although patch_fentry_code itself would accept the very same
    prologue. -/
theorem c14_prefix_endbr_nop_undetected_witness :
    let c : Code := [0xf3, 0x0f, 0x1e, 0xfa, 0x0f, 0x1f, 0x44, 0x00, 0x00, 0x55, 0xc3]
    let syms : List DSym := [⟨"f", 0, true⟩]
    detectTypeG false none c syms .none = .none ∧
    detectTypeG true none c syms .none = .fentryNop ∧
    (patchFunc .fentryNop 0 11 c 0x401000 0 0x401ff0).2 = .success ∧
    (patchFunc (detectTypeG false none c syms .none) 0 11 c 0x401000 0 0x401ff0) = (c, .failed) := by
  decide


/-! ## unpatch only removes calls into the tracer (genuine defect C14-UNPATCH-ANY-CALL) -/

/-- Repaired code (`cfg.fixed = true`): `-U` on a function rewrites its bytes only
    if the function (after an optional endbr64; for DYNAMIC_PG: its __mcount_loc site)
    begins with a call that enters the tracer —
    * `e8 rel32` whose target is this module's trampoline or lies in a PLT entry
      of the module named `__fentry__`, `mcount` or `_mcount`, or
    * `ff 15 disp32` whose GOT slot lies inside the module's mapping, entirely
      outside the code segment, and holds the address of `__fentry__` / `mcount` —
    and then exactly that instruction is replaced by the NOP of the same length.
    A function that begins with a call to anything else is left byte-for-byte
    untouched. -/
theorem c14_unpatch_only_fentry_calls (cfg : Cfg) (hfx : cfg.fixed = true) (c : Code) (a : Nat)
    (loc : Option Nat) (h : (unpatchFuncG cfg c a loc).1 ≠ c) :
    ∃ o, (o = unpatchSite cfg c a ∨ loc = some o) ∧
      ((rd c o = 0xe8 ∧ (unpatchFuncG cfg c a loc).1 = writeAt c o unpatch_nop5 ∧
          ((cfg.tramp ≠ 0 ∧ callTarget cfg c o = cfg.tramp) ∨
           ∃ s, findSym cfg.symtab ((callTarget cfg c o + 2 ^ 64 - cfg.start % 2 ^ 64) % 2 ^ 64) = some s ∧
             s.isPlt = true ∧ s.name ∈ entryNames)) ∨
       (rd c o = 0xff ∧ rd c (o + 1) = 0x15 ∧ (unpatchFuncG cfg c a loc).1 = writeAt c o unpatch_nop6 ∧
          cfg.start ≤ gotSlot cfg c o ∧ gotSlot cfg c o + 8 ≤ cfg.start + cfg.mapLen ∧
          (gotSlot cfg c o - cfg.start + 8 ≤ cfg.textLo ∨ cfg.textHi ≤ gotSlot cfg c o - cfg.start) ∧
          rd64 c (gotSlot cfg c o - cfg.start) ∈ cfg.entryFuncs)) := by
  have key : ∀ o, (unpatchAtG cfg c o).1 ≠ c →
      ((rd c o = 0xe8 ∧ (unpatchAtG cfg c o).1 = writeAt c o unpatch_nop5 ∧
          ((cfg.tramp ≠ 0 ∧ callTarget cfg c o = cfg.tramp) ∨
           ∃ s, findSym cfg.symtab ((callTarget cfg c o + 2 ^ 64 - cfg.start % 2 ^ 64) % 2 ^ 64) = some s ∧
             s.isPlt = true ∧ s.name ∈ entryNames)) ∨
       (rd c o = 0xff ∧ rd c (o + 1) = 0x15 ∧ (unpatchAtG cfg c o).1 = writeAt c o unpatch_nop6 ∧
          cfg.start ≤ gotSlot cfg c o ∧ gotSlot cfg c o + 8 ≤ cfg.start + cfg.mapLen ∧
          (gotSlot cfg c o - cfg.start + 8 ≤ cfg.textLo ∨ cfg.textHi ≤ gotSlot cfg c o - cfg.start) ∧
          rd64 c (gotSlot cfg c o - cfg.start) ∈ cfg.entryFuncs)) := by
    intro o ho
    rcases unpatchAtG_changes cfg hfx c o ho with ⟨h1, h2⟩ | ⟨h1, h2, h3⟩
    · left
      refine ⟨h1, ?_, (callsEntryDirect_iff cfg c o).1 h2⟩
      simp [unpatchAtG, h1, h2]
    · right
      have hne : (rd c o == 0xe8) = false := by rw [h1]; decide
      refine ⟨h1, h2, ?_, (callsEntryGot_iff cfg c o).1 h3⟩
      simp [unpatchAtG, hne, h1, h2, h3]
  unfold unpatchFuncG at h ⊢
  cases hty : cfg.ty <;> simp only [hty] at h ⊢ <;> try exact absurd rfl h
  · cases loc with
    | none => exact absurd rfl h
    | some l => exact ⟨l, Or.inr rfl, key l h⟩
  · exact ⟨_, Or.inl rfl, key _ h⟩
  · exact ⟨_, Or.inl rfl, key _ h⟩

/-- non-vacuity: a `-pg -mfentry` function `call __fentry__@plt; lea 7(%rdi),%eax; ret`
    at offset 0x30 with the PLT entry at offset 0x10 is unpatched by the repaired
    code; so is `call *__fentry__@GOTPCREL(%rip)` (-fno-plt) whose slot at offset 0x60,
    outside the code segment [0, 0x50), holds the address of `__fentry__` -/
example :
    let cfg : Cfg := { ty := .fentry, minSize := 0, start := 0x400000, tramp := 0x400ff0, locs := [],
                       mapLen := 0x1000, textLo := 0, textHi := 0x50, entryFuncs := [0x7f0000001000, 0x7f0000002000],
                       symtab := [⟨"__fentry__", 0x10, 16, false, true⟩, ⟨"traced", 0x30, 9, true, false⟩] }
    let c : Code := List.replicate 0x30 0 ++ [0xe8, 0xdb, 0xff, 0xff, 0xff, 0x8d, 0x47, 0x07, 0xc3]
    let g : Code := List.replicate 0x30 0 ++ [0xff, 0x15, 0x2a, 0x00, 0x00, 0x00, 0x8d, 0x47, 0x07, 0xc3] ++
      List.replicate 0x26 0 ++ [0x00, 0x10, 0x00, 0x00, 0x00, 0x7f, 0x00, 0x00]
    (unpatchFuncG cfg c 0x30 none).2 = .success ∧ (unpatchFuncG cfg g 0x30 none).2 = .success ∧
    (unpatchFuncG cfg c 0x30 none).1 ≠ c ∧ (unpatchFuncG cfg g 0x30 none).1 ≠ g := by
  decide

/-- The patch loop of the repaired code, byte by byte: a byte of the module that
    differs after the loop lies
    * in the five bytes at the patch site of a function whose last matching option
      is a -P and that `mcount_patch_func` accepted (size, NOP prologue), or
    * in the window of a function whose last matching option is a -U and that
      began with a call entering the tracer (see `c14_unpatch_only_fentry_calls`).
    Every other byte — in particular every function that matched nothing, every
    function that cannot be patched, and every -U function that begins with a
    call of its own — is exactly as before. -/
theorem c14_loop_modifies_only_nops_and_tracer_calls (cfg : Cfg) (hty : cfg.ty ≠ .pg)
    (hfx : cfg.fixed = true) (verdict : String → Option Bool) (syms : List Sym) (st : LoopSt)
    (hd : Disjoint syms) (ht : InText cfg syms) (i : Nat)
    (h : (runSyms cfg verdict st syms).code[i]? ≠ st.code[i]?) :
    ∃ s ∈ syms, s.addr ≤ i ∧ i < s.addr + 10 ∧
      ((verdict s.name = some true ∧
          (patchFunc cfg.ty cfg.minSize s.size st.code cfg.start s.addr cfg.tramp).2 = .success ∧
          prologueOff st.code s.addr ≤ i ∧ i < prologueOff st.code s.addr + 5) ∨
       (verdict s.name = some false ∧ entersTracer cfg st.code (unpatchSite cfg st.code s.addr))) := by
  by_cases hw : ∃ s ∈ syms, s.addr ≤ i ∧ i < s.addr + 10
  · obtain ⟨s, hs, h1, h2⟩ := hw
    refine ⟨s, hs, h1, h2, ?_⟩
    rw [runSyms_window cfg hty verdict syms hd ht st s hs i h1 h2] at h
    unfold stepCode at h
    cases hv : verdict s.name with
    | none => rw [hv] at h; exact absurd rfl h
    | some b =>
      rw [hv] at h
      cases b
      · right
        refine ⟨rfl, ?_⟩
        simp only at h
        rcases unpatchFuncG_nopg cfg hty st.code s.addr (findLoc cfg.locs s) with e | e
        · rw [e] at h; exact absurd rfl h
        · rw [e] at h
          exact unpatchAtG_changes cfg hfx st.code _ (fun hc => h (by rw [hc]))
      · left
        simp only at h
        have hsucc : (patchFunc cfg.ty cfg.minSize s.size st.code cfg.start s.addr cfg.tramp).2 = .success := by
          apply Classical.byContradiction
          intro hns
          exact h (by rw [(c14_patch_is_local cfg.ty cfg.minSize s.size st.code cfg.start s.addr cfg.tramp).2.2.1 hns])
        refine ⟨rfl, hsucc, ?_⟩
        apply Classical.byContradiction
        intro hout
        exact h ((c14_patch_is_local cfg.ty cfg.minSize s.size st.code cfg.start s.addr cfg.tramp).2.1 i (by omega))
  · exact absurd (runSyms_outside cfg hty verdict syms st i (fun s hs => by
      by_cases h1 : s.addr ≤ i
      · by_cases h2 : i < s.addr + 10
        · exact absurd ⟨s, hs, h1, h2⟩ hw
        · right; omega
      · left; omega)) h

/-- non-vacuity of `c14_loop_modifies_only_nops_and_tracer_calls`: a loop run (repaired code) in which bytes
    do change — `-P p` patches the NOP function `p`, `-U u` unpatches `u` (endbr64; call __fentry__@plt) -/
example :
    let cfg : Cfg := { ty := .patchable, minSize := 0, start := 0x400000, tramp := 0x400ff0, locs := [],
                       mapLen := 0x1000, textLo := 0, textHi := 0x60,
                       symtab := [⟨"__fentry__", 0x10, 16, false, true⟩] }
    let syms : List Sym := [⟨"p", 0x20, 16, true, false⟩, ⟨"u", 0x30, 16, true, false⟩]
    let c : Code := List.replicate 0x20 0 ++ [0x90, 0x90, 0x90, 0x90, 0x90, 0xc3] ++ List.replicate 10 0 ++
      [0xf3, 0x0f, 0x1e, 0xfa, 0xe8, 0xd7, 0xff, 0xff, 0xff, 0xc3] ++ List.replicate 0x16 0
    let v : String → Option Bool := fun n => if n = "p" then some true else if n = "u" then some false else none
    cfg.ty ≠ .pg ∧ cfg.fixed = true ∧ Disjoint syms ∧ InText cfg syms ∧
    (runSyms cfg v ⟨c, {}⟩ syms).code[0x20]? ≠ c[0x20]? ∧ (runSyms cfg v ⟨c, {}⟩ syms).code[0x34]? ≠ c[0x34]? := by
  refine ⟨by decide, rfl, by simp [Disjoint], by simp [InText], by decide, by decide⟩

/-- A function that no -P / -U item matches is never modified: after the loop its
    whole 10-byte entry window is byte for byte as before (code as it is and
    repaired code alike). -/
theorem c14_unmatched_function_untouched (cfg : Cfg) (hty : cfg.ty ≠ .pg)
    (verdict : String → Option Bool) (syms : List Sym) (st : LoopSt) (hd : Disjoint syms)
    (ht : InText cfg syms) :
    ∀ s ∈ syms, verdict s.name = none → ∀ i, s.addr ≤ i → i < s.addr + 10 →
      (runSyms cfg verdict st syms).code[i]? = st.code[i]? := by
  intro s hs hv i h1 h2
  rw [runSyms_window cfg hty verdict syms hd ht st s hs i h1 h2]
  simp [stepCode, hv]

example : ∃ (verdict : String → Option Bool) (s : Sym), verdict s.name = none :=
  ⟨fun _ => none, ⟨"a", 0, 16, true, false⟩, rfl⟩

/-- The unpatched set is exact (repaired code; the loop of a DYNAMIC_FENTRY or
    DYNAMIC_PATCHABLE module over symbols whose 10-byte windows are disjoint, inside
    the code segment and inside the image).  For every function whose last matching
    option is a -U:
    * if its entry (after an optional endbr64) is a call that enters the tracer,
      then after the loop the entry holds no call instruction any more (the function
      is not traced) and every other byte of its window is as before;
    * otherwise its whole window is byte for byte as before.
    Together with `c14_unmatched_function_untouched`, `c14_traced_set_exact` and
    `c14_only_selected_modified`: exactly the functions selected by -U lose their
    tracer call, and nothing else in the module changes. -/
theorem c14_unpatched_set_exact (cfg : Cfg) (hty : cfg.ty = .fentry ∨ cfg.ty = .patchable)
    (hfx : cfg.fixed = true) (hse : cfg.skipEndbr = true)
    (verdict : String → Option Bool) (syms : List Sym) (st : LoopSt)
    (hd : Disjoint syms) (ht : InText cfg syms) (hin : ∀ s ∈ syms, s.addr + 10 ≤ st.code.length) :
    ∀ s ∈ syms, verdict s.name = some false →
      (entersTracer cfg st.code (prologueOff st.code s.addr) →
        rd (runSyms cfg verdict st syms).code (prologueOff st.code s.addr) ≠ 0xe8 ∧
        rd (runSyms cfg verdict st syms).code (prologueOff st.code s.addr) ≠ 0xff ∧
        ∀ i, s.addr ≤ i → i < s.addr + 10 →
          i < prologueOff st.code s.addr ∨ prologueOff st.code s.addr + 6 ≤ i →
          (runSyms cfg verdict st syms).code[i]? = st.code[i]?) ∧
      (¬ entersTracer cfg st.code (prologueOff st.code s.addr) →
        ∀ i, s.addr ≤ i → i < s.addr + 10 → (runSyms cfg verdict st syms).code[i]? = st.code[i]?) := by
  intro s hs hv
  have hpg : cfg.ty ≠ .pg := by rcases hty with e | e <;> rw [e] <;> decide
  have hl5 := nop_lengths.2.2.2.2.2.1
  have hl6 := nop_lengths.2.2.2.2.2.2.1
  have hoc := prologueOff_cases st.code s.addr
  have hlen := hin s hs
  have hin6 : prologueOff st.code s.addr + 6 ≤ st.code.length := by rcases hoc with e | e <;> rw [e] <;> omega
  have hwin : ∀ i, s.addr ≤ i → i < s.addr + 10 → (runSyms cfg verdict st syms).code[i]? =
      (unpatchFuncG cfg st.code s.addr (findLoc cfg.locs s)).1[i]? := by
    intro i h1 h2
    rw [runSyms_window cfg hpg verdict syms hd ht st s hs i h1 h2]
    simp [stepCode, hv]
  have hex := c14_unpatch_exact cfg hfx hse hty st.code s.addr (findLoc cfg.locs s) hin6
  have hsite1 : s.addr ≤ prologueOff st.code s.addr := by rcases hoc with e | e <;> rw [e] <;> omega
  have hsite2 : prologueOff st.code s.addr < s.addr + 10 := by rcases hoc with e | e <;> rw [e] <;> omega
  constructor
  · intro he
    obtain ⟨_, hw, hn1, hn2⟩ := hex.1 he
    have hrd : rd (runSyms cfg verdict st syms).code (prologueOff st.code s.addr) =
        rd (unpatchFuncG cfg st.code s.addr (findLoc cfg.locs s)).1 (prologueOff st.code s.addr) :=
      rd_congr _ _ _ (hwin _ hsite1 hsite2)
    refine ⟨by rw [hrd]; exact hn1, by rw [hrd]; exact hn2, fun i h1 h2 hout => ?_⟩
    rw [hwin i h1 h2]
    rcases hw with e | e <;> rw [e]
    · exact getElem?_writeAt_outside _ _ _ _ (by rw [hl5]; omega)
    · exact getElem?_writeAt_outside _ _ _ _ (by rw [hl6]; omega)
  · intro hne i h1 h2
    rw [hwin i h1 h2, hex.2 hne]

/-- non-vacuity: a two-function module, `-U a` where `a` is `endbr64; call __fentry__@plt` -/
example :
    let cfg : Cfg := { ty := .fentry, minSize := 0, start := 0x400000, tramp := 0, locs := [],
                       mapLen := 0x1000, textLo := 0, textHi := 0x60,
                       symtab := [⟨"__fentry__", 0x10, 16, false, true⟩] }
    let syms : List Sym := [⟨"a", 0x30, 16, true, false⟩, ⟨"b", 0x40, 16, true, false⟩]
    let c : Code := List.replicate 0x30 0 ++ [0xf3, 0x0f, 0x1e, 0xfa, 0xe8, 0xd7, 0xff, 0xff, 0xff, 0xc3] ++ List.replicate 0x16 0
    Disjoint syms ∧ InText cfg syms ∧ (∀ s ∈ syms, s.addr + 10 ≤ c.length) ∧
    entersTracer cfg c (prologueOff c 0x30) ∧
    (runSyms cfg (fun n => if n = "a" then some false else none) ⟨c, {}⟩ syms).code =
      List.replicate 0x30 0 ++ [0xf3, 0x0f, 0x1e, 0xfa, 0x0f, 0x1f, 0x44, 0x00, 0x00, 0xc3] ++ List.replicate 0x16 0 := by
  refine ⟨by simp [Disjoint], by simp [InText], by decide, Or.inl (by decide), by decide⟩

/-- DYNAMIC_PG modules (`-pg -mrecord-mcount`; their unpatch site is the symbol's
    `__mcount_loc` entry, anywhere inside the symbol, so the window theorems above do
    not apply): a byte of the module that differs after the loop lies in the 6 bytes
    at the `__mcount_loc` entry of a symbol whose last matching option is a -U, and
    that entry lies inside the symbol.  -P never changes a byte of such a module.
    (What may be overwritten there: `c14_unpatch_only_fentry_calls`.) -/
theorem c14_pg_only_selected_sites_modified (cfg : Cfg) (hty : cfg.ty = .pg)
    (verdict : String → Option Bool) (syms : List Sym) (st : LoopSt) (i : Nat)
    (h : (runSyms cfg verdict st syms).code[i]? ≠ st.code[i]?) :
    ∃ s ∈ syms, verdict s.name = some false ∧
      ∃ l, findLoc cfg.locs s = some l ∧ s.addr ≤ l ∧ l < s.addr + s.size ∧ l ≤ i ∧ i < l + 6 := by
  induction syms generalizing st with
  | nil => exact absurd rfl h
  | cons s rest ih =>
    simp only [runSyms, List.foldl_cons] at h ih
    by_cases h1 : (stepSym cfg verdict st s).code[i]? = st.code[i]?
    · rw [← h1] at h
      obtain ⟨t, ht, hv, hl⟩ := ih _ h
      exact ⟨t, List.mem_cons_of_mem _ ht, hv, hl⟩
    · refine ⟨s, List.mem_cons_self, ?_⟩
      have hst : (stepSym cfg verdict st s).code = (stepCode cfg (verdict s.name) st.code s).1 := rfl
      rw [hst] at h1
      unfold stepCode at h1
      cases hv : verdict s.name with
      | none => rw [hv] at h1; exact absurd rfl h1
      | some b =>
        rw [hv] at h1
        cases b
        · refine ⟨rfl, ?_⟩
          simp only at h1
          unfold unpatchFuncG at h1
          simp only [hty] at h1
          cases hf : findLoc cfg.locs s with
          | none => rw [hf] at h1; exact absurd rfl h1
          | some l =>
            rw [hf] at h1
            simp only at h1
            have hin := List.find?_some hf
            simp only [Bool.and_eq_true, decide_eq_true_eq] at hin
            refine ⟨l, rfl, hin.1, hin.2, ?_⟩
            apply Classical.byContradiction
            intro hout
            exact h1 (unpatchAtG_frame cfg st.code l i (by omega))
        · exfalso
          simp only at h1
          rcases patchFunc_cases cfg.ty cfg.minSize s.size st.code cfg.start s.addr cfg.tramp with ⟨e, _⟩ | ⟨_, _, _, e⟩
          · exact h1 (by rw [e])
          · rw [hty] at e; rcases e with e | e <;> cases e

example :
    let cfg : Cfg := { ty := .pg, minSize := 0, start := 0x400000, tramp := 0, locs := [0x34],
                       mapLen := 0x1000, textLo := 0, textHi := 0x60,
                       symtab := [⟨"mcount", 0x10, 16, false, true⟩] }
    let c : Code := List.replicate 0x30 0 ++ [0x55, 0x48, 0x89, 0xe5, 0xe8, 0xd7, 0xff, 0xff, 0xff, 0x5d, 0xc3] ++ List.replicate 0x15 0
    (runSyms cfg (fun _ => some false) ⟨c, {}⟩ [⟨"f", 0x30, 11, true, false⟩]).code[0x34]? ≠ c[0x34]? := by
  decide

/-- Pre-fix witness (the code as it is, `fixed = false`): the -O2 function
    `wrapper: call leaf; add $1,%eax; ret` of a `-pg -mfentry` program (built with
    `no_instrument_function`, so its first instruction is its own call) is selected
    by `-U wrapper`; unpatch_func sees `e8` and overwrites the call to `leaf` with
    a NOP — the program then computes something else.  The repaired code leaves
    it alone, and still unpatches the instrumented neighbour. -/
theorem c14_prefix_unpatch_anycall_witness :
    let symtab : List Sym := [⟨"__fentry__", 0x1070, 16, false, true⟩, ⟨"leaf", 0x11f0, 18, true, false⟩,
                              ⟨"wrapper", 0x1210, 9, true, false⟩]
    let cfg (fx : Bool) : Cfg := { ty := .fentry, minSize := 0, start := 0x400000, tramp := 0x401ff0, locs := [],
                                   fixed := fx, mapLen := 0x5000, textLo := 0x1000, textHi := 0x2000,
                                   symtab := symtab }
    -- wrapper at offset 0 of this excerpt (module offset 0x1210): call leaf (-0x25); add $1,%eax; ret
    let c : Code := [0xe8, 0xdb, 0xff, 0xff, 0xff, 0x83, 0xc0, 0x01, 0xc3]
    (unpatchAtG (cfg false) c 0).1 = [0x0f, 0x1f, 0x44, 0x00, 0x00, 0x83, 0xc0, 0x01, 0xc3] ∧
    (unpatchAtG (cfg true) c 0) = (c, .skipped) := by
  decide

/-! ## W^X -/

/-- After mcount_dynamic_update (setup + patch + freeze) no page that the update
    touched is writable: a page that is writable afterwards is outside every
    module's text range, has exactly its initial protection, and was therefore
    writable before.  Every page of every module's text range (including a page
    added for the trampoline) is r-x.  Holds for every module list, pattern
    verdict, and every pattern of failing RWX requests. -/
theorem c14_wx_after_freeze (fa ms : Nat) (verdict : Module → String → Option Bool) (w : World) :
    (∀ m ∈ (dynamicUpdate fa ms verdict w).mods, ∀ p, inText m p →
      (dynamicUpdate fa ms verdict w).pages p = Perm.rx) ∧
    (∀ p, ((dynamicUpdate fa ms verdict w).pages p).w = true →
      (dynamicUpdate fa ms verdict w).pages p = w.pages p ∧
      ¬ ∃ m ∈ (dynamicUpdate fa ms verdict w).mods, inText m p) := by
  simp only [dynamicUpdate, doDynamicUpdate]
  constructor
  · intro m hm p hp
    exact freezeAll_in _ _ p ⟨m, hm, hp⟩
  · intro p hp
    by_cases hin : ∃ m ∈ (updateAll fa ms verdict w.mods w.pages w.stats).1, inText m p
    · rw [freezeAll_in _ _ p hin] at hp
      cases hp
    · refine ⟨?_, hin⟩
      rw [freezeAll_out _ _ p hin]
      apply Classical.byContradiction
      intro hne
      exact hin (updateAll_changes_in_text fa ms verdict w.mods w.pages w.stats p hne)

/-- Between setup and freeze the text range is RWX, as the code does (stated so
    the model cannot silently skip the writable phase). -/
theorem c14_setup_makes_text_rwx (fa : Nat) (m : Module) (pg : Pages) (hok : m.setupFails = false)
    (p : Nat) (hp : inText (setupTrampoline fa m pg).1 p) :
    (setupTrampoline fa m pg).2.1 p = Perm.rwx ∧ (setupTrampoline fa m pg).2.2 = true := by
  obtain ⟨ha, hs⟩ := setup_fields fa m pg
  unfold inText at hp
  rw [ha, hs] at hp
  unfold setupTrampoline
  simp only [hok, Bool.false_eq_true, if_false, and_true]
  exact setRange_in _ _ _ _ _ hp

example : ∃ m : Module, m.setupFails = false ∧
    inText (setupTrampoline 0 m (fun _ => Perm.rx)).1 1 :=
  ⟨{ libname := "m", ty := .patchable, start := 4096, textAddr := 4096, textSize := 100,
     code := [], syms := [], locs := [] }, rfl, by unfold inText; decide⟩


end Uft.Patch
