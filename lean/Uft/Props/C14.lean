import Uft.Lemmas.Pattern
import Uft.Lemmas.Patch
/-
C14 — Dynamic patching instruments exactly the selected functions, safely.
Property theorems only (helpers: Lemmas/Pattern.lean, Lemmas/Patch.lean).

Vocabulary: `c : Code` is a module's memory from map->start; `a` = sym->addr;
`prologueOff c a` = the patch site (after an optional endbr64); `start + o` its
address; `tramp` = mdi->trampoline; a symbol's *window* is [addr, addr+9).
-/
namespace Uft.Patch
open Uft.Pattern Uft.Gen.PatchTables

/-! ## which functions are selected -/

/-- Last match wins: the verdict of `match_pattern_list` for a symbol is the
    polarity of the last item of the list that applies to it (module is a prefix
    of the library name / soname and the pattern matches); no item ⇒ 0. -/
theorem c14_last_match_wins (M : Nat → String → Bool) (ps : List Patt) (lib : String)
    (so : Option String) (s : String) :
    decidePatch M ps lib so s = ((ps.filter (applies M lib so s)).getLast?).map (·.positive) :=
  decidePatch_eq M ps lib so s

/-- Order matters exactly this way: a later -P or -U item that applies overrides
    everything before it, one that does not apply changes nothing. -/
theorem c14_later_item_overrides (M : Nat → String → Bool) (ps : List Patt) (p : Patt)
    (lib : String) (so : Option String) (s : String) :
    decidePatch M (ps ++ [p]) lib so s =
      if applies M lib so s p then some p.positive else decidePatch M ps lib so s := by
  simp [decidePatch, List.foldl_append]

/-- Items given for another module (`pattern@module` whose module is not a prefix
    of this library's basename or soname) never influence the verdict. -/
theorem c14_other_module_ignored (M : Nat → String → Bool) (ps : List Patt) (lib : String)
    (so : Option String) (s : String) :
    decidePatch M ps lib so s =
      decidePatch M (ps.filter fun p => moduleMatches p lib so) lib so s := by
  rw [decidePatch_eq, decidePatch_eq, List.filter_filter]
  congr 2
  apply List.filter_congr
  intro p _
  simp only [applies]
  cases moduleMatches p lib so <;> simp

/-- `-U f` reaches the list as `!f`: an item is negative iff it starts with '!'. -/
theorem c14_parse_polarity (defMod : String) (i : Nat) (item : String) :
    (parseItem defMod i item).positive = !(item.toList.head? == some '!') := by
  unfold parseItem
  cases h : item.toList with
  | nil => simp
  | cons c r =>
    by_cases hc : c = '!'
    · subst hc; simp
    · simp only [List.head?_cons]
      split
      · rename_i heq; simp only [List.cons.injEq] at heq; exact absurd heq.1 hc
      · simp [hc]

/-! ## what a patch does to the bytes -/

/-- Functions that cannot be patched are left byte-for-byte untouched: if the
    bytes at the site are none of the four NOP patterns, the image is returned
    unchanged (for every module type, size and trampoline). -/
theorem c14_unpatchable_untouched (ty : DynType) (ms ss : Nat) (c : Code) (start a tramp : Nat)
    (h : isNopPrologue c (prologueOff c a) = false) :
    (patchFunc ty ms ss c start a tramp).1 = c ∧
    (patchFunc ty ms ss c start a tramp).2 ≠ .success := by
  rcases patchFunc_cases ty ms ss c start a tramp with h1 | ⟨_, h2, _, _⟩
  · exact h1
  · rcases patchFentry_shape c start a tramp with ⟨h3, _⟩ | ⟨_, h4, _⟩
    · rw [h3] at h2; cases h2
    · rw [h] at h4; cases h4

example : ∃ c a, isNopPrologue c (prologueOff c a) = false := ⟨[0x55, 0x48, 0x89, 0xe5, 0xc3], 0, by decide⟩

/-- The size filter: a function smaller than max(-Z, CALL_INSN_SIZE+1) is never
    touched. -/
theorem c14_size_filter (ty : DynType) (ms ss : Nat) (c : Code) (start a tramp : Nat)
    (h : ss < max ms 6) :
    patchFunc ty ms ss c start a tramp = (c, .skipped) := by
  unfold patchFunc
  rw [effMinSize_eq]
  simp [h]

example : (5 : Nat) < max 0 6 := by decide

/-- A patch is local: the image keeps its length; every byte outside the five
    bytes at the site is unchanged; unless the result is SUCCESS nothing at all
    changes; on SUCCESS the five bytes are `e8 rel32` with
    rel32 = (uint32)(trampoline - (site + 5)). -/
theorem c14_patch_is_local (ty : DynType) (ms ss : Nat) (c : Code) (start a tramp : Nat) :
    (patchFunc ty ms ss c start a tramp).1.length = c.length ∧
    (∀ i, i < prologueOff c a ∨ prologueOff c a + 5 ≤ i →
      (patchFunc ty ms ss c start a tramp).1[i]? = c[i]?) ∧
    ((patchFunc ty ms ss c start a tramp).2 ≠ .success → (patchFunc ty ms ss c start a tramp).1 = c) ∧
    ((patchFunc ty ms ss c start a tramp).2 = .success → prologueOff c a + 5 ≤ c.length →
      ∀ k, k < 5 → (patchFunc ty ms ss c start a tramp).1[prologueOff c a + k]? =
        (0xe8 :: le32 (targetAddr tramp (start + prologueOff c a)))[k]?) := by
  refine ⟨length_patchFunc _ _ _ _ _ _ _, ?_, ?_, ?_⟩
  · intro i hi
    rcases patchFunc_cases ty ms ss c start a tramp with ⟨h1, _⟩ | ⟨h1, _, _, _⟩
    · rw [h1]
    · rw [h1]
      rcases patchFentry_shape c start a tramp with ⟨h2, _⟩ | ⟨h2, _, _⟩
      · rw [h2]
      · rw [h2]; exact getElem?_writeAt_outside _ _ _ _ (by rw [length_callInsn]; exact hi)
  · intro hns
    rcases patchFunc_cases ty ms ss c start a tramp with ⟨h1, _⟩ | ⟨h1, h2, _, _⟩
    · exact h1
    · rw [h1] at hns; exact absurd h2 hns
  · intro hs hin k hk
    rcases patchFunc_cases ty ms ss c start a tramp with ⟨_, h2⟩ | ⟨h1, _, _, _⟩
    · exact absurd hs h2
    · rw [h1]
      rcases patchFentry_shape c start a tramp with ⟨h2, _⟩ | ⟨h2, _, _⟩
      · rw [h1, h2] at hs; cases hs
      · rw [h2]
        exact getElem?_writeAt_inside _ _ _ k (by rw [length_callInsn]; exact hk)
          (by rw [length_callInsn]; exact hin)

example : (patchFunc .patchable 0 16 [0x90, 0x90, 0x90, 0x90, 0x90, 0xc3] 0x1000 0 0x1ff0).2 = .success := by
  decide

/-- The displacement written is exact: its four bytes decode to
    `targetAddr`, and whenever the trampoline is within ±2 GiB of the end of the
    call instruction (it is: it sits at the end of the module's own text
    segment) the call lands exactly on the trampoline. -/
theorem c14_call_reaches_trampoline (tramp site : Nat) (ht : tramp < 2 ^ 64) (hs : site + 5 < 2 ^ 64)
    (hlo : (site : Int) + 5 - 2 ^ 31 ≤ tramp) (hhi : (tramp : Int) < site + 5 + 2 ^ 31) :
    dec32 (le32 (targetAddr tramp site)) = targetAddr tramp site ∧
    callDest site (targetAddr tramp site) = tramp :=
  ⟨dec32_le32 _ (targetAddr_lt _ _), callDest_targetAddr tramp site ht hs hlo hhi⟩

example : callDest 0x1000 (targetAddr 0x1ff0 0x1000) = 0x1ff0 := by decide
example : callDest 0x2000 (targetAddr 0x1ff0 0x2000) = 0x1ff0 := by decide

/-- What gcc emits for `-fpatchable-function-entry=5` (five 0x90) and for
    `-pg -mfentry -mnop-mcount` (0f 1f 44 00 00), each optionally after endbr64
    (`-fcf-protection`), is recognised: such a function of sufficient size is
    patched.  (Stated on literal bytes, so a changed table breaks it.) -/
theorem c14_compiler_prologues_recognized (ms ss : Nat) (rest : List UInt8) (start tramp : Nat)
    (hsz : max ms 6 ≤ ss) (ty : DynType) (hty : ty = .fentryNop ∨ ty = .patchable) :
    (targetAddr tramp (start + 0) ≠ 0 →
      (patchFunc ty ms ss ([0x90, 0x90, 0x90, 0x90, 0x90] ++ rest) start 0 tramp).2 = .success ∧
      (patchFunc ty ms ss ([0x0f, 0x1f, 0x44, 0x00, 0x00] ++ rest) start 0 tramp).2 = .success) ∧
    (targetAddr tramp (start + 4) ≠ 0 →
      (patchFunc ty ms ss ([0xf3, 0x0f, 0x1e, 0xfa, 0x90, 0x90, 0x90, 0x90, 0x90] ++ rest) start 0 tramp).2 = .success ∧
      (patchFunc ty ms ss ([0xf3, 0x0f, 0x1e, 0xfa, 0x0f, 0x1f, 0x44, 0x00, 0x00] ++ rest) start 0 tramp).2 = .success) := by
  have tab : ∀ (c : Code) (o : Nat), prologueOff c 0 = o →
      (matchAt c o patchable_gcc_nop = true ∨ matchAt c o fentry_nop_patt2 = true) →
      targetAddr tramp (start + o) ≠ 0 → (patchFunc ty ms ss c start 0 tramp).2 = .success := by
    intro c o ho hm ht
    rw [patchFunc_success_iff, ho]
    refine ⟨hsz, hty, ?_, ht⟩
    unfold isNopPrologue
    rcases hm with h | h <;> simp [h]
  constructor
  · intro ht
    constructor
    · exact tab _ 0 (by simp [prologueOff, matchAt, rd, endbr64]) (by simp [matchAt, rd, patchable_gcc_nop]) ht
    · exact tab _ 0 (by simp [prologueOff, matchAt, rd, endbr64]) (by simp [matchAt, rd, fentry_nop_patt2]) ht
  · intro ht
    constructor
    · exact tab _ 4 (by simp [prologueOff, matchAt, rd, endbr64]) (by simp [matchAt, rd, patchable_gcc_nop]) ht
    · exact tab _ 4 (by simp [prologueOff, matchAt, rd, endbr64]) (by simp [matchAt, rd, fentry_nop_patt2]) ht

/-! ## unpatch -/

/-- Patch then unpatch gives the original bytes back, byte for byte, when the
    function started with the 5-byte NOP that unpatch writes (the
    `-mnop-mcount` NOP) and has no endbr64 in front. -/
theorem c14_unpatch_restores (ty : DynType) (ms ss : Nat) (c : Code) (start a tramp : Nat)
    (hne : matchAt c a endbr64 = false) (hnop : matchAt c a unpatch_nop5 = true)
    (hs : (patchFunc ty ms ss c start a tramp).2 = .success) (hin : a + 5 ≤ c.length) :
    unpatchAt (patchFunc ty ms ss c start a tramp).1 a = (c, .success) := by
  rcases patchFunc_cases ty ms ss c start a tramp with ⟨_, h2⟩ | ⟨h1, _, _, _⟩
  · exact absurd hs h2
  · rw [h1]
    rcases patchFentry_shape c start a tramp with ⟨h2, _⟩ | ⟨h2, _, _⟩
    · rw [h1, h2] at hs; cases hs
    · rw [h2]
      have ho : prologueOff c a = a := by simp [prologueOff, hne]
      simp only [ho]
      have hw : rd (writeAt c a (callInsn (targetAddr tramp (start + a)))) (a + 0) = 0xe8 := by
        rw [rd_writeAt_inside _ _ _ 0 (by simp [length_callInsn]) (by rw [length_callInsn]; exact hin)]
        rfl
      rw [Nat.add_zero] at hw
      unfold unpatchAt
      simp only [hw, beq_self_eq_true, if_true]
      rw [writeAt_writeAt _ _ _ _ (by rw [length_callInsn]; exact nop_lengths.2.2.2.2.2.1.symm),
        writeAt_of_matchAt c a unpatch_nop5 hnop]

example : matchAt [0x0f, 0x1f, 0x44, 0x00, 0x00, 0xc3] 0 endbr64 = false ∧
    matchAt [0x0f, 0x1f, 0x44, 0x00, 0x00, 0xc3] 0 unpatch_nop5 = true ∧
    (patchFunc .patchable 0 6 [0x0f, 0x1f, 0x44, 0x00, 0x00, 0xc3] 0x1000 0 0x1ff0).2 = .success := by decide

/-- In general (no endbr64) patch-then-unpatch leaves a function that differs from
    the original at most in its five NOP bytes, which again form a NOP that the
    patcher accepts (the function stays patchable and behaves the same). -/
theorem c14_unpatch_gives_nop (ty : DynType) (ms ss : Nat) (c : Code) (start a tramp : Nat)
    (hne : matchAt c a endbr64 = false)
    (hs : (patchFunc ty ms ss c start a tramp).2 = .success) (hin : a + 5 ≤ c.length) :
    unpatchAt (patchFunc ty ms ss c start a tramp).1 a = (writeAt c a unpatch_nop5, .success) ∧
    (∀ i, i < a ∨ a + 5 ≤ i → (writeAt c a unpatch_nop5)[i]? = c[i]?) ∧
    isNopPrologue (writeAt c a unpatch_nop5) a = true := by
  have hl5 := nop_lengths.2.2.2.2.2.1
  refine ⟨?_, fun i hi => getElem?_writeAt_outside _ _ _ _ (by rw [hl5]; exact hi), ?_⟩
  · rcases patchFunc_cases ty ms ss c start a tramp with ⟨_, h2⟩ | ⟨h1, _, _, _⟩
    · exact absurd hs h2
    · rw [h1]
      rcases patchFentry_shape c start a tramp with ⟨h2, _⟩ | ⟨h2, _, _⟩
      · rw [h1, h2] at hs; cases hs
      · rw [h2]
        have ho : prologueOff c a = a := by simp [prologueOff, hne]
        simp only [ho]
        have hw : rd (writeAt c a (callInsn (targetAddr tramp (start + a)))) (a + 0) = 0xe8 := by
          rw [rd_writeAt_inside _ _ _ 0 (by simp [length_callInsn]) (by rw [length_callInsn]; exact hin)]
          rfl
        rw [Nat.add_zero] at hw
        unfold unpatchAt
        simp only [hw, beq_self_eq_true, if_true]
        rw [writeAt_writeAt _ _ _ _ (by rw [length_callInsn]; exact hl5.symm)]
  · have hm : matchAt (writeAt c a unpatch_nop5) a fentry_nop_patt2 = true := by
      rw [matchAt_iff]
      intro k hk
      have hk5 : k < unpatch_nop5.length := by rw [hl5]; exact (by simpa [nop_lengths.2.2.2.1] using hk)
      rw [rd_writeAt_inside _ _ _ k hk5 (by rw [hl5]; exact hin)]
      rfl
    simp [isNopPrologue, hm]

/-- Behaviour of the code as it is (outside the property's quantifier, recorded
    for the reader): `unpatch_func` looks at the first byte of the *symbol*, so a
    patched function that starts with endbr64 is not unpatched. -/
theorem c14_unpatch_endbr_skipped (c : Code) (a : Nat) (h : matchAt c a endbr64 = true) :
    unpatchAt c a = (c, .skipped) := by
  have h0 := matchAt_endbr_first c a h
  have h1 : (rd c a == 0xe8) = false := by rw [h0]; decide
  have h2 : (rd c a == 0xff) = false := by rw [h0]; decide
  simp [unpatchAt, h1, h2]

example : matchAt [0xf3, 0x0f, 0x1e, 0xfa, 0xe8, 0, 0, 0, 0] 0 endbr64 = true := by decide

/-! ## the per-module loop: exactly the selected functions -/

/-- The traced set is exact.  Run the patch loop of a `-fpatchable-function-entry`
    or `-mnop-mcount` module over symbols whose 9-byte windows are disjoint and
    inside the image, none of them instrumented initially.  Then a function ends
    up instrumented (call opcode at its site) iff its last matching option is a
    -P, it is at least max(-Z, 6) bytes long, its prologue is one of the NOP
    patterns and the displacement is non-zero.  In particular a function whose
    last match is a -U, or that matches nothing, is not instrumented. -/
theorem c14_traced_set_exact (cfg : Cfg) (hty : cfg.ty = .fentryNop ∨ cfg.ty = .patchable)
    (verdict : String → Option Bool) (syms : List Sym) (st : LoopSt)
    (hd : Disjoint syms) (ht : InText cfg syms) (hin : ∀ s ∈ syms, s.addr + 9 ≤ st.code.length)
    (h0 : ∀ s ∈ syms, instrumented st.code s = false) :
    ∀ s ∈ syms,
      (instrumented (runSyms cfg verdict st syms).code s = true ↔
        (verdict s.name = some true ∧ max cfg.minSize 6 ≤ s.size ∧
          isNopPrologue st.code (prologueOff st.code s.addr) = true ∧
          targetAddr cfg.tramp (cfg.start + prologueOff st.code s.addr) ≠ 0)) := by
  intro s hs
  have hpg : cfg.ty ≠ .pg := by rcases hty with e | e <;> rw [e] <;> decide
  rw [instrumented_congr _ _ s (runSyms_window cfg hpg verdict syms hd ht st s hs),
    instrumented_stepCode cfg hpg _ _ s (hin s hs) (h0 s hs), patchFunc_success_iff]
  constructor
  · rintro ⟨h1, h2, _, h4, h5⟩; exact ⟨h1, h2, h4, h5⟩
  · rintro ⟨h1, h2, h4, h5⟩; exact ⟨h1, h2, hty, h4, h5⟩

example : Disjoint [⟨"a", 0, 16, true, false⟩, ⟨"b", 16, 16, true, false⟩] ∧
    InText { ty := .patchable, minSize := 0, start := 0x1000, tramp := 0x1ff0, locs := [], textLo := 0, textHi := 4096 }
      [⟨"a", 0, 16, true, false⟩, ⟨"b", 16, 16, true, false⟩] := by
  simp [Disjoint, InText]

/-- Nothing else is modified: a byte of the module that differs after the loop
    lies in the window of a symbol that some -P or -U item selected; and the
    image never changes length.  (Holds for the code as it is and for the
    repaired code; `c14_loop_modifies_only_nops_and_tracer_calls` below says what
    the repaired code may overwrite *inside* such a window.) -/
theorem c14_only_selected_modified (cfg : Cfg) (hty : cfg.ty ≠ .pg)
    (verdict : String → Option Bool) (syms : List Sym) (st : LoopSt) (hd : Disjoint syms)
    (ht : InText cfg syms) (i : Nat)
    (h : (runSyms cfg verdict st syms).code[i]? ≠ st.code[i]?) :
    ∃ s ∈ syms, s.addr ≤ i ∧ i < s.addr + 9 ∧ verdict s.name ≠ none := by
  apply Classical.byContradiction
  intro hno
  apply h
  by_cases hw : ∃ s ∈ syms, s.addr ≤ i ∧ i < s.addr + 9
  · obtain ⟨s, hs, h1, h2⟩ := hw
    rw [runSyms_window cfg hty verdict syms hd ht st s hs i h1 h2]
    have hv : verdict s.name = none := by
      cases hvv : verdict s.name with
      | none => rfl
      | some b => exact absurd ⟨s, hs, h1, h2, by simp [hvv]⟩ hno
    simp [stepCode, hv]
  · exact runSyms_outside cfg hty verdict syms st i (fun s hs => by
      by_cases h1 : s.addr ≤ i
      · by_cases h2 : i < s.addr + 9
        · exact absurd ⟨s, hs, h1, h2⟩ hw
        · right; omega
      · left; omega)

theorem c14_loop_keeps_length (cfg : Cfg) (verdict : String → Option Bool) (syms : List Sym)
    (st : LoopSt) : (runSyms cfg verdict st syms).code.length = st.code.length :=
  length_runSyms cfg verdict syms st

/-! ## module type detection (genuine defect: endbr64 + NOP is not recognised) -/

/-- Repaired code (`detectType` = `detectTypeG true`): detection agrees with the
    patcher.  If some local/global function whose name does not start with '_'
    has a prologue that `patch_fentry_code` accepts (a NOP pattern, after an
    optional endbr64), a module without a patchable/xray section is classified
    DYNAMIC_FENTRY_NOP, so its selected functions do get patched. -/
theorem c14_detect_agrees_with_patcher (c : Code) (syms : List DSym) (fb : DynType) (s : DSym)
    (hs : s ∈ syms) (hlg : s.lg = true) (hname : s.name.toList.head? ≠ some '_')
    (hp : isNopPrologue c (prologueOff c s.addr) = true) :
    detectType none c syms fb = .fentryNop := by
  have hany : syms.any (scanHit true c) = true := by
    rw [List.any_eq_true]
    refine ⟨s, hs, ?_⟩
    simp [scanHit, hlg, hp, hname]
  simp [detectType, detectTypeG, hany]

example : ∃ (c : Code) (s : DSym), s.lg = true ∧ s.name.toList.head? ≠ some '_' ∧
    isNopPrologue c (prologueOff c s.addr) = true :=
  ⟨[0xf3, 0x0f, 0x1e, 0xfa, 0x0f, 0x1f, 0x44, 0x00, 0x00, 0xc3], ⟨"f", 0, true⟩, rfl, by decide, by decide⟩

/-- The repair only adds the endbr64 case: on images where no scanned symbol
    starts with endbr64 the repaired and the current detection coincide. -/
theorem c14_detect_fix_conservative (sect : Option DynType) (c : Code) (syms : List DSym)
    (fb : DynType) (h : ∀ s ∈ syms, matchAt c s.addr endbr64 = false) :
    detectTypeG false sect c syms fb = detectTypeG true sect c syms fb := by
  have : ∀ s ∈ syms, scanHit false c s = scanHit true c s := by
    intro s hs
    simp [scanHit, prologueOff, h s hs]
  have hany : syms.any (scanHit false c) = syms.any (scanHit true c) := by
    clear h
    induction syms with
    | nil => rfl
    | cons a r ih =>
      simp only [List.any_cons]
      rw [this a List.mem_cons_self, ih (fun s hs => this s (List.mem_cons_of_mem _ hs))]
  simp only [detectTypeG, hany]

/-- Pre-fix witness (the code as it is, `fixed = false`): a module built with
    `-pg -mfentry -mnop-mcount -fcf-protection` — every function is
    `endbr64; nopl 0(%rax,%rax,1)` — is classified DYNAMIC_NONE, so nothing is
    patched, although patch_fentry_code itself would accept the very same
    prologue. -/
theorem c14_prefix_endbr_nop_undetected_witness :
    let c : Code := [0xf3, 0x0f, 0x1e, 0xfa, 0x0f, 0x1f, 0x44, 0x00, 0x00, 0x55, 0xc3]
    let syms : List DSym := [⟨"f", 0, true⟩]
    detectTypeG false none c syms .none = .none ∧
    detectTypeG true none c syms .none = .fentryNop ∧
    (patchFunc .fentryNop 0 11 c 0x401000 0 0x401ff0).2 = .success ∧
    (patchFunc (detectTypeG false none c syms .none) 0 11 c 0x401000 0 0x401ff0) = (c, .failed) := by
  decide


/-! ## unpatch only removes calls into the tracer (genuine defect C14-unpatch-any-call) -/

/-- Repaired code (`cfg.fixed = true`): `-U` on a function rewrites its bytes only
    if the function (for DYNAMIC_PG: its __mcount_loc site) begins with a call that
    enters the tracer —
    * `e8 rel32` whose target is this module's trampoline or lies in a PLT entry
      of the module named `__fentry__`, `mcount` or `_mcount`, or
    * `ff 15 disp32` whose GOT slot lies inside the module's mapping, entirely
      outside the code segment, and holds the address of `__fentry__` / `mcount` —
    and then exactly that instruction is replaced by the NOP of the same length.
    A function that begins with a call to anything else is left byte-for-byte
    untouched. -/
theorem c14_unpatch_only_fentry_calls (cfg : Cfg) (hfx : cfg.fixed = true) (c : Code) (a : Nat)
    (loc : Option Nat) (h : (unpatchFuncG cfg c a loc).1 ≠ c) :
    ∃ o, (o = a ∨ loc = some o) ∧
      ((rd c o = 0xe8 ∧ (unpatchFuncG cfg c a loc).1 = writeAt c o unpatch_nop5 ∧
          ((cfg.tramp ≠ 0 ∧ callTarget cfg c o = cfg.tramp) ∨
           ∃ s, findSym cfg.symtab ((callTarget cfg c o + 2 ^ 64 - cfg.start % 2 ^ 64) % 2 ^ 64) = some s ∧
             s.isPlt = true ∧ s.name ∈ entryNames)) ∨
       (rd c o = 0xff ∧ rd c (o + 1) = 0x15 ∧ (unpatchFuncG cfg c a loc).1 = writeAt c o unpatch_nop6 ∧
          cfg.start ≤ gotSlot cfg c o ∧ gotSlot cfg c o + 8 ≤ cfg.start + cfg.mapLen ∧
          (gotSlot cfg c o - cfg.start + 8 ≤ cfg.textLo ∨ cfg.textHi ≤ gotSlot cfg c o - cfg.start) ∧
          rd64 c (gotSlot cfg c o - cfg.start) ∈ cfg.entryFuncs)) := by
  have key : ∀ o, (unpatchAtG cfg c o).1 ≠ c →
      ((rd c o = 0xe8 ∧ (unpatchAtG cfg c o).1 = writeAt c o unpatch_nop5 ∧
          ((cfg.tramp ≠ 0 ∧ callTarget cfg c o = cfg.tramp) ∨
           ∃ s, findSym cfg.symtab ((callTarget cfg c o + 2 ^ 64 - cfg.start % 2 ^ 64) % 2 ^ 64) = some s ∧
             s.isPlt = true ∧ s.name ∈ entryNames)) ∨
       (rd c o = 0xff ∧ rd c (o + 1) = 0x15 ∧ (unpatchAtG cfg c o).1 = writeAt c o unpatch_nop6 ∧
          cfg.start ≤ gotSlot cfg c o ∧ gotSlot cfg c o + 8 ≤ cfg.start + cfg.mapLen ∧
          (gotSlot cfg c o - cfg.start + 8 ≤ cfg.textLo ∨ cfg.textHi ≤ gotSlot cfg c o - cfg.start) ∧
          rd64 c (gotSlot cfg c o - cfg.start) ∈ cfg.entryFuncs)) := by
    intro o ho
    rcases unpatchAtG_changes cfg hfx c o ho with ⟨h1, h2⟩ | ⟨h1, h2, h3⟩
    · left
      refine ⟨h1, ?_, (callsEntryDirect_iff cfg c o).1 h2⟩
      simp [unpatchAtG, h1, h2]
    · right
      have hne : (rd c o == 0xe8) = false := by rw [h1]; decide
      refine ⟨h1, h2, ?_, (callsEntryGot_iff cfg c o).1 h3⟩
      simp [unpatchAtG, hne, h1, h2, h3]
  unfold unpatchFuncG at h ⊢
  cases hty : cfg.ty <;> simp only [hty] at h ⊢ <;> try exact absurd rfl h
  · cases loc with
    | none => exact absurd rfl h
    | some l => exact ⟨l, Or.inr rfl, key l h⟩
  · exact ⟨a, Or.inl rfl, key a h⟩
  · exact ⟨a, Or.inl rfl, key a h⟩

/-- non-vacuity: a `-pg -mfentry` function `call __fentry__@plt; lea 7(%rdi),%eax; ret`
    at offset 0x30 with the PLT entry at offset 0x10 is unpatched by the repaired
    code; so is `call *__fentry__@GOTPCREL(%rip)` (-fno-plt) whose slot at offset 0x60,
    outside the code segment [0, 0x50), holds the address of `__fentry__` -/
example :
    let cfg : Cfg := { ty := .fentry, minSize := 0, start := 0x400000, tramp := 0x400ff0, locs := [],
                       mapLen := 0x1000, textLo := 0, textHi := 0x50, entryFuncs := [0x7f0000001000, 0x7f0000002000],
                       symtab := [⟨"__fentry__", 0x10, 16, false, true⟩, ⟨"traced", 0x30, 9, true, false⟩] }
    let c : Code := List.replicate 0x30 0 ++ [0xe8, 0xdb, 0xff, 0xff, 0xff, 0x8d, 0x47, 0x07, 0xc3]
    let g : Code := List.replicate 0x30 0 ++ [0xff, 0x15, 0x2a, 0x00, 0x00, 0x00, 0x8d, 0x47, 0x07, 0xc3] ++
      List.replicate 0x26 0 ++ [0x00, 0x10, 0x00, 0x00, 0x00, 0x7f, 0x00, 0x00]
    (unpatchFuncG cfg c 0x30 none).2 = .success ∧ (unpatchFuncG cfg g 0x30 none).2 = .success := by
  decide

/-- The patch loop of the repaired code, byte by byte: a byte of the module that
    differs after the loop lies
    * in the five bytes at the patch site of a function whose last matching option
      is a -P and that `mcount_patch_func` accepted (size, NOP prologue), or
    * in the window of a function whose last matching option is a -U and that
      began with a call entering the tracer (see `c14_unpatch_only_fentry_calls`).
    Every other byte — in particular every function that matched nothing, every
    function that cannot be patched, and every -U function that begins with a
    call of its own — is exactly as before. -/
theorem c14_loop_modifies_only_nops_and_tracer_calls (cfg : Cfg) (hty : cfg.ty ≠ .pg)
    (hfx : cfg.fixed = true) (verdict : String → Option Bool) (syms : List Sym) (st : LoopSt)
    (hd : Disjoint syms) (ht : InText cfg syms) (i : Nat)
    (h : (runSyms cfg verdict st syms).code[i]? ≠ st.code[i]?) :
    ∃ s ∈ syms, s.addr ≤ i ∧ i < s.addr + 9 ∧
      ((verdict s.name = some true ∧
          (patchFunc cfg.ty cfg.minSize s.size st.code cfg.start s.addr cfg.tramp).2 = .success ∧
          prologueOff st.code s.addr ≤ i ∧ i < prologueOff st.code s.addr + 5) ∨
       (verdict s.name = some false ∧ entersTracer cfg st.code s.addr)) := by
  by_cases hw : ∃ s ∈ syms, s.addr ≤ i ∧ i < s.addr + 9
  · obtain ⟨s, hs, h1, h2⟩ := hw
    refine ⟨s, hs, h1, h2, ?_⟩
    rw [runSyms_window cfg hty verdict syms hd ht st s hs i h1 h2] at h
    unfold stepCode at h
    cases hv : verdict s.name with
    | none => rw [hv] at h; exact absurd rfl h
    | some b =>
      rw [hv] at h
      cases b
      · right
        refine ⟨rfl, ?_⟩
        simp only at h
        rcases unpatchFuncG_nopg cfg hty st.code s.addr (findLoc cfg.locs s) with e | e
        · rw [e] at h; exact absurd rfl h
        · rw [e] at h
          exact unpatchAtG_changes cfg hfx st.code s.addr (fun hc => h (by rw [hc]))
      · left
        simp only at h
        have hsucc : (patchFunc cfg.ty cfg.minSize s.size st.code cfg.start s.addr cfg.tramp).2 = .success := by
          apply Classical.byContradiction
          intro hns
          exact h (by rw [(c14_patch_is_local cfg.ty cfg.minSize s.size st.code cfg.start s.addr cfg.tramp).2.2.1 hns])
        refine ⟨rfl, hsucc, ?_⟩
        apply Classical.byContradiction
        intro hout
        exact h ((c14_patch_is_local cfg.ty cfg.minSize s.size st.code cfg.start s.addr cfg.tramp).2.1 i (by omega))
  · exact absurd (runSyms_outside cfg hty verdict syms st i (fun s hs => by
      by_cases h1 : s.addr ≤ i
      · by_cases h2 : i < s.addr + 9
        · exact absurd ⟨s, hs, h1, h2⟩ hw
        · right; omega
      · left; omega)) h

/-- Pre-fix witness (the code as it is, `fixed = false`): the -O2 function
    `wrapper: call leaf; add $1,%eax; ret` of a `-pg -mfentry` program (built with
    `no_instrument_function`, so its first instruction is its own call) is selected
    by `-U wrapper`; unpatch_func sees `e8` and overwrites the call to `leaf` with
    a NOP — the program then computes something else.  The repaired code leaves
    it alone, and still unpatches the instrumented neighbour. -/
theorem c14_prefix_unpatch_anycall_witness :
    let symtab : List Sym := [⟨"__fentry__", 0x1070, 16, false, true⟩, ⟨"leaf", 0x11f0, 18, true, false⟩,
                              ⟨"wrapper", 0x1210, 9, true, false⟩]
    let cfg (fx : Bool) : Cfg := { ty := .fentry, minSize := 0, start := 0x400000, tramp := 0x401ff0, locs := [],
                                   fixed := fx, mapLen := 0x5000, textLo := 0x1000, textHi := 0x2000,
                                   symtab := symtab }
    -- wrapper at offset 0 of this excerpt (module offset 0x1210): call leaf (-0x25); add $1,%eax; ret
    let c : Code := [0xe8, 0xdb, 0xff, 0xff, 0xff, 0x83, 0xc0, 0x01, 0xc3]
    (unpatchAtG (cfg false) c 0).1 = [0x0f, 0x1f, 0x44, 0x00, 0x00, 0x83, 0xc0, 0x01, 0xc3] ∧
    (unpatchAtG (cfg true) c 0) = (c, .skipped) := by
  decide

/-! ## W^X -/

/-- After mcount_dynamic_update (setup + patch + freeze) no page that the update
    touched is writable: a page that is writable afterwards is outside every
    module's text range, has exactly its initial protection, and was therefore
    writable before.  Every page of every module's text range (including a page
    added for the trampoline) is r-x.  Holds for every module list, pattern
    verdict, and every pattern of failing RWX requests. -/
theorem c14_wx_after_freeze (fa ms : Nat) (verdict : Module → String → Option Bool) (w : World) :
    (∀ m ∈ (dynamicUpdate fa ms verdict w).mods, ∀ p, inText m p →
      (dynamicUpdate fa ms verdict w).pages p = Perm.rx) ∧
    (∀ p, ((dynamicUpdate fa ms verdict w).pages p).w = true →
      (dynamicUpdate fa ms verdict w).pages p = w.pages p ∧
      ¬ ∃ m ∈ (dynamicUpdate fa ms verdict w).mods, inText m p) := by
  simp only [dynamicUpdate, doDynamicUpdate]
  constructor
  · intro m hm p hp
    exact freezeAll_in _ _ p ⟨m, hm, hp⟩
  · intro p hp
    by_cases hin : ∃ m ∈ (updateAll fa ms verdict w.mods w.pages w.stats).1, inText m p
    · rw [freezeAll_in _ _ p hin] at hp
      cases hp
    · refine ⟨?_, hin⟩
      rw [freezeAll_out _ _ p hin]
      apply Classical.byContradiction
      intro hne
      exact hin (updateAll_changes_in_text fa ms verdict w.mods w.pages w.stats p hne)

/-- Between setup and freeze the text range is RWX, as the code does (stated so
    the model cannot silently skip the writable phase). -/
theorem c14_setup_makes_text_rwx (fa : Nat) (m : Module) (pg : Pages) (hok : m.setupFails = false)
    (p : Nat) (hp : inText (setupTrampoline fa m pg).1 p) :
    (setupTrampoline fa m pg).2.1 p = Perm.rwx ∧ (setupTrampoline fa m pg).2.2 = true := by
  obtain ⟨ha, hs⟩ := setup_fields fa m pg
  unfold inText at hp
  rw [ha, hs] at hp
  unfold setupTrampoline
  simp only [hok, Bool.false_eq_true, if_false, and_true]
  exact setRange_in _ _ _ _ _ hp

example : ∃ m : Module, m.setupFails = false ∧
    inText (setupTrampoline 0 m (fun _ => Perm.rx)).1 1 :=
  ⟨{ libname := "m", ty := .patchable, start := 4096, textAddr := 4096, textSize := 100,
     code := [], syms := [], locs := [] }, rfl, by unfold inText; decide⟩


end Uft.Patch
