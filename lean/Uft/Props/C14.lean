import Uft.Lemmas.Pattern
/-
C14 — Dynamic patching instruments exactly the selected functions, safely.
Property theorems only (helpers: Lemmas/Pattern.lean, Lemmas/Patch.lean).
-/
namespace Uft.Patch
open Uft.Pattern

/-- Last match wins: the verdict of `match_pattern_list` for a symbol is the
    polarity of the last item of the list that applies to it (module is a prefix
    of the library name / soname and the pattern matches); no item ⇒ 0. -/
theorem c14_last_match_wins (M : Nat → String → Bool) (ps : List Patt) (lib : String)
    (so : Option String) (s : String) :
    decidePatch M ps lib so s = ((ps.filter (applies M lib so s)).getLast?).map (·.positive) :=
  decidePatch_eq M ps lib so s

end Uft.Patch
