import Uft.Lemmas.Mcount
/- C05 — Record-time filters and triggers select exactly the documented calls. -/
namespace Uft.C05
open Uft.Mcount

/-- cfg of finding F4: `-F a -L other.c`; `a` (function 0) is not in the location set -/
def cfgFL : Cfg :=
  { optIn := true, locIn := true,
    trig := fun f => if f = 0 then { filter := some true } else if f = 2 then { loc := some true } else {} }

/-- F4 witness: on the -pg/fentry path a call of `a` leaves in_count = 1 behind
    (no frame is pushed, so nothing ever undoes the increment); the cygprof path
    restores the state. -/
theorem c05_pg_leak_witness :
    (runCall cfgFL .pg (St.init cfgFL) (.node 0 10 20 .nil)).filt.inCount = 1 ∧
    (runCall cfgFL .cyg (St.init cfgFL) (.node 0 10 20 .nil)).filt.inCount = 0 := by
  decide

end Uft.C05
