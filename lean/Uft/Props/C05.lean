import Uft.Lemmas.Mcount
import Uft.Lemmas.McountCore
/- C05 — Record-time filters and triggers select exactly the documented calls. -/
namespace Uft.C05
open Uft.Mcount

/-- cfg of finding F4: `-F a -L other.c`; `a` (function 0) is not in the location set -/
def cfgFL : Cfg :=
  { optIn := true, locIn := true, f4fixed := false,
    trig := fun f => if f = 0 then { filter := some true } else if f = 2 then { loc := some true } else {} }

/-- F4 witness (code before the repair, `f4fixed := false`): on the -pg/fentry
    path a call of `a` leaves in_count = 1 behind (no frame is pushed, so nothing
    ever undoes the increment); the cygprof path restores the state. -/
theorem c05_pg_leak_witness :
    (runCall cfgFL .pg (St.init cfgFL) (.node 0 10 20 .nil)).filt.inCount = 1 ∧
    (runCall cfgFL .cyg (St.init cfgFL) (.node 0 10 20 .nil)).filt.inCount = 0 := by
  decide

theorem entry_cyg_took (cfg : Cfg) (s : St) (f t0 : Nat) : (entry cfg .cyg s f t0).2 = true := by
  unfold entry
  simp only
  split <;> rfl

/-
The filter state (`core`: in/out counts, depth, max-depth, time and size
thresholds, record index, shadow-stack shape with each frame's saved values) of
a thread after a call returned equals the state before the call — for every
trigger table (any mix of filter / notrace / depth / time / size / trace /
trace_on / trace_off / caller / location triggers; `finish` excluded, it ends
tracing), every option set, every call tree (any depth, also beyond
--max-stack), for the hook family that pushes a frame for every call
(-finstrument-functions / xray).  This is "a filter hit never leaks into later
sibling calls".
-/
mutual
theorem restored_call (cfg : Cfg) (hf : cfg.fast = false) (hfin : ∀ f, (cfg.trig f).finish = false) :
    ∀ (c : Call) (s : St), (core s).WF cfg → core (runCall cfg .cyg s c) = core s
  | .node f t0 t1 kids, s, hwf => by
    have h1 := core_entry_cyg cfg hf s f t0 (hfin f)
    have hwf1 : (core (entry cfg .cyg s f t0).1).WF cfg := by rw [h1]; exact entryCore_wf cfg f _ hwf
    have hk := restored_calls cfg hf hfin kids (entry cfg .cyg s f t0).1 hwf1
    simp only [runCall, entry_cyg_took, ↓reduceIte]
    rw [core_exit cfg hf, hk, h1, exitCore_entryCore cfg f _ hwf]
theorem restored_calls (cfg : Cfg) (hf : cfg.fast = false) (hfin : ∀ f, (cfg.trig f).finish = false) :
    ∀ (cs : Calls) (s : St), (core s).WF cfg → core (runCalls cfg .cyg s cs) = core s
  | .nil, s, _ => rfl
  | .cons c rest, s, hwf => by
    have h1 := restored_call cfg hf hfin c s hwf
    have h2 := restored_calls cfg hf hfin rest (runCall cfg .cyg s c) (by rw [h1]; exact hwf)
    simp only [runCalls]
    rw [h2, h1]
end

/-- C05, state restoration: see the comment above `restored_call`. -/
theorem c05_state_restored_cyg (cfg : Cfg) (hf : cfg.fast = false)
    (hfin : ∀ f, (cfg.trig f).finish = false) (c : Call) (s : St) (hwf : (core s).WF cfg) :
    core (runCall cfg .cyg s c) = core s :=
  restored_call cfg hf hfin c s hwf

/-- … in particular from a fresh thread, after any forest of calls, the filter
    state is the initial one. -/
theorem c05_forest_restores_initial_cyg (cfg : Cfg) (hf : cfg.fast = false)
    (hfin : ∀ f, (cfg.trig f).finish = false) (cs : Calls) :
    core (runCalls cfg .cyg (St.init cfg) cs) = core (St.init cfg) :=
  restored_calls cfg hf hfin cs (St.init cfg) (Or.inl rfl)

mutual
theorem restored_call_pg (cfg : Cfg) (hf : cfg.fast = false) (hfix : cfg.f4fixed = true)
    (hfin : ∀ f, (cfg.trig f).finish = false) :
    ∀ (c : Call) (s : St), (core s).WF cfg → core (runCall cfg .pg s c) = core s
  | .node f t0 t1 kids, s, hwf => by
    simp only [runCall]
    by_cases hp : (entry cfg .pg s f t0).2 = true
    · have h1 : core (entry cfg .pg s f t0).1 = entryCore cfg f (core s) :=
        (core_entry_pg_push cfg hf s f t0 (hfin f) hp).trans (core_entry_cyg cfg hf s f t0 (hfin f))
      have hwf1 : (core (entry cfg .pg s f t0).1).WF cfg := by rw [h1]; exact entryCore_wf cfg f _ hwf
      have hk := restored_calls_pg cfg hf hfix hfin kids (entry cfg .pg s f t0).1 hwf1
      simp only [hp, ↓reduceIte]
      rw [core_exit cfg hf, hk, h1, exitCore_entryCore cfg f _ hwf]
    · have hp' : (entry cfg .pg s f t0).2 = false := by simpa using hp
      have h1 := core_entry_pg_nopush cfg hf hfix s f t0 hp'
      have hk := restored_calls_pg cfg hf hfix hfin kids (entry cfg .pg s f t0).1 (by rw [h1]; exact hwf)
      simp only [hp', Bool.false_eq_true, ↓reduceIte]
      rw [hk, h1]
theorem restored_calls_pg (cfg : Cfg) (hf : cfg.fast = false) (hfix : cfg.f4fixed = true)
    (hfin : ∀ f, (cfg.trig f).finish = false) :
    ∀ (cs : Calls) (s : St), (core s).WF cfg → core (runCalls cfg .pg s cs) = core s
  | .nil, s, _ => rfl
  | .cons c rest, s, hwf => by
    have h1 := restored_call_pg cfg hf hfix hfin c s hwf
    have h2 := restored_calls_pg cfg hf hfix hfin rest (runCall cfg .pg s c) (by rw [h1]; exact hwf)
    simp only [runCalls]
    rw [h2, h1]
end

/-- C05, state restoration for the -pg / -mfentry / patched-entry hooks (code
    with the repair of F4): the filter state after any call equals the state
    before it — for every trigger table, option set and call tree. Together
    with `c05_state_restored_cyg` this covers every instrumentation method. -/
theorem c05_state_restored_pg (cfg : Cfg) (hf : cfg.fast = false) (hfix : cfg.f4fixed = true)
    (hfin : ∀ f, (cfg.trig f).finish = false) (c : Call) (s : St) (hwf : (core s).WF cfg) :
    core (runCall cfg .pg s c) = core s :=
  restored_call_pg cfg hf hfix hfin c s hwf

/-- both hook families agree on the filter state after any forest: what the next
    sibling call sees does not depend on the instrumentation method -/
theorem c05_method_independent_state (cfg : Cfg) (hf : cfg.fast = false) (hfix : cfg.f4fixed = true)
    (hfin : ∀ f, (cfg.trig f).finish = false) (cs : Calls) :
    core (runCalls cfg .pg (St.init cfg) cs) = core (runCalls cfg .cyg (St.init cfg) cs) := by
  rw [restored_calls_pg cfg hf hfix hfin cs _ (Or.inl rfl), restored_calls cfg hf hfin cs _ (Or.inl rfl)]

/-- non-vacuity: the F4 configuration satisfies the hypotheses (no finish trigger, regular build) -/
example : cfgFL.fast = false ∧ ∀ f, (cfgFL.trig f).finish = false := by
  refine ⟨rfl, fun f => ?_⟩
  simp only [cfgFL]; split <;> (try split) <;> rfl

end Uft.C05
