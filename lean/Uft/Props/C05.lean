import Uft.Lemmas.Mcount
import Uft.Lemmas.McountCore
import Uft.Lemmas.McountRestore
import Uft.Lemmas.McountUnwind
import Uft.Lemmas.FstackRecord
import Uft.Lemmas.StreamShape
/- C05 — Record-time filters and triggers select exactly the documented calls. -/
namespace Uft.C05
open Uft.Mcount

/-- cfg of finding F4: `-F a -L other.c`; `a` (function 0) is not in the location set -/
def cfgFL : Cfg :=
  { optIn := true, locIn := true, f4fixed := false,
    trig := fun f => if f = 0 then { filter := some true } else if f = 2 then { loc := some true } else {} }

/-- F4 witness (code before the repair, `f4fixed := false`): on the -pg/fentry
    path a call of `a` leaves in_count = 1 behind (no frame is pushed, so nothing
    ever undoes the increment); the cygprof path restores the state. -/
theorem c05_pg_leak_witness :
    (runCall cfgFL .pg (St.init cfgFL) (.node 0 10 20 .nil)).filt.inCount = 1 ∧
    (runCall cfgFL .cyg (St.init cfgFL) (.node 0 10 20 .nil)).filt.inCount = 0 := by
  decide

/-
The filter state (`core`: in/out counts, depth, max-depth, time and size
thresholds, record index, shadow-stack shape with each frame's saved values) of
a thread after a call returned equals the state before the call — for every
trigger table (any mix of filter / notrace / depth / time / size / trace /
trace_on / trace_off / caller / location triggers; `finish` excluded, it ends
tracing), every option set, every call tree (any depth, also beyond
--max-stack), for the hook family that pushes a frame for every call
(-finstrument-functions / xray).  This is "a filter hit never leaks into later
sibling calls".
-/
/-- C05, state restoration: see the comment above `restored_call`. -/
theorem c05_state_restored_cyg (cfg : Cfg) (hf : cfg.fast = false)
    (hfin : ∀ f, (cfg.trig f).finish = false) (c : Call) (s : St) (hwf : (core s).WF cfg) :
    core (runCall cfg .cyg s c) = core s :=
  restored_call cfg hf hfin c s hwf

/-- … in particular from a fresh thread, after any forest of calls, the filter
    state is the initial one. -/
theorem c05_forest_restores_initial_cyg (cfg : Cfg) (hf : cfg.fast = false)
    (hfin : ∀ f, (cfg.trig f).finish = false) (cs : Calls) :
    core (runCalls cfg .cyg (St.init cfg) cs) = core (St.init cfg) :=
  restored_calls cfg hf hfin cs (St.init cfg) (Or.inl rfl)

/-- C05, state restoration for the -pg / -mfentry / patched-entry hooks (code
    with the repair of F4): the filter state after any call equals the state
    before it — for every trigger table, option set and call tree. Together
    with `c05_state_restored_cyg` this covers every instrumentation method. -/
theorem c05_state_restored_pg (cfg : Cfg) (hf : cfg.fast = false) (hfix : cfg.f4fixed = true)
    (hfin : ∀ f, (cfg.trig f).finish = false) (c : Call) (s : St) (hwf : (core s).WF cfg) :
    core (runCall cfg .pg s c) = core s :=
  restored_call_pg cfg hf hfix hfin c s hwf

/-- both hook families agree on the filter state after any forest: what the next
    sibling call sees does not depend on the instrumentation method -/
theorem c05_method_independent_state (cfg : Cfg) (hf : cfg.fast = false) (hfix : cfg.f4fixed = true)
    (hfin : ∀ f, (cfg.trig f).finish = false) (cs : Calls) :
    core (runCalls cfg .pg (St.init cfg) cs) = core (runCalls cfg .cyg (St.init cfg) cs) := by
  rw [restored_calls_pg cfg hf hfix hfin cs _ (Or.inl rfl), restored_calls cfg hf hfin cs _ (Or.inl rfl)]

/-- non-vacuity: the F4 configuration satisfies the hypotheses (no finish trigger, regular build) -/
example : cfgFL.fast = false ∧ ∀ f, (cfgFL.trig f).finish = false := by
  refine ⟨rfl, fun f => ?_⟩
  simp only [cfgFL]; split <;> (try split) <;> rfl

/-!
Part 3: the recorded *output*.  `Uft.Fstack.spec` is the documented selection (one definition,
`Uft/Model/Fstack.lean`: -F opens, -N closes, -D budgets from the nearest -F, -t prunes calls
that ran under the threshold unless a kept call is below them); `record_out`
(`Uft/Lemmas/FstackRecord.lean`, proved for C07) says the hooks write exactly it.  Restated
here because these are C05's clauses: the trace is the documented selection, it does not
depend on the instrumentation method, and it is well nested (every recorded call has its
recorded ancestors around it, at depth = number of recorded ancestors).
-/
open Uft.Fstack in
/-- **The recorded trace is exactly the documented selection**, for every table of -F / -N
    entries, every -D and -t, both hook families, every forest of properly nested calls within
    --max-stack (`≥ threshold` for the repaired hooks, `>` for the code before S4's repair). -/
theorem c05_records_documented_selection (cfg : Cfg) (h : FND cfg) (k : Kind) (cs : Calls) (n : Nat)
    (hh : cs.height ≤ cfg.maxStack) (hn : Calls.allDurLe n cs) :
    (runCalls cfg k (St.init cfg) cs).out = spec (RCfg.ofRecord cfg) (!cfg.s4fixed) cs :=
  record_out cfg h k cs n hh hn

open Uft.Fstack in
/-- **The trace does not depend on the instrumentation method**: -pg / -mfentry / patched
    entries and -finstrument-functions write the same records (same hypotheses). -/
theorem c05_method_independent_output (cfg : Cfg) (h : FND cfg) (cs : Calls) (n : Nat)
    (hh : cs.height ≤ cfg.maxStack) (hn : Calls.allDurLe n cs) :
    (runCalls cfg .pg (St.init cfg) cs).out = (runCalls cfg .cyg (St.init cfg) cs).out := by
  rw [record_out cfg h .pg cs n hh hn, record_out cfg h .cyg cs n hh hn]

open Uft.Fstack in
mutual
theorem nest_specCall (c : RCfg) : ∀ (x : Call) (E : Env) (st : List Nat),
    nestRun (some st) (specCall c E st.length x) = some st
  | .node f t0 t1 kids, E, st => by
    simp only [specCall]
    split
    · have hk := nest_specCalls c kids (visit c E f).2 (f :: st)
      simp only [List.length_cons] at hk
      simp only [nestRun_append]
      have h1 : nestRun (some st) [{ time := t0, type := 0, depth := st.length, addr := f }] = some (f :: st) := by
        simp [nestRun, nestStep]
      rw [h1, hk]
      simp [nestRun, nestStep]
    · exact nest_specCalls c kids (visit c E f).2 st
theorem nest_specCalls (c : RCfg) : ∀ (xs : Calls) (E : Env) (st : List Nat),
    nestRun (some st) (specCalls c E st.length xs) = some st
  | .nil, _, st => by simp [specCalls, nestRun]
  | .cons x rest, E, st => by
    simp only [specCalls, nestRun_append]
    rw [nest_specCall c x E st, nest_specCalls c rest E st]
end

open Uft.Fstack in
/-- **Recorded ancestors are present**: under any -F / -N / -D / -t the written stream is well
    nested — every EXIT closes the innermost open recorded call with the same address, and every
    record's depth is the number of recorded calls open around it (checked by the independent
    stack machine `WellNested`). -/
theorem c05_filtered_stream_well_nested (cfg : Cfg) (h : FND cfg) (k : Kind) (cs : Calls) (n : Nat)
    (hh : cs.height ≤ cfg.maxStack) (hn : Calls.allDurLe n cs) :
    WellNested (runCalls cfg k (St.init cfg) cs).out := by
  rw [record_out cfg h k cs n hh hn]
  exact nest_specCalls _ _ _ []

open Uft.Fstack in
/-- non-vacuity: `-F f1 -N f3 -D 2 -t 5` with a three-level forest meets the hypotheses, and the
    selection is neither empty nor everything -/
example :
    let cfg : Cfg := { depthOpt := 2, threshold := 5, optIn := true,
                       trig := fun f => { filter := if f = 1 then some true else if f = 3 then some false else none } }
    let cs : Calls := .cons (.node 1 10 60 (.cons (.node 2 20 40 (.cons (.node 3 25 28 .nil) .nil)) .nil)) .nil
    spec (RCfg.ofRecord cfg) false cs =
      [⟨10, 0, 0, 1⟩, ⟨20, 0, 1, 2⟩, ⟨40, 1, 1, 2⟩, ⟨60, 1, 0, 1⟩] := by
  decide

/-!
Part 4: frames that hold filter state and are left by something other than their return — a C++
exception unwinds them (`unwindExc` = the loop of mcount_rstack_rehook_exception: every dropped frame
goes through mcount_exit_filter_record), a longjmp abandons them (`jmpRestore` =
restore_jmpbuf_rstack).  "The filter state after a function returns equals the state before it was
called, so a filter hit never leaks into later sibling calls" has to hold for these exits too,
otherwise an exception passing through a `-N` function switches the rest of the trace off.
-/

/-- **State restoration across exception unwinding**: for every stack (any thread state `s`), every chain
    of nested calls entered from it (each after any forest of completed calls; `runOpen`) and every
    trigger table / option set, after the frames of the chain have been dropped the way
    mcount_rstack_rehook_exception drops them the filter state (in/out counts, depth, max-depth, time,
    size, record index, saved values of the frames below) equals the state before the outermost of the
    unwound calls was entered. -/
theorem c05_state_restored_unwind (cfg : Cfg) (hf : cfg.fast = false) (hfix : cfg.f4fixed = true)
    (hfin : ∀ f, (cfg.trig f).finish = false) (p : List OpenCall) (s : St) (ho : s.over = 0)
    (ts : List Nat) (hl : ts.length = (runOpen cfg .pg s p).2) :
    core (unwindExc cfg (runOpen cfg .pg s p).1 ts) = core s :=
  (restored_unwind cfg hf hfix hfin p s ts ho hl).1

/-- Dropping frames by exception unwinding is the sequence of their exit hooks (the whole thread state:
    also the records written) — for every state, no hypothesis on how it was reached. -/
theorem c05_unwind_is_return (cfg : Cfg) (hf : cfg.fast = false) (ts : List Nat) (s : St) (ho : s.over = 0) :
    unwindExc cfg s ts = ts.foldl (exit cfg) s :=
  unwindExc_eq_exits cfg hf ts s ho

/-- **A history with an exception is recorded as the history in which the unwound calls returned** when
    their frames were dropped (`closePath p ts` is that call tree): same records, same state. -/
theorem c05_exception_trace_eq_returns (cfg : Cfg) (hf : cfg.fast = false) (hfix : cfg.f4fixed = true)
    (hfin : ∀ f, (cfg.trig f).finish = false) (p : List OpenCall) (ts : List Nat) (s : St) (ho : s.over = 0)
    (hl : ts.length = p.length) :
    unwindExc cfg (runOpen cfg .pg s p).1 (openTimes cfg .pg s p ts) = runCalls cfg .pg s (closePath p ts) :=
  unwind_eq_returns cfg hf hfix hfin p ts s ho hl

open Uft.Fstack in
/-- … so **the record stream stays well nested and is the documented selection** of that history, under
    any -F / -N / -D / -t (the class `FND`; same hypotheses on the closed history as
    `c05_records_documented_selection`). -/
theorem c05_exception_stream_well_nested (cfg : Cfg) (h : FND cfg) (hfix : cfg.f4fixed = true)
    (hfin : ∀ f, (cfg.trig f).finish = false) (hf : cfg.fast = false)
    (p : List OpenCall) (ts : List Nat) (hl : ts.length = p.length) (n : Nat)
    (hh : (closePath p ts).height ≤ cfg.maxStack) (hn : Calls.allDurLe n (closePath p ts)) :
    (unwindExc cfg (runOpen cfg .pg (St.init cfg) p).1 (openTimes cfg .pg (St.init cfg) p ts)).out =
      spec (RCfg.ofRecord cfg) (!cfg.s4fixed) (closePath p ts) ∧
    WellNested (unwindExc cfg (runOpen cfg .pg (St.init cfg) p).1 (openTimes cfg .pg (St.init cfg) p ts)).out := by
  rw [unwind_eq_returns cfg hf hfix hfin p ts (St.init cfg) rfl hl]
  exact ⟨record_out cfg h .pg _ n hh hn, c05_filtered_stream_well_nested cfg h .pg _ n hh hn⟩

/-- `-N f1` -/
def cfgN1 : Cfg := { trig := fun f => if f = 1 then { filter := some false } else {} }

/-- non-vacuity of `c05_state_restored_unwind`: under `-N f1`, f0 { f1 { f2 } } with the exception thrown
    in f2 and caught in f0: two frames are unwound (f2 has none: it is rejected while out_count > 0 …
    the hook pushes nothing), out_count is 1 before and 0 after -/
example :
    let p : List OpenCall := [⟨1, 1010, .nil⟩, ⟨2, 1020, .nil⟩]
    let s0 := (entry cfgN1 .pg (St.init cfgN1) 0 1000).1
    s0.over = 0 ∧ (runOpen cfgN1 .pg s0 p).2 = 1 ∧ (runOpen cfgN1 .pg s0 p).1.filt.outCount = 1 ∧
    (unwindExc cfgN1 (runOpen cfgN1 .pg s0 p).1 [1030]).filt.outCount = 0 := by decide

/-- main f0 calls setjmp, then f1 (the `-N` function) which calls longjmp; back in f0 -/
def ljRun (fx : NLFix) : St :=
  let s0 := (entry cfgN1 .pg (St.init cfgN1) 0 1000).1
  let e := (pltEntry cfgN1 s0 101 1010 false).1
  let sv := jmpSave e
  let s1 := exit cfgN1 e 1010
  let s2 := (entry cfgN1 .pg s1 1 1020).1
  let s3 := (pltEntry cfgN1 s2 102 1030 true).1
  exit cfgN1 (jmpRestore fx s3 sv) 1030

/-- finding C05-LONGJMP-FILTER-LEAK (pre-fix witness): restore_jmpbuf_rstack as found leaves the
    out_count of the abandoned `-N` frame behind (every later call of the thread is rejected); with the
    repair (`ljCounts`) the filter state is the one f0 had before it called setjmp. -/
theorem c05_prefix_longjmp_leak_witness :
    (ljRun { ljCounts := false }).filt.outCount = 1 ∧
    (ljRun { ljCounts := true }).filt.outCount = 0 ∧
    core (ljRun { ljCounts := true }) = core (entry cfgN1 .pg (St.init cfgN1) 0 1000).1 := by decide

/-- **State restoration across longjmp** (restore_jmpbuf_rstack with the repair of C05-LONGJMP-FILTER-LEAK):
    from any thread state `s0`, setjmp — a library call — is hooked and returns; then any chain of nested
    calls is entered (each after any forest of completed calls: `runOpen`) and the innermost calls longjmp.
    After restore_jmpbuf_rstack and the second return of setjmp the filter state (counts, depth, max-depth,
    time, size, record index, the frames below) is the one `s0` had: no -F / -N / depth= / time= / size= hit
    of an abandoned function leaks into what follows the landing.  For every trigger table and option set. -/
theorem c05_state_restored_longjmp (cfg : Cfg) (hf : cfg.fast = false) (hfix : cfg.f4fixed = true)
    (hfin : ∀ f, (cfg.trig f).finish = false) (s0 : St) (ho : s0.over = 0) (sj t0 t1 : Nat)
    (hsj : (pltEntry cfg s0 sj t0 false).2 = true) (p : List OpenCall) (lj t2 t3 : Nat) (fl : Bool)
    (hlj : (pltEntry cfg (runOpen cfg .pg (exit cfg (pltEntry cfg s0 sj t0 false).1 t1) p).1 lj t2 fl).2 = true) :
    core (exit cfg (jmpRestore { ljCounts := true }
      (pltEntry cfg (runOpen cfg .pg (exit cfg (pltEntry cfg s0 sj t0 false).1 t1) p).1 lj t2 fl).1
      (jmpSave (pltEntry cfg s0 sj t0 false).1)) t3) = core s0 :=
  restored_longjmp cfg hf hfix hfin s0 ho sj t0 t1 hsj p lj t2 t3 fl { ljCounts := true } rfl hlj

/-- non-vacuity: the history of `ljRun` (`-N f1`; f0 calls setjmp, then f1, which calls longjmp) meets the
    hypotheses: both library calls are hooked -/
example :
    let s0 := (entry cfgN1 .pg (St.init cfgN1) 0 1000).1
    s0.over = 0 ∧ (pltEntry cfgN1 s0 101 1010 false).2 = true ∧
    (pltEntry cfgN1 (runOpen cfgN1 .pg (exit cfgN1 (pltEntry cfgN1 s0 101 1010 false).1 1010) [⟨1, 1020, .nil⟩]).1
      102 1030 true).2 = true := by decide

/-- a hooked library call (setjmp, longjmp, any PLT function) acts on the filter state as the
    -finstrument-functions hook does: a frame is pushed also for a rejected call -/
theorem c05_library_call_state (cfg : Cfg) (hf : cfg.fast = false) (s : St) (a t : Nat) (fl : Bool)
    (hfin : (cfg.trig a).finish = false) (htook : (pltEntry cfg s a t fl).2 = true) :
    core (pltEntry cfg s a t fl).1 = core (entry cfg .cyg s a t).1 := by
  rw [core_pltEntry cfg hf s a t fl hfin htook, core_entry_cyg cfg hf s a t hfin]

/-- f0 { f2 { f1 { f5 throws } } }: the exception unwinds f5 and f1; the landing pad of f2 calls f3 (a destructor) -/
def padRun (cfg : Cfg) (fx : NLFix) : St × Bool :=
  let s := (entry cfg .pg (St.init cfg) 0 1000).1
  let s := (entry cfg .pg s 2 1010).1
  let s := (entry cfg .pg s 1 1020).1
  let s := (entry cfg .pg s 5 1025).1
  let r := padEntryPg cfg fx s 3 1030 [1030, 1030]
  (r.1, r.2.1)

/-- finding C05-EXC-PAD-FILTER (pre-fix witness): as found the filter check of a call made from a landing
    pad runs before the unwound frames are dropped.  Under `-D 4` the destructor (a child of f2, depth 3)
    is rejected because the dead f5 sits at depth 4; under `-D 5` it is taken, but the depth saved for its
    exit is the dead callee's: after it returned f2 goes on at filter depth 4 instead of 2, so f2's later
    callees lose their children.  With the repair (`padOrder`) it is taken and f2 goes on at depth 2. -/
theorem c05_prefix_exc_pad_witness :
    (padRun { depthOpt := 4 } { padOrder := false }).2 = false ∧
    (padRun { depthOpt := 4 } { padOrder := true }).2 = true ∧
    (exit { depthOpt := 5 } (padRun { depthOpt := 5 } { padOrder := false }).1 1040).filt.depth = 4 ∧
    (exit { depthOpt := 5 } (padRun { depthOpt := 5 } { padOrder := true }).1 1040).filt.depth = 2 := by decide

/-- with the repaired order a call from a landing pad is, by definition, the ordinary entry hook run after
    the unwound frames were dropped — so `c05_state_restored_unwind` describes the state it is filtered in -/
theorem c05_pad_entry_repaired (cfg : Cfg) (s : St) (addr now : Nat) (ts : List Nat) :
    (padEntryPg cfg { padOrder := true } s addr now ts).1 = (entry cfg .pg (unwindExc cfg s ts) addr now).1 := rfl

end Uft.C05
