import Uft.Lemmas.Mcount
import Uft.Lemmas.McountCore
import Uft.Lemmas.McountRestore
import Uft.Lemmas.FstackRecord
import Uft.Lemmas.StreamShape
/- C05 — Record-time filters and triggers select exactly the documented calls. -/
namespace Uft.C05
open Uft.Mcount

/-- cfg of finding F4: `-F a -L other.c`; `a` (function 0) is not in the location set -/
def cfgFL : Cfg :=
  { optIn := true, locIn := true, f4fixed := false,
    trig := fun f => if f = 0 then { filter := some true } else if f = 2 then { loc := some true } else {} }

/-- F4 witness (code before the repair, `f4fixed := false`): on the -pg/fentry
    path a call of `a` leaves in_count = 1 behind (no frame is pushed, so nothing
    ever undoes the increment); the cygprof path restores the state. -/
theorem c05_pg_leak_witness :
    (runCall cfgFL .pg (St.init cfgFL) (.node 0 10 20 .nil)).filt.inCount = 1 ∧
    (runCall cfgFL .cyg (St.init cfgFL) (.node 0 10 20 .nil)).filt.inCount = 0 := by
  decide

/-
The filter state (`core`: in/out counts, depth, max-depth, time and size
thresholds, record index, shadow-stack shape with each frame's saved values) of
a thread after a call returned equals the state before the call — for every
trigger table (any mix of filter / notrace / depth / time / size / trace /
trace_on / trace_off / caller / location triggers; `finish` excluded, it ends
tracing), every option set, every call tree (any depth, also beyond
--max-stack), for the hook family that pushes a frame for every call
(-finstrument-functions / xray).  This is "a filter hit never leaks into later
sibling calls".
-/
/-- C05, state restoration: see the comment above `restored_call`. -/
theorem c05_state_restored_cyg (cfg : Cfg) (hf : cfg.fast = false)
    (hfin : ∀ f, (cfg.trig f).finish = false) (c : Call) (s : St) (hwf : (core s).WF cfg) :
    core (runCall cfg .cyg s c) = core s :=
  restored_call cfg hf hfin c s hwf

/-- … in particular from a fresh thread, after any forest of calls, the filter
    state is the initial one. -/
theorem c05_forest_restores_initial_cyg (cfg : Cfg) (hf : cfg.fast = false)
    (hfin : ∀ f, (cfg.trig f).finish = false) (cs : Calls) :
    core (runCalls cfg .cyg (St.init cfg) cs) = core (St.init cfg) :=
  restored_calls cfg hf hfin cs (St.init cfg) (Or.inl rfl)

/-- C05, state restoration for the -pg / -mfentry / patched-entry hooks (code
    with the repair of F4): the filter state after any call equals the state
    before it — for every trigger table, option set and call tree. Together
    with `c05_state_restored_cyg` this covers every instrumentation method. -/
theorem c05_state_restored_pg (cfg : Cfg) (hf : cfg.fast = false) (hfix : cfg.f4fixed = true)
    (hfin : ∀ f, (cfg.trig f).finish = false) (c : Call) (s : St) (hwf : (core s).WF cfg) :
    core (runCall cfg .pg s c) = core s :=
  restored_call_pg cfg hf hfix hfin c s hwf

/-- both hook families agree on the filter state after any forest: what the next
    sibling call sees does not depend on the instrumentation method -/
theorem c05_method_independent_state (cfg : Cfg) (hf : cfg.fast = false) (hfix : cfg.f4fixed = true)
    (hfin : ∀ f, (cfg.trig f).finish = false) (cs : Calls) :
    core (runCalls cfg .pg (St.init cfg) cs) = core (runCalls cfg .cyg (St.init cfg) cs) := by
  rw [restored_calls_pg cfg hf hfix hfin cs _ (Or.inl rfl), restored_calls cfg hf hfin cs _ (Or.inl rfl)]

/-- non-vacuity: the F4 configuration satisfies the hypotheses (no finish trigger, regular build) -/
example : cfgFL.fast = false ∧ ∀ f, (cfgFL.trig f).finish = false := by
  refine ⟨rfl, fun f => ?_⟩
  simp only [cfgFL]; split <;> (try split) <;> rfl

/-!
Part 3: the recorded *output*.  `Uft.Fstack.spec` is the documented selection (one definition,
`Uft/Model/Fstack.lean`: -F opens, -N closes, -D budgets from the nearest -F, -t prunes calls
that ran under the threshold unless a kept call is below them); `record_out`
(`Uft/Lemmas/FstackRecord.lean`, proved for C07) says the hooks write exactly it.  Restated
here because these are C05's clauses: the trace is the documented selection, it does not
depend on the instrumentation method, and it is well nested (every recorded call has its
recorded ancestors around it, at depth = number of recorded ancestors).
-/
open Uft.Fstack in
/-- **The recorded trace is exactly the documented selection**, for every table of -F / -N
    entries, every -D and -t, both hook families, every forest of properly nested calls within
    --max-stack (`≥ threshold` for the repaired hooks, `>` for the code before S4's repair). -/
theorem c05_records_documented_selection (cfg : Cfg) (h : FND cfg) (k : Kind) (cs : Calls) (n : Nat)
    (hh : cs.height ≤ cfg.maxStack) (hn : Calls.allDurLe n cs) :
    (runCalls cfg k (St.init cfg) cs).out = spec (RCfg.ofRecord cfg) (!cfg.s4fixed) cs :=
  record_out cfg h k cs n hh hn

open Uft.Fstack in
/-- **The trace does not depend on the instrumentation method**: -pg / -mfentry / patched
    entries and -finstrument-functions write the same records (same hypotheses). -/
theorem c05_method_independent_output (cfg : Cfg) (h : FND cfg) (cs : Calls) (n : Nat)
    (hh : cs.height ≤ cfg.maxStack) (hn : Calls.allDurLe n cs) :
    (runCalls cfg .pg (St.init cfg) cs).out = (runCalls cfg .cyg (St.init cfg) cs).out := by
  rw [record_out cfg h .pg cs n hh hn, record_out cfg h .cyg cs n hh hn]

open Uft.Fstack in
mutual
theorem nest_specCall (c : RCfg) : ∀ (x : Call) (E : Env) (st : List Nat),
    nestRun (some st) (specCall c E st.length x) = some st
  | .node f t0 t1 kids, E, st => by
    simp only [specCall]
    split
    · have hk := nest_specCalls c kids (visit c E f).2 (f :: st)
      simp only [List.length_cons] at hk
      simp only [nestRun_append]
      have h1 : nestRun (some st) [{ time := t0, type := 0, depth := st.length, addr := f }] = some (f :: st) := by
        simp [nestRun, nestStep]
      rw [h1, hk]
      simp [nestRun, nestStep]
    · exact nest_specCalls c kids (visit c E f).2 st
theorem nest_specCalls (c : RCfg) : ∀ (xs : Calls) (E : Env) (st : List Nat),
    nestRun (some st) (specCalls c E st.length xs) = some st
  | .nil, _, st => by simp [specCalls, nestRun]
  | .cons x rest, E, st => by
    simp only [specCalls, nestRun_append]
    rw [nest_specCall c x E st, nest_specCalls c rest E st]
end

open Uft.Fstack in
/-- **Recorded ancestors are present**: under any -F / -N / -D / -t the written stream is well
    nested — every EXIT closes the innermost open recorded call with the same address, and every
    record's depth is the number of recorded calls open around it (checked by the independent
    stack machine `WellNested`). -/
theorem c05_filtered_stream_well_nested (cfg : Cfg) (h : FND cfg) (k : Kind) (cs : Calls) (n : Nat)
    (hh : cs.height ≤ cfg.maxStack) (hn : Calls.allDurLe n cs) :
    WellNested (runCalls cfg k (St.init cfg) cs).out := by
  rw [record_out cfg h k cs n hh hn]
  exact nest_specCalls _ _ _ []

open Uft.Fstack in
/-- non-vacuity: `-F f1 -N f3 -D 2 -t 5` with a three-level forest meets the hypotheses, and the
    selection is neither empty nor everything -/
example :
    let cfg : Cfg := { depthOpt := 2, threshold := 5, optIn := true,
                       trig := fun f => { filter := if f = 1 then some true else if f = 3 then some false else none } }
    let cs : Calls := .cons (.node 1 10 60 (.cons (.node 2 20 40 (.cons (.node 3 25 28 .nil) .nil)) .nil)) .nil
    spec (RCfg.ofRecord cfg) false cs =
      [⟨10, 0, 0, 1⟩, ⟨20, 0, 1, 2⟩, ⟨40, 1, 1, 2⟩, ⟨60, 1, 0, 1⟩] := by
  decide

end Uft.C05
