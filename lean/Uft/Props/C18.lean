import Uft.Lemmas.Script
import Uft.Props.C07
/- C18 — Scripts observe the same calls as replay.

   Model: Uft/Model/Script.lean (`scriptRun` = command_script + run_script_for_rstack over
   the merged record stream, `replayShown` = command_replay --no-merge over the same
   stream, both on the fstack model of that file; `Hook.runCallH` = the record-time
   script hooks on top of the libmcount hook model Uft.Mcount). -/
namespace Uft.C18
open Uft.Script

/-- C18 (a): for every merged record stream and every option set (-F / -N / -D /
    --no-args; the -t look-ahead and the merge happen in read_rstack, before either
    loop sees a record) a script without a function list gets uftrace_begin, then exactly
    one uftrace_entry / uftrace_exit per line that replay shows for the same stream, in
    the same order and with the same tid, depth, timestamp, duration, address (= name) and
    argument / return value payload, then uftrace_end; and both commands leave every
    task in the same state.  (cmds/script.c with the repair of F-C18-ARGS.) -/
theorem c18_callbacks_eq_replay (cfg : Cfg) (hf : cfg.funcs = []) (ha : cfg.argsFixed = true)
    (hx : cfg.exitAddrFixed = true) (s : List (Nat × Rec)) :
    (scriptRun cfg s).2 = .begin :: (replayShown cfg s).2.map Shown.toCb ++ [.end_] ∧
    (scriptRun cfg s).1 = (replayShown cfg s).1 := by
  have h := runWith_map (scriptTask cfg) (replayTask cfg) Shown.toCb
    (scriptTask_fst_eq_replay cfg) (scriptTask_snd_eq_replay cfg hf ha hx) s (g0 cfg)
  simp only [scriptRun, replayShown, h.1, h.2, and_self]


/-! ### data with fix-up records: setjmp / longjmp, exec, fork

On data where replay's depth is not the number of open calls: calls of `setjmp` / `longjmp` (and their
sig / underscore / _chk variants), `exec*`, `fork` / `vfork` / `daemon`, recognised by symbol name
(`cfg.fix`), and tasks forked from other tasks (`cfg.parent`).  `scriptRunX` / `replayShownX` are the two
loops with the fix-ups of fstack_entry / fstack_update / fstack_account_time (Model/Script.lean, "fix-up
records"; the depth logic is that of the replay automaton `NonLocal.rstep` of C11 with one global setjmp
depth, as the code has it). -/

/-- C18 (a) with fix-up records, `c18_depth_matches_replay_fixups`: for every merged stream — with any
    number of setjmp / longjmp / exec / fork calls in any task, longjmp to any jmp_buf, forked children
    that start with the EXIT of fork, any -F / -N / -D / --no-args — the script gets, between uftrace_begin
    and uftrace_end, exactly one callback per line replay shows, with the same tid, **depth**, timestamp,
    duration, address and payload: the depth of the entry callback of a longjmp / exec call is the display
    depth at which replay prints that call (the depth *before* fstack_update moves the task to the setjmp
    depth / to 0), the callbacks after it are at the depth replay shows after the jump, and a forked child
    starts at its parent's fork depth in both.  Both commands leave the tasks, the fork depths and the
    setjmp statics in the same state. -/
theorem c18_depth_matches_replay_fixups (cfg : Cfg) (hf : cfg.funcs = []) (ha : cfg.argsFixed = true)
    (hx : cfg.exitAddrFixed = true) (s : List (Nat × Rec)) :
    (scriptRunX cfg s).2 = .begin :: (replayShownX cfg s).2.map Shown.toCb ++ [.end_] ∧
    (scriptRunX cfg s).1 = (replayShownX cfg s).1 := by
  have h := runX_map (scriptTaskX cfg) (replayTaskX cfg) Shown.toCb
    (scriptTaskX_fst_eq_replay cfg) (scriptTaskX_snd_eq_replay cfg hf ha hx) s (x0 cfg)
  simp only [scriptRunX, replayShownX, h.1, h.2, and_self]

/-- main (0) { setjmp (4); alpha (1) { beta (2) { longjmp (5) → second return of setjmp; gamma (3) -/
def jmpStream : List (Nat × Rec) :=
  [(0, { time := 10, exit := false, depth := 0, addr := 0 }), (0, { time := 20, exit := false, depth := 1, addr := 4 }),
   (0, { time := 30, exit := true, depth := 1, addr := 4 }), (0, { time := 40, exit := false, depth := 1, addr := 1 }),
   (0, { time := 50, exit := false, depth := 2, addr := 2 }), (0, { time := 60, exit := false, depth := 3, addr := 5 }),
   (0, { time := 70, exit := true, depth := 1, addr := 4 }), (0, { time := 80, exit := false, depth := 1, addr := 3 }),
   (0, { time := 90, exit := true, depth := 1, addr := 3 })]

def jmpCfg : Cfg := { fix := fun a => if a = 4 then .setjmp else if a = 5 then .longjmp else .none }

/-- what the theorem says on `jmpStream` (non-vacuity, and the numbers): the longjmp entry callback has depth 3
    — one more than beta's, where replay prints it — although the task is at the setjmp depth afterwards: the
    second return of setjmp and gamma are at depth 1 -/
example : jmpCfg.funcs = [] ∧ jmpCfg.argsFixed = true ∧ jmpCfg.exitAddrFixed = true ∧
    ((scriptRunX jmpCfg jmpStream).2.filterMap fun cb => match cb with
        | .entry c => some (c.addr, c.depth) | .exit c => some (c.addr, c.depth) | _ => none) =
      [(0, 0), (4, 1), (4, 1), (1, 1), (2, 2), (5, 3), (4, 1), (3, 1), (3, 1)] := by
  refine ⟨rfl, rfl, rfl, by decide⟩

/-- without fix-up symbols and forked tasks the loops with the fix-up logic are the loops of
    `c18_callbacks_eq_replay`: same callbacks, same lines, same task states -/
theorem c18_fixups_conservative (cfg : Cfg) (h : NoFix cfg) (s : List (Nat × Rec)) :
    (scriptRunX cfg s).2 = (scriptRun cfg s).2 ∧ (scriptRunX cfg s).1.g = (scriptRun cfg s).1 ∧
    (replayShownX cfg s).2 = (replayShown cfg s).2 ∧ (replayShownX cfg s).1.g = (replayShown cfg s).1 := by
  have a := runX_nofix (scriptTaskX cfg) (scriptTask cfg) (scriptTaskX_nofix cfg h) s (x0 cfg)
  have b := runX_nofix (replayTaskX cfg) (replayTask cfg) (replayTaskX_nofix cfg h) s (x0 cfg)
  refine ⟨?_, ?_, ?_, ?_⟩
  · simp only [scriptRunX, scriptRun, a.1]; rfl
  · simp only [scriptRunX, scriptRun, a.2]; rfl
  · simp only [replayShownX, replayShown, b.1]; rfl
  · simp only [replayShownX, replayShown, b.2]; rfl

example : NoFix ({} : Cfg) := ⟨fun _ => rfl, fun _ => rfl⟩

/-- main (0) { fork (7) } in task 0; task 1, forked from it, starts with the EXIT of fork -/
def forkStream : List (Nat × Rec) :=
  [(0, { time := 10, exit := false, depth := 0, addr := 0 }), (0, { time := 20, exit := false, depth := 1, addr := 7 }),
   (1, { time := 25, exit := true, depth := 1, addr := 7 }), (0, { time := 30, exit := true, depth := 1, addr := 7 }),
   (1, { time := 35, exit := true, depth := 0, addr := 0 })]

def forkCfg (fixed : Bool) : Cfg :=
  { fix := fun a => if a = 7 then .fork else .none, parent := fun i => if i = 1 then some 0 else none,
    exitAddrFixed := fixed }

/-- F-C18-EXIT-ADDR witness (cmds/replay.c before the repair, `exitAddrFixed = false`): the child's first line,
    `} /* fork */`, carries address 0 — its frame's slot was never filled by an ENTRY — and so does the EXIT of the
    inherited main, while the script's callbacks carry the records' addresses 7 and 0 (depths agree: 1, 0); with
    the repair replay prints 7 -/
theorem c18_prefix_exit_addr_witness :
    ((replayShownX (forkCfg false) forkStream).2.map fun l => (l.tid, l.exit, l.depth, l.addr)) =
      [(0, false, 0, 0), (0, false, 1, 7), (1, true, 1, 0), (0, true, 1, 7), (1, true, 0, 0)] ∧
    ((scriptRunX (forkCfg false) forkStream).2.filterMap fun cb => match cb with
        | .entry c => some (c.tid, false, c.depth, c.addr) | .exit c => some (c.tid, true, c.depth, c.addr) | _ => none) =
      [(0, false, 0, 0), (0, false, 1, 7), (1, true, 1, 7), (0, true, 1, 7), (1, true, 0, 0)] ∧
    ((replayShownX (forkCfg true) forkStream).2.map fun l => (l.tid, l.exit, l.depth, l.addr)) =
      [(0, false, 0, 0), (0, false, 1, 7), (1, true, 1, 7), (0, true, 1, 7), (1, true, 0, 0)] := by
  decide

/-! ### against the independent model of replay (C07)

`c18_callbacks_eq_replay` above compares two transcriptions of cmds/script.c and of
cmds/replay.c --no-merge onto one automaton of this file; what could differ in C — replay's
fstack_skip look-ahead and leaf folding — is not in it.  The C07 model (Uft/Model/Fstack.lean)
has that algorithm (`stepB`, `checkSkip`, the pending ENTRY) and the look-ahead of
get_task_ustack with uint64 time differences, and Props/C07 proves that replay shows what the
script loop accepts.  The two theorems below tie this file's script model to it. -/
section AgainstC07
open Uft.Fstack Uft.Script.Bridge
open Uft.Mcount (Calls evCalls)

/-- one task's record file as the merged stream of task `i`, after the reader's look-ahead -/
def streamOf (cfg : Cfg) (thr i : Nat) (rs : List Uft.Mcount.Rec) : List (Nat × Rec) :=
  (lookahead (toRCfg cfg thr) rs).map fun r => (i, conv r)

/-- C18 (a'), refinement: on the record file of every call forest, for every -F / -N table, -D
    and -t, the entry / exit callbacks of this model's script loop — time, kind, function,
    display depth — are exactly the records the script loop of the C07 model (`cmdOut … .script`)
    passes on.  Two independently written models of cmds/script.c + utils/fstack.c (array of
    frames indexed by stack_count here, list of entered calls and a verdict enumeration there)
    agree. -/
theorem c18_script_refines_c07 (cfg : Cfg) (thr i : Nat) (hf : cfg.funcs = []) (hd : cfg.dispSet0 = true)
    (xs : Calls) (ho : Calls.ordered xs) :
    cbRecs (scriptRun cfg (streamOf cfg thr i (evCalls 0 xs))).2 = cmdOut (toRCfg cfg thr) .script (evCalls 0 xs) := by
  have hla := lookahead_forest (toRCfg cfg thr) ⟨rfl, rfl⟩ xs ho
  have hs : streamOf cfg thr i (evCalls 0 xs) =
      ((evCalls 0 (pruneCalls (toRCfg cfg thr) false (toRCfg cfg thr).threshold xs)).map conv).map fun r => (i, r) := by
    simp [streamOf, hla, List.map_map, Function.comp_def]
  show cbRecs (Cb.begin :: (runWith (scriptTask cfg) (g0 cfg) (streamOf cfg thr i (evCalls 0 xs))).2 ++ [Cb.end_]) =
    runSteps (stepC (toRCfg cfg thr)) (FS.init (toRCfg cfg thr)) (lookahead (toRCfg cfg thr) (evCalls 0 xs))
  rw [hs, runWith_single, hla]
  have := script_refines_c07 cfg thr i hf hd (pruneCalls (toRCfg cfg thr) false (toRCfg cfg thr).threshold xs)
  simp only [cbRecs, List.flatMap_cons, List.flatMap_append, cbRec, List.nil_append, List.flatMap_nil,
    List.append_nil] at this ⊢
  exact this

/-- C18 (a''), the headline against replay's own algorithm: for every option set over -F / -N /
    -D / -t and every call forest, the script's entry / exit callbacks are — in order, with time,
    kind, function and display depth — exactly the lines the C07 model of `uftrace replay`
    prints, with its fstack_skip look-ahead and leaf folding (a folded `f();` counts as its
    ENTRY and EXIT line) as well as with --no-merge.  Through `c07_commands_agree_traceoff`. -/
theorem c18_callbacks_eq_replay_c07 (cfg : Cfg) (thr i : Nat) (noMerge : Bool) (hf : cfg.funcs = [])
    (hd : cfg.dispSet0 = true) (xs : Calls) (ho : Calls.ordered xs) :
    cbRecs (scriptRun cfg (streamOf cfg thr i (evCalls 0 xs))).2 =
      cmdOut { toRCfg cfg thr with noMerge := noMerge } .replay (evCalls 0 xs) := by
  have h1 := c18_script_refines_c07 cfg thr i hf hd xs ho
  have h2 := Uft.C07.c07_commands_agree_traceoff { toRCfg cfg thr with noMerge := noMerge } rfl ⟨rfl, rfl⟩ xs ho .script .replay
  rw [h1, ← h2]
  rfl

/-- non-vacuity: `-F f1 -D 2 -t 5` on a forest with a short leaf and a nested call -/
example :
    let cfg : Cfg := { filt := fun a => if a = 1 then some true else none, modeIn := true, depth := 2 }
    let xs : Calls := .cons (.node 0 10 90 (.cons (.node 1 20 60 (.cons (.node 2 30 33 .nil) (.cons (.node 3 40 50 .nil) .nil))) .nil)) .nil
    cfg.funcs = [] ∧ cfg.dispSet0 = true ∧ Calls.ordered xs ∧
    cbRecs (scriptRun cfg (streamOf cfg 5 7 (evCalls 0 xs))).2 =
      [{ time := 20, type := 0, depth := 0, addr := 1 }, { time := 40, type := 0, depth := 1, addr := 3 },
       { time := 50, type := 1, depth := 1, addr := 3 }, { time := 60, type := 1, depth := 0, addr := 1 }] := by
  refine ⟨rfl, rfl, by simp [Calls.ordered, Call.ordered], by decide⟩

end AgainstC07

/-- non-vacuity: the default configuration has no function list and the repaired test -/
example : ({} : Cfg).funcs = [] ∧ ({} : Cfg).argsFixed = true ∧ ({} : Cfg).exitAddrFixed = true := ⟨rfl, rfl, rfl⟩

/-- data as libmcount writes it when every argument fits: an ENTRY record has a payload
    exactly when its function has an argspec -/
def ArgsWF (cfg : Cfg) (s : List (Nat × Rec)) : Prop :=
  ∀ p ∈ s, p.2.exit = false → p.2.more = cfg.argTrig p.2.addr

theorem runWith_map_mem {α β : Type} (sa : Nat → TaskSt → Rec → TaskSt × List α)
    (sb : Nat → TaskSt → Rec → TaskSt × List β) (f : β → α)
    (h1 : ∀ i st r, (sa i st r).1 = (sb i st r).1) :
    ∀ (s : List (Nat × Rec)) (g : G),
      (∀ p ∈ s, ∀ st, (sa p.1 st p.2).2 = (sb p.1 st p.2).2.map f) →
      (runWith sa g s).1 = (runWith sb g s).1 ∧ (runWith sa g s).2 = (runWith sb g s).2.map f
  | [], g, _ => by simp [runWith]
  | (i, r) :: rest, g, h2 => by
    have ih := runWith_map_mem sa sb f h1 rest (upd g i (sb i (g i) r).1)
      (fun p hp st => h2 p (List.mem_cons_of_mem _ hp) st)
    have h0 := h2 (i, r) (List.mem_cons_self) (g i)
    simp only [runWith, h1, List.map_append]
    exact ⟨ih.1, by rw [ih.2, h0]⟩

/-- C18 (a) for the code before the repair of F-C18-ARGS (`argsFixed = false`): the same
    statement holds on data where ENTRY payloads and argspecs agree (`ArgsWF`) -/
theorem c18_callbacks_eq_replay_prefix_wfargs (cfg : Cfg) (hf : cfg.funcs = []) (hx : cfg.exitAddrFixed = true)
    (s : List (Nat × Rec)) (hw : ArgsWF cfg s) :
    (scriptRun cfg s).2 = .begin :: (replayShown cfg s).2.map Shown.toCb ++ [.end_] ∧
    (scriptRun cfg s).1 = (replayShown cfg s).1 := by
  have h := runWith_map_mem (scriptTask cfg) (replayTask cfg) Shown.toCb
    (scriptTask_fst_eq_replay cfg) s (g0 cfg)
    (fun p hp st => scriptTask_snd_eq_replay_wfargs cfg hf hx p.1 st p.2 (hw p hp))
  simp only [scriptRun, replayShown, h.1, h.2, and_self]

/-- the stream of finding F-C18-ARGS: `f(…)` with a payload, its return, then an ENTRY of
    the same function without payload -/
def argsStream : List (Nat × Rec) :=
  [(0, { time := 10, exit := false, depth := 0, addr := 1, payload := 7 }),
   (0, { time := 20, exit := true, depth := 0, addr := 1 }),
   (0, { time := 30, exit := false, depth := 0, addr := 1 }),
   (0, { time := 40, exit := true, depth := 0, addr := 1 })]

def argsCfg (fixed : Bool) : Cfg := { argTrig := fun a => a == 1, argsFixed := fixed }

/-- F-C18-ARGS witness (code before the repair): the third callback carries the stale
    payload 7 of the first record, replay shows the call without arguments; the
    repaired test gives 0 (no `args` key) as replay does -/
theorem c18_prefix_stale_args_witness :
    ((scriptRun (argsCfg false) argsStream).2.map fun cb => match cb with
        | .entry c => c.args | .exit c => c.args | _ => 0) = [0, 7, 0, 7, 0, 0] ∧
    ((replayShown (argsCfg false) argsStream).2.map (·.args)) = [7, 0, 0, 0] ∧
    ((scriptRun (argsCfg true) argsStream).2.map fun cb => match cb with
        | .entry c => c.args | .exit c => c.args | _ => 0) = [0, 7, 0, 0, 0, 0] := by
  decide

/-- C18 (b): with a UFTRACE_FUNCS list `L` the callbacks are exactly the callbacks of the
    run without a list whose function is in `L` (uftrace_begin / uftrace_end are kept),
    and the task states (stack, display depth, filter counters) evolve identically. -/
theorem c18_funcs_filter (cfg : Cfg) (L : List Nat) (hL : L ≠ []) (s : List (Nat × Rec)) :
    (scriptRun { cfg with funcs := L } s).2 =
      (scriptRun { cfg with funcs := [] } s).2.filter (keepFuncs L) ∧
    (scriptRun { cfg with funcs := L } s).1 = (scriptRun { cfg with funcs := [] } s).1 := by
  have h := runWith_filter (scriptTask { cfg with funcs := L }) (scriptTask { cfg with funcs := [] })
    (keepFuncs L) (scriptTask_funcs_fst cfg L) (scriptTask_funcs_snd cfg L hL) s (g0 cfg)
  have hg : g0 { cfg with funcs := L } = g0 cfg := rfl
  have hg0 : g0 { cfg with funcs := [] } = g0 cfg := rfl
  simp only [scriptRun, hg, hg0, h.1, h.2, List.filter_cons, List.filter_append, List.filter_nil, and_true]
  have hb : keepFuncs L Cb.begin = true := rfl
  have he : keepFuncs L Cb.end_ = true := rfl
  simp [hb, he]

example : ([3] : List Nat) ≠ [] := by simp

/-- C18 (c): when the records of task `i` are a properly nested stream that starts at
    depth 0 (`wfRun`; it may end with calls still open: `W` is what is open then), the
    callbacks of that task are properly nested too: every uftrace_exit closes the innermost
    open uftrace_entry of the task with the same address and depth, its duration is the
    time between the two, and what is left open at the end are entries of calls that are
    still open in the data (none when the task's stream is complete).  For every option
    set, function list and interleaving with other tasks. -/
theorem c18_entry_exit_paired (cfg : Cfg) (s : List (Nat × Rec)) (i : Nat) (W : List (Nat × Nat))
    (hwf : wfRun [] (recsOf i s) = some W) :
    ∃ opens, pairRun [] (ofTask i (scriptRun cfg s).2) = some opens ∧
      opens.length ≤ W.length ∧ (W = [] → opens = []) := by
  have hp := (runWith_project cfg i s (g0 cfg)).1
  have ⟨A', inv, hk, hpr⟩ := task_paired cfg i (recsOf i s) (g0 cfg i) [] W (Inv_fresh cfg) hwf
  refine ⟨opensOf cfg i A', ?_, ?_, ?_⟩
  · have : ofTask i (scriptRun cfg s).2 = ofTask i (runWith (scriptTask cfg) (g0 cfg) s).2 := by
      simp [scriptRun, ofTask, Cb.tid?]
    rw [this, hp]
    exact hpr
  · have h1 := opensOf_length_le cfg i A'
    have h2 : A'.length = W.length := by rw [← hk]; simp [keys]
    omega
  · intro hW
    have : A' = [] := by
      have h2 : A'.length = W.length := by rw [← hk]; simp [keys]
      rw [hW] at h2
      exact List.eq_nil_of_length_eq_zero h2
    rw [this]; rfl

/-- non-vacuity: a nested stream of two tasks with an open call at the end -/
example : wfRun [] (recsOf 0 [(0, { time := 1, exit := false, depth := 0, addr := 5 }),
                              (1, { time := 2, exit := false, depth := 0, addr := 6 }),
                              (0, { time := 3, exit := false, depth := 1, addr := 7 }),
                              (0, { time := 4, exit := true, depth := 1, addr := 7 })]) = some [(5, 1)] := by
  decide

/-! ### record time -/
section RecordTime
open Uft.Mcount Uft.Script.Hook

/-- C18 (d), record time (libmcount with the repair of F-C18-EXITHOOK): for every thread,
    every option set and trigger table without a `finish` action, both hook families, every
    function list of the script, every forest of calls the thread makes (any depth, also
    beyond --max-stack), and whatever other threads store into the global `mcount_enabled`
    between this thread's hooks (`env`): the log of script_hook_entry / script_hook_exit
    calls is balanced — every script_hook_exit closes the innermost open script_hook_entry
    and is about the same frame (address, depth, start time), and after every complete
    call nothing is left open.  The hooks run exactly for the frames that are not NORECORD
    (`Hook.entryHook_pushed`, `Hook.exitHook_top`). -/
theorem c18_record_time_paired (cfg : Mcount.Cfg) (hfin : ∀ f, (cfg.trig f).finish = false)
    (funcs : List Nat) (k : Kind) (env : Nat → Option Bool) (cs : Calls) (s : St) (hwf : HWF cfg s)
    (stk : List HCtx) :
    hpRun stk (runCallsH true funcs cfg k env s cs).2 = some stk := by
  cases hf : cfg.fast
  · exact (hook_calls cfg hf hfin funcs k env cs s hwf).2 stk
  · rw [fast_calls true cfg hf funcs k env cs s]; rfl

/-- the logged run is the run of the hook model of C02 / C05 (no other thread interfering) -/
theorem c18_record_time_state (fixed : Bool) (funcs : List Nat) (cfg : Mcount.Cfg) (k : Kind) (cs : Calls) (s : St) :
    (runCallsH fixed funcs cfg k (fun _ => none) s cs).1 = runCalls cfg k s cs :=
  state_calls fixed funcs cfg k cs s

/-- `-T f1@trace_off`: main (f0) calls f1 -/
def offCfg : Mcount.Cfg := { trig := fun f => if f = 1 then { traceOff := true } else {} }
def offCalls : Calls := .cons (.node 0 10 40 (.cons (.node 1 20 30 .nil) .nil)) .nil

/-- non-vacuity of `c18_record_time_paired`, and what it says for this run -/
example : (∀ f, (offCfg.trig f).finish = false) ∧ HWF offCfg (St.init offCfg) := by
  refine ⟨fun f => ?_, Or.inl rfl⟩
  simp only [offCfg]; split <;> rfl

/-- F-C18-EXITHOOK witness (code before the repair, `fixed = false`): after f1 switched
    tracing off, neither f1 nor f0 gets its exit callback — two entry callbacks stay open
    after the complete call; with the repair the log is balanced. -/
theorem c18_prefix_exit_hook_witness :
    (hpRun [] (runCallsH false [] offCfg .pg (fun _ => none) (St.init offCfg) offCalls).2).map List.length = some 2 ∧
    (runCallsH false [] offCfg .pg (fun _ => none) (St.init offCfg) offCalls).2.length = 2 ∧
    hpRun [] (runCallsH true [] offCfg .pg (fun _ => none) (St.init offCfg) offCalls).2 = some [] ∧
    (runCallsH true [] offCfg .pg (fun _ => none) (St.init offCfg) offCalls).2.length = 4 := by
  decide

end RecordTime


/-! ### record time, every thread: the binding's interpreter lock -/
section BindingLock
open Uft.Script.Bind

/-- C18 (d'), `… for every thread`: a binding whose per-call hooks wait for the interpreter
    (pthread_mutex_lock: utils/script-python.c; utils/script-luajit.c with the repair of F-C18-LUA-NOLOCK) gives
    the script, for every thread and every interleaving of the threads' hooks and callback durations (`sched`:
    any sequence of "thread t reaches a hook" / "the callback of thread t returns"), exactly the hooks that
    reached the binding: in arrival order, none lost, none duplicated, the ones still waiting for the mutex
    at the end of `sched` apart — so per thread the callbacks are that thread's hooks in order (and balanced
    by `c18_record_time_paired`), and never are two threads inside the one interpreter state.  The mutex is
    handed to the longest waiter here; a blocked thread issues no further hook, so every thread has at most
    one entry in the queue and the per-thread statement does not depend on who gets the mutex. -/
theorem c18_record_time_every_thread (sched : List Step) :
    (run .lock {} sched).log ++ (run .lock {} sched).waiting = (run .lock {} sched).issued ∧
    (∀ t, ofThread t (run .lock {} sched).log ++ ofThread t (run .lock {} sched).waiting =
          ofThread t (run .lock {} sched).issued) ∧
    ((run .lock {} sched).waiting = [] → ∀ t, ofThread t (run .lock {} sched).log = ofThread t (run .lock {} sched).issued) ∧
    (run .lock {} sched).corrupt = false ∧ (run .lock {} sched).running.length ≤ 1 := by
  have h := lockInv_run sched {} lockInv_init
  refine ⟨h.all, ?_, ?_, h.ok, h.one⟩
  · intro t
    rw [← h.all]
    simp [ofThread]
  · intro hw t
    rw [← h.all, hw, List.append_nil]

/-- two threads: thread 0's callback 10 (slow) is running when thread 1 reaches its hooks 20 and, after 10
    returned, 21 -/
def overlapSched : List Step := [.hook 0 10, .hook 1 20, .done 0, .done 1, .hook 1 21, .done 1]

/-- non-vacuity / what the theorem says on `overlapSched`: thread 1 gets 20 (after waiting) and 21 -/
example : (run .lock {} overlapSched).waiting = [] ∧ ofThread 1 (run .lock {} overlapSched).log = [20, 21] ∧
    ofThread 0 (run .lock {} overlapSched).log = [10] := by decide

/-- F-C18-LUA-NOLOCK witness (utils/script-luajit.c as it is: no lock): on the same schedule thread 1 enters the
    interpreter state while thread 0's callback is executing in it — undefined behaviour of the Lua state (lost
    callbacks, `PANIC: unprotected error in call to Lua API`, SIGSEGV in the traced program) -/
theorem c18_prefix_nolock_witness :
    (run .nolock {} overlapSched).corrupt = true ∧ (run .lock {} overlapSched).corrupt = false := by decide

/-- … and a hook that gives up when the interpreter is busy (trylock) loses callbacks: thread 1 gets 21 without
    20 — e.g. an exit callback without its entry -/
theorem c18_skip_when_busy_loses_callbacks_witness :
    ofThread 1 (run .trylock {} overlapSched).log = [21] ∧ ofThread 1 (run .trylock {} overlapSched).issued = [20, 21] := by
  decide

end BindingLock

/-! ### argument and return-value payloads -/
section ArgBuffer
open Uft.Gen.ScriptArgs Uft.Script.Args

/-- C18 (e), replay: for every list of argument specs and values that fit them (integers of
    any size and base, pointers, enums, floats, chars, structs, strings and std::strings of any
    length), decoding the bytes libmcount's save_to_argbuf lays out — walking them as
    get_argspec_string does — returns exactly the stored values, in order, whatever follows
    in the buffer.  Sizes and advances are the expressions of the C sources (Gen/ScriptArgs). -/
theorem c18_args_decode_roundtrip_replay (sv : List (ASpec × AVal)) (tl : List Nat)
    (hf : ∀ p ∈ sv, fits p.1 p.2) :
    decode replayAdv (sv.map (·.1)) (encode sv ++ tl) = sv.map (·.2) :=
  decode_encode replayAdv good_replay sv tl (fun p hp => ⟨hf p hp, replay_handles_all _⟩)

/-- C18 (e), Python binding: the same for setup_argument_context of utils/script-python.c, for
    the formats its switch has a case for -/
theorem c18_args_decode_roundtrip_python (sv : List (ASpec × AVal)) (tl : List Nat)
    (hf : ∀ p ∈ sv, fits p.1 p.2) (hh : ∀ p ∈ sv, handles pyAdv p.1.fmt = true) :
    decode pyAdv (sv.map (·.1)) (encode sv ++ tl) = sv.map (·.2) :=
  decode_encode pyAdv good_python sv tl (fun p hp => ⟨hf p hp, hh p hp⟩)

/-- C18 (e), Lua binding (utils/script-luajit.c) -/
theorem c18_args_decode_roundtrip_lua (sv : List (ASpec × AVal)) (tl : List Nat)
    (hf : ∀ p ∈ sv, fits p.1 p.2) (hh : ∀ p ∈ sv, handles luaAdv p.1.fmt = true) :
    decode luaAdv (sv.map (·.1)) (encode sv ++ tl) = sv.map (·.2) :=
  decode_encode luaAdv good_lua sv tl (fun p hp => ⟨hf p hp, hh p hp⟩)

/-- so the script bindings see the values replay prints, element by element -/
theorem c18_args_readers_agree (sv : List (ASpec × AVal)) (tl : List Nat)
    (hf : ∀ p ∈ sv, fits p.1 p.2)
    (hp : ∀ p ∈ sv, handles pyAdv p.1.fmt = true) (hl : ∀ p ∈ sv, handles luaAdv p.1.fmt = true) :
    decode pyAdv (sv.map (·.1)) (encode sv ++ tl) = decode replayAdv (sv.map (·.1)) (encode sv ++ tl) ∧
    decode luaAdv (sv.map (·.1)) (encode sv ++ tl) = decode replayAdv (sv.map (·.1)) (encode sv ++ tl) := by
  rw [c18_args_decode_roundtrip_python sv tl hf hp, c18_args_decode_roundtrip_lua sv tl hf hl,
    c18_args_decode_roundtrip_replay sv tl hf]
  exact ⟨rfl, rfl⟩

/-- `greet("ab", 55, 'q')`: a string of length 2 (mod 4) followed by a 4-byte integer and a char -/
def greetArgs : List (ASpec × AVal) :=
  [(⟨.str, 8⟩, .str [97, 98]), (⟨.sint, 4⟩, .fixed [55, 0, 0, 0]), (⟨.chr, 1⟩, .fixed [113])]

/-- non-vacuity: the call fits its specs, both bindings handle it, and it decodes to itself -/
example :
    (∀ p ∈ greetArgs, fits p.1 p.2) ∧ (∀ p ∈ greetArgs, handles pyAdv p.1.fmt = true) ∧
    (∀ p ∈ greetArgs, handles luaAdv p.1.fmt = true) ∧
    encode greetArgs = [2, 0, 97, 98, 55, 0, 0, 0, 113, 0, 0, 0] ∧
    decode pyAdv (greetArgs.map (·.1)) (encode greetArgs) = greetArgs.map (·.2) := by
  refine ⟨?_, by decide, by decide, by decide, by decide⟩
  intro p hp
  simp only [greetArgs, List.mem_cons, List.mem_nil_iff, or_false] at hp
  rcases hp with rfl | rfl | rfl <;> simp [fits, isStr]

/-- a binding whose switch has no case for /o (octal) arguments: the python and luajit bindings
    before the repair of finding F-C18-OCT -/
def noOctAdv : Fmt → Nat → Nat → Option Nat
  | .oct, _, _ => none
  | f, size, slen => replayAdv f size slen

/-- F-C18-OCT witness: `f(arg1/o32 = 8, arg2/i32 = 7)` — the octal argument is skipped without
    advancing, so one value is missing and the second argument is read from the first one's bytes;
    replay returns both -/
theorem c18_prefix_oct_witness :
    let sv : List (ASpec × AVal) := [(⟨.oct, 4⟩, .fixed [8, 0, 0, 0]), (⟨.sint, 4⟩, .fixed [7, 0, 0, 0])]
    decode noOctAdv (sv.map (·.1)) (encode sv) = [.fixed [8, 0, 0, 0]] ∧
    decode replayAdv (sv.map (·.1)) (encode sv) = sv.map (·.2) := by
  decide

end ArgBuffer

end Uft.C18
