import Uft.Lemmas.ReportGenEq
/- C08 — tie by translation (translators/c2lean.py): the sort comparators generated on every run from the
current text of utils/report.c (`Uft/Gen/ReportC.lean`: the functions the `SORT_KEY` macro defines, and `cmp_func`)
are the comparators of the hand-written model `Uft/Model/Report.lean` (`Key.cmp`). -/
namespace Uft.C08Gen
open Uft.Report Uft.Gen.C Uft.ReportGenEq
open Uft.Gen.ReportC (Oracles)

/-- for every sort key except `func`: the generated comparator returns the model's `Key.cmp` and changes no memory -/
theorem c08_gen_cmp_key_eq (k : Key) (hk : k ≠ .func) (o : Oracles) (pa pb : Ptr) (a b : Row) (s : GSt)
    (hr : RowRel a b s) : genCmp k o pa pb s = (s, Key.cmp k a b) :=
  cmp_key_eq k hk o pa pb a b s hr

example : ∃ (a b : Row) (s : GSt), RowRel a b s ∧ Key.cmp .total a b = 1 :=
  ⟨{ (default : Row) with tsum := 5 }, default, { a_total_sum := 5 },
   by refine ⟨⟨?_, ?_, ?_, ?_, ?_, ?_, ?_, ?_, ?_, ?_, ?_, ?_, ?_, ?_, ?_, ?_, ?_, ?_, ?_, ?_⟩, ?_⟩ <;> decide⟩

/-- `cmp_func` is `strcmp(b->name, a->name)`: `Key.cmp .func` when names are ordered like the model's keys -/
theorem c08_gen_cmp_func_eq (o : Oracles) (pa pb : Ptr) (a b : Row) (s : GSt)
    (hname : o.strcmp "cmp_func:1" s.b_name s.a_name = cmpNat b.key a.key) :
    genCmp .func o pa pb s = (s, Key.cmp .func a b) :=
  cmp_func_eq o pa pb a b s hname

end Uft.C08Gen
