import Uft.Lemmas.FstackTop
import Uft.Lemmas.FstackSim
import Uft.Lemmas.FstackOff
/- C07 — Analysis-time filters mean the same as record-time filters.

Model: Uft/Model/Fstack.lean (utils/fstack.c: the look-ahead of get_task_ustack, fstack_entry /
fstack_exit / fstack_update, fstack_check_filter, fstack_skip / fstack_check_skip; the loops of
cmds/replay.c, report.c, graph.c, dump.c, script.c) and Uft/Model/Mcount.lean (the record-time
hooks, C02/C05).  `spec` is the documented selection as a structurally recursive function on
call trees: `pruneCalls` (-t, time=, trace, -C) then `specCalls` (-F, -N, -D, -L, -H, depth=),
with the environment passed down only. -/
namespace Uft.C07
open Uft.Mcount Uft.Fstack

/-- **State restoration.**  For every trigger table and option set (filter / notrace / depth /
    hide / location / time / trace / trace_on / trace_off / caller, --no-libcall …), every call
    tree and every state of the reader: after the records of a complete call the filter state
    of fstack_entry / fstack_exit — in_count, out_count, remaining depth, the open calls' flags
    and saved depths, stack_count — is what it was before the call.  A filter hit never leaks
    into later sibling calls at analysis time. -/
theorem c07_state_restored (c : RCfg) (x : Call) (d : Nat) (s : FS) (hs : s.scSet = true) :
    (endA c s (evCall d x)).core = s.core :=
  (restoredA_call c x d s hs).1

/-- … and the same for any forest of calls. -/
theorem c07_state_restored_forest (c : RCfg) (xs : Calls) (d : Nat) (s : FS) (hs : s.scSet = true) :
    (endA c s (evCalls d xs)).core = s.core :=
  (restoredA_calls c xs d s hs).1

/-- **The look-ahead time filter.**  On the record file of any call forest the look-ahead of
    get_task_ustack (list with delete-last, per-task threshold override stack of time= triggers,
    -C, trace) hands over, in order, exactly the calls that ran at least the threshold active
    for them, or carry the trace trigger, or have such a call below them (`pruneCalls`). -/
theorem c07_time_filter_spec (c : RCfg) (hr : NoRange c) (xs : Calls) (ho : Calls.ordered xs) :
    lookahead c (evCalls 0 xs) = evCalls 0 (pruneCalls c false c.threshold xs) :=
  lookahead_forest c hr xs ho

example : NoRange {} ∧ Calls.ordered (.cons (.node 1 10 20 (.cons (.node 2 12 12 .nil) .nil)) .nil) := by
  simp [NoRange, Calls.ordered, Call.ordered]

/-- **Every command shows the documented selection.**  Tracing on, no trace_on / trace_off
    trigger, no -r, no --no-libcall: for every option set over -F -N -D -t -C -H -L and
    filter / notrace / depth= / time= / trace / hide / caller triggers and every call forest,
    replay (with leaf folding through fstack_skip, or --no-merge), report, graph,
    dump --chrome, --flame-graph etc. and script show exactly `spec`. -/
theorem c07_replay_refines_spec (c : RCfg) (hq : Quiet c) (hnl : c.noLibcall = false) (hr : NoRange c)
    (hen : c.enabled0 = true) (xs : Calls) (ho : Calls.ordered xs) (cmd : Cmd) :
    cmdOut c cmd (evCalls 0 xs) = spec c false xs := by
  have hg := good_initSet c hen hr
  have hla := lookahead_forest c hr xs ho
  have hA : runSteps (stepA c) (FS.init c) (lookahead c (evCalls 0 xs)) = spec c false xs := by
    rw [hla, runSteps_init, ← run_snd, specA_calls c hq hnl _ 0 (initSet c) hg.scSet hg.en hg.ds]
    rfl
  cases cmd with
  | replay =>
    show runB c ⟨FS.init c, none⟩ (lookahead c (evCalls 0 xs)) = _
    rw [hla, runB_init, runB_eq, (both_calls c hq hnl _).1 0 (initSet c) hg]
    rw [envOf_initSet]
    simp [flushPend, spec, initSet, FS.init]
  | script =>
    show runSteps (stepC c) (FS.init c) (lookahead c (evCalls 0 xs)) = _
    rw [stepC_eq_stepA c hnl]; exact hA
  | report => exact hA
  | graph => exact hA
  | dump => exact hA

example : Quiet {} ∧ ({} : RCfg).noLibcall = false ∧ ({} : RCfg).enabled0 = true := by
  simp [Quiet]

/-- **The commands agree** (same hypotheses): any two of replay, report, graph, dump, script
    accept the same call sequence. -/
theorem c07_commands_agree (c : RCfg) (hq : Quiet c) (hnl : c.noLibcall = false) (hr : NoRange c)
    (hen : c.enabled0 = true) (xs : Calls) (ho : Calls.ordered xs) (cmd1 cmd2 : Cmd) :
    cmdOut c cmd1 (evCalls 0 xs) = cmdOut c cmd2 (evCalls 0 xs) := by
  rw [c07_replay_refines_spec c hq hnl hr hen xs ho cmd1, c07_replay_refines_spec c hq hnl hr hen xs ho cmd2]

/-- … in particular across trace-off periods: a call that is entered, or returns, while tracing
    is switched off (trace_off trigger, --trace=off) still gives back its -F / -N count and its
    depth budget in the fstack_check_filter path of report, graph and dump (this is what the
    seeded change C07-traceoff-exit-skips-restore broke). -/
theorem c07_state_restored_traceoff (c : RCfg) (xs : Calls) (d : Nat) (s : FS) (hs : s.scSet = true)
    (hoff : s.enabled = false) :
    (endA c s (evCalls d xs)).core = s.core :=
  (restoredA_calls c xs d s hs).1

/-- **The commands agree under every option set** — trace_on / trace_off triggers and
    --trace=off included (no -r, no --no-libcall): on every call forest replay, with its
    fstack_skip look-ahead and leaf folding or with --no-merge, shows exactly the records that
    report, graph, dump and script accept. Proved by simulation of the two loops, not through
    `spec` (which does not cover trace switches). -/
theorem c07_commands_agree_traceoff (c : RCfg) (hnl : c.noLibcall = false) (hr : NoRange c) (xs : Calls)
    (ho : Calls.ordered xs) (cmd1 cmd2 : Cmd) :
    cmdOut c cmd1 (evCalls 0 xs) = cmdOut c cmd2 (evCalls 0 xs) := by
  have hla := lookahead_forest c hr xs ho
  have key : ∀ cmd, cmdOut c cmd (evCalls 0 xs) = runSteps (stepA c) (FS.init c) (lookahead c (evCalls 0 xs)) := by
    intro cmd
    cases cmd with
    | replay =>
      show runB c ⟨FS.init c, none⟩ (lookahead c (evCalls 0 xs)) = _
      rw [hla, sim_run c hnl _ 0 (FS.init c) ⟨FS.init c, none⟩ [] (Sim.idle _ _) (WFD_forest _)]
      rfl
    | script =>
      show runSteps (stepC c) _ _ = _
      rw [stepC_eq_stepA c hnl]
    | report => rfl
    | graph => rfl
    | dump => rfl
  rw [key cmd1, key cmd2]

example : ({ enabled0 := false, trig := fun f => if f = 5 then { traceOn := true } else if f = 3 then { traceOff := true } else {} } : RCfg).noLibcall = false := rfl

/-- report, graph, dump and script run the same fstack_check_filter / fstack_entry automaton:
    without --no-libcall they agree on *every* record stream and option set, including
    trace_on / trace_off triggers, --trace=off and -r. -/
theorem c07_commands_agree_any_stream (c : RCfg) (hnl : c.noLibcall = false) (rs : List Rec) :
    cmdOut c .report rs = cmdOut c .graph rs ∧ cmdOut c .graph rs = cmdOut c .dump rs ∧
    cmdOut c .dump rs = cmdOut c .script rs := by
  refine ⟨rfl, rfl, ?_⟩
  show runSteps (stepA c) _ _ = runSteps (stepC c) _ _
  rw [stepC_eq_stepA c hnl]

/-- raw `uftrace dump` reads the task files directly (no look-ahead): it agrees with the other
    commands when no time filter of any kind (-t, time=, -C) is active. -/
theorem c07_dumpraw_agrees (c : RCfg) (hq : Quiet c) (hnl : c.noLibcall = false) (hr : NoRange c)
    (hen : c.enabled0 = true) (hnt : NoTimeFilter c) (xs : Calls) :
    outDumpRaw c (evCalls 0 xs) = spec c false xs := by
  have hg := good_initSet c hen hr
  simp only [outDumpRaw, filter_inRange c hr, spec, hnt.1, prune_id_calls c hnt]
  rw [runSteps_init, ← run_snd, specA_calls c hq hnl _ 0 (initSet c) hg.scSet hg.en hg.ds]
  rfl

/-- finding F-C07-NOLIBCALL, the code before its repair (`pltFixed := false`): a user function
    called from a PLT function (a callback) under `-D 2 --no-libcall`: script (and replay
    --no-merge) dropped the PLT record before the filters and showed the callback; replay, report,
    graph and dump let the PLT function use up a depth level and did not. -/
theorem c07_nolibcall_disagree_witness :
    cmdOut { depthOpt := 2, noLibcall := true, pltFixed := false, plt := fun f => f == 1 } .script
        (evCalls 0 (.cons (.node 0 10 50 (.cons (.node 1 20 40 (.cons (.node 2 25 30 .nil) .nil)) .nil)) .nil)) ≠
    cmdOut { depthOpt := 2, noLibcall := true, pltFixed := false, plt := fun f => f == 1 } .report
        (evCalls 0 (.cons (.node 0 10 50 (.cons (.node 1 20 40 (.cons (.node 2 25 30 .nil) .nil)) .nil)) .nil)) := by
  decide

/-- after the repair (`pltFixed = true`), for every option set *with* --no-libcall, every PLT
    marking and every record stream: script selects the same calls (time, type, function) as
    report / graph / dump; only the display depth may differ (a hidden library call does not
    indent what it calls in script). -/
theorem c07_nolibcall_fixed_agree (c : RCfg) (hfix : c.pltFixed = true) (rs : List Rec) :
    eraseD (cmdOut c .script rs) = eraseD (cmdOut c .report rs) :=
  feq_run c hfix (lookahead c rs) (FS.init c) (FS.init c) (feq_refl _)

/-- … and on the witness input all five commands now agree -/
theorem c07_nolibcall_fixed_witness :
    ∀ cmd : Cmd, eraseD (cmdOut { depthOpt := 2, noLibcall := true, plt := fun f => f == 1 } cmd
        (evCalls 0 (.cons (.node 0 10 50 (.cons (.node 1 20 40 (.cons (.node 2 25 30 .nil) .nil)) .nil)) .nil))) =
      [{ time := 10, type := 0, depth := 0, addr := 0 }, { time := 50, type := 1, depth := 0, addr := 0 }] := by
  intro cmd; cases cmd <;> decide

/-- **MAIN — record time = replay time, -F / -N / -D / -t.**  For the code with the repair of S4
    (`s4fixed`: the exit hooks keep a call that ran at least the threshold, like the look-ahead
    at analysis time), for every table of -F / -N entries, every -D and every -t, both hook
    families (-pg and -mfentry with the repair of F4, and -finstrument-functions), every forest
    of properly nested calls within --max-stack (zero-duration calls included; an exit time 0 is
    the hooks' "not returned yet" sentinel and excluded): the records the hooks write with the
    options equal what every analysis command shows when the same options are applied to the
    unfiltered eager trace. -/
theorem c07_record_eq_replay (cfg : Cfg) (h : FND cfg) (hs4 : cfg.s4fixed = true) (k : Kind) (cs : Calls) (n : Nat)
    (hh : cs.height ≤ cfg.maxStack) (hn : Calls.allDurLe n cs) (cmd : Cmd) :
    (runCalls cfg k (St.init cfg) cs).out = cmdOut (RCfg.ofRecord cfg) cmd (evCalls 0 cs) := by
  have hq : Quiet (RCfg.ofRecord cfg) := by
    intro f; show (cfg.trig f).traceOn = false ∧ (cfg.trig f).traceOff = false; rw [h.trig f]; exact ⟨rfl, rfl⟩
  rw [record_out cfg h k cs n hh hn,
    c07_replay_refines_spec (RCfg.ofRecord cfg) hq rfl ⟨rfl, rfl⟩ h.en cs (ordered_of_allDurLe cs n hn) cmd, hs4]
  rfl

/-- the record side alone, for both versions of the duration test: what the hooks write is the
    documented selection, with `>` before the repair of S4 and `≥` after it -/
theorem c07_record_refines_spec (cfg : Cfg) (h : FND cfg) (k : Kind) (cs : Calls) (n : Nat)
    (hh : cs.height ≤ cfg.maxStack) (hn : Calls.allDurLe n cs) :
    (runCalls cfg k (St.init cfg) cs).out = spec (RCfg.ofRecord cfg) (!cfg.s4fixed) cs :=
  record_out cfg h k cs n hh hn

/-- the code before the repair of S4 (`s4fixed = false`) agrees with the analysis commands only on
    forests in which no call ran exactly as long as the threshold (`c07_time_boundary_witness`) -/
theorem c07_prefix_record_eq_replay_partial (cfg : Cfg) (h : FND cfg) (k : Kind) (cs : Calls) (n : Nat)
    (hh : cs.height ≤ cfg.maxStack) (hn : Calls.allDurLe n cs)
    (hb : Calls.noBoundary (RCfg.ofRecord cfg) cfg.threshold cs) (cmd : Cmd) :
    (runCalls cfg k (St.init cfg) cs).out = cmdOut (RCfg.ofRecord cfg) cmd (evCalls 0 cs) := by
  have hq : Quiet (RCfg.ofRecord cfg) := by
    intro f; show (cfg.trig f).traceOn = false ∧ (cfg.trig f).traceOff = false; rw [h.trig f]; exact ⟨rfl, rfl⟩
  rw [record_out cfg h k cs n hh hn,
    c07_replay_refines_spec (RCfg.ofRecord cfg) hq rfl ⟨rfl, rfl⟩ h.en cs (ordered_of_allDurLe cs n hn) cmd]
  simp only [spec]
  have hthr : (RCfg.ofRecord cfg).threshold = cfg.threshold := rfl
  cases cfg.s4fixed with
  | true => rfl
  | false => rw [hthr]; simp only [Bool.not_false]; rw [prune_strict_calls (RCfg.ofRecord cfg) cs _ hb]

/-- non-vacuity: `-F f1 -N f3 -D 2 -t 5` with a three-level forest that contains a call of exactly
    5 ns and a zero-duration call meets all hypotheses of `c07_record_eq_replay` -/
example :
    let cfg : Cfg := { depthOpt := 2, threshold := 5, optIn := true,
                       trig := fun f => { filter := if f = 1 then some true else if f = 3 then some false else none } }
    let cs : Calls := .cons (.node 1 10 60 (.cons (.node 2 20 25 (.cons (.node 3 22 22 .nil) .nil)) .nil)) .nil
    FND cfg ∧ cfg.s4fixed = true ∧ cs.height ≤ cfg.maxStack ∧ Calls.allDurLe 100 cs := by
  refine ⟨⟨rfl, rfl, rfl, rfl, rfl, rfl, fun f => ?_⟩, rfl, by decide, ?_⟩
  · simp only
  · simp [Calls.allDurLe, Call.nestOK, Call.dur]

/-- S4, the code before its repair (`s4fixed := false`): a call that ran exactly the threshold was
    dropped when the threshold was given at record time (`>`), and is shown when it is given at
    replay time (`≥`); with the repair the hooks write it. -/
theorem c07_time_boundary_witness :
    (runCalls { threshold := 10, s4fixed := false } .pg (St.init { threshold := 10, s4fixed := false })
        (.cons (.node 1 100 110 .nil) .nil)).out = [] ∧
    cmdOut (RCfg.ofRecord { threshold := 10 }) .replay (evCalls 0 (.cons (.node 1 100 110 .nil) .nil)) =
      [{ time := 100, type := 0, depth := 0, addr := 1 }, { time := 110, type := 1, depth := 0, addr := 1 }] ∧
    (runCalls { threshold := 10 } .pg (St.init { threshold := 10 }) (.cons (.node 1 100 110 .nil) .nil)).out =
      [{ time := 100, type := 0, depth := 0, addr := 1 }, { time := 110, type := 1, depth := 0, addr := 1 }] := by
  decide

/-! ### finding F-C07-TRACEOFF-FLUSH — a trace_off trigger in a function that the filters reject

`mcount_entry_filter_check` switches tracing off at the TRACE_OFF update; the ENTRY records of the open callers are
written lazily, and before the repair the flush for "tracing goes off" sat only in `mcount_entry_filter_record`,
which a rejected function (depth budget used up, size filter, …) never reaches: the callers were lost from the
record-time trace, while replaying the unfiltered recording with the same options shows them.  Repaired
(`Cfg.f7fixed`, the default): `record_trace_data` for the innermost caller at the TRACE_OFF update. -/

/-- the forest `main{ a{ b{ c{ d }}} x{ y } a{ b{ c{ d }}} }` (main = 0, a = 1, b = 2, c = 3, d = 4, x = 5, y = 6) -/
def onoffForest : Calls :=
  .cons (.node 0 1010 1220
    (.cons (.node 1 1020 1090 (.cons (.node 2 1030 1080 (.cons (.node 3 1040 1070 (.cons (.node 4 1050 1060 .nil) .nil)) .nil)) .nil))
    (.cons (.node 5 1100 1130 (.cons (.node 6 1110 1120 .nil) .nil))
    (.cons (.node 1 1140 1210 (.cons (.node 2 1150 1200 (.cons (.node 3 1160 1190 (.cons (.node 4 1170 1180 .nil) .nil)) .nil)) .nil))
     .nil)))) .nil

/-- `-D 3 -T c@trace_off -T x@trace_on` -/
def onoffCfg (fixed : Bool) : Cfg :=
  { depthOpt := 3, f7fixed := fixed,
    trig := fun f => if f = 3 then { traceOff := true } else if f = 5 then { traceOn := true } else {} }

/-- **The lazy writer's invariant** holds in every state the hooks can reach, for every option set, trigger table,
    hook family and call history (also across trace_on / trace_off, `finish`, --max-stack overflow): below a frame
    whose ENTRY record is written every recordable frame is written, and the calls on the shadow stack carry no
    exit time.  Each hook keeps it … -/
theorem c07_lazy_writer_invariant_step (cfg : Cfg) (k : Kind) (s : St) (f t : Nat) (h : Flush.Inv s) :
    Flush.Inv (entry cfg k s f t).1 ∧ Flush.Inv (exit cfg s t) :=
  ⟨Flush.inv_entry cfg k s f t h, Flush.inv_exit cfg s t h⟩

/-- … so it holds after every forest of calls from the initial state. -/
theorem c07_lazy_writer_invariant (cfg : Cfg) (k : Kind) (cs : Calls) :
    Flush.Inv (runCalls cfg k (St.init cfg) cs) :=
  Flush.inv_runCalls cfg k cs _ (Flush.inv_init cfg)

/-- **A trace_off trigger also flushes when its function is rejected** (repaired code, `f7fixed`; regular
    build; -pg / -mfentry and -finstrument-functions).  For every option set and trigger table, every state of the
    thread that satisfies the lazy writer's invariant (every reachable state, `c07_lazy_writer_invariant`) — i.e.
    for every shadow stack — and every function `f` whose trace_off trigger is reached (room on the shadow stack,
    not inside a -N region, not rejected by opt-in mode / -L before the trigger actions run) while tracing is on:
    whatever the filters decide about `f` itself (`.out`: depth budget used up — the case the code before the
    repair lost — or `.in_`), the entry hook writes exactly the ENTRY records of *all* open callers that are
    recordable (not NORECORD, not DISABLED) and not yet written, outermost first (`owed`), and nothing else; every
    recordable caller is written afterwards; tracing is off. -/
theorem c07_traceoff_in_rejected_flushes (cfg : Cfg) (hfix : cfg.f7fixed = true) (hfast : cfg.fast = false)
    (k : Kind) (s : St) (hinv : Flush.Inv s) (f t0 : Nat)
    (hidx : s.idx < cfg.maxStack) (hout : s.filt.outCount = 0)
    (hearly : earlyOut cfg (cfg.trig f) (saveFilt s.filt) = false)
    (hoff : (cfg.trig f).traceOff = true) (hfin : (cfg.trig f).finish = false) (hen : s.enabled = true) :
    (entry cfg k s f t0).1.out = s.out ++ Flush.owed s.frames ∧
    (entry cfg k s f t0).1.enabled = false ∧
    (∃ callers, Flush.AllWritten callers ∧ callers.map Frame.addr = s.frames.map Frame.addr ∧
      ((entry cfg k s f t0).1.frames = callers ∨
       ∃ F : Frame, F.written = false ∧ F.addr = f ∧ (entry cfg k s f t0).1.frames = F :: callers)) := by
  obtain ⟨o, e, fr⟩ := Flush.entry_traceoff cfg hfix hfast k s f t0 hidx hout hearly hoff hfin hen hinv.2
  refine ⟨by rw [o, Flush.pend_eq_owed _ hinv.1], e, mark s.frames, Flush.mark_allWritten _ hinv.1, ?_, fr⟩
  exact Flush.mark_addr s.frames

/-- the rejected case spelled out: `-D` budget used up at the trace_off function -/
theorem c07_traceoff_rejected_by_depth (cfg : Cfg) (hfix : cfg.f7fixed = true) (hfast : cfg.fast = false)
    (s : St) (hinv : Flush.Inv s) (f : Nat)
    (hidx : s.idx < cfg.maxStack) (hout : s.filt.outCount = 0)
    (hearly : earlyOut cfg (cfg.trig f) (saveFilt s.filt) = false)
    (hoff : (cfg.trig f).traceOff = true) (hen : s.enabled = true)
    (hdepth : (trigFilt (cfg.trig f) (matchFilt (cfg.trig f) (saveFilt s.filt))).depth ≥
              depthLimit cfg (cfg.trig f) (saveFilt s.filt)) :
    (entryFilterCheck cfg s f).1 = .out ∧
    (entryFilterCheck cfg s f).2.1.out = s.out ++ Flush.owed s.frames ∧
    Flush.AllWritten (entryFilterCheck cfg s f).2.1.frames := by
  obtain ⟨v, flt, _, hv, hc⟩ := Flush.check_traceoff cfg hfix hfast s f hidx hout hearly hoff hen hinv.2
  rw [hc]
  exact ⟨hv.mpr hdepth, by simp [Flush.pend_eq_owed _ hinv.1], Flush.mark_allWritten _ hinv.1⟩

/-- non-vacuity: the state after `main{ a{ b{` of the directed forest under `-D 3 -T c@trace_off -T x@trace_on`
    meets the hypotheses at the entry of `c`, three ENTRY records are owed, and `c` is rejected by the depth -/
example :
    let cfg := onoffCfg true
    let s := (entry cfg .pg (entry cfg .pg (entry cfg .pg (St.init cfg) 0 1010).1 1 1020).1 2 1030).1
    s.idx < cfg.maxStack ∧ s.filt.outCount = 0 ∧ earlyOut cfg (cfg.trig 3) (saveFilt s.filt) = false ∧
    (cfg.trig 3).traceOff = true ∧ (cfg.trig 3).finish = false ∧ s.enabled = true ∧
    (entryFilterCheck cfg s 3).1 = .out ∧ (Flush.owed s.frames).length = 3 := by
  decide

/-- finding F-C07-TRACEOFF-FLUSH, the code before its repair (`f7fixed := false`): under
    `record -D 3 -T c@trace_off -T x@trace_on` on `main{ a{ b{ c{ d }}} x{ y } a{ b{ c{ d }}} }` the trace_off function
    `c` is beyond the depth limit, the pending ENTRY records of `a` and `b` are never written (both times): the
    hooks write only main, x, y — while replaying the unfiltered recording with the same options shows
    main a b x y a b.  Both hook families. -/
theorem c07_prefix_traceoff_flush_witness :
    (∀ k : Kind, (runCalls (onoffCfg false) k (St.init (onoffCfg false)) onoffForest).out =
      [{ time := 1010, type := 0, depth := 0, addr := 0 }, { time := 1100, type := 0, depth := 1, addr := 5 },
       { time := 1110, type := 0, depth := 2, addr := 6 }, { time := 1120, type := 1, depth := 2, addr := 6 },
       { time := 1130, type := 1, depth := 1, addr := 5 }]) ∧
    cmdOut (RCfg.ofRecord (onoffCfg false)) .replay (evCalls 0 onoffForest) =
      [{ time := 1010, type := 0, depth := 0, addr := 0 }, { time := 1020, type := 0, depth := 1, addr := 1 },
       { time := 1030, type := 0, depth := 2, addr := 2 }, { time := 1100, type := 0, depth := 1, addr := 5 },
       { time := 1110, type := 0, depth := 2, addr := 6 }, { time := 1120, type := 1, depth := 2, addr := 6 },
       { time := 1130, type := 1, depth := 1, addr := 5 }, { time := 1140, type := 0, depth := 1, addr := 1 },
       { time := 1150, type := 0, depth := 2, addr := 2 }] := by
  refine ⟨fun k => ?_, ?_⟩
  · cases k <;> decide
  · decide

/-- … and with the repair the hooks write exactly what every analysis command shows for the unfiltered recording
    under the same options (both hook families, all five commands), on this input and with the depth limit one
    higher (`c` accepted) or lower (`b` and `c` rejected) -/
theorem c07_record_eq_replay_traceoff_directed (k : Kind) (cmd : Cmd) :
    (runCalls (onoffCfg true) k (St.init (onoffCfg true)) onoffForest).out =
      cmdOut (RCfg.ofRecord (onoffCfg true)) cmd (evCalls 0 onoffForest) ∧
    (runCalls { onoffCfg true with depthOpt := 4 } k (St.init { onoffCfg true with depthOpt := 4 }) onoffForest).out =
      cmdOut (RCfg.ofRecord { onoffCfg true with depthOpt := 4 }) cmd (evCalls 0 onoffForest) ∧
    (runCalls { onoffCfg true with depthOpt := 2 } k (St.init { onoffCfg true with depthOpt := 2 }) onoffForest).out =
      cmdOut (RCfg.ofRecord { onoffCfg true with depthOpt := 2 }) cmd (evCalls 0 onoffForest) := by
  cases k <;> cases cmd <;> decide

/-- **Record time = replay time with trace_off triggers** (the extension of `c07_record_eq_replay` that the repair
    of F-C07-TRACEOFF-FLUSH makes true).  For the repaired code (`f7fixed`, `f4fixed`, `s4fixed`), every table of
    -F / -N entries with trace_off triggers on any functions that are not -N functions themselves — accepted,
    beyond the -D limit, outside the -F regions or inside a -N region —, every -D, no -t and no trace_on trigger,
    both hook families, every forest of properly nested calls within --max-stack: the records the hooks write equal
    what every analysis command shows when the same options are applied to the unfiltered eager trace — the
    documented selection up to the first trace_off trigger that is reached (`offCalls`), with the ENTRY records of
    the calls still open at that point.  (With `f7fixed = false` this fails: `c07_prefix_traceoff_flush_witness`.
    Outside the class — trace_on, -t, trace_off on a -N function — the two times implement the switch differently
    by construction, see checks/c07.py `ctx.assumptions` (a)–(d).) -/
theorem c07_record_eq_replay_traceoff (cfg : Cfg) (h : FNDoff cfg) (k : Kind) (cs : Calls) (n : Nat)
    (hh : cs.height ≤ cfg.maxStack) (hn : Calls.allDurLe n cs) (cmd : Cmd) :
    (runCalls cfg k (St.init cfg) cs).out = cmdOut (RCfg.ofRecord cfg) cmd (evCalls 0 cs) :=
  record_eq_replay_off cfg h k cs n hh hn cmd

/-- … and both are the documented selection up to the first trace_off trigger that is reached -/
theorem c07_record_refines_spec_traceoff (cfg : Cfg) (h : FNDoff cfg) (k : Kind) (cs : Calls) (n : Nat)
    (hh : cs.height ≤ cfg.maxStack) (hn : Calls.allDurLe n cs) :
    (runCalls cfg k (St.init cfg) cs).out =
      (offCalls (RCfg.ofRecord cfg) (Env.init (RCfg.ofRecord cfg)) 0 cs).1 :=
  record_out_off cfg h k cs hh (ended_of_allDurLe cs n hn)

/-- non-vacuity: `-D 3 -T c@trace_off` (c beyond the depth limit) and `-F a -N d -D 2 -T b@trace_off` on the directed
    forest meet the hypotheses of `c07_record_eq_replay_traceoff`, and tracing does go off -/
example :
    let cfg1 : Cfg := { depthOpt := 3, trig := fun f => { traceOff := f == 3 } }
    let cfg2 : Cfg := { depthOpt := 2, optIn := true,
                        trig := fun f => { filter := if f = 1 then some true else if f = 4 then some false else none,
                                           traceOff := f == 2 } }
    FNDoff cfg1 ∧ FNDoff cfg2 ∧ onoffForest.height ≤ cfg1.maxStack ∧ Calls.allDurLe 1000 onoffForest ∧
    (offCalls (RCfg.ofRecord cfg1) (Env.init (RCfg.ofRecord cfg1)) 0 onoffForest).2 = false ∧
    (offCalls (RCfg.ofRecord cfg1) (Env.init (RCfg.ofRecord cfg1)) 0 onoffForest).1.length = 3 := by
  refine ⟨⟨rfl, rfl, rfl, rfl, rfl, rfl, rfl, rfl, rfl, fun f => ?_, fun f hf => ?_⟩,
    ⟨rfl, rfl, rfl, rfl, rfl, rfl, rfl, rfl, rfl, fun f => ?_, fun f hf => ?_⟩, by decide, ?_, by decide, by decide⟩
  · rfl
  · simp
  · rfl
  · simp only [beq_iff_eq] at hf
    subst hf
    decide
  · simp [onoffForest, Calls.allDurLe, Call.nestOK, Call.dur]

end Uft.C07
