import Uft.Model.Fstack
/- C07 — Analysis-time filters mean the same as record-time filters. -/
namespace Uft.C07
open Uft.Mcount Uft.Fstack

/-- S4 (boundary of -t): a call that ran exactly the threshold is dropped when the
    threshold is given at record time (`>`), and shown when it is given at replay time (`≥`). -/
theorem c07_time_boundary_witness :
    (runCalls { threshold := 10 } .pg (St.init { threshold := 10 }) (.cons (.node 1 100 110 .nil) .nil)).out = [] ∧
    cmdOut (RCfg.ofRecord { threshold := 10 }) .replay (evCalls 0 (.cons (.node 1 100 110 .nil) .nil)) =
      [{ time := 100, type := 0, depth := 0, addr := 1 }, { time := 110, type := 1, depth := 0, addr := 1 }] := by
  decide

end Uft.C07
