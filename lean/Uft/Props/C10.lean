import Uft.Lemmas.Symtab
import Uft.Lemmas.SymFile
import Uft.Lemmas.Session
/-
C10 — Recorded addresses resolve to the right symbol, module and session.
Property theorems only (helpers are in Lemmas/{Symtab,SymFile,Session}.lean).
-/
namespace Uft.C10
open Uft.Symtab Uft.SymFile Uft.Session

/-! ## address → symbol (find_sym / bsearch + addrfind) -/

/-- Whatever the table looks like, a symbol that `find_sym` returns is an entry of the
    table, contains the address, and is not one of the `__sym_end` markers. -/
theorem c10_find_sound (t : List Sym) (a : Nat) (s : Sym) (h : findSym t a = some s) :
    s ∈ t ∧ s.contains a ∧ isSymbolEnd s.name = false := by
  obtain ⟨hb, he⟩ := dropSymEnd_some h
  obtain ⟨hm, hc⟩ := bsearch_some _ _ _ hb
  exact ⟨hm, (addrfind_zero_iff a s).mp hc, he⟩

/-- On a well-formed table (address-sorted; two entries are disjoint or cover the same
    range) an address inside some symbol resolves to a symbol that contains it, and an
    address inside no symbol resolves to nothing (it is shown as a raw address). -/
theorem c10_find_correct (t : List Sym) (a : Nat) (hwf : WellFormed t) :
    ((∃ s ∈ t, s.contains a) → (∀ s ∈ t, s.contains a → isSymbolEnd s.name = false) →
        ∃ s', findSym t a = some s' ∧ s' ∈ t ∧ s'.contains a) ∧
    ((∀ s ∈ t, ¬ s.contains a) → findSym t a = none) := by
  constructor
  · intro ⟨s, hs, hc⟩ hne
    cases hb : bsearch (addrfind a) t with
    | none => exact absurd hc (bsearch_none t hwf a hb s hs)
    | some s' =>
      obtain ⟨hm, hz⟩ := bsearch_some _ _ _ hb
      have hc' := (addrfind_zero_iff a s').mp hz
      exact ⟨s', by simp [findSym, hb, dropSymEnd, hne s' hm hc'], hm, hc'⟩
  · intro hno
    cases hf : findSym t a with
    | none => rfl
    | some s => exact absurd (c10_find_sound t a s hf).2.1 (hno s (c10_find_sound t a s hf).1)

example : WellFormed [⟨0x100, 0x10, 'T', ['a']⟩, ⟨0x110, 0, 't', ['z']⟩, ⟨0x110, 8, 'T', ['b']⟩,
    ⟨0x200, 4, 'T', ['c']⟩] := by decide

/-- The answer is unique up to symbols with the identical range (aliases kept by the
    `.sym` loader): the symbol found covers exactly the range of any symbol of the table
    that contains the address. -/
theorem c10_find_unique_range (t : List Sym) (a : Nat) (hwf : WellFormed t) (s r : Sym)
    (hs : s ∈ t) (hc : s.contains a) (hr : findSym t a = some r) :
    r.addr = s.addr ∧ r.stop = s.stop := by
  obtain ⟨hm, hcr, _⟩ := c10_find_sound t a r hr
  exact wf_same_range t hwf a r s hm hs hcr hc

/-- Boundaries: the first and the last byte of a symbol resolve to (the range of) that
    symbol; one past the end resolves only to a symbol that starts exactly there. -/
theorem c10_boundaries (t : List Sym) (hwf : WellFormed t) (s : Sym) (hs : s ∈ t)
    (hsz : 0 < s.size) (hnw : s.addr + s.size < U64)
    (hne : ∀ s' ∈ t, s'.addr = s.addr → isSymbolEnd s'.name = false) :
    (∃ r, findSym t s.addr = some r ∧ r.addr = s.addr ∧ r.stop = s.stop) ∧
    (∃ r, findSym t (s.addr + s.size - 1) = some r ∧ r.addr = s.addr ∧ r.stop = s.stop) ∧
    (∀ r, findSym t (s.addr + s.size) = some r → r.addr = s.addr + s.size) := by
  have hstop : s.stop = s.addr + s.size := by unfold Sym.stop; exact Nat.mod_eq_of_lt hnw
  have inside : ∀ a, s.contains a → ∃ r, findSym t a = some r ∧ r.addr = s.addr ∧ r.stop = s.stop := by
    intro a hc
    have hne' : ∀ s' ∈ t, s'.contains a → isSymbolEnd s'.name = false := by
      intro s' hs' hc'
      exact hne s' hs' (wf_same_range t hwf a s' s hs' hs hc' hc).1
    obtain ⟨r, hr, _, _⟩ := (c10_find_correct t a hwf).1 ⟨s, hs, hc⟩ hne'
    exact ⟨r, hr, c10_find_unique_range t a hwf s r hs hc hr⟩
  refine ⟨inside _ ?_, inside _ ?_, ?_⟩
  · unfold Sym.contains; omega
  · unfold Sym.contains; omega
  · intro r hr
    obtain ⟨hm, hcr, _⟩ := c10_find_sound t _ r hr
    unfold Sym.contains at hcr
    rcases wf_pair t hwf s r hs hm with e | e | e
    · subst e; omega
    · unfold Compat at e; omega
    · unfold Compat at e; omega

example : ∃ t s, WellFormed t ∧ s ∈ t ∧ 0 < s.size ∧ s.addr + s.size < U64 ∧
    (∀ s' ∈ t, s'.addr = s.addr → isSymbolEnd s'.name = false) :=
  ⟨[⟨0x100, 0x10, 'T', ['a']⟩, ⟨0x110, 8, 'T', ['b']⟩], ⟨0x100, 0x10, 'T', ['a']⟩, by decide⟩

/-- Zero-size symbols contain nothing, and are never the answer of a lookup — for any
    table. -/
theorem c10_zero_size_never_found (t : List Sym) (a : Nat) (r : Sym) (hr : findSym t a = some r) :
    r.size ≠ 0 := by
  obtain ⟨_, hc, _⟩ := c10_find_sound t a r hr
  unfold Sym.contains Sym.stop at hc
  intro h0
  rw [h0, Nat.add_zero] at hc
  have := Nat.mod_le r.addr U64
  omega

/-- an address-sorted table with a zero-size entry inside another symbol's range -/
def overlapTable : List Sym :=
  [⟨0x10, 0x20, 'T', ['o','u','t','e','r']⟩, ⟨0x18, 0, 't', ['m','i','d']⟩,
   ⟨0x40, 8, 'T', ['n','e','x','t']⟩]

/-- Why well-formedness is needed: a zero-size entry inside another symbol's range makes
    the binary search miss that symbol (0x20 is inside `outer` = [0x10, 0x30)). -/
theorem c10_overlap_witness :
    AddrSorted overlapTable ∧ ¬ WellFormed overlapTable ∧
    (∃ s ∈ overlapTable, s.contains 0x20) ∧ findSym overlapTable 0x20 = none := by
  decide

/-! ## module lookup with relative addresses (find_symtabs) -/

/-- ASLR independence: an address that falls into the map of a module loaded at
    `m.start` is looked up in the module's table by its offset only. -/
theorem c10_relocation_invariant (si : SymInfo) (m : Map) (off : Nat)
    (hmap : findMap si (m.start + off) = some m) (hk : m.start + off < si.kernelBase) :
    findSymtabs si (m.start + off) = findSym m.syms off := by
  unfold findSymtabs
  rw [if_neg (by omega), hmap]
  simp [findSym, Nat.add_sub_cancel_left]

/-- … in particular the same module mapped at two different bases (two sessions, or
    two runs) gives the same symbol for the same offset. -/
theorem c10_relocation_two_bases (si₁ si₂ : SymInfo) (m₁ m₂ : Map) (off : Nat)
    (hsyms : m₁.syms = m₂.syms)
    (h₁ : findMap si₁ (m₁.start + off) = some m₁) (k₁ : m₁.start + off < si₁.kernelBase)
    (h₂ : findMap si₂ (m₂.start + off) = some m₂) (k₂ : m₂.start + off < si₂.kernelBase) :
    findSymtabs si₁ (m₁.start + off) = findSymtabs si₂ (m₂.start + off) := by
  rw [c10_relocation_invariant si₁ m₁ off h₁ k₁, c10_relocation_invariant si₂ m₂ off h₂ k₂, hsyms]

/-- Non-vacuity of the premises, for every base: a single module of length `len`
    below the kernel base. -/
theorem c10_relocation_single (base len kb off : Nat) (t : List Sym)
    (hoff : off < len) (hkb : base + len ≤ kb) :
    findSymtabs { kernelBase := kb, maps := [⟨base, base + len, t⟩] } (base + off)
      = findSym t off := by
  have := c10_relocation_invariant { kernelBase := kb, maps := [⟨base, base + len, t⟩] }
    ⟨base, base + len, t⟩ off
  apply this
  · simp [findMap]; omega
  · simp; omega

/-- An address outside every map (and below the kernel) resolves to nothing. -/
theorem c10_unmapped_is_raw (si : SymInfo) (a : Nat) (hk : a < si.kernelBase)
    (hno : ∀ m ∈ si.maps, ¬ (m.start ≤ a ∧ a < m.stop)) : findSymtabs si a = none := by
  unfold findSymtabs findMap
  rw [if_neg (by omega)]
  have : si.maps.find? (fun m => decide (m.start ≤ a ∧ a < m.stop)) = none := by
    rw [List.find?_eq_none]
    intro m hm
    simpa using hno m hm
  rw [this]

/-! ## .sym files -/

/-- If the sizes in the file (after the back-fill) do not properly overlap, the table
    that `load_module_symbol_file` leaves in memory is well-formed. -/
theorem c10_load_establishes_wf (off : Nat) (text : List Char)
    (h : NoProperOverlap (rawLoad off text)) : WellFormed (load off text) :=
  wf_sort_of_noclash _ h

/-- … hence lookups in a loaded table are correct (composition with `c10_find_correct`). -/
theorem c10_load_then_find (off : Nat) (text : List Char) (a : Nat)
    (h : NoProperOverlap (rawLoad off text)) (s : Sym) (hs : s ∈ rawLoad off text)
    (hc : s.contains a) :
    ∃ r, findSym (load off text) a = some r ∧ r.addr = s.addr ∧ r.stop = s.stop := by
  have hwf := c10_load_establishes_wf off text h
  have hs' : s ∈ load off text := (sortByAddr_perm _).mem_iff.mpr hs
  have hne : ∀ s' ∈ load off text, s'.contains a → isSymbolEnd s'.name = false := by
    intro s' hs' _
    exact rawLoad_no_symend off text s' ((sortByAddr_perm _).mem_iff.mp hs')
  obtain ⟨r, hr, _, _⟩ := (c10_find_correct _ a hwf).1 ⟨s, hs', hc⟩ hne
  exact ⟨r, hr, c10_find_unique_range _ a hwf s r hs' hc hr⟩

/-- Round trip: a table that `save_module_symbol_file` can express (address-sorted, every
    size non-zero and below 0xa0000000, an allowed type, a name without TAB/newline that is
    not a `__sym_end` marker, no two consecutive entries with the same (addr, type)) is read
    back by `load_module_symbol_file` exactly as it was — for every load offset, path and
    build-id. -/
theorem c10_load_save (off : Nat) (path bid : List Char) (t : List Sym)
    (hp : '\n' ∉ path) (hb : '\n' ∉ bid) (hok : ∀ s ∈ t, SaveOk s)
    (hsorted : AddrSorted t) (hnd : NoAdjDup t) :
    load off (save off path bid t) = t := by
  cases t with
  | nil => simp [save, load, rawLoad, splitLines, splitLinesAux, sortByAddr]
  | cons s r =>
    have hs := hok s (by simp)
    have hchain : Chain off ({} : LdSt).prevAddr ({} : LdSt).prevType (s :: r) :=
      ⟨fun e => (allowed_ne_nl _ hs.type).2 e.2,
       chain_of_noAdjDup off s r hs.addr (fun x hx => (hok x (by simp [hx])).addr) hnd⟩
    unfold load rawLoad
    rw [splitLines_save off path bid (s :: r) hp hb
      (fun x hx => saveLine_no_nl off x (hok x hx)) (by simp)]
    rw [List.foldl_append, foldl_hash off _ _ (hdrLines_hash _ _ _)]
    rw [foldl_saved off (s :: r) {} hok hchain (by intro x r' h; simp at h)]
    simp only [List.append_nil, List.reverse_reverse]
    exact sortByAddr_of_sorted _ hsorted

example : ∃ t : List Sym, t ≠ [] ∧ (∀ s ∈ t, SaveOk s) ∧ AddrSorted t ∧ NoAdjDup t :=
  ⟨[⟨0x1000, 0x10, 'T', ['m','a','i','n']⟩, ⟨0x1010, 0x20, 't', ['o','p',' ','n','e','w']⟩],
   by simp, by
     intro s hs
     simp only [List.mem_cons, List.not_mem_nil, or_false] at hs
     rcases hs with e | e <;> subst e <;> constructor <;> decide,
   by decide, by simp [NoAdjDup]⟩

/-- Why the size bound is needed: `%08x` of a size whose first hex digit is a letter is
    read back as a type character, and the line is dropped. -/
theorem c10_load_save_big_size_witness :
    load 0 (save 0 ['p'] [] [⟨0x1000, 0xa0000000, 'T', ['h','u','g','e']⟩]) = [] := by
  decide

/-! ## which symbol file belongs to a module (load_module_symbol, --with-syms) -/

/-- The primary file `<basename>.sym` is never used for a module whose build-id conflicts
    with the one in the file's header — with or without a separate symbol directory
    (SYMTAB_FL_SYMS_DIR waives the path-name comparison only). -/
theorem c10_symfile_primary_buildid (d : SymDir) (withSyms : Bool) (mname mbid text : List Char)
    (hsel : selectSymName d withSyms mname mbid = basename mname ++ ".sym".toList)
    (hfile : d.get (basename mname ++ ".sym".toList) = some text)
    (hcnt : (checkSymbolFile text).count > 0)
    (hb : (checkSymbolFile text).bid ≠ []) (hm : mbid ≠ [])
    (hne : newSymName (basename mname ++ ".sym".toList) mname mbid ≠ basename mname ++ ".sym".toList) :
    (checkSymbolFile text).bid = mbid := by
  unfold selectSymName at hsel
  simp only [hfile] at hsel
  split at hsel
  · exact absurd hsel hne
  · rename_i hcond
    apply Classical.byContradiction
    intro hdiff
    exact hcond ⟨hcnt, Or.inr ⟨hb, hm, hdiff⟩⟩

/-- … and when the build-ids conflict the alternative name `<basename>-<id4>.sym` is
    taken, again independent of `--with-syms`. -/
theorem c10_symfile_conflict_uses_alt (d : SymDir) (withSyms : Bool) (mname mbid text : List Char)
    (hfile : d.get (basename mname ++ ".sym".toList) = some text)
    (hcnt : (checkSymbolFile text).count > 0)
    (hb : (checkSymbolFile text).bid ≠ []) (hm : mbid ≠ [])
    (hdiff : (checkSymbolFile text).bid ≠ mbid) :
    selectSymName d withSyms mname mbid = newSymName (basename mname ++ ".sym".toList) mname mbid := by
  unfold selectSymName
  simp only [hfile]
  rw [if_pos ⟨hcnt, Or.inr ⟨hb, hm, hdiff⟩⟩]

/-- two libraries `red/libp.so` and `blue/libp.so` with different build-ids, saved by record -/
def twoLibsDir : SymDir :=
  saveInto (saveInto [] "/r/libp.so".toList "aaaa11".toList [⟨0x100, 0x10, 'T', "red".toList⟩])
    "/b/libp.so".toList "bbbb22".toList [⟨0x100, 0x20, 'T', "blue".toList⟩]

/-- Non-vacuity / end-to-end instance: each of the two same-named libraries gets its own
    table back, with and without `--with-syms`. -/
theorem c10_symfile_two_libs_witness :
    ∀ ws : Bool,
      moduleTable twoLibsDir ws "/r/libp.so".toList "aaaa11".toList = [⟨0x100, 0x10, 'T', "red".toList⟩] ∧
      moduleTable twoLibsDir ws "/b/libp.so".toList "bbbb22".toList = [⟨0x100, 0x20, 'T', "blue".toList⟩] := by
  decide

/-! ## session in force at a timestamp -/

/-- References added in time order: the session used for time `t` is the one of the
    latest `add_session_ref` call with `ts ≤ t` (later call wins among equal times);
    before the first call the parent's (or thread leader's) session is used. -/
theorem c10_session_by_time (tasks : List Task) (task : Task) (adds : Adds) (t fuel : Nat)
    (hrefs : task.refs = buildRefs adds) (hs : adds.Pairwise (fun x y => x.2 ≤ y.2))
    (ht : t < TMAX) :
    (∀ x, (adds.filter (fun x => decide (x.2 ≤ t))).getLast? = some x →
        findTaskSession tasks (fuel + 1) (some task) t = some x.1) ∧
    ((∀ x ∈ adds, t < x.2) →
        findTaskSession tasks (fuel + 1) (some task) t =
          (let parent := if task.ppid ≠ 0 then task.ppid else task.pid
           if parent = 0 ∨ parent = task.tid then none
           else findTaskSession tasks fuel (findTask tasks parent) t)) := by
  have key := findRef_refsOf adds t ht hs
  rw [← buildRefs_eq, ← hrefs] at key
  constructor
  · intro x hx
    rw [hx] at key
    cases hf : findRef task.refs t with
    | none => simp [hf] at key
    | some r =>
      simp only [hf, Option.map_some, Option.some.injEq] at key
      simp [findTaskSession, hf, key]
  · intro hall
    have hnone : findRef task.refs t = none := by
      rw [hrefs, buildRefs_eq]; exact findRef_refsOf_before adds t hall
    simp [findTaskSession, hnone]

example : ∃ adds : Adds, adds.Pairwise (fun x y => x.2 ≤ y.2) ∧
    (adds.filter (fun x => decide (x.2 ≤ 150))).getLast? = some (7, 100) :=
  ⟨[(7, 100), (8, 200)], by decide⟩

/-- `create_session` keeps the session tree ordered by (pid, start time). -/
theorem c10_sessions_sorted (xs : List Sess) :
    SessSorted (xs.foldl createSession {}).sessions := by
  suffices h : ∀ (lk : Link), SessSorted lk.sessions → SessSorted (xs.foldl createSession lk).sessions from
    h {} List.Pairwise.nil
  induction xs with
  | nil => intro lk h; exact h
  | cons x r ih => intro lk h; exact ih _ (insertSess_sorted x lk.sessions h)

/-- `find_session(pid, t)` (used when a task is created, forks or execs): the session it
    returns belongs to that pid, had started by `t`, and no session of the pid that had
    started by `t` started later; it returns nothing only if there is no such session. -/
theorem c10_session_lookup_latest (ss : List Sess) (hs : SessSorted ss) (pid ts : Nat) :
    (∀ s, findSession ss pid ts = some s →
        s ∈ ss ∧ s.pid = pid ∧ s.start ≤ ts ∧
        ∀ s' ∈ ss, s'.pid = pid → s'.start ≤ ts → s'.start ≤ s.start) ∧
    (findSession ss pid ts = none → ∀ s' ∈ ss, ¬ (s'.pid = pid ∧ s'.start ≤ ts)) := by
  constructor
  · intro s hf
    unfold findSession at hf
    obtain ⟨ys, hys⟩ := List.getLast?_eq_some_iff.mp hf
    have hmem : s ∈ ss.filter (fun s => s.pid == pid && decide (s.start ≤ ts)) := by rw [hys]; simp
    have hprop := List.mem_filter.mp hmem
    simp only [Bool.and_eq_true, beq_iff_eq, decide_eq_true_eq] at hprop
    refine ⟨hprop.1, hprop.2.1, hprop.2.2, ?_⟩
    intro s' hs' hp ht
    have hm' : s' ∈ ss.filter (fun s => s.pid == pid && decide (s.start ≤ ts)) :=
      List.mem_filter.mpr ⟨hs', by simp [hp, ht]⟩
    have hsorted : (ys ++ [s]).Pairwise (fun a b => a.pid < b.pid ∨ (a.pid = b.pid ∧ a.start ≤ b.start)) := by
      rw [← hys]; exact List.Pairwise.sublist List.filter_sublist hs
    rw [hys] at hm'
    rcases List.mem_append.mp hm' with e | e
    · have := (List.pairwise_append.mp hsorted).2.2 s' e s (by simp)
      have := hprop.2.1
      omega
    · simp only [List.mem_singleton] at e
      subst e; exact Nat.le_refl _
  · intro hf s' hs' ⟨hp, ht⟩
    unfold findSession at hf
    have hnil := List.getLast?_eq_none_iff.mp hf
    have hm' : s' ∈ ss.filter (fun s => s.pid == pid && decide (s.start ≤ ts)) :=
      List.mem_filter.mpr ⟨hs', by simp [hp, ht]⟩
    rw [hnil] at hm'
    simp at hm'

/-- The reference intervals of one task never overlap, so "the" reference with
    `start ≤ t < end` is unique. -/
theorem c10_session_refs_disjoint (adds : Adds) (hs : adds.Pairwise (fun x y => x.2 ≤ y.2)) :
    (buildRefs adds).Pairwise (fun a b => a.stop ≤ b.start) := by
  rw [buildRefs_eq]; exact refsOf_disjoint adds hs

/-! ## dlopen'ed libraries -/

/-- `session_add_dlopen` keeps the list ordered by load time. -/
theorem c10_dlopen_sorted (xs : List DlLib) :
    (xs.foldl addDlopen []).Pairwise (fun a b => a.time ≤ b.time) := by
  suffices h : ∀ (init : List DlLib), init.Pairwise (fun a b => a.time ≤ b.time) →
      (xs.foldl addDlopen init).Pairwise (fun a b => a.time ≤ b.time) from h [] List.Pairwise.nil
  induction xs with
  | nil => intro init h; exact h
  | cons x r ih => intro init h; exact ih _ (addDlopen_sorted init x h)

/-- A library is used only for `t ≥` its load time, and among the eligible libraries
    that resolve the address the most recently loaded one wins. -/
theorem c10_dlopen_by_time (libs : List DlLib) (t a : Nat)
    (hs : libs.Pairwise (fun x y => x.time ≤ y.time)) :
    (∀ s, findDlsym libs t a = some s →
        ∃ l ∈ libs, l.time ≤ t ∧ findSym l.syms (sub64 a l.base) = some s ∧
          ∀ l' ∈ libs, l.time < l'.time → l'.time ≤ t → findSym l'.syms (sub64 a l'.base) = none) ∧
    (findDlsym libs t a = none ↔
        ∀ l ∈ libs, l.time ≤ t → findSym l.syms (sub64 a l.base) = none) ∧
    findDlsym libs t a = findDlsym (libs.filter (fun l => decide (l.time ≤ t))) t a := by
  refine ⟨?_, ?_, ?_⟩
  · intro s h
    unfold findDlsym at h
    obtain ⟨l₁, l, l₂, hsplit, hl, hnone⟩ := List.findSome?_eq_some_iff.mp h
    have hlibs : libs = l₂.reverse ++ l :: l₁.reverse := by
      have := congrArg List.reverse hsplit
      simpa using this
    have hle : l.time ≤ t := by
      by_cases hgt : l.time > t
      · simp [hgt] at hl
      · omega
    refine ⟨l, by rw [hlibs]; simp, hle, by simpa [show ¬ l.time > t by omega] using hl, ?_⟩
    intro l' hl' hlt hle'
    rw [hlibs] at hl' hs
    have hsplit2 := List.pairwise_append.mp hs
    rcases List.mem_append.mp hl' with hm | hm
    · have := hsplit2.2.2 l' hm l (by simp); omega
    · rcases List.mem_cons.mp hm with e | e
      · subst e; omega
      · have := hnone l' (by simpa using e)
        simpa [show ¬ l'.time > t by omega] using this
  · unfold findDlsym
    rw [List.findSome?_eq_none_iff]
    constructor
    · intro h l hl hle
      have := h l (by simpa using hl)
      simpa [show ¬ l.time > t by omega] using this
    · intro h l hl
      by_cases hgt : l.time > t
      · simp [hgt]
      · simpa [hgt] using h l (by simpa using hl) (by omega)
  · unfold findDlsym
    rw [← List.filter_reverse]
    symm
    apply findSome?_filter_irrelevant
    intro x hx
    have : x.time > t := by simpa using hx
    simp [this]

example : ∃ libs : List DlLib, libs.Pairwise (fun x y => x.time ≤ y.time) ∧
    findDlsym libs 250 0x7003410 = some ⟨0x400, 0x100, 'T', ['f','o','o']⟩ ∧
    findDlsym libs 150 0x7003410 = none :=
  ⟨addDlopen [] ⟨200, 0x7003000, [⟨0x300, 0x100, 'T', ['_','s']⟩, ⟨0x400, 0x100, 'T', ['f','o','o']⟩]⟩,
   by decide⟩

end Uft.C10
