import Uft.Lemmas.Symtab
import Uft.Lemmas.SymFile
import Uft.Lemmas.Session
import Uft.Lemmas.DlRecord
import Uft.Lemmas.ElfSym
/-
C10 — Recorded addresses resolve to the right symbol, module and session.
Property theorems only (helpers are in Lemmas/{Symtab,SymFile,Session,DlRecord,ElfSym}.lean).
-/
namespace Uft.C10
open Uft.Symtab Uft.SymFile Uft.Session

/-! ## address → symbol (find_sym / bsearch + addrfind) -/

/-- Whatever the table looks like, a symbol that `find_sym` returns is an entry of the
    table, contains the address, and is not one of the `__sym_end` markers. -/
theorem c10_find_sound (t : List Sym) (a : Nat) (s : Sym) (h : findSym t a = some s) :
    s ∈ t ∧ s.contains a ∧ isSymbolEnd s.name = false := by
  obtain ⟨hb, he⟩ := dropSymEnd_some h
  obtain ⟨hm, hc⟩ := bsearch_some _ _ _ hb
  exact ⟨hm, (addrfind_zero_iff a s).mp hc, he⟩

/-- On a well-formed table (address-sorted; two entries are disjoint or cover the same
    range) an address inside some symbol resolves to a symbol that contains it, and an
    address inside no symbol resolves to nothing (it is shown as a raw address). -/
theorem c10_find_correct (t : List Sym) (a : Nat) (hwf : WellFormed t) :
    ((∃ s ∈ t, s.contains a) → (∀ s ∈ t, s.contains a → isSymbolEnd s.name = false) →
        ∃ s', findSym t a = some s' ∧ s' ∈ t ∧ s'.contains a) ∧
    ((∀ s ∈ t, ¬ s.contains a) → findSym t a = none) := by
  constructor
  · intro ⟨s, hs, hc⟩ hne
    cases hb : bsearch (addrfind a) t with
    | none => exact absurd hc (bsearch_none t hwf a hb s hs)
    | some s' =>
      obtain ⟨hm, hz⟩ := bsearch_some _ _ _ hb
      have hc' := (addrfind_zero_iff a s').mp hz
      exact ⟨s', by simp [findSym, hb, dropSymEnd, hne s' hm hc'], hm, hc'⟩
  · intro hno
    cases hf : findSym t a with
    | none => rfl
    | some s => exact absurd (c10_find_sound t a s hf).2.1 (hno s (c10_find_sound t a s hf).1)

example : WellFormed [⟨0x100, 0x10, 'T', ['a']⟩, ⟨0x110, 0, 't', ['z']⟩, ⟨0x110, 8, 'T', ['b']⟩,
    ⟨0x200, 4, 'T', ['c']⟩] := by decide

/-- The answer is unique up to symbols with the identical range (aliases kept by the
    `.sym` loader): the symbol found covers exactly the range of any symbol of the table
    that contains the address. -/
theorem c10_find_unique_range (t : List Sym) (a : Nat) (hwf : WellFormed t) (s r : Sym)
    (hs : s ∈ t) (hc : s.contains a) (hr : findSym t a = some r) :
    r.addr = s.addr ∧ r.stop = s.stop := by
  obtain ⟨hm, hcr, _⟩ := c10_find_sound t a r hr
  exact wf_same_range t hwf a r s hm hs hcr hc

/-- Boundaries: the first and the last byte of a symbol resolve to (the range of) that
    symbol; one past the end resolves only to a symbol that starts exactly there. -/
theorem c10_boundaries (t : List Sym) (hwf : WellFormed t) (s : Sym) (hs : s ∈ t)
    (hsz : 0 < s.size) (hnw : s.addr + s.size < U64)
    (hne : ∀ s' ∈ t, s'.addr = s.addr → isSymbolEnd s'.name = false) :
    (∃ r, findSym t s.addr = some r ∧ r.addr = s.addr ∧ r.stop = s.stop) ∧
    (∃ r, findSym t (s.addr + s.size - 1) = some r ∧ r.addr = s.addr ∧ r.stop = s.stop) ∧
    (∀ r, findSym t (s.addr + s.size) = some r → r.addr = s.addr + s.size) := by
  have hstop : s.stop = s.addr + s.size := by unfold Sym.stop; exact Nat.mod_eq_of_lt hnw
  have inside : ∀ a, s.contains a → ∃ r, findSym t a = some r ∧ r.addr = s.addr ∧ r.stop = s.stop := by
    intro a hc
    have hne' : ∀ s' ∈ t, s'.contains a → isSymbolEnd s'.name = false := by
      intro s' hs' hc'
      exact hne s' hs' (wf_same_range t hwf a s' s hs' hs hc' hc).1
    obtain ⟨r, hr, _, _⟩ := (c10_find_correct t a hwf).1 ⟨s, hs, hc⟩ hne'
    exact ⟨r, hr, c10_find_unique_range t a hwf s r hs hc hr⟩
  refine ⟨inside _ ?_, inside _ ?_, ?_⟩
  · unfold Sym.contains; omega
  · unfold Sym.contains; omega
  · intro r hr
    obtain ⟨hm, hcr, _⟩ := c10_find_sound t _ r hr
    unfold Sym.contains at hcr
    rcases wf_pair t hwf s r hs hm with e | e | e
    · subst e; omega
    · unfold Compat at e; omega
    · unfold Compat at e; omega

example : ∃ t s, WellFormed t ∧ s ∈ t ∧ 0 < s.size ∧ s.addr + s.size < U64 ∧
    (∀ s' ∈ t, s'.addr = s.addr → isSymbolEnd s'.name = false) :=
  ⟨[⟨0x100, 0x10, 'T', ['a']⟩, ⟨0x110, 8, 'T', ['b']⟩], ⟨0x100, 0x10, 'T', ['a']⟩, by decide⟩

/-- Zero-size symbols contain nothing, and are never the answer of a lookup — for any
    table. -/
theorem c10_zero_size_never_found (t : List Sym) (a : Nat) (r : Sym) (hr : findSym t a = some r) :
    r.size ≠ 0 := by
  obtain ⟨_, hc, _⟩ := c10_find_sound t a r hr
  unfold Sym.contains Sym.stop at hc
  intro h0
  rw [h0, Nat.add_zero] at hc
  have := Nat.mod_le r.addr U64
  omega

/-- an address-sorted table with a zero-size entry inside another symbol's range -/
def overlapTable : List Sym :=
  [⟨0x10, 0x20, 'T', ['o','u','t','e','r']⟩, ⟨0x18, 0, 't', ['m','i','d']⟩,
   ⟨0x40, 8, 'T', ['n','e','x','t']⟩]

/-- Why well-formedness is needed: a zero-size entry inside another symbol's range makes
    the binary search miss that symbol (0x20 is inside `outer` = [0x10, 0x30)). -/
theorem c10_overlap_witness :
    AddrSorted overlapTable ∧ ¬ WellFormed overlapTable ∧
    (∃ s ∈ overlapTable, s.contains 0x20) ∧ findSym overlapTable 0x20 = none := by
  decide

/-! ## module lookup with relative addresses (find_symtabs) -/

/-- ASLR independence: an address that falls into the map of a module loaded at
    `m.start` is looked up in the module's table by its offset only. -/
theorem c10_relocation_invariant (si : SymInfo) (m : Map) (off : Nat)
    (hmap : findMap si (m.start + off) = some m) (hk : m.start + off < si.kernelBase) :
    findSymtabs si (m.start + off) = findSym m.syms off := by
  unfold findSymtabs
  rw [if_neg (by omega), hmap]
  simp [findSym, Nat.add_sub_cancel_left]

/-- … in particular the same module mapped at two different bases (two sessions, or
    two runs) gives the same symbol for the same offset. -/
theorem c10_relocation_two_bases (si₁ si₂ : SymInfo) (m₁ m₂ : Map) (off : Nat)
    (hsyms : m₁.syms = m₂.syms)
    (h₁ : findMap si₁ (m₁.start + off) = some m₁) (k₁ : m₁.start + off < si₁.kernelBase)
    (h₂ : findMap si₂ (m₂.start + off) = some m₂) (k₂ : m₂.start + off < si₂.kernelBase) :
    findSymtabs si₁ (m₁.start + off) = findSymtabs si₂ (m₂.start + off) := by
  rw [c10_relocation_invariant si₁ m₁ off h₁ k₁, c10_relocation_invariant si₂ m₂ off h₂ k₂, hsyms]

/-- Non-vacuity of the premises, for every base: a single module of length `len`
    below the kernel base. -/
theorem c10_relocation_single (base len kb off : Nat) (t : List Sym)
    (hoff : off < len) (hkb : base + len ≤ kb) :
    findSymtabs { kernelBase := kb, maps := [⟨base, base + len, t⟩] } (base + off)
      = findSym t off := by
  have := c10_relocation_invariant { kernelBase := kb, maps := [⟨base, base + len, t⟩] }
    ⟨base, base + len, t⟩ off
  apply this
  · simp [findMap]; omega
  · simp; omega

/-- An address outside every map (and below the kernel) resolves to nothing. -/
theorem c10_unmapped_is_raw (si : SymInfo) (a : Nat) (hk : a < si.kernelBase)
    (hno : ∀ m ∈ si.maps, ¬ (m.start ≤ a ∧ a < m.stop)) : findSymtabs si a = none := by
  unfold findSymtabs findMap
  rw [if_neg (by omega)]
  have : si.maps.find? (fun m => decide (m.start ≤ a ∧ a < m.stop)) = none := by
    rw [List.find?_eq_none]
    intro m hm
    simpa using hno m hm
  rw [this]

/-! ## .sym files -/

/-- If the sizes in the file (after the back-fill) do not properly overlap, the table
    that `load_module_symbol_file` leaves in memory is well-formed. -/
theorem c10_load_establishes_wf (off : Nat) (text : List Char)
    (h : NoProperOverlap (rawLoad off text)) : WellFormed (load off text) :=
  wf_sort_of_noclash _ h

/-- … hence lookups in a loaded table are correct (composition with `c10_find_correct`). -/
theorem c10_load_then_find (off : Nat) (text : List Char) (a : Nat)
    (h : NoProperOverlap (rawLoad off text)) (s : Sym) (hs : s ∈ rawLoad off text)
    (hc : s.contains a) :
    ∃ r, findSym (load off text) a = some r ∧ r.addr = s.addr ∧ r.stop = s.stop := by
  have hwf := c10_load_establishes_wf off text h
  have hs' : s ∈ load off text := (sortByAddr_perm _).mem_iff.mpr hs
  have hne : ∀ s' ∈ load off text, s'.contains a → isSymbolEnd s'.name = false := by
    intro s' hs' _
    exact rawLoad_no_symend off text s' ((sortByAddr_perm _).mem_iff.mp hs')
  obtain ⟨r, hr, _, _⟩ := (c10_find_correct _ a hwf).1 ⟨s, hs', hc⟩ hne
  exact ⟨r, hr, c10_find_unique_range _ a hwf s r hs' hc hr⟩

/-- Round trip: a table that `save_module_symbol_file` can express (address-sorted, every
    size non-zero and below 0xa0000000, an allowed type, a name without TAB/newline that is
    not a `__sym_end` marker, no two consecutive entries with the same (addr, type)) is read
    back by `load_module_symbol_file` exactly as it was — for every load offset, path and
    build-id. -/
theorem c10_load_save (off : Nat) (path bid : List Char) (t : List Sym)
    (hp : '\n' ∉ path) (hb : '\n' ∉ bid) (hok : ∀ s ∈ t, SaveOk s)
    (hsorted : AddrSorted t) (hnd : NoAdjDup t) :
    load off (save off path bid t) = t := by
  cases t with
  | nil => simp [save, load, rawLoad, splitLines, splitLinesAux, sortByAddr]
  | cons s r =>
    have hs := hok s (by simp)
    have hchain : Chain off ({} : LdSt).prevAddr ({} : LdSt).prevType (s :: r) :=
      ⟨fun e => (allowed_ne_nl _ hs.type).2 e.2,
       chain_of_noAdjDup off s r hs.addr (fun x hx => (hok x (by simp [hx])).addr) hnd⟩
    unfold load rawLoad
    rw [splitLines_save off path bid (s :: r) hp hb
      (fun x hx => saveLine_no_nl off x (hok x hx)) (by simp)]
    rw [List.foldl_append, foldl_hash off _ _ (hdrLines_hash _ _ _)]
    rw [foldl_saved off (s :: r) {} hok hchain (by intro x r' h; simp at h)]
    simp only [List.append_nil, List.reverse_reverse]
    exact sortByAddr_of_sorted _ hsorted

example : ∃ t : List Sym, t ≠ [] ∧ (∀ s ∈ t, SaveOk s) ∧ AddrSorted t ∧ NoAdjDup t :=
  ⟨[⟨0x1000, 0x10, 'T', ['m','a','i','n']⟩, ⟨0x1010, 0x20, 't', ['o','p',' ','n','e','w']⟩],
   by simp, by
     intro s hs
     simp only [List.mem_cons, List.not_mem_nil, or_false] at hs
     rcases hs with e | e <;> subst e <;> constructor <;> decide,
   by decide, by simp [NoAdjDup]⟩

/-- Why the size bound is needed: `%08x` of a size whose first hex digit is a letter is
    read back as a type character, and the line is dropped. -/
theorem c10_load_save_big_size_witness :
    load 0 (save 0 ['p'] [] [⟨0x1000, 0xa0000000, 'T', ['h','u','g','e']⟩]) = [] := by
  decide

/-! ## which symbol file belongs to a module (load_module_symbol, --with-syms) -/

/-- The primary file `<basename>.sym` is never used for a module whose build-id conflicts
    with the one in the file's header — with or without a separate symbol directory
    (SYMTAB_FL_SYMS_DIR waives the path-name comparison only). -/
theorem c10_symfile_primary_buildid (d : SymDir) (withSyms : Bool) (mname mbid text : List Char)
    (hsel : selectSymName d withSyms mname mbid = basename mname ++ ".sym".toList)
    (hfile : d.get (basename mname ++ ".sym".toList) = some text)
    (hcnt : (checkSymbolFile text).count > 0)
    (hb : (checkSymbolFile text).bid ≠ []) (hm : mbid ≠ [])
    (hne : newSymName (basename mname ++ ".sym".toList) mname mbid ≠ basename mname ++ ".sym".toList) :
    (checkSymbolFile text).bid = mbid := by
  unfold selectSymName at hsel
  simp only [hfile] at hsel
  split at hsel
  · exact absurd hsel hne
  · rename_i hcond
    apply Classical.byContradiction
    intro hdiff
    exact hcond ⟨hcnt, Or.inr ⟨hb, hm, hdiff⟩⟩

/-- … and when the build-ids conflict the alternative name `<basename>-<id4>.sym` is
    taken, again independent of `--with-syms`. -/
theorem c10_symfile_conflict_uses_alt (d : SymDir) (withSyms : Bool) (mname mbid text : List Char)
    (hfile : d.get (basename mname ++ ".sym".toList) = some text)
    (hcnt : (checkSymbolFile text).count > 0)
    (hb : (checkSymbolFile text).bid ≠ []) (hm : mbid ≠ [])
    (hdiff : (checkSymbolFile text).bid ≠ mbid) :
    selectSymName d withSyms mname mbid = newSymName (basename mname ++ ".sym".toList) mname mbid := by
  unfold selectSymName
  simp only [hfile]
  rw [if_pos ⟨hcnt, Or.inr ⟨hb, hm, hdiff⟩⟩]

/-- two libraries `red/libp.so` and `blue/libp.so` with different build-ids, saved by record -/
def twoLibsDir : SymDir :=
  saveInto (saveInto [] "/r/libp.so".toList "aaaa11".toList [⟨0x100, 0x10, 'T', "red".toList⟩])
    "/b/libp.so".toList "bbbb22".toList [⟨0x100, 0x20, 'T', "blue".toList⟩]

/-- Non-vacuity / end-to-end instance: each of the two same-named libraries gets its own
    table back, with and without `--with-syms`. -/
theorem c10_symfile_two_libs_witness :
    ∀ ws : Bool,
      moduleTable twoLibsDir ws "/r/libp.so".toList "aaaa11".toList = [⟨0x100, 0x10, 'T', "red".toList⟩] ∧
      moduleTable twoLibsDir ws "/b/libp.so".toList "bbbb22".toList = [⟨0x100, 0x20, 'T', "blue".toList⟩] := by
  decide

/-! ## writer and reader of the symbol files agree (save_module_symtabs vs load_module_symbol) -/

/-- Writer/reader agreement on WHICH file holds WHICH module's symbols.  `record` saves the
    modules in any order (`save_module_symbol_file` as coded: `<base>.sym` if free; else the
    header of `<base>.sym` is compared by path name AND build-id — equal: already saved,
    different: `<base>-<id4 | path checksum>.sym` unless taken).  For every set of modules
    — any path names, equal base names with different build-ids, the same build-id under
    different path names, with and without build-ids — that is consistent (`Consistent`: a
    path names one file, a build-id one binary, alternative names collide only for
    installations of one binary, every binary has a build-id under `--with-syms`), the file
    `load_module_symbol` selects for a module with symbols exists and holds that module's
    table (written for the module itself or for another installation of the same binary). -/
theorem c10_symfile_writer_reader_agree (ws : Bool) (ms : List Mod) (hC : Consistent ws ms)
    (m : Mod) (hm : m ∈ ms) (hne : m.tab ≠ []) :
    ∃ m' ∈ ms, m'.tab = m.tab ∧
      (saveAll ms).get (selectSymName (saveAll ms) ws m.path m.bid) =
        some (save 0 m'.path m'.bid m'.tab) :=
  writer_reader_agree ws ms hC m hm hne

/-- … hence the analysis without the binaries (SYMTAB_FL_USE_SYMFILE, nothing to fall back
    to) works on the very table record had in memory, for every module of the recording. -/
theorem c10_symfile_saved_tables_reload (ws : Bool) (ms : List Mod) (hC : Consistent ws ms)
    (m : Mod) (hm : m ∈ ms) (hne : m.tab ≠ []) (hsorted : AddrSorted m.tab) (hnd : NoAdjDup m.tab) :
    moduleTable (saveAll ms) ws m.path m.bid = m.tab := by
  obtain ⟨m', hm', htab, hg⟩ := c10_symfile_writer_reader_agree ws ms hC m hm hne
  obtain ⟨hp, hb, _, hok⟩ := hC.ok m' hm'
  unfold moduleTable
  simp only [hg]
  rw [c10_load_save 0 m'.path m'.bid m'.tab hp hb hok (htab ▸ hsorted) (htab ▸ hnd), htab]

/-- one binary installed under two path names with the same base name (`v1/stage` exec()s its
    copy `v2/stage`), a different binary of that name, and a build-id-less one -/
def stageMods : List Mod :=
  [⟨"/v1/stage".toList, "ab12cd".toList, [⟨0x100, 0x10, 'T', "first".toList⟩]⟩,
   ⟨"/v2/stage".toList, "ab12cd".toList, [⟨0x100, 0x10, 'T', "first".toList⟩]⟩,
   ⟨"/v3/stage".toList, "ee34cd".toList, [⟨0x200, 0x20, 'T', "other".toList⟩]⟩,
   ⟨"/v4/stage".toList, [], [⟨0x300, 0x30, 't', "noid".toList⟩]⟩]

/-- Non-vacuity: the hypotheses hold for that recording (without `--with-syms`; with it for
    the three installations that have a build-id) … -/
example : Consistent false stageMods ∧ Consistent true (stageMods.take 3) := by
  have hs : ∀ s ∈ [(⟨0x100, 0x10, 'T', "first".toList⟩ : Sym), ⟨0x200, 0x20, 'T', "other".toList⟩,
      ⟨0x300, 0x30, 't', "noid".toList⟩], SaveOk s := by
    intro s h
    simp only [List.mem_cons, List.not_mem_nil, or_false] at h
    rcases h with e | e | e <;> subst e <;> constructor <;> decide
  have hok : ∀ m ∈ stageMods, '\n' ∉ m.path ∧ '\n' ∉ m.bid ∧ m.bid.length ≤ 40 ∧ ∀ s ∈ m.tab, SaveOk s := by
    intro m h
    simp only [stageMods, List.mem_cons, List.not_mem_nil, or_false] at h
    rcases h with e | e | e | e <;> subst e <;>
      exact ⟨by decide, by decide, by decide, fun s h => hs s (by simp at h; simp [h])⟩
  constructor
  · exact ⟨hok, by decide, by decide, by decide, by decide, by decide⟩
  · exact ⟨fun m h => hok m (List.mem_of_mem_take h), by decide, by decide, by decide, by decide, by decide⟩

/-- … and the instance itself, evaluated: every installation gets its table back in both modes
    (the build-id-less one only where the path name is compared). -/
theorem c10_symfile_same_binary_two_paths_witness :
    (∀ ws : Bool, ∀ m ∈ stageMods.take 3, moduleTable (saveAll (stageMods.take 3)) ws m.path m.bid = m.tab) ∧
    (∀ m ∈ stageMods, moduleTable (saveAll stageMods) false m.path m.bid = m.tab) ∧
    ((saveAll stageMods).map (·.1) =
      ["stage.sym".toList, "stage-ab12.sym".toList, "stage-ee34.sym".toList, "stage-031c.sym".toList]) := by
  decide

/-! ## session in force at a timestamp -/

/-- References added in time order: the session used for time `t` is the one of the
    latest `add_session_ref` call with `ts ≤ t` (later call wins among equal times);
    before the first call the parent's (or thread leader's) session is used. -/
theorem c10_session_by_time (tasks : List Task) (task : Task) (adds : Adds) (t fuel : Nat)
    (hrefs : task.refs = buildRefs adds) (hs : adds.Pairwise (fun x y => x.2 ≤ y.2))
    (ht : t < TMAX) :
    (∀ x, (adds.filter (fun x => decide (x.2 ≤ t))).getLast? = some x →
        findTaskSession tasks (fuel + 1) (some task) t = some x.1) ∧
    ((∀ x ∈ adds, t < x.2) →
        findTaskSession tasks (fuel + 1) (some task) t =
          (let parent := if task.ppid ≠ 0 then task.ppid else task.pid
           if parent = 0 ∨ parent = task.tid then none
           else findTaskSession tasks fuel (findTask tasks parent) t)) := by
  have key := findRef_refsOf adds t ht hs
  rw [← buildRefs_eq, ← hrefs] at key
  constructor
  · intro x hx
    rw [hx] at key
    cases hf : findRef task.refs t with
    | none => simp [hf] at key
    | some r =>
      simp only [hf, Option.map_some, Option.some.injEq] at key
      simp [findTaskSession, hf, key]
  · intro hall
    have hnone : findRef task.refs t = none := by
      rw [hrefs, buildRefs_eq]; exact findRef_refsOf_before adds t hall
    simp [findTaskSession, hnone]

example : ∃ adds : Adds, adds.Pairwise (fun x y => x.2 ≤ y.2) ∧
    (adds.filter (fun x => decide (x.2 ≤ 150))).getLast? = some (7, 100) :=
  ⟨[(7, 100), (8, 200)], by decide⟩

/-- `create_session` keeps the session tree ordered by (pid, start time). -/
theorem c10_sessions_sorted (xs : List Sess) :
    SessSorted (xs.foldl createSession {}).sessions := by
  suffices h : ∀ (lk : Link), SessSorted lk.sessions → SessSorted (xs.foldl createSession lk).sessions from
    h {} List.Pairwise.nil
  induction xs with
  | nil => intro lk h; exact h
  | cons x r ih => intro lk h; exact ih _ (insertSess_sorted x lk.sessions h)

/-- `find_session(pid, t)` (used when a task is created, forks or execs): the session it
    returns belongs to that pid, had started by `t`, and no session of the pid that had
    started by `t` started later; it returns nothing only if there is no such session. -/
theorem c10_session_lookup_latest (ss : List Sess) (hs : SessSorted ss) (pid ts : Nat) :
    (∀ s, findSession ss pid ts = some s →
        s ∈ ss ∧ s.pid = pid ∧ s.start ≤ ts ∧
        ∀ s' ∈ ss, s'.pid = pid → s'.start ≤ ts → s'.start ≤ s.start) ∧
    (findSession ss pid ts = none → ∀ s' ∈ ss, ¬ (s'.pid = pid ∧ s'.start ≤ ts)) := by
  constructor
  · intro s hf
    unfold findSession at hf
    obtain ⟨ys, hys⟩ := List.getLast?_eq_some_iff.mp hf
    have hmem : s ∈ ss.filter (fun s => s.pid == pid && decide (s.start ≤ ts)) := by rw [hys]; simp
    have hprop := List.mem_filter.mp hmem
    simp only [Bool.and_eq_true, beq_iff_eq, decide_eq_true_eq] at hprop
    refine ⟨hprop.1, hprop.2.1, hprop.2.2, ?_⟩
    intro s' hs' hp ht
    have hm' : s' ∈ ss.filter (fun s => s.pid == pid && decide (s.start ≤ ts)) :=
      List.mem_filter.mpr ⟨hs', by simp [hp, ht]⟩
    have hsorted : (ys ++ [s]).Pairwise (fun a b => a.pid < b.pid ∨ (a.pid = b.pid ∧ a.start ≤ b.start)) := by
      rw [← hys]; exact List.Pairwise.sublist List.filter_sublist hs
    rw [hys] at hm'
    rcases List.mem_append.mp hm' with e | e
    · have := (List.pairwise_append.mp hsorted).2.2 s' e s (by simp)
      have := hprop.2.1
      omega
    · simp only [List.mem_singleton] at e
      subst e; exact Nat.le_refl _
  · intro hf s' hs' ⟨hp, ht⟩
    unfold findSession at hf
    have hnil := List.getLast?_eq_none_iff.mp hf
    have hm' : s' ∈ ss.filter (fun s => s.pid == pid && decide (s.start ≤ ts)) :=
      List.mem_filter.mpr ⟨hs', by simp [hp, ht]⟩
    rw [hnil] at hm'
    simp at hm'

/-- The reference intervals of one task never overlap, so "the" reference with
    `start ≤ t < end` is unique. -/
theorem c10_session_refs_disjoint (adds : Adds) (hs : adds.Pairwise (fun x y => x.2 ≤ y.2)) :
    (buildRefs adds).Pairwise (fun a b => a.stop ≤ b.start) := by
  rw [buildRefs_eq]; exact refsOf_disjoint adds hs

/-! ## dlopen'ed libraries -/

/-- `session_add_dlopen` keeps the list ordered by load time. -/
theorem c10_dlopen_sorted (xs : List DlLib) :
    (xs.foldl addDlopen []).Pairwise (fun a b => a.time ≤ b.time) := by
  suffices h : ∀ (init : List DlLib), init.Pairwise (fun a b => a.time ≤ b.time) →
      (xs.foldl addDlopen init).Pairwise (fun a b => a.time ≤ b.time) from h [] List.Pairwise.nil
  induction xs with
  | nil => intro init h; exact h
  | cons x r ih => intro init h; exact ih _ (addDlopen_sorted init x h)

/-- A library is used only for `t ≥` its load time, and among the eligible libraries
    that resolve the address the most recently loaded one wins. -/
theorem c10_dlopen_by_time (libs : List DlLib) (t a : Nat)
    (hs : libs.Pairwise (fun x y => x.time ≤ y.time)) :
    (∀ s, findDlsym libs t a = some s →
        ∃ l ∈ libs, l.time ≤ t ∧ findSym l.syms (sub64 a l.base) = some s ∧
          ∀ l' ∈ libs, l.time < l'.time → l'.time ≤ t → findSym l'.syms (sub64 a l'.base) = none) ∧
    (findDlsym libs t a = none ↔
        ∀ l ∈ libs, l.time ≤ t → findSym l.syms (sub64 a l.base) = none) ∧
    findDlsym libs t a = findDlsym (libs.filter (fun l => decide (l.time ≤ t))) t a := by
  refine ⟨?_, ?_, ?_⟩
  · intro s h
    unfold findDlsym at h
    obtain ⟨l₁, l, l₂, hsplit, hl, hnone⟩ := List.findSome?_eq_some_iff.mp h
    have hlibs : libs = l₂.reverse ++ l :: l₁.reverse := by
      have := congrArg List.reverse hsplit
      simpa using this
    have hle : l.time ≤ t := by
      by_cases hgt : l.time > t
      · simp [hgt] at hl
      · omega
    refine ⟨l, by rw [hlibs]; simp, hle, by simpa [show ¬ l.time > t by omega] using hl, ?_⟩
    intro l' hl' hlt hle'
    rw [hlibs] at hl' hs
    have hsplit2 := List.pairwise_append.mp hs
    rcases List.mem_append.mp hl' with hm | hm
    · have := hsplit2.2.2 l' hm l (by simp); omega
    · rcases List.mem_cons.mp hm with e | e
      · subst e; omega
      · have := hnone l' (by simpa using e)
        simpa [show ¬ l'.time > t by omega] using this
  · unfold findDlsym
    rw [List.findSome?_eq_none_iff]
    constructor
    · intro h l hl hle
      have := h l (by simpa using hl)
      simpa [show ¬ l.time > t by omega] using this
    · intro h l hl
      by_cases hgt : l.time > t
      · simp [hgt]
      · simpa [hgt] using h l (by simpa using hl) (by omega)
  · unfold findDlsym
    rw [← List.filter_reverse]
    symm
    apply findSome?_filter_irrelevant
    intro x hx
    have : x.time > t := by simpa using hx
    simp [this]

example : ∃ libs : List DlLib, libs.Pairwise (fun x y => x.time ≤ y.time) ∧
    findDlsym libs 250 0x7003410 = some ⟨0x400, 0x100, 'T', ['f','o','o']⟩ ∧
    findDlsym libs 150 0x7003410 = none :=
  ⟨addDlopen [] ⟨200, 0x7003000, [⟨0x300, 0x100, 'T', ['_','s']⟩, ⟨0x400, 0x100, 'T', ['f','o','o']⟩]⟩,
   by decide⟩

/-! ## record time: the DLOPEN messages libmcount sends (libmcount/wrap.c)

`DlRecord.step` models the dlopen()/dlclose() wrappers, the loader's list, the clock and
`mcount_entry`; `Valid` states what the environment may do (see `DlRecord.EvOk`), `Init` a state
right after start-up.  `dlFixed` is the code with proposed_fixes/C10-DLREPORT.diff; the code as it
is (`dlCoded`) has the witnesses below (finding C10-DLREPORT). -/

open Uft.DlRecord in
/-- wrap.c with proposed_fixes/C10-DLREPORT.diff -/
def dlFixed : Uft.DlRecord.Cfg := { fixed := true, stampAtSend := false }

/-- wrap.c as it is -/
def dlCoded : Uft.DlRecord.Cfg := { fixed := false, stampAtSend := false }

section DlRecord
open Uft.DlRecord

/-- Every DLOPEN message carries the name and load address of one object the loader mapped and
    a time that is not later than the moment the loader mapped it — hence not later than any
    record made while that object was mapped; and once every dlopen() has returned, every object
    that is not in the session maps has such a message.  For every history of clock ticks,
    traced calls, nested and concurrent dlopen() calls, loads and dlclose() calls. -/
theorem c10_dlopen_msg_time_before_load (st0 : St) (evs : List Ev) (hinit : Init st0)
    (hv : Valid dlFixed st0 evs) :
    (∀ m ∈ (run dlFixed st0 evs).msgs,
        m.time ≤ m.obj.born ∧ m.name = m.obj.name ∧ m.bias = m.obj.bias) ∧
    (∀ r ∈ (run dlFixed st0 evs).recs, ∀ o ∈ r.objs, ∀ m ∈ (run dlFixed st0 evs).msgs,
        m.obj = o → m.time ≤ r.time) ∧
    ((run dlFixed st0 evs).wins = [] →
      ∀ r ∈ (run dlFixed st0 evs).recs, ∀ o ∈ r.objs, Dyn st0.maps o →
        ∃ m ∈ (run dlFixed st0 evs).msgs, m.obj = o ∧ m.time ≤ r.time) := by
  have hinv := inv_run st0.maps dlFixed rfl rfl st0 evs (inv_init st0 hinit) hv
  refine ⟨?_, ?_, ?_⟩
  · intro m hm
    obtain ⟨h1, h2, h3⟩ := hinv.msgok m hm
    exact ⟨h1, h3, h2⟩
  · intro r hr o ho m hm he
    have h1 := (hinv.msgok m hm).1
    have h2 := (hinv.recs r hr).1 o ho
    rw [he] at h1
    omega
  · intro hw r hr o ho hd
    have hrep : Reported (run dlFixed st0 evs).msgs o := by
      rcases (hinv.recs r hr).2 o ho hd with h | h
      · exact h
      · rcases hinv.obj o h hd with h' | ⟨x, hx, _⟩
        · exact h'
        · rw [hw] at hx; simp at hx
    obtain ⟨m, hm, he, ht⟩ := hrep
    have h2 := (hinv.recs r hr).1 o ho
    exact ⟨m, hm, he, by omega⟩

/-- Composition with the analysis side (`c10_dlopen_by_time`): once every dlopen() has returned,
    a record made at an address inside the text of a dlopen'ed object — also one made by a
    constructor while dlopen() was still running, in a dependency, in a library opened again
    after dlclose(), or at an address that another library occupied before — is resolved by
    `session_find_dlsym` over the messages in task.txt exactly as a lookup of the
    load-address-relative offset in that object's own symbol table (to which `c10_find_correct`
    applies): an address inside one of its functions is shown under that function's name. -/
theorem c10_dlopen_record_resolves (st0 : St) (evs : List Ev) (hinit : Init st0)
    (hv : Valid dlFixed st0 evs) (hdone : (run dlFixed st0 evs).wins = [])
    (r : Rec) (hr : r ∈ (run dlFixed st0 evs).recs) (o : Obj) (ho : o ∈ r.objs)
    (hd : Dyn st0.maps o) (hc : covers o r.addr)
    (s : Sym) (hs : findSym o.syms (r.addr - o.bias) = some s) :
    shownIn (run dlFixed st0 evs).msgs r.time r.addr = some s := by
  have hinv := inv_run st0.maps dlFixed rfl rfl st0 evs (inv_init st0 hinit) hv
  obtain ⟨_, _, h3⟩ := c10_dlopen_msg_time_before_load st0 evs hinit hv
  obtain ⟨mo, hmo, hmoo, hmot⟩ := h3 hdone r hr o ho hd
  -- the address is a 64-bit value above the load address
  have hsho : Shape o := by have := hinv.shapem mo hmo; rwa [hmoo] at this
  have ha : r.addr < U64 := by unfold covers at hc; unfold Shape at hsho; omega
  have hba : o.bias ≤ r.addr := by unfold covers at hc; unfold Shape at hsho; omega
  obtain ⟨h1, h2, _⟩ :=
    c10_dlopen_by_time (dlList (run dlFixed st0 evs).msgs) r.time r.addr (dlList_sorted _)
  -- the message for `o` resolves the address
  have hmob : mo.bias = o.bias := by rw [(hinv.msgok mo hmo).2.1, hmoo]
  have hso : findSym (libOf mo).syms (sub64 r.addr (libOf mo).base) = some s := by
    simp only [libOf, hmoo, hmob]
    rw [sub64_of_le _ _ hba ha]; exact hs
  unfold shownIn
  cases hf : findDlsym (dlList (run dlFixed st0 evs).msgs) r.time r.addr with
  | none =>
    exfalso
    have := h2.mp hf (libOf mo) ((mem_dlList _ _).mpr ⟨mo, hmo, rfl⟩) hmot
    rw [this] at hso
    cases hso
  | some s' =>
    obtain ⟨l, hl, hlt, hls, hnewer⟩ := h1 s' hf
    obtain ⟨m, hm, hlm⟩ := (mem_dlList _ _).mp hl
    subst hlm
    have hcm := libOf_find_covers m r.addr (hinv.shapem m hm) (hinv.msgok m hm).2.1 ha s' hls
    have hle : mo.time ≤ m.time := by
      apply Nat.le_of_not_lt
      intro hlt'
      have := hnewer (libOf mo) ((mem_dlList _ _).mpr ⟨mo, hmo, rfl⟩) hlt' hmot
      rw [this] at hso
      cases hso
    have hobj := hinv.key r hr o ho m hm mo hmo hc hcm hmoo hle hlt
    have hmb : m.bias = o.bias := by rw [(hinv.msgok m hm).2.1, hobj]
    simp only [libOf, hobj, hmb] at hls
    rw [sub64_of_le _ _ hba ha, hs] at hls
    exact hls.symm

/-- start-up state of the examples: the program's text is a session map; the clock stands at 10 -/
def dlStart : St :=
  { now := 10, lastRead := 5, nloads := 1,
    loaded := [⟨[], [], 0x400000, 0x400000, 0x401000, [], 0, 0⟩],
    maps := [⟨"/p/main".toList, 0x400000, 0x408000, none, true⟩] }

/-- the table of the example libraries: a constructor and a function `<c>` -/
def dlTab (c : Char) : List Sym := [⟨0x100, 0x20, 't', "ctor".toList⟩, ⟨0x120, 0x40, 'T', [c]⟩]

/-- `a.so` (with a dependency `d.so`) is opened; `a`'s constructor makes a traced call and opens
    `n.so` (whose constructor makes a traced call); everything is closed; `b.so` is then mapped
    where `a.so` was and its constructor makes a traced call at an address that was `a`'s. -/
def dlHistory : List Ev :=
  [.tick 1, .enter 1 "/p/a.so".toList, .tick 1,
   .load "/p/a.so".toList "/p/a.so".toList 0x7000 0x7000 0x7400 (dlTab 'a'),
   .load "/p/d.so".toList "/p/d.so".toList 0x8000 0x8000 0x8400 (dlTab 'd'), .tick 1,
   .call 0x8110, .call 0x7110, .tick 1,
   .enter 2 "/p/n.so".toList, .tick 1,
   .load "/p/n.so".toList "/p/n.so".toList 0x9000 0x9000 0x9400 (dlTab 'n'), .tick 1, .call 0x9110,
   .tick 1, .leave 2 22, .tick 1, .leave 1 11, .tick 1, .call 0x7130, .tick 1,
   .close 11 [0x7000, 0x8000], .close 22 [0x9000], .tick 1,
   .enter 3 "/q/b.so".toList, .tick 1,
   .load "/q/b.so".toList "/q/b.so".toList 0x7000 0x7000 0x7800 (dlTab 'b'), .tick 1, .call 0x7110,
   .tick 1, .leave 3 33, .tick 1, .call 0x7130]

/-- what is shown for every record of a history: (function, library of the message used) -/
def dlShown (cfg : Cfg) (st0 : St) (evs : List Ev) : List (Option (List Char)) :=
  (run cfg st0 evs).recs.map (fun r => (shownIn (run cfg st0 evs).msgs r.time r.addr).map (·.name))

/-- non-vacuity of the hypotheses of the two theorems above, and what they give on `dlHistory`:
    the six traced calls are shown as the constructors of `d`, `a`, `n`, then `a`, the constructor
    of `b` (at an address that was `a`'s constructor) and `b` -/
example : Init dlStart ∧ Valid dlFixed dlStart dlHistory ∧ (run dlFixed dlStart dlHistory).wins = [] ∧
    (run dlFixed dlStart dlHistory).msgs.map (·.name) =
      ["/p/n.so", "/p/a.so", "/p/d.so", "/q/b.so"].map (·.toList) ∧
    dlShown dlFixed dlStart dlHistory =
      ["ctor", "ctor", "ctor", "a", "ctor", "b"].map (fun s => some s.toList) := by
  refine ⟨?_, by decide, by decide, by decide, by decide⟩
  constructor <;> decide

/-- Why the message must carry the time taken *before* the real dlopen (seeded defect
    C10-dlopen-time-at-send): if `send_dlopen_msg` read the clock itself, the record a constructor
    makes while dlopen() is running would be older than the library's DLOP time and would be shown
    as a raw address — with and without the C10-DLREPORT patch — whereas the code resolves it. -/
theorem c10_prefix_stamp_at_send_witness :
    let evs : List Ev :=
      [.tick 1, .enter 1 "/p/a.so".toList, .tick 1,
       .load "/p/a.so".toList "/p/a.so".toList 0x7000 0x7000 0x7400 (dlTab 'a'), .tick 1,
       .call 0x7110, .tick 1, .leave 1 11, .tick 1, .call 0x7130]
    (∀ fixed : Bool,
      dlShown { fixed := fixed, stampAtSend := true } dlStart evs = [none, some ['a']]) ∧
    (∀ fixed : Bool,
      dlShown { fixed := fixed, stampAtSend := false } dlStart evs
        = [some "ctor".toList, some ['a']]) := by
  decide

/-- Finding C10-DLREPORT, the code as it is: a dependency that dlopen() brings in is never
    reported (its name does not contain the `filename` argument), so every call into it is shown
    as a raw address; with the patch it resolves. -/
theorem c10_prefix_dlreport_dependency_witness :
    let evs : List Ev :=
      [.tick 1, .enter 1 "/p/a.so".toList, .tick 1,
       .load "/p/a.so".toList "/p/a.so".toList 0x7000 0x7000 0x7400 (dlTab 'a'),
       .load "/p/d.so".toList "/p/d.so".toList 0x8000 0x8000 0x8400 (dlTab 'd'), .tick 1,
       .leave 1 11, .tick 1, .call 0x8130, .call 0x7130]
    Valid dlCoded dlStart evs ∧
    dlShown dlCoded dlStart evs = [none, some ['a']] ∧
    dlShown dlFixed dlStart evs = [some ['d'], some ['a']] := by
  decide

/-- Finding C10-DLREPORT, the code as it is: a second library with the same basename in another
    directory (or any library whose basename is a prefix of a known map's basename) is taken for
    known (`find_map_by_name`) and never reported. -/
theorem c10_prefix_dlreport_basename_witness :
    let evs : List Ev :=
      [.tick 1, .enter 1 "/r/libp.so".toList, .tick 1,
       .load "/r/libp.so".toList "/r/libp.so".toList 0x7000 0x7000 0x7400 (dlTab 'r'), .tick 1,
       .leave 1 11, .tick 1, .enter 2 "/b/libp.so".toList, .tick 1,
       .load "/b/libp.so".toList "/b/libp.so".toList 0x8000 0x8000 0x8400 (dlTab 'b'), .tick 1,
       .leave 2 22, .tick 1, .call 0x7130, .call 0x8130]
    Valid dlCoded dlStart evs ∧
    dlShown dlCoded dlStart evs = [some ['r'], none] ∧
    dlShown dlFixed dlStart evs = [some ['r'], some ['b']] := by
  decide

/-- Finding C10-DLREPORT, the code as it is: after dlclose() the library's map stays in the list,
    so when the library is opened again it is taken for known and not reported — at another
    address its calls are raw addresses, and at an address that a different library occupied in
    between they are shown under *that* library's function names. -/
theorem c10_prefix_dlreport_reopen_witness :
    let evs : List Ev :=
      [.tick 1, .enter 1 "/p/a.so".toList, .tick 1,
       .load "/p/a.so".toList "/p/a.so".toList 0x7000 0x7000 0x7400 (dlTab 'a'), .tick 1,
       .leave 1 11, .tick 1, .close 11 [0x7000], .tick 1,
       .enter 2 "/p/b.so".toList, .tick 1,
       .load "/p/b.so".toList "/p/b.so".toList 0x7000 0x7000 0x7400 (dlTab 'b'), .tick 1,
       .leave 2 22, .tick 1, .enter 3 "/p/a.so".toList, .tick 1,
       .load "/p/a.so".toList "/p/a.so".toList 0x9000 0x9000 0x9400 (dlTab 'a'), .tick 1,
       .leave 3 11, .tick 1, .call 0x9130,
       .tick 1, .close 22 [0x7000], .close 11 [0x9000], .tick 1,
       .enter 4 "/p/a.so".toList, .tick 1,
       .load "/p/a.so".toList "/p/a.so".toList 0x7000 0x7000 0x7400 (dlTab 'a'), .tick 1,
       .leave 4 11, .tick 1, .call 0x7130]
    Valid dlCoded dlStart evs ∧
    dlShown dlCoded dlStart evs = [none, some ['b']] ∧
    dlShown dlFixed dlStart evs = [some ['a'], some ['a']] := by
  decide

end DlRecord

/-! ## tables built from ELF files (load_symtab / sort_symtab / merge_symtabs) -/

section ElfSym
open Uft.ElfSym

/-- The table `load_symtab` builds from any list of ELF symbol entries (filter, "skip aliases",
    sort, de-duplication) is strictly address-sorted and contains only accepted entries; every
    accepted entry keeps a symbol at its address (`prev_sym_value` starts as -1, so an entry with
    that value is the exception); and if the entries that survive the filter are clean (same
    address ⇒ same size, different addresses ⇒ no overlap, no 64-bit wrap) the table satisfies
    the well-formedness hypothesis of the search theorems, each symbol covering exactly the range
    of the entries at its address. -/
theorem c10_elf_symtab_wellformed (off : Nat) (es : List ESym) :
    (loadSymtab off es).Pairwise (fun a b => a.addr < b.addr) ∧
    (∀ r ∈ loadSymtab off es, ∃ e ∈ es, accepts e = true ∧ r.addr = (e.value + off) % U64 ∧
        r.size = e.size % U32) ∧
    (∀ e ∈ es, accepts e = true → e.value ≠ U64 - 1 →
        ∃ r ∈ loadSymtab off es, r.addr = (e.value + off) % U64) ∧
    (Clean (loadSymbols off (U64 - 1) es) →
      WellFormed (loadSymtab off es) ∧
      ∀ r ∈ loadSymtab off es, ∀ x ∈ loadSymbols off (U64 - 1) es, r.addr = x.addr →
        r.stop = x.stop) := by
  refine ⟨sortSymtab_strict _, ?_, ?_, ?_⟩
  · intro r hr
    obtain ⟨⟨x, hx, ha, hs, _⟩, _⟩ := sortSymtab_mem _ r hr
    obtain ⟨e, he, hacc, hxe⟩ := loadSymbols_mem off es _ x hx
    subst hxe
    exact ⟨e, he, hacc, ha, hs⟩
  · intro e he hacc hne
    rcases loadSymbols_covers off es (U64 - 1) e he hacc with h | ⟨s, hs, hsa⟩
    · exact absurd h hne
    · obtain ⟨r, hr, hra⟩ := sortSymtab_covers _ s hs
      exact ⟨r, hr, by rw [hra, hsa]⟩
  · intro hc
    exact ⟨sortSymtab_wf _ hc, fun r hr x hx ha => sortSymtab_range _ hc r hr x hx ha⟩

/-- … hence an address inside a function that survives the ELF filter resolves to a symbol with
    exactly that function's range (composition with `c10_find_correct`). -/
theorem c10_elf_find_correct (off : Nat) (es : List ESym) (a : Nat)
    (hc : Clean (loadSymbols off (U64 - 1) es))
    (hnames : ∀ e ∈ es, isSymbolEnd e.name = false)
    (x : Sym) (hx : x ∈ loadSymbols off (U64 - 1) es) (hxa : x.contains a) :
    ∃ r, findSym (loadSymtab off es) a = some r ∧ r.addr = x.addr ∧ r.stop = x.stop := by
  obtain ⟨_, _, _, h4⟩ := c10_elf_symtab_wellformed off es
  obtain ⟨hwf, hrange⟩ := h4 hc
  obtain ⟨s, hs, hsa⟩ := sortSymtab_covers _ x hx
  have hss : s.stop = x.stop := hrange s hs x hx hsa
  have hsc : s.contains a := by unfold Sym.contains at hxa ⊢; rw [hsa, hss]; exact hxa
  have hne : ∀ s' ∈ loadSymtab off es, s'.contains a → isSymbolEnd s'.name = false := by
    intro s' hs' _
    obtain ⟨_, ⟨y, hy, _, hyn⟩⟩ := sortSymtab_mem _ s' hs'
    obtain ⟨e, he, _, hye⟩ := loadSymbols_mem off es _ y hy
    rw [hyn, hye]
    exact hnames e he
  obtain ⟨r, hr, _, _⟩ := (c10_find_correct _ a hwf).1 ⟨s, hs, hsc⟩ hne
  obtain ⟨h1, h2⟩ := c10_find_unique_range _ a hwf s r hs hsc hr
  exact ⟨r, hr, by rw [h1, hsa], by rw [h2, hss]⟩

/-- `merge_symtabs` (normal table + PLT table): the merged table has exactly the entries of both,
    and is well-formed when both are and no two of their entries properly overlap. -/
theorem c10_elf_merge_wellformed (l r : List Sym) (hl : WellFormed l) (hr : WellFormed r)
    (hn : NoProperOverlap (l ++ r)) :
    WellFormed (mergeSymtabs l r) ∧ ∀ s, s ∈ mergeSymtabs l r ↔ s ∈ l ∨ s ∈ r :=
  ⟨mergeSymtabs_wf l r hl hr hn, mergeSymtabs_mem l r⟩

/-- an ELF symbol list with a local/global alias pair, a weak function, an object, an undefined
    and a zero-size entry, in file order (not address order) -/
def elfExample : List ESym :=
  [⟨0x1200, 0x40, 0x12, 14, "main".toList⟩, ⟨0x1100, 0x20, 0x02, 14, "_helper".toList⟩,
   ⟨0x1100, 0x20, 0x12, 14, "helper".toList⟩, ⟨0, 0, 0x12, 0, "puts".toList⟩,
   ⟨0x1120, 0x10, 0x22, 14, "weakfn".toList⟩, ⟨0x4000, 8, 0x11, 25, "table".toList⟩,
   ⟨0x1130, 0, 0x12, 14, "empty".toList⟩]

example : Clean (loadSymbols 0x555555554000 (U64 - 1) elfExample) ∧
    (∀ e ∈ elfExample, isSymbolEnd e.name = false) ∧
    loadSymtab 0 elfExample =
      [⟨0x1100, 0x20, 't', "_helper".toList⟩, ⟨0x1120, 0x10, 'w', "weakfn".toList⟩,
       ⟨0x1200, 0x40, 'T', "main".toList⟩, ⟨0x4000, 8, 'D', "table".toList⟩] := by
  refine ⟨⟨by decide, by decide, by decide⟩, by decide, by decide⟩

end ElfSym

end Uft.C10
