import Uft.Lemmas.EventsPair
import Uft.Model.Events
import Uft.Model.CallTree
import Uft.Lemmas.Events
import Uft.Lemmas.EventsWatch
import Uft.Lemmas.EventsFilt
/-
C17 — Read-trigger and watchpoint events are placed and valued consistently.

The theorems are about the event model `Uft/Model/Events.lean` (save_trigger_read,
save_watchpoint, record_ret_stack's emission order, the flush / drop rules of
mcount_exit_filter_record, on top of the hook model of C02/C05), which the check
`checks/c17.py` validates against the real libmcount on every run.  `fixArg`, `fixVar`,
`fixIdx` select the repaired (true) or the as-coded (false) variant of three defects of the
unchanged tree (F17c, F17b, F17d); the property theorems are for the repaired variants where
they need them, and a `c17_prefix_…_witness` shows each as-coded variant violating the property.
-/
namespace Uft.C17
open Uft.Mcount Uft.Events

/-! ## Part 1: read/diff events — placement, values, nesting

`runECall` drives the entry/exit hooks over an arbitrary call tree whose nodes carry the
values the sources return at the two hooks.  No filters, no watchpoints here; any read=
masks, -A and -R sizes, both hook flavours, any tree. -/

/-- The stream written for a forest of completed calls, starting from a fresh thread, is
    exactly the specified one: per call ENTRY, the entry hook's read events, the callees,
    the exit hook's events, EXIT (`specCall`).  Nothing missing, duplicated or reordered. -/
theorem c17_emit_exact (cfg : ECfg) (hp : PlainE cfg) (k : Kind) (cs : ECalls) (vars : List Nat)
    (glob : List (Option Nat))
    (hm : cs.height ≤ cfg.base.maxStack) (hd : cs.height ≤ cfg.base.depthOpt) (ht : cs.timed)
    (hmin : cfg.base.minSize = 0) (hen : cfg.base.enabled0 = true) :
    (runECalls cfg k (ESt.init cfg vars glob) cs).out = specCalls cfg k 0 cs ∧
    (runECalls cfg k (ESt.init cfg vars glob) cs).frames = [] ∧
    (runECalls cfg k (ESt.init cfg vars glob) cs).pend = [] := by
  have hg : GoodE (ESt.init cfg vars glob) 0 := by
    constructor <;> simp [ESt.init, hmin, hen, NoSkipE]
  obtain ⟨h1, h2, h3⟩ := emitE_calls cfg hp k cs (ESt.init cfg vars glob) 0 hg (by omega) (by omega) ht
  refine ⟨?_, ?_, h3.pend⟩
  · rw [h1]; cases cs <;> simp [ESt.init, pendingE]
  · rw [h2]; cases cs <;> simp [ESt.init, markToE]

example : PlainE ({ read := fun _ => 3, argSize := fun _ => some 100, retSize := fun _ => some 8 } : ECfg) := by
  constructor
  · constructor <;> simp
  · rfl
  · rfl

example : (ECalls.cons (.node 1 10 50 {} {} (.cons (.node 2 20 40 {} {} .nil) .nil)) .nil).timed ∧
    (ECalls.cons (.node 1 10 50 {} {} (.cons (.node 2 20 40 {} {} .nil) .nil)) .nil).height ≤ 1024 := by
  simp [ECalls.timed, ECall.timed, ECalls.height, ECall.height, u64]

/-- `c17_read_diff_placement`: one call of `f` (with any callees), executed in any thread state
    without active filters: the stream grows by exactly
      [ENTRY f] ++ R ++ (the callees' records) ++ D ++ [EXIT f]
    where R are the events saved by the entry hook (each a READ event holding the reading of its
    source, time = entry time) and D the events saved by the exit hook (time = exit time, each made
    from the exit reading of its source: the DIFF to the entry event of the same source).  The ENTRY
    records still owed for the callers (`pendingE`) come first. -/
theorem c17_read_diff_placement (cfg : ECfg) (hp : PlainE cfg) (k : Kind) (s : ESt) (d f t0 t1 : Nat)
    (oE oX : Obs) (kids : ECalls)
    (hg : GoodE s d) (hm : d + kids.height + 1 ≤ cfg.base.maxStack) (hd : d + kids.height + 1 ≤ cfg.base.depthOpt)
    (ht : t0 < t1) (htu : t1 < u64) (hk : kids.timed) :
    ∃ R D : List Ev,
      (runECall cfg k s (.node f t0 t1 oE oX kids)).out =
        s.out ++ pendingE s.frames ++
          ([.record { time := t0, type := 0, depth := d, addr := f } (argPayload cfg k f)] ++ R.map .event ++
           specCalls cfg k (d + 1) kids ++
           D.map .event ++ [.record { time := t1, type := 1, depth := d, addr := f } (retPayloadOf cfg k f)]) ∧
      (∀ e ∈ R, e.time = t0 ∧ HoldsReading oE readEvents e) ∧
      (∀ e ∈ D, e.time = t1 ∧ FromExit oX readEvents R.reverse e) := by
  obtain ⟨h1, _, _⟩ := emitE_call cfg hp k (.node f t0 t1 oE oX kids) s d hg
    (by simp only [ECall.height]; omega) (by simp only [ECall.height]; omega) ⟨ht, htu, hk⟩
  have hFb := entryFrame_b cfg k f t0 d oE
  have hFev := entryFrame_evs_time cfg k f t0 d oE
  have hst : (entryFrame cfg k f t0 d oE).b.start = t0 := by rw [hFb]; rfl
  have hev' : ∀ e ∈ (entryFrame cfg k f t0 d oE).evs, e.time = (entryFrame cfg k f t0 d oE).b.start := by
    rw [hst]; exact hFev
  obtain ⟨new, n1, n2, n3, n4⟩ := exitFrame_events cfg (entryFrame cfg k f t0 d oE) t1 d oX hev'
    (by rw [hst]; omega) (by omega)
  refine ⟨(entryFrame cfg k f t0 d oE).evs.reverse, new.reverse, ?_, ?_, ?_⟩
  · rw [h1]
    simp only [specCall, exitOut, entryEvs_of_all _ hev', n4, entryOut_entryFrame, exitRecord_exitFrame]
    simp
  · intro e he
    simp only [List.mem_reverse] at he
    exact ⟨hFev e he, entryFrame_holds cfg k f t0 d oE e he⟩
  · intro e he
    simp only [List.mem_reverse] at he
    simp only [List.reverse_reverse]
    exact ⟨n2 e he, n3 e he⟩

/-- `c17_diff_value`: a DIFF event written before EXIT holds, field by field, the reading of its
    source at the exit hook minus the reading at the entry hook (uint64 arithmetic), and the entry
    hook's READ event of that source is in the stream after ENTRY.  `R`, `D` as in
    `c17_read_diff_placement`. -/
theorem c17_diff_value (oE oX : Obs) (R D : List Ev)
    (hR : ∀ e ∈ R, HoldsReading oE readEvents e) (hD : ∀ e ∈ D, FromExit oX readEvents R.reverse e)
    (e : Ev) (he : e ∈ D) (s : ReadSrc) (hs : s ∈ readEvents) (hid : e.id = s.idDiff) :
    ∃ vE vX, oE.reads s.bit = some vE ∧ oX.reads s.bit = some vX ∧
      e.data = zipSub vX (vE.map (· % u64)) ∧
      ∃ r ∈ R, r.id = s.idRead ∧ r.data = vE.map (· % u64) := by
  obtain ⟨s', hs', vX, hvX, hm⟩ := hD e he
  have inj : ∀ a ∈ readEvents, ∀ b ∈ readEvents, (a.idDiff = b.idDiff ∨ a.idRead = b.idRead) → a = b := by decide
  have dis : ∀ a ∈ readEvents, ∀ b ∈ readEvents, a.idRead ≠ b.idDiff := by decide
  cases hf : R.reverse.find? (fun x => x.id == s'.idRead) with
  | none =>
    rw [hf] at hm
    exact absurd (hm.1.symm.trans hid) (dis s' hs' s hs)
  | some old =>
    rw [hf] at hm
    have hss : s' = s := inj s' hs' s hs (Or.inl (hm.1.symm.trans hid))
    subst hss
    have hold : old ∈ R := by simpa using List.mem_of_find?_eq_some hf
    have hoid : old.id = s'.idRead := by simpa using List.find?_some hf
    obtain ⟨s2, hs2, vE, hvE, h2id, h2data⟩ := hR old hold
    have : s2 = s' := inj s2 hs2 s' hs (Or.inr (h2id.symm.trans hoid))
    subst this
    exact ⟨vE, vX, hvE, hvX, by rw [hm.2, h2data], old, hold, hoid, h2data⟩

example : subU64 8 5 = 3 ∧ subU64 5 8 = 2 ^ 64 - 3 := by decide


/-- `c17_events_keep_nesting`: the ENTRY/EXIT records of the stream, with the events taken out, are
    exactly the eager trace of the executed history (`evCalls`, the specification of C02: properly
    nested, depth = number of open calls, time stamps = the hooks' clock readings).  Events never sit
    inside another call's ENTRY/EXIT pair than the one whose hook saved them (`c17_read_diff_placement`). -/
theorem c17_events_keep_nesting (cfg : ECfg) (hp : PlainE cfg) (k : Kind) (cs : ECalls) (vars : List Nat)
    (glob : List (Option Nat))
    (hm : cs.height ≤ cfg.base.maxStack) (hd : cs.height ≤ cfg.base.depthOpt) (ht : cs.timed)
    (hmin : cfg.base.minSize = 0) (hen : cfg.base.enabled0 = true) :
    (runECalls cfg k (ESt.init cfg vars glob) cs).out.filterMap recOf = evCalls 0 cs.erase := by
  rw [(c17_emit_exact cfg hp k cs vars glob hm hd ht hmin hen).1, recs_specCalls]

/-! ## Part 2: watchpoints -/

/-- `c17_watch_iff_change` (cpu): at a hook with room for one more pending event, `-W cpu` saves an
    event exactly when this is the thread's first observation or the cpu differs from the previously
    observed one; the event carries the observed cpu; and the observation is remembered in either case
    (so "previously observed" is literally the value seen at the previous hook). -/
theorem c17_watch_iff_change (s : ESt) (t ridx cpu : Nat) (hroom : s.pend.length < MAX_EVENT) :
    ((saveWatchCpu s t ridx cpu (!s.winited)).pend = s.pend ++ [cpuEv t ridx cpu] ↔
      (s.winited = false ∨ s.wcpu ≠ some cpu)) ∧
    ((saveWatchCpu s t ridx cpu (!s.winited)).pend = s.pend ∨
      (saveWatchCpu s t ridx cpu (!s.winited)).pend = s.pend ++ [cpuEv t ridx cpu]) ∧
    (saveWatchCpu s t ridx cpu (!s.winited)).wcpu = some cpu := by
  unfold saveWatchCpu
  by_cases h : s.winited = false ∨ s.wcpu ≠ some cpu
  · have hc : ((s.wcpu != some cpu || !s.winited) && decide (s.pend.length < MAX_EVENT)) = true := by
      rcases h with h | h <;> simp [h, hroom]
    simp [hc, h]
  · have h' : s.winited = true ∧ s.wcpu = some cpu := by
      constructor
      · cases hw : s.winited <;> simp_all
      · by_cases hq : s.wcpu = some cpu <;> simp_all
    have hc : ((s.wcpu != some cpu || !s.winited) && decide (s.pend.length < MAX_EVENT)) = false := by
      simp [h'.1, h'.2]
    simp [h'.1, h'.2]

example : (({} : ESt).pend.length < MAX_EVENT) := by decide

/-- single-thread invariant of a watched variable: the global item holds nothing yet, or what this
    thread saw last -/
def VarSync (s : ESt) (k : Nat) : Prop :=
  s.glob[k]? = some none ∨ (∃ v, s.glob[k]? = some (some v) ∧ s.wcopy[k]? = some v)

/-- `c17_watch_iff_change` (`-W var:NAME`, repaired per-thread copy `fixVar`): in a single thread, at a
    hook with room, an event is saved exactly when the value read differs from the value this thread
    observed last (initially: the value at thread start); the event carries the new value; the new value
    becomes the remembered one and the invariant is kept. Without room nothing changes (the change is
    reported at a later hook). -/
theorem c17_watch_var_iff_change (cfg : ECfg) (hfix : cfg.fixVar = true) (t ridx : Nat) (s : ESt) (k size v old : Nat)
    (hold : s.wcopy[k]? = some old) (hk : k < s.glob.length) (hsync : VarSync s k)
    (hroom : s.pend.length < MAX_EVENT) :
    ((saveWatchVar cfg t ridx s k size v).pend = s.pend ++ [varEv t ridx k size v] ↔ v ≠ old) ∧
    ((saveWatchVar cfg t ridx s k size v).pend = s.pend ∨
      (saveWatchVar cfg t ridx s k size v).pend = s.pend ++ [varEv t ridx k size v]) ∧
    (saveWatchVar cfg t ridx s k size v).wcopy[k]? = some v ∧
    VarSync (saveWatchVar cfg t ridx s k size v) k := by
  have hr : ¬ (s.pend.length ≥ MAX_EVENT) := by omega
  have hkw : k < s.wcopy.length := by
    have := List.getElem?_eq_some_iff.mp hold
    exact this.1
  unfold saveWatchVar
  by_cases hv : v = old
  · subst hv
    simp [hr, hold, hsync]
  · have h2 : (s.wcopy[k]? == some v) = false := by simp [hold]; omega
    have h3 : (s.glob[k]? == some (some v)) = false := by
      rcases hsync with h | ⟨w, h, hw⟩
      · simp [h]
      · rw [hold] at hw
        have : w = old := by simpa using hw.symm
        subst this
        simp [h]; omega
    simp only [hr, h2, h3, hfix, ↓reduceIte, Bool.false_eq_true]
    refine ⟨by simp [hv], Or.inr (by first | rfl | trivial), by simp [hkw], Or.inr ⟨v, by simp [hk], by simp [hkw]⟩⟩

/-- `c17_watch_multi_thread_partial`: with several threads the global item is shared, so what a thread's
    hook does is (as coded): an event is saved iff there is room, the value differs from this thread's
    remembered value AND from the last value reported by any thread (`glob`).  A value another thread
    already reported is therefore not reported again by this one.  What is missing for a per-thread
    "iff change" statement is exactly that second conjunct. -/
theorem c17_watch_multi_thread_partial (cfg : ECfg) (t ridx : Nat) (s : ESt) (k size v : Nat) :
    (saveWatchVar cfg t ridx s k size v).pend = s.pend ++ [varEv t ridx k size v] ↔
      (s.pend.length < MAX_EVENT ∧ s.wcopy[k]? ≠ some v ∧ s.glob[k]? ≠ some (some v)) := by
  unfold saveWatchVar
  by_cases h1 : s.pend.length ≥ MAX_EVENT
  · simp [h1]; omega
  · by_cases h2 : s.wcopy[k]? = some v
    · simp [h1, h2]
    · by_cases h3 : s.glob[k]? = some (some v)
      · have : (s.wcopy[k]? == some v) = false := by simpa using h2
        simp only [h1, this, h3, ↓reduceIte, Bool.false_eq_true, beq_self_eq_true]
        cases cfg.fixVar <;> simp
      · have a : (s.wcopy[k]? == some v) = false := by simpa using h2
        have b : (s.glob[k]? == some (some v)) = false := by simpa using h3
        simp only [h1, a, b, ↓reduceIte, Bool.false_eq_true]
        cases cfg.fixVar <;> simp [h2, h3] <;> omega


/-- `c17_event_times_inside`: time stamps of the events a call's hooks save, for a call [t0, t1] with
    t0 + 2 <= t1 (the duration the -1 / +2 rule needs; one hypothesis, stated once):
    * read events carry t0, diff events t1 (`c17_read_diff_placement`);
    * the watch events of the exit hook carry t1 - 1: inside [t0, t1) — written before EXIT;
    * the watch events of the thread's first observation (entry hook) carry t0 + 1: inside (t0, t1) —
      after ENTRY, before EXIT;
    * the other watch events of an entry hook carry t0 - 1: just before the call's ENTRY, i.e. inside the
      caller's interval whenever the caller was entered before t0.
    `W` are the events the hook appends to the pending list (see `watchStep_spec`). -/
theorem c17_event_times_inside (cfg : ECfg) (s : ESt) (b : Frame) (ri : Nat) (o : Obs) (t0 t1 : Nat)
    (hb : b.start = t0) (hdur : t0 + 2 ≤ t1) :
    ∃ W, (watchStep cfg s b ri o).pend = s.pend ++ W ∧ ∀ e ∈ W,
      (b.endT = t1 → s.winited = true → e.time = t1 - 1 ∧ t0 ≤ e.time ∧ e.time < t1) ∧
      (b.endT = 0 → s.winited = false → e.time = t0 + 1 ∧ t0 < e.time ∧ e.time < t1) ∧
      (b.endT = 0 → s.winited = true → e.time + 1 = t0 ∨ t0 = 0) := by
  obtain ⟨_, W, hW, hWe⟩ := watchStep_spec cfg s b ri o
  refine ⟨W, hW, ?_⟩
  intro e he
  have ht := (hWe e he).1
  refine ⟨?_, ?_, ?_⟩
  · intro h1 h2
    have : (t1 != 0) = true := by simp; omega
    simp [watchTime, hookTime, h1, h2, this] at ht
    omega
  · intro h1 h2
    simp [watchTime, hookTime, h1, h2, hb] at ht
    omega
  · intro h1 h2
    simp [watchTime, hookTime, h1, h2, hb] at ht
    omega

/-- the hypothesis is needed: a 1 ns call whose entry hook makes the thread's first observation gets
    its watch event stamped with the exit time, so it is written after the EXIT record -/
example : watchTime { addr := 1, start := 1000, depth := 0 } false = 1001 := by decide

/-! ### the whole stream with watchpoints

`specWCalls` threads the watch state (first observation made?, last cpu, the thread's copies of the
variables, the global items) through the history in hook order and lists, per call:
  the entry hook's watch events, ENTRY, the read events        (first observation: ENTRY, reads, events)
  the callees
  the exit hook's watch events, the diff events, EXIT.
The hooks write lazily (ENTRY records and pending watch events wait for the next record that is
written); the theorem says the stream nevertheless comes out in exactly this order, provided
consecutive hooks are at least 2 ns apart (`spaced`, the duration the -1 / +2 rule needs) and no
pending-event overflow happens (`roomCalls`: at every hook MAX_EVENT leaves room for one event per
watch source). -/

/-- `c17_emit_exact_watch`: any call forest, any watchpoints (cpu, variables), read triggers,
    arguments, both hook flavours, from a fresh thread. -/
theorem c17_emit_exact_watch (cfg : ECfg) (hp : PlainW cfg) (k : Kind) (cs : ECalls) (vars : List Nat)
    (glob : List (Option Nat)) (tl : Nat)
    (hm : cs.height ≤ cfg.base.maxStack) (hd : cs.height ≤ cfg.base.depthOpt) (hsp : cs.spaced tl)
    (hroom : roomCalls cfg k (ESt.init cfg vars glob) cs)
    (hmin : cfg.base.minSize = 0) (hen : cfg.base.enabled0 = true) :
    (runECalls cfg k (ESt.init cfg vars glob) cs).out = (specWCalls cfg k 0 (ESt.init cfg vars glob) cs).1 ∧
    (runECalls cfg k (ESt.init cfg vars glob) cs).frames = [] ∧
    (runECalls cfg k (ESt.init cfg vars glob) cs).pend = [] := by
  have hg : GoodW (ESt.init cfg vars glob) 0 tl := by
    refine ⟨?_, ?_, ?_, ?_⟩
    · constructor <;> simp [ESt.init, hmin, hen, NoSkipE]
    · simp [ESt.init]
    · simp [ESt.init]
    · simp [ESt.init]
  obtain ⟨h1, h2, h3, _⟩ := emitW_calls cfg hp k cs (ESt.init cfg vars glob) (ESt.init cfg vars glob) 0 tl hg
    (SameWatch.refl _) (by omega) (by omega) hsp hroom
  refine ⟨?_, ?_, ?_⟩
  · rw [h1]; cases cs <;> simp [ESt.init, owed, flushBelowE]
  · rw [h2]; cases cs <;> simp [ESt.init, markToE]
  · rw [h3]; cases cs <;> simp [ESt.init]

example : PlainW ({ base := { maxStack := 1024 }, watchCpu := true, varSizes := [8, 1], read := fun _ => 2 } : ECfg) := by
  constructor
  · constructor <;> simp [ASYNC_IDX, Gen.EventTab.ASYNC_IDX]
  · rfl

example : (ECalls.cons (.node 1 10 50 {} {} (.cons (.node 2 20 40 {} {} .nil) .nil)) .nil).spaced 0 := by
  simp [ECalls.spaced, ECall.spaced, ECalls.last, ECall.lastT, u64]

example : roomCalls ({ watchCpu := true } : ECfg) .pg (ESt.init { watchCpu := true } [] [])
    (.cons (.node 1 10 50 {} {} (.cons (.node 2 20 40 {} {} .nil) .nil)) .nil) := by
  simp only [roomCalls, roomCall]
  decide

/-- `c17_watch_stream_iff_change` (`-W cpu`): the watch events the stream shows for a hook are
    `wEvents` in the watch state reached so far; for `-W cpu` that is one event carrying the cpu
    if this is the thread's first observation or the cpu differs from the one observed at the
    previous hook (`wNext … .wcpu` is always the cpu just observed), and nothing otherwise. -/
theorem c17_watch_stream_iff_change (cfg : ECfg) (hc : cfg.watchCpu = true) (hv : cfg.varSizes = []) (w : ESt)
    (b : Frame) (ri : Nat) (o : Obs) :
    wEvents cfg w b ri o =
      (if w.winited = false ∨ w.wcpu ≠ some o.cpu then [cpuEv (watchTime b w.winited) (watchTag cfg ri) o.cpu] else []) ∧
    (wNext cfg w b ri o).wcpu = some o.cpu ∧ (wNext cfg w b ri o).winited = true :=
  wEvents_cpu cfg hc hv w b ri o

/-- `c17_events_keep_nesting` with watchpoints: taking the events out of the stream leaves exactly the
    eager ENTRY/EXIT trace of the history. -/
theorem c17_events_keep_nesting_watch (cfg : ECfg) (hp : PlainW cfg) (k : Kind) (cs : ECalls) (vars : List Nat)
    (glob : List (Option Nat)) (tl : Nat)
    (hm : cs.height ≤ cfg.base.maxStack) (hd : cs.height ≤ cfg.base.depthOpt) (hsp : cs.spaced tl)
    (hroom : roomCalls cfg k (ESt.init cfg vars glob) cs)
    (hmin : cfg.base.minSize = 0) (hen : cfg.base.enabled0 = true) :
    (runECalls cfg k (ESt.init cfg vars glob) cs).out.filterMap recOf = evCalls 0 cs.erase := by
  rw [(c17_emit_exact_watch cfg hp k cs vars glob tl hm hd hsp hroom hmin hen).1, recsW_specCalls]

/-- `c17_event_times_inside_stream`: in the specified (= written, `c17_emit_exact_watch`) stream, a call
    [t0, t1] appears as  B ++ [ENTRY] ++ I ++ [EXIT]  where every element of I — its own read, diff and
    watch events and all records of its callees — carries a time stamp in [t0, t1], and B, the watch
    events saved by its entry hook (empty for the thread's first observation), carry t0 - 1: they lie
    in the caller's interval.  Hypothesis: hooks at least 2 ns apart. -/
theorem c17_event_times_inside_stream (cfg : ECfg) (k : Kind) (d : Nat) (w : ESt) (f t0 t1 : Nat) (oE oX : Obs)
    (kids : ECalls) (tl : Nat) (hsp : (ECall.node f t0 t1 oE oX kids).spaced tl) :
    (specWCall cfg k d w (.node f t0 t1 oE oX kids)).1 =
      beforeOf cfg k d w (.node f t0 t1 oE oX kids) ++
        [.record { time := t0, type := 0, depth := d, addr := f } (argPayload cfg k f)] ++
        innerOf cfg k d w (.node f t0 t1 oE oX kids) ++
        [.record { time := t1, type := 1, depth := d, addr := f } (retPayloadOf cfg k f)] ∧
    (∀ x ∈ innerOf cfg k d w (.node f t0 t1 oE oX kids), t0 ≤ x.time ∧ x.time ≤ t1) ∧
    (∀ x ∈ beforeOf cfg k d w (.node f t0 t1 oE oX kids), x.time + 1 = t0 ∧ tl < x.time) := by
  obtain ⟨h1, h2⟩ := inner_times cfg k d w f t0 t1 oE oX kids tl hsp
  refine ⟨specWCall_shape cfg k d w f t0 t1 oE oX kids, h1, ?_⟩
  intro x hx
  have := h2 x hx
  simp only [ECall.spaced] at hsp
  omega

/-! ## Part 3: calls dropped by the time filter -/

/-- `c17_dropped_with_call`: a call that the time filter drops (it and all its callees last at most the
    threshold) contributes nothing: no ENTRY/EXIT, no read/diff event (they live in the frame and go with
    it) and — with the repaired tag rule `fixIdx` — no watch event: the stream, the pending events and the
    open frames after the call are exactly those before it.  Any watchpoints, read triggers, -A and -R,
    any nesting inside recorded callers (`GoodT`: the state between hooks at depth `d`). -/
theorem c17_dropped_with_call (cfg : ECfg) (hp : PlainT cfg) (hfix : cfg.fixIdx = true) (k : Kind)
    (c : ECall) (s : ESt) (d : Nat) (hg : GoodT s d)
    (hm : d + c.height ≤ cfg.base.maxStack) (hd : d + c.height ≤ cfg.base.depthOpt)
    (hs : c.short cfg.base cfg.base.threshold) :
    (runECall cfg k s c).out = s.out ∧ (runECall cfg k s c).pend = s.pend ∧
    (runECall cfg k s c).frames = s.frames := by
  obtain ⟨h1, h2, h3, _⟩ := dropped_call cfg hp hfix k c s d hg hm hd hs
  exact ⟨h1, h2, h3⟩

example : PlainT ({ base := { threshold := 50, maxStack := 1024 }, watchCpu := true, varSizes := [8] } : ECfg) := by
  constructor <;> simp [ASYNC_IDX, Gen.EventTab.ASYNC_IDX]

example : GoodT (ESt.init ({ base := { threshold := 50 }, watchCpu := true } : ECfg) [] []) 0 := by
  constructor <;> simp [ESt.init, NoSkipE, noMaxDepth, noTime]


/-! ### … on filtered stacks

With filters the return stack also holds frames that are not recorded (outside the -F region, the -N function,
beyond -D: MCOUNT_FL_NORECORD; -finstrument-functions pushes a frame for every call, -pg for a call whose
trigger changes the filter state), so a frame's rstack index — what save_watchpoint tags its events with
and mcount_exit_filter_record compares with `mtdp->idx` — is no longer its record depth.  The model keeps
the two apart (`rest.length` vs `Frame.depth` / `recordIdx`); the theorems below do not mention the record
depth at all. -/

/-- `c17_dropped_with_call`, filtered stacks, one exit hook: `top` is a recorded frame whose call the time
    filter drops; the frames below it (`rest`) are *any* frames — recorded or not, in any order — and `top`'s
    record depth is whatever the filters made it.  Of the pending events `p0 ++ W0`, `p0` were saved by
    hooks of frames below `top` (tags ≤ `rest.length`), `W0` by `top`'s own hooks.  The hook writes nothing,
    pops `top` and keeps exactly `p0`: a pending watch event of a recorded caller survives the drop of a
    short callee whatever unrecorded frames are on the stack, and the callee's own events go with it. -/
theorem c17_dropped_keeps_callers_events (cfg : ECfg) (hfix : cfg.fixIdx = true) (s2 : ESt) (top : EFrame)
    (rest : List EFrame) (t1 : Nat) (o : Obs) (p0 W0 : List Ev)
    (hfr : s2.frames = top :: rest) (hover : s2.over = 0) (hnr : top.b.norecord = false) (hen : s2.enabled = true)
    (hshort : durOk cfg.base (subU64 t1 top.b.start) (effThreshold cfg s2) = false)
    (hw : top.b.written = false) (htr : top.b.trace = false)
    (hpend : s2.pend = p0 ++ W0) (h0 : ∀ e ∈ p0, e.idx < rest.length + 1) (hW0 : ∀ e ∈ W0, e.idx = rest.length + 1)
    (hmax : rest.length + 1 < ASYNC_IDX) :
    (exitE cfg s2 t1 o).pend = p0 ∧ (exitE cfg s2 t1 o).out = s2.out ∧ (exitE cfg s2 t1 o).frames = rest := by
  obtain ⟨h1, h2, h3, _⟩ := exitE_drop_filtered cfg hfix s2 top rest t1 o p0 W0 hfr hover hnr hen hshort hw htr hpend
    h0 hW0 hmax
  exact ⟨h1, h2, h3⟩

/-- `c17_dropped_with_call` for filtered stacks, whole calls: for every option set with -F / -N / -D / -L / -Z
    style filters on any functions (`FiltT`: any `filter`, `depth`, `loc`, `size` actions; no `time=` / `trace` /
    `finish` / `trace_on` / `trace_off`), both hook flavours, any watchpoints, read triggers, -A and -R: a call
    that the time filter drops — it and everything it calls is short, whether those callees are recorded,
    rejected without a frame or kept as unrecorded frames — executed in *any* state between hooks (`InvF`:
    any mix of recorded and unrecorded frames on the stack, any filter counters, any record depth, pending
    watch events of the open frames) leaves the stream, the pending events and the stack exactly as they
    were.  In particular every pending event of a recorded caller is still pending afterwards (it is
    written with the caller's records, `c17_emit_exact_watch`), and no event of the dropped call is. -/
theorem c17_dropped_with_call_filtered (cfg : ECfg) (hp : FiltT cfg) (hfix : cfg.fixIdx = true) (k : Kind)
    (c : ECall) (s : ESt) (hg : InvF s) (hm : s.frames.length + c.height ≤ cfg.base.maxStack)
    (hs : c.short cfg.base cfg.base.threshold) :
    (runECall cfg k s c).out = s.out ∧ (runECall cfg k s c).pend = s.pend ∧
    (runECall cfg k s c).frames = s.frames := by
  obtain ⟨h1, h2, h3, _⟩ := droppedF_call cfg hp hfix k c s hg hm hs
  exact ⟨h1, h2, h3⟩

/-- `-F f2 -t 50 -W cpu` -/
def cfgFilt : ECfg :=
  { base := { threshold := 50, maxStack := 1024, optIn := true,
              trig := fun f => if f = 2 then { filter := some true } else {} },
    watchCpu := true }

example : FiltT cfgFilt := by
  constructor <;> intros <;> simp only [cfgFilt] <;> (try split) <;> simp [ASYNC_IDX, Gen.EventTab.ASYNC_IDX]

/-- an unrecorded frame (f1, outside -F) below a recorded one (f2, record depth 0, rstack index 1) whose entry
    hook's watch event (tag 2) is pending -/
def stFilt : ESt :=
  { frames := [{ b := { addr := 2, start := 1010, depth := 0, cyg := true, filtered := true, sTime := noTime } },
               { b := { addr := 1, start := 0, depth := 0, cyg := true, norecord := true, sTime := noTime } }],
    recordIdx := 1, filt := { inCount := 1, depth := 1 }, pend := [cpuEv 1011 2 3], winited := true, wcpu := some 3 }

example : InvF stFilt := by
  constructor <;> simp [stFilt, noTime, cpuEv]

/-- … except asynchronous events, which force the flush (as coded): if an asynchronous event is pending
    when the exit hook has saved its watch events, record_trace_data runs although the time filter
    rejects the call, and the call's EXIT record is written. -/
theorem c17_dropped_async_flush (cfg : ECfg) (sB : ESt) (f f1 : EFrame) (rest : List EFrame) (tf : Nat)
    (retv : Bool) (o : Obs)
    (hshort : durOk cfg.base (subU64 f.b.endT f.b.start) tf = false) (hw : f.b.written = false) (htr : f.b.trace = false)
    (hasync : hasAsync (watchStep cfg sB f1.b rest.length o).pend = true) (hend : f1.b.endT ≠ 0) :
    ∃ pre, (exitFinish cfg sB f f1 rest tf retv o).out =
      sB.out ++ pre ++ [.record (exitRec f1.b) (retPayload cfg retv f1)] := by
  have hs := (watchStep_spec cfg sB f1.b rest.length o).1
  have hc : ((durOk cfg.base (subU64 f.b.endT f.b.start) tf && (!cfg.base.callerMode || f.b.caller)) || f.b.written || f.b.trace) = false := by
    simp [hshort, hw, htr]
  have hne : (watchStep cfg sB f1.b rest.length o).pend.isEmpty = false := by
    cases hp : (watchStep cfg sB f1.b rest.length o).pend with
    | nil => rw [hp] at hasync; simp [hasAsync] at hasync
    | cons a r => rfl
  have he : (f1.b.endT != 0) = true := by simp [hend]
  have hlast : ∃ pre, (recordTraceE cfg retv (f1 :: rest) (watchStep cfg sB f1.b rest.length o).pend).2.2 =
      pre ++ [.record (exitRec f1.b) (retPayload cfg retv f1)] := by
    apply List.getLast?_eq_some_iff.mp
    simp [recordTraceE, he, recExit]
  obtain ⟨pre, hpre⟩ := hlast
  unfold exitFinish
  simp only [hc, Bool.false_eq_true, ↓reduceIte, hne, Bool.not_false, hasync, ESt.recorded, hs.out, hpre]
  exact ⟨pre, by simp⟩


/-! ## Part 4: the as-coded variants of the unchanged tree violate the property (witnesses)

Each witness is a concrete history on which the model with one repair switched off (the variant the
correspondence check finds the unchanged implementation to follow) breaks the statement above it,
next to the repaired variant which keeps it. -/

/-- the event records of a stream as (id, time, data) -/
def evsOf (out : List Out) : List (Nat × Nat × List Nat) :=
  out.filterMap fun | .event e => some (e.id, e.time, e.data) | .record _ _ => none

def obsRU (maj min : Nat) : Obs := { reads := fun b => if b = 2 then some [maj, min] else none }

/-- `f1@read=page-fault` together with `-A f1@arg1` (8 bytes) -/
def cfgArg (fix : Bool) : ECfg :=
  { read := fun f => if f = 1 then 2 else 0, argSize := fun f => if f = 1 then some 8 else none, fixArg := fix }

/-- F17c: with an argument on the same function the exit hook reads the low word of the entry event's
    time stamp (1010) as "argument size": the diff event is lost (as coded); the repaired code writes
    read (5, 100) after ENTRY and diff (3, 50) before EXIT. -/
theorem c17_prefix_diff_lost_witness :
    evsOf (runECall (cfgArg false) .pg (ESt.init (cfgArg false) [] []) (.node 1 1010 1030 (obsRU 5 100) (obsRU 8 150) .nil)).out =
      [(100002, 1010, [5, 100])] ∧
    evsOf (runECall (cfgArg true) .pg (ESt.init (cfgArg true) [] []) (.node 1 1010 1030 (obsRU 5 100) (obsRU 8 150) .nil)).out =
      [(100002, 1010, [5, 100]), (100004, 1030, [3, 50])] := by
  decide

/-- `-W var:v` (8 bytes) -/
def cfgVar (fix : Bool) : ECfg := { varSizes := [8], fixVar := fix }
def obsV (v : Nat) : Obs := { vars := [v] }

/-- F17b: the variable goes 0 -> 1 -> 0 -> 1 -> 2 over five hooks of one thread.  As coded only 1 and 2 are
    reported (the thread's copy still holds the start value 0, the global item the last reported 1);
    repaired, every change is. -/
theorem c17_prefix_var_change_lost_witness :
    evsOf (runECalls (cfgVar false) .pg (ESt.init (cfgVar false) [0] [none])
      (.cons (.node 1 1000 1070 (obsV 0) (obsV 2)
        (.cons (.node 2 1010 1020 (obsV 1) (obsV 1) .nil) (.cons (.node 2 1030 1040 (obsV 0) (obsV 0) .nil)
          (.cons (.node 2 1050 1060 (obsV 1) (obsV 1) .nil) .nil)))) .nil)).out =
      [(100012, 1009, [0, 1]), (100012, 1069, [0, 2])] ∧
    evsOf (runECalls (cfgVar true) .pg (ESt.init (cfgVar true) [0] [none])
      (.cons (.node 1 1000 1070 (obsV 0) (obsV 2)
        (.cons (.node 2 1010 1020 (obsV 1) (obsV 1) .nil) (.cons (.node 2 1030 1040 (obsV 0) (obsV 0) .nil)
          (.cons (.node 2 1050 1060 (obsV 1) (obsV 1) .nil) .nil)))) .nil)).out =
      [(100012, 1009, [0, 1]), (100012, 1029, [0, 0]), (100012, 1049, [0, 1]), (100012, 1069, [0, 2])] := by
  decide

/-- `-W cpu -t 50` -/
def cfgDrop (fix : Bool) : ECfg := { base := { threshold := 50 }, watchCpu := true, fixIdx := fix }
def obsC (c : Nat) : Obs := { cpu := c }

/-- F17d: f2 [1200, 1210] is dropped by -t 50; its entry hook saw the cpu change 3 -> 4.  As coded the
    watch event (time 1199) stays pending and is written before the next recorded call; repaired, it is
    dropped with the call (`c17_dropped_with_call`). -/
theorem c17_prefix_watch_survives_witness :
    evsOf (runECalls (cfgDrop false) .pg (ESt.init (cfgDrop false) [] [])
      (.cons (.node 1 1000 1100 (obsC 3) (obsC 3) .nil) (.cons (.node 2 1200 1210 (obsC 4) (obsC 4) .nil)
        (.cons (.node 3 1300 1400 (obsC 4) (obsC 4) .nil) .nil)))).out =
      [(100011, 1001, [3]), (100011, 1199, [4])] ∧
    evsOf (runECalls (cfgDrop true) .pg (ESt.init (cfgDrop true) [] [])
      (.cons (.node 1 1000 1100 (obsC 3) (obsC 3) .nil) (.cons (.node 2 1200 1210 (obsC 4) (obsC 4) .nil)
        (.cons (.node 3 1300 1400 (obsC 4) (obsC 4) .nil) .nil)))).out =
      [(100011, 1001, [3])] := by
  decide

/-! ### F17e (repaired, `fixPair`): read events and diff events come in pairs -/

/-- For every call of a function with a `read=` trigger, whatever the argument payload, the sources and
    the readings: the entry hook stores exactly the specified READ events — one per selected source whose
    reading succeeds, in table order — if the frame's slice has room for them *and* for their DIFF events
    above the argument data, and nothing otherwise; the exit hook puts exactly the specified DIFF events on
    top.  Hence every DIFF event has the READ event of its source below it, and every READ event whose
    source can be read again at exit gets its DIFF event: no unpaired event in either direction. -/
theorem c17_read_diff_paired (cfg : ECfg) (hfa : cfg.fixArg = true) (hfp : cfg.fixPair = true) (k : Kind)
    (f t0 t1 d : Nat) (oE oX : Obs) (ht1 : t1 ≠ 0) :
    (entryFrame cfg k f t0 d oE).evs =
      (if ReadRoom cfg k f then (specReads t0 (d + 1) oE (cfg.read f) readEvents).reverse else []) ∧
    (exitFrame cfg (entryFrame cfg k f t0 d oE) t1 d oX).evs =
      (specDiffs t1 (d + 1) oX (cfg.read f) (entryFrame cfg k f t0 d oE).evs readEvents).reverse ++
        (entryFrame cfg k f t0 d oE).evs ∧
    (∀ e ∈ specDiffs t1 (d + 1) oX (cfg.read f) (entryFrame cfg k f t0 d oE).evs readEvents,
      ∃ s ∈ readEvents, e.id = s.idDiff ∧ ∃ old ∈ (entryFrame cfg k f t0 d oE).evs, old.id = s.idRead) ∧
    (∀ s ∈ readEvents, (cfg.read f &&& s.bit == 0) = false → ∀ old ∈ (entryFrame cfg k f t0 d oE).evs,
      old.id = s.idRead → ∀ v, oX.reads s.bit = some v →
        ∃ e ∈ (exitFrame cfg (entryFrame cfg k f t0 d oE) t1 d oX).evs, e.id = s.idDiff) := by
  refine ⟨(entryFrame_exact cfg hfa hfp k f t0 d oE).1, exitFrame_exact cfg hfa hfp k f t0 t1 d oE oX ht1, ?_, ?_⟩
  · intro e he
    obtain ⟨s, hs, _, old, hold, v, _, rfl⟩ := (mem_specDiffs _ _ _ _ _ _ _).mp he
    refine ⟨s, hs, rfl, old, List.mem_of_find?_eq_some hold, ?_⟩
    simpa using List.find?_some hold
  · intro s hs hsel old hold hid v hv
    rw [exitFrame_exact cfg hfa hfp k f t0 t1 d oE oX ht1]
    have hfind : ((entryFrame cfg k f t0 d oE).evs.find? (fun x => x.id == s.idRead)).isSome := by
      rw [List.find?_isSome]; exact ⟨old, hold, by simpa using hid⟩
    obtain ⟨old', hold'⟩ := Option.isSome_iff_exists.mp hfind
    refine ⟨diffEvOf t1 (d + 1) s v old', ?_, rfl⟩
    rw [List.mem_append, List.mem_reverse]
    exact Or.inl ((mem_specDiffs _ _ _ _ _ _ _).mpr ⟨s, hs, hsel, old', hold', v, hv, rfl⟩)

/-- `f1@read=page-fault` together with `-A f1@arg1/t960` (a 960-byte struct): 4 + 960 bytes of argument
    data leave 60 bytes of the 1024-byte slice — room for one 32-byte event, not for two -/
def cfgPair (fix : Bool) : ECfg :=
  { read := fun f => if f = 1 then 2 else 0, argSize := fun f => if f = 1 then some 960 else none, fixPair := fix }

/-- F17e: as coded the READ event is stored at entry and the DIFF event silently dropped at exit (an
    unpaired `read:page-fault` in the trace); repaired, neither is stored. -/
theorem c17_prefix_unpaired_read_witness :
    evsOf (runECall (cfgPair false) .pg (ESt.init (cfgPair false) [] []) (.node 1 1010 1030 (obsRU 5 100) (obsRU 8 150) .nil)).out =
      [(100002, 1010, [5, 100])] ∧
    evsOf (runECall (cfgPair true) .pg (ESt.init (cfgPair true) [] []) (.node 1 1010 1030 (obsRU 5 100) (obsRU 8 150) .nil)).out =
      [] := by
  decide

/-- the history of the demonstration, on the model: main (f1, not selected by -F f2) calls f2, f2's entry hook
    makes the thread's first observation (cpu 3), f2 calls the short f3 (5 ns, dropped by -t 50) and returns
    after 90 ns: the watch event is written inside f2.  (Were the events kept by record depth — `idx ≤ depth`
    of the frame that goes away — f3's exit hook would discard it: f3 has rstack index 2 and record depth 1.) -/
example :
    evsOf (runECalls cfgFilt .cyg (ESt.init cfgFilt [] [])
      (.cons (.node 1 1000 1110 (obsC 3) (obsC 3)
        (.cons (.node 2 1010 1100 (obsC 3) (obsC 3) (.cons (.node 3 1020 1025 (obsC 3) (obsC 3) .nil) .nil)) .nil)) .nil)).out =
      [(100011, 1011, [3])] := by
  decide

/-- non-vacuity of `c17_read_diff_paired`: with a 900-byte payload there is room and the pair is written -/
example : ReadRoom (cfgPair true |> fun c => { c with argSize := fun f => if f = 1 then some 900 else none }) .pg 1 := by decide

end Uft.C17
