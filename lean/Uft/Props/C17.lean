import Uft.Model.Events
import Uft.Lemmas.Events
/- C17 — Read-trigger and watchpoint events are placed and valued consistently. -/
namespace Uft.C17
open Uft.Mcount Uft.Events

/-- record_ret_stack writes pending asynchronous events in order and loses none -/
theorem c17_async_split (p : List Ev) (ts : Nat) :
    (takeAsync p ts).1 ++ (takeAsync p ts).2 = p := takeAsync_append p ts

end Uft.C17
