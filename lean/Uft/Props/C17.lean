import Uft.Model.Events
import Uft.Model.CallTree
import Uft.Lemmas.Events
/-
C17 — Read-trigger and watchpoint events are placed and valued consistently.

The theorems are about the event model `Uft/Model/Events.lean` (save_trigger_read,
save_watchpoint, record_ret_stack's emission order, the flush / drop rules of
mcount_exit_filter_record, on top of the hook model of C02/C05), which the check
`checks/c17.py` validates against the real libmcount on every run.  `fixArg`, `fixVar`,
`fixIdx` select the repaired (true) or the as-coded (false) variant of three defects of the
unchanged tree (F17c, F17b, F17d); the property theorems are for the repaired variants where
they need them, and a `c17_prefix_…_witness` shows each as-coded variant violating the property.
-/
namespace Uft.C17
open Uft.Mcount Uft.Events

/-! ## Part 1: read/diff events — placement, values, nesting

`runECall` drives the entry/exit hooks over an arbitrary call tree whose nodes carry the
values the sources return at the two hooks.  No filters, no watchpoints here; any read=
masks, -A and -R sizes, both hook flavours, any tree. -/

/-- The stream written for a forest of completed calls, starting from a fresh thread, is
    exactly the specified one: per call ENTRY, the entry hook's read events, the callees,
    the exit hook's events, EXIT (`specCall`).  Nothing missing, duplicated or reordered. -/
theorem c17_emit_exact (cfg : ECfg) (hp : PlainE cfg) (k : Kind) (cs : ECalls) (vars : List Nat)
    (glob : List (Option Nat))
    (hm : cs.height ≤ cfg.base.maxStack) (hd : cs.height ≤ cfg.base.depthOpt) (ht : cs.timed)
    (hmin : cfg.base.minSize = 0) (hen : cfg.base.enabled0 = true) :
    (runECalls cfg k (ESt.init cfg vars glob) cs).out = specCalls cfg k 0 cs ∧
    (runECalls cfg k (ESt.init cfg vars glob) cs).frames = [] ∧
    (runECalls cfg k (ESt.init cfg vars glob) cs).pend = [] := by
  have hg : GoodE (ESt.init cfg vars glob) 0 := by
    constructor <;> simp [ESt.init, hmin, hen, NoSkipE]
  obtain ⟨h1, h2, h3⟩ := emitE_calls cfg hp k cs (ESt.init cfg vars glob) 0 hg (by omega) (by omega) ht
  refine ⟨?_, ?_, h3.pend⟩
  · rw [h1]; cases cs <;> simp [ESt.init, pendingE]
  · rw [h2]; cases cs <;> simp [ESt.init, markToE]

example : PlainE ({ read := fun _ => 3, argSize := fun _ => some 100, retSize := fun _ => some 8 } : ECfg) := by
  constructor
  · constructor <;> simp
  · rfl
  · rfl

example : (ECalls.cons (.node 1 10 50 {} {} (.cons (.node 2 20 40 {} {} .nil) .nil)) .nil).timed ∧
    (ECalls.cons (.node 1 10 50 {} {} (.cons (.node 2 20 40 {} {} .nil) .nil)) .nil).height ≤ 1024 := by
  simp [ECalls.timed, ECall.timed, ECalls.height, ECall.height]

/-- `c17_read_diff_placement`: one call of `f` (with any callees), executed in any thread state
    without active filters: the stream grows by exactly
      [ENTRY f] ++ R ++ (the callees' records) ++ D ++ [EXIT f]
    where R are the events saved by the entry hook (each a READ event holding the reading of its
    source, time = entry time) and D the events saved by the exit hook (time = exit time, each made
    from the exit reading of its source: the DIFF to the entry event of the same source).  The ENTRY
    records still owed for the callers (`pendingE`) come first. -/
theorem c17_read_diff_placement (cfg : ECfg) (hp : PlainE cfg) (k : Kind) (s : ESt) (d f t0 t1 : Nat)
    (oE oX : Obs) (kids : ECalls)
    (hg : GoodE s d) (hm : d + kids.height + 1 ≤ cfg.base.maxStack) (hd : d + kids.height + 1 ≤ cfg.base.depthOpt)
    (ht : t0 < t1) (hk : kids.timed) :
    ∃ R D : List Ev,
      (runECall cfg k s (.node f t0 t1 oE oX kids)).out =
        s.out ++ pendingE s.frames ++
          ([.record { time := t0, type := 0, depth := d, addr := f } (argPayload cfg k f)] ++ R.map .event ++
           specCalls cfg k (d + 1) kids ++
           D.map .event ++ [.record { time := t1, type := 1, depth := d, addr := f } (retPayloadOf cfg k f)]) ∧
      (∀ e ∈ R, e.time = t0 ∧ HoldsReading oE readEvents e) ∧
      (∀ e ∈ D, e.time = t1 ∧ FromExit oX readEvents R.reverse e) := by
  obtain ⟨h1, _, _⟩ := emitE_call cfg hp k (.node f t0 t1 oE oX kids) s d hg
    (by simp only [ECall.height]; omega) (by simp only [ECall.height]; omega) ⟨ht, hk⟩
  have hFb := entryFrame_b cfg k f t0 d oE
  have hFev := entryFrame_evs_time cfg k f t0 d oE
  have hst : (entryFrame cfg k f t0 d oE).b.start = t0 := by rw [hFb]; rfl
  have hev' : ∀ e ∈ (entryFrame cfg k f t0 d oE).evs, e.time = (entryFrame cfg k f t0 d oE).b.start := by
    rw [hst]; exact hFev
  obtain ⟨new, n1, n2, n3, n4⟩ := exitFrame_events cfg (entryFrame cfg k f t0 d oE) t1 d oX hev'
    (by rw [hst]; omega) (by omega)
  refine ⟨(entryFrame cfg k f t0 d oE).evs.reverse, new.reverse, ?_, ?_, ?_⟩
  · rw [h1]
    simp only [specCall, exitOut, entryEvs_of_all _ hev', n4, entryOut_entryFrame, exitRecord_exitFrame]
    simp
  · intro e he
    simp only [List.mem_reverse] at he
    exact ⟨hFev e he, entryFrame_holds cfg k f t0 d oE e he⟩
  · intro e he
    simp only [List.mem_reverse] at he
    simp only [List.reverse_reverse]
    exact ⟨n2 e he, n3 e he⟩

/-- `c17_diff_value`: a DIFF event written before EXIT holds, field by field, the reading of its
    source at the exit hook minus the reading at the entry hook (uint64 arithmetic), and the entry
    hook's READ event of that source is in the stream after ENTRY.  `R`, `D` as in
    `c17_read_diff_placement`. -/
theorem c17_diff_value (oE oX : Obs) (R D : List Ev)
    (hR : ∀ e ∈ R, HoldsReading oE readEvents e) (hD : ∀ e ∈ D, FromExit oX readEvents R.reverse e)
    (e : Ev) (he : e ∈ D) (s : ReadSrc) (hs : s ∈ readEvents) (hid : e.id = s.idDiff) :
    ∃ vE vX, oE.reads s.bit = some vE ∧ oX.reads s.bit = some vX ∧
      e.data = zipSub vX (vE.map (· % u64)) ∧
      ∃ r ∈ R, r.id = s.idRead ∧ r.data = vE.map (· % u64) := by
  obtain ⟨s', hs', vX, hvX, hm⟩ := hD e he
  have inj : ∀ a ∈ readEvents, ∀ b ∈ readEvents, (a.idDiff = b.idDiff ∨ a.idRead = b.idRead) → a = b := by decide
  have dis : ∀ a ∈ readEvents, ∀ b ∈ readEvents, a.idRead ≠ b.idDiff := by decide
  cases hf : R.reverse.find? (fun x => x.id == s'.idRead) with
  | none =>
    rw [hf] at hm
    exact absurd (hm.1.symm.trans hid) (dis s' hs' s hs)
  | some old =>
    rw [hf] at hm
    have hss : s' = s := inj s' hs' s hs (Or.inl (hm.1.symm.trans hid))
    subst hss
    have hold : old ∈ R := by simpa using List.mem_of_find?_eq_some hf
    have hoid : old.id = s'.idRead := by simpa using List.find?_some hf
    obtain ⟨s2, hs2, vE, hvE, h2id, h2data⟩ := hR old hold
    have : s2 = s' := inj s2 hs2 s' hs (Or.inr (h2id.symm.trans hoid))
    subst this
    exact ⟨vE, vX, hvE, hvX, by rw [hm.2, h2data], old, hold, hoid, h2data⟩

example : subU64 8 5 = 3 ∧ subU64 5 8 = 2 ^ 64 - 3 := by decide

end Uft.C17
