import Uft.Model.TextScan
/-
C12 — the line-oriented files next to `info`:
  * `task.txt`   — utils/data-file.c `read_task_txt_file` (TASK / FORK / SESS / DLOP lines) and the
                   checks `open_data_file` makes on the result;
  * `sid-*.map`  — utils/session.c `read_session_map` (incl. the `[stack]` line → kernel base);
  * `*.sym`      — utils/symbol.c `check_symbol_file` and the line syntax of
                   `load_module_symbol_file` (what happens to accepted lines afterwards — duplicates,
                   size back-fill, sorting — is C10's model, Uft/Model/SymFile.lean).

`fixed = false`: the code as found; `fixed = true`: with proposed_fixes/C12-F8t.diff (`exename=` /
`libname=` at the very end of a line, a 4-byte line "TASK"), C12-F8s.diff (`check_symbol_file` on an
empty value), C12-F13.diff (symbol line ending before the type), C12-F12.diff (no `[stack]` line)
and C12-S3.diff (`%s` without a width) applied (all of them are in /repo by now).
`nl = true`: with proposed_fixes/C12-F18t.diff (task.txt), -F18m (map), -F18s (both loops over a .sym
file: `check_symbol_file` and `load_module_symbol_file`) applied: a last line without its newline is an
incomplete record and ends the file (`TextScan.nlGate`); `nl = false`: the code as it is.

Lines longer than the 4096-byte buffers are outside the model (`err "long line"`).  Core-only.
-/
namespace Uft.TaskTxt
open Uft.TextScan

/-! ### task.txt -/

inductive Item
  | task (time : Int) (tid pid : Int)
  | fork (time : Int) (tid ppid : Int)
  | sess (time : Int) (pid : Int) (sid exename : Bytes)
  | dlop (time : Int) (tid : Int) (sid : Bytes) (base : Int) (libname : Bytes)
  deriving Repr, DecidableEq

def NSEC : Int := 1000000000

def fmtTs : List Dir := lits "timestamp=" ++ [.dec, .lit 46, .dec]

def fmtTask : List Dir := fmtTs ++ [.ws] ++ lits "tid=" ++ [.dec, .ws] ++ lits "pid=" ++ [.dec]
def fmtFork : List Dir := fmtTs ++ [.ws] ++ lits "pid=" ++ [.dec, .ws] ++ lits "ppid=" ++ [.dec]

/-- `sid=%s` lands in `char sid[16]` followed by 8 more bytes of the same struct -/
def sidDir (fixed : Bool) : Dir := .str 24 (if fixed then some 16 else none)

def fmtSess (fixed : Bool) : List Dir :=
  fmtTs ++ [.ws, .skipNot 105] ++ lits "id=" ++ [.dec, .ws] ++ lits "sid=" ++ [sidDir fixed]
def fmtDlop (fixed : Bool) : List Dir :=
  fmtTs ++ [.ws] ++ lits "tid=" ++ [.dec, .ws] ++ lits "sid=" ++ [sidDir fixed, .ws] ++
    lits "base=" ++ [.hex]

/-- `pos = strstr(line, key); exename = pos + 8 + 1; *strrchr(exename, '"') = 0`
    (`key` is 8 bytes long: "exename=" / "libname=") -/
def quoted (fixed : Bool) (key : String) (l : Bytes) : PR Bytes :=
  match strstr (b key) l with
  | none => .err ("no " ++ key)
  | some p =>
    if (p.drop 8).isEmpty then
      -- the line ends right behind the '=': pos + 9 is behind the terminating NUL
      (if fixed then .err "nothing after =" else .oob "stale exename")
    else .ok (cutLast 34 (p.drop 9))

/-- one line of task.txt (as a C string): an item, nothing (ignored line), or an error (`goto out`) -/
def parseLine (fixed : Bool) (l : Bytes) : PR (Option Item) :=
  let tag := l.take 4
  let known := tag == b "TASK" || tag == b "FORK" || tag == b "SESS" || tag == b "DLOP"
  if !known then .ok none else
  if l.length < 5 then
    -- `line + 5` is behind the NUL of a 4-byte line
    (if fixed then .ok none else .oob "stale line+5")
  else
  let a := l.drop 5
  if tag == b "TASK" then
    match runFmt fmtTask a [] with
    | .ok ⟨[.num s, .num ns, .num tid, .num pid], _⟩ => .ok (some (.task (s * NSEC + ns) tid pid))
    | .ok _ => .err "TASK"
    | .err e => .err e
    | .oob t => .oob t
  else if tag == b "FORK" then
    match runFmt fmtFork a [] with
    | .ok ⟨[.num s, .num ns, .num tid, .num pid], _⟩ => .ok (some (.fork (s * NSEC + ns) tid pid))
    | .ok _ => .err "FORK"
    | .err e => .err e
    | .oob t => .oob t
  else if tag == b "SESS" then
    match runFmt (fmtSess fixed) a [] with
    | .ok ⟨[.num s, .num ns, .num pid, .str sid], _⟩ =>
      match quoted fixed "exename=" l with
      | .ok e => .ok (some (.sess (s * NSEC + ns) pid sid e))
      | .err e => .err e
      | .oob t => .oob t
    | .ok _ => .err "SESS"
    | .err e => .err e
    | .oob t => .oob t
  else
    match runFmt (fmtDlop fixed) a [] with
    | .ok ⟨[.num s, .num ns, .num tid, .str sid, .num base], _⟩ =>
      match quoted fixed "libname=" l with
      | .ok e => .ok (some (.dlop (s * NSEC + ns) tid sid base e))
      | .err e => .err e
      | .oob t => .oob t
    | .ok _ => .err "DLOP"
    | .err e => .err e
    | .oob t => .oob t

/-- the line source of the `getline` loops; `nl`: with the C12-F18 fixes (see `nlGate`) -/
def getLineG (nl : Bool) (s : Bytes) : Option (Bytes × Bytes) := nlGate nl (getline s)

/-- the body of the `getline` loop (items newest first) -/
def taskStep (fixed : Bool) (acc : List Item) (l : Bytes) : PR (List Item × Bool) :=
  match parseLine fixed (cstr l) with
  | .ok none => .ok (acc, true)
  | .ok (some it) => .ok (it :: acc, true)
  | .err e => .err e
  | .oob t => .oob t

/-- the `getline` loop; fuel = number of bytes + 1 (every line has at least one byte) -/
def parseLines (fixed nl : Bool) (n : Nat) (s : Bytes) : PR (List Item) :=
  match lineLoop (getLineG nl) (taskStep fixed) n s [] with
  | .ok acc => .ok acc.reverse
  | .err e => .err e
  | .oob t => .oob t

/-- `read_task_txt_file`.  `nl`: with proposed_fixes/C12-F18t.diff -/
def parseTaskTxt (fixed nl : Bool) (s : Bytes) : PR (List Item) := parseLines fixed nl (s.length + 1) s

inductive Open | ok | einval | enodata
  deriving Repr, DecidableEq

/-- what `open_data_file` concludes from task.txt and `info.tids` -/
def openOutcome (r : PR (List Item)) (tids : List Int) : Open :=
  match r with
  | .ok items =>
    if !items.any (fun | .sess .. => true | _ => false) then .einval
    else if tids.any (fun t => items.any (fun
        | .task _ tid _ => tid == t
        | .fork _ tid _ => tid == t
        | _ => false)) then .ok
    else .enodata
  | _ => .einval

/-- `find_task(sessions, tid)` -/
def hasTask (items : List Item) (t : Int) : Bool :=
  items.any (fun
    | .task _ tid _ => tid == t
    | .fork _ tid _ => tid == t
    | _ => false)

/-- cmds/dump.c `dump_chrome_header`: for every tid of `info` it prints `find_task(..)->comm`;
    a tid whose TASK/FORK line is missing from (a cut) task.txt gives a NULL task.
    Returns the tids whose header lines are printed.  `fixed`: C12-F16.diff (skip such a tid). -/
def chromeHeader (fixed : Bool) (items : List Item) : List Int → PR (List Int)
  | [] => .ok []
  | t :: r =>
    if hasTask items t then
      match chromeHeader fixed items r with
      | .ok l => .ok (t :: l)
      | .err e => .err e
      | .oob x => .oob x
    else if fixed then chromeHeader fixed items r
    else .oob "NULL task->comm"

/-- cmds/replay.c `print_task` (`replay -f task`), cmds/report.c `adjust_task_runtime` / `print_task`
    (`report --task`), cmds/graph.c `graph_build_task` (`graph --task`): for every tid of `info` they
    use `task->t = find_task(sessions, tid)` (`->comm`, `->time`, `->pid`) without a test; a tid whose
    TASK/FORK line is missing from (a cut) task.txt gives NULL.  Returns, per tid, whether the task has
    a name.  `fixed`: C12-F19.diff (`open_data_file` gives such a tid a nameless task). -/
def taskFields (fixed : Bool) (items : List Item) : List Int → PR (List (Int × Bool))
  | [] => .ok []
  | t :: r =>
    if hasTask items t || fixed then
      match taskFields fixed items r with
      | .ok l => .ok ((t, hasTask items t) :: l)
      | .err e => .err e
      | .oob x => .oob x
    else .oob "NULL task->t"

/-! ### sid-*.map -/

structure MapEnt where
  start : Nat
  stop : Nat
  prot : Bytes
  path : Bytes
  buildId : Bytes
  deriving Repr, DecidableEq

structure Maps where
  maps : List MapEnt        -- newest first
  kernelBase : Nat
  deriving Repr, DecidableEq

def fmtMap (fixed : Bool) : List Dir :=
  [.hex, .lit 45, .hex, .ws, .str 5 (if fixed then some 4 else none), .ws, .skipHex, .ws,
   .skipHex, .lit 58, .skipHex, .ws, .skipDec, .ws, .str 4096 none, .ws,
   .str 51 (if fixed then some 50 else none)]

def guessKernelBase (addr : Nat) : Nat :=
  if addr < 0x40000000 then 0x40000000
  else if addr < 0x80000000 then 0x80000000
  else if addr < 0xB0000000 then 0xB0000000
  else if addr < 0xC0000000 then 0xC0000000
  else if addr < 0x8000000000 then 0xFFFFFF8000000000
  else if addr < 0x40000000000 then 0xFFFFFC0000000000
  else if addr < 0x800000000000 then 0xFFFF800000000000
  else 0xFFFF000000000000

def natOf (v : Int) : Nat := v.toNat

/-- the optional 5th field: kept only when it starts with "build-id:" -/
def bidOf (rest : List Val) : Bytes :=
  match rest with
  | [.str t] => if hasPrefix (b "build-id:") t then t.drop 9 else []
  | _ => []

def mapLine (fixed : Bool) (l : Bytes) (m : Maps) : PR Maps :=
  match runFmt (fmtMap fixed) l [] with
  | .ok x =>
    match x.vals with
    | .num st :: .num en :: .str prot :: .str path :: rest =>
      if path.head? == some 91 then     -- '['
        (if hasPrefix (b "[stack") path then
           .ok { m with kernelBase := guessKernelBase (strtoull16 l).1 }
         else .ok m)
      else
        match m.maps with
        | last :: older =>
          if last.path == path then .ok { m with maps := { last with stop := natOf en } :: older }
          else .ok { m with maps := ⟨natOf st, natOf en, prot, path, bidOf rest⟩ :: m.maps }
        | [] => .ok { m with maps := [⟨natOf st, natOf en, prot, path, bidOf rest⟩] }
    | _ => .ok m       -- fewer than 4 assignments: "sscanf failed", line skipped
  | .err e => .err e
  | .oob t => .oob t

/-- the line source of `read_session_map`: `fgets(buf, PATH_MAX, fp)` -/
def getMapLineG (nl : Bool) (s : Bytes) : Option (Bytes × Bytes) := nlGate nl (fgets 4096 s)

def mapStep (fixed : Bool) (m : Maps) (l : Bytes) : PR (Maps × Bool) :=
  match mapLine fixed (cstr l) m with
  | .ok m1 => .ok (m1, true)
  | .err e => .err e
  | .oob t => .oob t

def mapLines (fixed nl : Bool) (n : Nat) (s : Bytes) (m : Maps) : PR Maps :=
  lineLoop (getMapLineG nl) (mapStep fixed) n s m

/-- `read_session_map` on the bytes of the map file.  The code as found leaves
    `kernel_base` at 0 (the session is zero-allocated) when no `[stack]` line is read; the
    writer's side (libmcount/record.c) starts from -1. -/
def parseMap (fixed nl : Bool) (s : Bytes) : PR Maps :=
  mapLines fixed nl (s.length + 1) s { maps := [], kernelBase := if fixed then 2 ^ 64 - 1 else 0 }

/-- `is_kernel_address` -/
def isKernel (m : Maps) (addr : Nat) : Bool := addr ≥ m.kernelBase

/-! ### *.sym -/

structure SymLine where
  addr : Nat
  size : Nat
  type : UInt8
  name : Bytes
  deriving Repr, DecidableEq

/-- the value part of a `# key: value` header line as `check_symbol_file` stores it -/
def hdrValue (fixed : Bool) (v : Bytes) : PR Bytes :=
  if v.isEmpty then (if fixed then .ok [] else .oob "check_symbol_file buf[-1]")
  else .ok (if v.getLast? == some NL then v.dropLast else v)

structure SymHdr where
  path : Option Bytes := none
  buildId : Option Bytes := none
  count : Nat := 0            -- the return value of check_symbol_file
  deriving Repr, DecidableEq

/-- the body of the loop of `check_symbol_file` (`false`: the `break` at the first non-`#` line;
    with C12-F18s.diff the newline test comes right behind that test, and both `break`) -/
def checkStep (fixed : Bool) (h : SymHdr) (l0 : Bytes) : PR (SymHdr × Bool) :=
  let l := cstr l0
  if l.length ≥ 4096 then .err "long line" else
  if l.head? != some 35 then .ok (h, false) else
  if hasPrefix (b "# path name: ") l then
    match hdrValue fixed (l.drop 13) with
    | .ok v => .ok ({ h with path := some v, count := h.count + 1 }, true)
    | .err e => .err e
    | .oob t => .oob t
  else if hasPrefix (b "# build-id: ") l then
    match hdrValue fixed ((l.drop 12).take 40) with
    | .ok v => .ok ({ h with buildId := some v, count := h.count + 1 }, true)
    | .err e => .err e
    | .oob t => .oob t
  else .ok (h, true)

def checkLoop (fixed nl : Bool) (n : Nat) (s : Bytes) (h : SymHdr) : PR SymHdr :=
  lineLoop (getLineG nl) (checkStep fixed) n s h

/-- `check_symbol_file`.  `nl`: with proposed_fixes/C12-F18s.diff -/
def checkSymFile (fixed nl : Bool) (s : Bytes) : PR SymHdr := checkLoop fixed nl (s.length + 1) s {}

/-- after the type character: `if (*pos++ != ' ') continue; name = pos;` and the TAB cut -/
def symTail (addr size : Nat) (ty : UInt8) (p : Bytes) : PR (Option SymLine) :=
  match p with
  | 32 :: nm => .ok (some ⟨addr, size, ty, cutFirst 9 nm⟩)
  | _ => .ok none

/-- one non-`#` line of `load_module_symbol_file`: the fields, or `none` ("invalid symbol file
    format", line skipped).  When the line ends right where the type character should be, `type`
    is the terminating NUL and the next `*pos++` reads the byte behind it. -/
def symLine (fixed : Bool) (l0 : Bytes) : PR (Option SymLine) :=
  let l := cutFirst NL l0
  let a := strtoull16 l
  match a.2 with
  | [32] => if fixed then .ok none else .oob "stale byte after the symbol type"
  | 32 :: ty :: p2 =>
    if isDigit ty then
      let sz := strtoull16 (ty :: p2)
      match sz.2 with
      | [32] => if fixed then .ok none else .oob "stale byte after the symbol type"
      | 32 :: ty2 :: q2 => symTail a.1 (sz.1 % 2 ^ 32) ty2 q2
      | _ => .ok none
    else symTail a.1 0 ty p2
  | _ => .ok none

/-- the body of the loop of `load_module_symbol_file` (symbols newest first) -/
def symStep (fixed : Bool) (acc : List SymLine) (l0 : Bytes) : PR (List SymLine × Bool) :=
  let l := cstr l0
  if l.head? == some 35 then .ok (acc, true) else
  match symLine fixed l with
  | .ok none => .ok (acc, true)
  | .ok (some x) => .ok (x :: acc, true)
  | .err e => .err e
  | .oob t => .oob t

/-- the loop of `load_module_symbol_file`.  `nl`: with proposed_fixes/C12-F18s.diff -/
def symLines (fixed nl : Bool) (n : Nat) (s : Bytes) : PR (List SymLine) :=
  match lineLoop (getLineG nl) (symStep fixed) n s [] with
  | .ok acc => .ok acc.reverse
  | .err e => .err e
  | .oob t => .oob t

/-- cmds/replay.c `print_graph_rstack`: `symname[strlen(symname) - 1]` on the name of the symbol
    of an ENTRY record; an empty name (a symbol line cut right after the type) makes that
    `symname[-1]`.  `fixed`: C12-F17.diff. -/
def replayNamesOk (fixed : Bool) (ls : List SymLine) : Bool :=
  fixed || ls.all (fun l => !l.name.isEmpty)

structure SymFile where
  useFile : Bool            -- false: the loader switches to `<name>-<csum>.sym`
  lines : List SymLine
  deriving Repr, DecidableEq

/-- `load_module_symbol` for a module called `modname` whose `.sym` file has the bytes `s`
    (no build-ids, not a `--with-syms` directory) -/
def parseSym (fixed nl : Bool) (modname : Bytes) (s : Bytes) : PR SymFile :=
  match checkSymFile fixed nl s with
  | .ok h =>
    if h.count > 0 && h.path != some modname then .ok ⟨false, []⟩ else
    match symLines fixed nl (s.length + 1) s with
    | .ok ls => .ok ⟨true, ls⟩
    | .err e => .err e
    | .oob t => .oob t
  | .err e => .err e
  | .oob t => .oob t

end Uft.TaskTxt
