/-
C03 / C04 — the shared-memory hand-off between libmcount (producer) and
`uftrace record` (recorder), as one interleaved state machine.

  libmcount/record.c : prepare_shmem_buffer, get_shmem_buffer, get_new_shmem_buffer,
                       finish_shmem_buffer, shmem_finish, record_ret_stack (size updates),
                       record_trace_data (losts += count - 1)
  libmcount/misc.c   : uftrace_send_message (nothing is sent once mcount_pfd is closed)
  libmcount/mcount.c : mtd_dtor, mcount_trace_finish
  cmds/record.c      : read_record_mmap, record_mmap_file, copy_to_buffer, writer_thread,
                       write_buf_list, flush_shmem_list / flush_old_shmem, stop_all_writers,
                       record_remaining_buffer           (writer pool: Uft/Model/Writers.lean)

Producer steps are the micro-steps between which the recorder (or a signal) can
observe the shared state: bytes stored (`pWrite`, invisible) / `size` advanced
(`pBump`) / REC_END sent (`pEnd`) / next buffer chosen and marked RECORDING
(`pPick`) / REC_START sent (`pStart`) / LOST marker (`pMark`).  `kill t` stops a
thread for good at any of them.  The fields `opn`, `log`, `lostMsgs` are ghost state.
Core-only imports (linked into uvmodel).
-/
import Uft.Model.Writers
namespace Uft.Shmem
open Uft.Writers

/-- a trace record as the producer emits it (the token `id` stands for its bytes) -/
structure Rec where
  id : Nat
  size : Nat            -- header + payload, what get_shmem_buffer is asked for
  payload : Bool        -- argument/retval payload: record_ret_stack advances `size` twice
  deriving DecidableEq, Repr

/-- what lies inside `size` of a buffer / in `<tid>.dat` -/
inductive Item where
  | whole (r : Rec)
  | lost (n : Nat)      -- the LOST record get_new_shmem_buffer puts at offset 0
  | torn (r : Rec)      -- header of a payload record counted, payload not yet (lines 1015-1025)
  deriving DecidableEq, Repr

def Item.size : Item → Nat
  | .whole r => r.size
  | .lost _ => 16
  | .torn _ => 16

def Item.isTorn : Item → Bool
  | .torn _ => true
  | _ => false

/-- struct mcount_shmem_buffer: flag bits and the bytes below `size` -/
structure Buf where
  recording : Bool := false    -- SHMEM_FL_RECORDING
  written : Bool := false      -- SHMEM_FL_WRITTEN
  isNew : Bool := false        -- SHMEM_FL_NEW
  data : List Item := []       -- `size` = total size of these
  deriving DecidableEq, Repr

def sizeOf (l : List Item) : Nat := l.foldr (fun i n => i.size + n) 0
def Buf.size (b : Buf) : Nat := sizeOf b.data
/-- `b->flag == SHMEM_FL_WRITTEN` -/
def Buf.onlyWritten (b : Buf) : Bool := b.written && !b.recording && !b.isNew

/-- ghost: what happened to each record the thread wanted to emit -/
inductive Ev where
  | kept (r : Rec)
  | dropped (r : Rec)
  | allocFail
  | lostMark (n : Nat)
  | lostReport (n : Nat)    -- LOST message at the end of the thread (no buffer left to carry a marker)
  deriving DecidableEq, Repr

def survivors : List Ev → List Item
  | [] => []
  | .kept r :: l => .whole r :: survivors l
  | .lostMark n :: l => .lost n :: survivors l
  | _ :: l => survivors l

/-- where a thread is inside record_ret_stack / get_shmem_buffer -/
inductive Pc where
  | idle
  | wrote (r : Rec)      -- bytes stored beyond `size`
  | hdr (r : Rec)        -- pre-fix: `size` covers the header of a payload record only
  | needBuf (r : Rec)    -- REC_END sent for the full buffer (or there is none)
  | picked (r : Rec)     -- next buffer marked RECORDING, `curr` set, `size = 0`, shrink done
  | started (r : Rec)    -- REC_START sent
  deriving DecidableEq, Repr

/-- struct mcount_shmem of one thread (+ liveness, + ghost fields) -/
structure Prod where
  started : Bool := false      -- mcount_prepare ran
  alive : Bool := true
  done : Bool := false         -- shmem->done
  bufs : List Buf := []        -- shmem->buffer[0 .. nr_buf)
  curr : Option Nat := none    -- shmem->curr (none = -1)
  losts : Nat := 0
  pc : Pc := .idle
  opn : Option Nat := none     -- ghost: buffer holding data for which no REC_END was sent
  log : List Ev := []          -- ghost
  lostMsgs : List Nat := []    -- ghost: LOST messages handed to uftrace_send_message
  deriving Repr

inductive Msg where
  | recStart (t : Tid) (i : Nat)
  | recEnd (t : Tid) (i : Nat)
  | lost (t : Tid) (n : Nat)
  | finish
  deriving DecidableEq, Repr

structure Cfg where
  maxsize : Nat := 48          -- shmem_bufsize - sizeof(struct mcount_shmem_buffer)
  fixed : Bool := true         -- false: record_ret_stack as it was (two size updates, finding F12)
  countFix : Bool := true      -- false: the record whose allocation fails is counted twice (get_new_shmem_buffer
                               -- and get_shmem_buffer both `losts++`), and the EXIT dropped after a failed own
                               -- ENTRY is not counted at all (finding F-C03-LOSTCOUNT)
  tailFix : Bool := true       -- false: shmem_finish forgets `losts`: records dropped at the end of a thread are
                               -- never reported (finding F-C03-LOSTTAIL)

structure State where
  prod : Tid → Prod := fun _ => {}
  pipe : List Msg := []            -- the .channel FIFO
  pipeClosed : Bool := false       -- mcount_pfd closed by mcount_trace_finish
  shmemList : List WBuf := []      -- shmem_list_head
  pool : Pool := {}
  bufDone : Bool := false          -- buf_done
  file : Tid → List Item := fun _ => []
  lostCount : Nat := 0             -- shmem_lost_count
  lostLog : List (Tid × Nat) := [] -- ghost: the LOST messages read so far (whose thread, count)

def State.init (nw : Nat) : State := { pool := { writers := List.replicate nw {} } }

inductive Action where
  | pPrepare (t : Tid)
  | pWrite (t : Tid) (r : Rec)
  | pBump (t : Tid)
  | pBump2 (t : Tid)
  | pEnd (t : Tid) (r : Rec)
  | pPick (t : Tid) (ok : Bool)
  | pStart (t : Tid)
  | pMark (t : Tid)
  | pAbandon (t : Tid) (rs : List Rec) (counted : Bool)
  | pFinish (t : Tid)
  | pFinishTrigger (t : Tid)
  | kill (t : Tid)
  | rRead
  | rFlush (t : Tid) (i : Nat)
  | rStop
  | rRemaining
  | wPick (w : Nat)
  | wWrite (w : Nat)
  | wSplice (w : Nat)
  deriving Repr

def State.setProd (s : State) (t : Tid) (p : Prod) : State :=
  { s with prod := fun x => if x = t then p else s.prod x }

/-- uftrace_send_message: `if (mcount_pfd < 0) return;` -/
def State.send (s : State) (m : Msg) : State :=
  if s.pipeClosed then s else { s with pipe := s.pipe ++ [m] }

/-- the thread may run hook code that records: it exists, was not killed, has not run
    mtd_dtor, and tracing was not finished (see the header of Props/C04 for the last one) -/
def State.canEmit (s : State) (t : Tid) : Bool :=
  let p := s.prod t
  p.started && p.alive && !p.done && !s.pipeClosed

/-- get_new_shmem_buffer lines 102-106: first buffer without RECORDING -/
def firstFree : List Buf → Option Nat
  | [] => none
  | b :: bs => if !b.recording then some 0 else
    match firstFree bs with
    | some i => some (i + 1)
    | none => none

/-- lines 141-158: free the last buffer when ≥ 3 buffers after `idx` are exactly WRITTEN -/
def shrink (bufs : List Buf) (idx : Nat) : List Buf :=
  if idx + 3 ≤ bufs.length then
    match bufs.getLast? with
    | some last =>
      if ((bufs.drop (idx + 1)).filter Buf.onlyWritten).length ≥ 3 && last.onlyWritten then bufs.dropLast
      else bufs
    | none => bufs
  else bufs

def fits (cfg : Cfg) (p : Prod) (r : Rec) : Bool :=
  match p.curr with
  | none => false
  | some c =>
    match p.bufs[c]? with
    | none => false
    | some b => b.size + r.size ≤ cfg.maxsize

def appendData (bufs : List Buf) (c : Nat) (it : Item) : List Buf :=
  match bufs[c]? with
  | none => bufs
  | some b => bufs.set c { b with data := b.data ++ [it] }

/-- replace the torn header at the end of the buffer by the whole record -/
def completeData (bufs : List Buf) (c : Nat) (r : Rec) : List Buf :=
  match bufs[c]? with
  | none => bufs
  | some b => bufs.set c { b with data := b.data.dropLast ++ [.whole r] }

/-- record_mmap_file: queue the buffer for writing if it is RECORDING and not empty (A12) -/
def recordMmap (s : State) (wb : WBuf) : State :=
  match (s.prod wb.tid).bufs[wb.idx]? with
  | none => s
  | some b => if b.recording && !b.data.isEmpty then { s with pool := s.pool.enqueue wb } else s

def dataAt (bufs : List Buf) (i : Nat) : List Item :=
  match bufs[i]? with
  | none => []
  | some b => b.data

/-- write_buffer: append `size` bytes to `<tid>.dat`, `size = 0`; `setWritten`: write_buf_list
    line 589 `flag = SHMEM_FL_WRITTEN` (record_remaining_buffer does not do that) -/
def writeOut (s : State) (wb : WBuf) (setWritten : Bool) : State :=
  let p := s.prod wb.tid
  match p.bufs[wb.idx]? with
  | none => s
  | some b =>
    let b' : Buf := if setWritten then { recording := false, written := true, isNew := false, data := [] }
                    else { b with data := [] }
    { (s.setProd wb.tid { p with bufs := p.bufs.set wb.idx b' }) with
      file := fun x => if x = wb.tid then s.file x ++ b.data else s.file x }

def msgOf (t : Tid) : Msg → Bool
  | .recStart t' _ => t' = t
  | .recEnd t' _ => t' = t
  | _ => false

/-- mtd_dtor → shmem_finish: REC_END for the current buffer, `done`, `curr = -1` -/
def finishCore (s : State) (t : Tid) : Option State :=
  let p := s.prod t
  if p.started && p.alive && !p.done && p.pc == .idle then
    let sendsEnd := match p.curr with
      | some c => (match p.bufs[c]? with | some b => b.recording | none => false)
      | none => false
    let p' := { p with done := true, curr := none,
                       opn := if sendsEnd && !s.pipeClosed then none else p.opn }
    match p.curr with
    | some c => if sendsEnd then some ((s.setProd t p').send (.recEnd t c)) else some (s.setProd t p')
    | none => some (s.setProd t p')
  else none

/-- repaired shmem_finish: records dropped since the last buffer switch are reported before the thread is gone
    (there is no later buffer to carry a LOST record) -/
def reportTail (cfg : Cfg) (t : Tid) (s : State) : State :=
  let p := s.prod t
  if cfg.tailFix && decide (p.losts > 0) && !s.pipeClosed then
    (s.setProd t { p with losts := 0, log := p.log ++ [.lostReport p.losts],
                          lostMsgs := p.lostMsgs ++ [p.losts] }).send (.lost t p.losts)
  else s

def step (cfg : Cfg) (s : State) : Action → Option State
  | .pPrepare t =>
    let p := s.prod t
    if p.started || s.pipeClosed then none else
    some ((s.setProd t { p with started := true,
                                bufs := [{ recording := true, isNew := true }, {}],
                                curr := some 0, opn := some 0 }).send (.recStart t 0))
  | .pWrite t r =>
    let p := s.prod t
    if s.canEmit t && p.pc == .idle && fits cfg p r then some (s.setProd t { p with pc := .wrote r })
    else none
  | .pBump t =>
    let p := s.prod t
    match p.pc, p.curr with
    | .wrote r, some c =>
      if !s.canEmit t then none else
      if r.payload && !cfg.fixed then
        some (s.setProd t { p with bufs := appendData p.bufs c (.torn r), pc := .hdr r })
      else
        some (s.setProd t { p with bufs := appendData p.bufs c (.whole r), pc := .idle,
                                   log := p.log ++ [.kept r] })
    | _, _ => none
  | .pBump2 t =>
    let p := s.prod t
    match p.pc, p.curr with
    | .hdr r, some c =>
      if !s.canEmit t then none else
      some (s.setProd t { p with bufs := completeData p.bufs c r, pc := .idle, log := p.log ++ [.kept r] })
    | _, _ => none
  | .pEnd t r =>
    let p := s.prod t
    if s.canEmit t && p.pc == .idle && !fits cfg p r then
      match p.curr with
      | some c => some ((s.setProd t { p with pc := .needBuf r, opn := none }).send (.recEnd t c))
      | none => some (s.setProd t { p with pc := .needBuf r })
    else none
  | .pPick t ok =>
    let p := s.prod t
    match p.pc with
    | .needBuf r =>
      if !s.canEmit t then none else
      match firstFree p.bufs with
      | some idx =>
        match p.bufs[idx]? with
        | some b =>
          let bufs := p.bufs.set idx { b with recording := true, data := [] }
          some (s.setProd t { p with bufs := shrink bufs idx, curr := some idx, opn := some idx, pc := .picked r })
        | none => none
      | none =>
        if ok then
          let idx := p.bufs.length
          let bufs := p.bufs ++ [{ recording := true }]
          some (s.setProd t { p with bufs := shrink bufs idx, curr := some idx, opn := some idx, pc := .picked r })
        else
          some (s.setProd t { p with losts := p.losts + (if cfg.countFix then 1 else 2), curr := none, pc := .idle,
                                     log := p.log ++ [.allocFail, .dropped r] })
    | _ => none
  | .pStart t =>
    let p := s.prod t
    match p.pc, p.curr with
    | .picked r, some c =>
      if !s.canEmit t then none else
      some ((s.setProd t { p with pc := .started r }).send (.recStart t c))
    | _, _ => none
  | .pMark t =>
    let p := s.prod t
    match p.pc, p.curr with
    | .started r, some c =>
      if !s.canEmit t then none else
      if p.losts > 0 then
        some ((s.setProd t { p with bufs := appendData p.bufs c (.lost p.losts), losts := 0, pc := .wrote r,
                                    log := p.log ++ [.lostMark p.losts],
                                    lostMsgs := p.lostMsgs ++ [p.losts] }).send (.lost t p.losts))
      else some (s.setProd t { p with pc := .wrote r })
    | _, _ => none
  | .pAbandon t rs counted =>
    -- record_trace_data gives up the rest of its batch after a failed record: `losts += count - 1` when a
    -- parent's ENTRY failed (`counted`), nothing when the call's own ENTRY failed (as coded)
    let p := s.prod t
    if s.canEmit t && p.pc == .idle && p.curr.isNone && p.losts > 0 then
      some (s.setProd t { p with losts := p.losts + (if counted || cfg.countFix then rs.length else 0),
                                 log := p.log ++ rs.map .dropped })
    else none
  | .pFinish t =>
    match finishCore s t with
    | some s1 => some (reportTail cfg t s1)
    | none => none
  | .pFinishTrigger t =>
    let p := s.prod t
    if s.canEmit t && p.pc == .idle then some { s with pipe := s.pipe ++ [.finish], pipeClosed := true }
    else none
  | .kill t => some (s.setProd t { s.prod t with alive := false })
  | .rRead =>
    match s.pipe with
    | [] => none
    | .recStart t i :: rest => some { s with pipe := rest, shmemList := s.shmemList ++ [⟨t, i⟩] }
    | .recEnd t i :: rest =>
      some (recordMmap { s with pipe := rest, shmemList := s.shmemList.erase ⟨t, i⟩ } ⟨t, i⟩)
    | .lost t n :: rest => some { s with pipe := rest, lostCount := s.lostCount + n, lostLog := s.lostLog ++ [(t, n)] }
    | .finish :: rest => some { s with pipe := rest }
  | .rFlush t i =>
    let p := s.prod t
    if s.shmemList.contains ⟨t, i⟩ && (!p.alive || p.done || s.pipeClosed) && !s.pipe.any (msgOf t) then
      let s1 := { s with shmemList := s.shmemList.erase ⟨t, i⟩ }
      let s2 := s1.setProd t { p with opn := if p.opn = some i then none else p.opn }
      some (recordMmap s2 ⟨t, i⟩)
    else none
  | .rStop => some { s with bufDone := true }
  | .rRemaining =>
    if !s.bufDone then none else
    match s.pool.popRemaining with
    | some (pool, wb) => some (writeOut { s with pool := pool } wb false)
    | none => none
  | .wPick w =>
    match s.pool.pick w s.bufDone with
    | some pool => some { s with pool := pool }
    | none => none
  | .wWrite w =>
    match s.pool.popHead w with
    | some (pool, wb) => some (writeOut { s with pool := pool } wb true)
    | none => none
  | .wSplice w =>
    match s.pool.splice w with
    | some pool => some { s with pool := pool }
    | none => none

def run (cfg : Cfg) : State → List Action → Option State
  | s, [] => some s
  | s, a :: as =>
    match step cfg s a with
    | some s' => run cfg s' as
    | none => none

inductive Reachable (cfg : Cfg) (nw : Nat) : State → Prop where
  | init : Reachable cfg nw (State.init nw)
  | step {s s' : State} (a : Action) : Reachable cfg nw s → step cfg s a = some s' → Reachable cfg nw s'

/-! ### derived, code-level compositions (what the C functions do when nothing interleaves) -/

/-- record_ret_stack for one record: get_shmem_buffer (+ switch) and the stores.
    `ok`: a buffer allocation, if one is attempted, succeeds.  Returns the state and
    whether the record was stored (`false` = get_shmem_buffer returned NULL). -/
def emit (cfg : Cfg) (s : State) (t : Tid) (r : Rec) (ok : Bool) : Option (State × Bool) :=
  let bump (s : State) : Option (State × Bool) :=
    match step cfg s (.pBump t) with
    | none => none
    | some s1 =>
      if r.payload && !cfg.fixed then (step cfg s1 (.pBump2 t)).map (·, true) else some (s1, true)
  if fits cfg (s.prod t) r then
    match step cfg s (.pWrite t r) with
    | some s1 => bump s1
    | none => none
  else
    match step cfg s (.pEnd t r) with
    | none => none
    | some s1 =>
      match step cfg s1 (.pPick t ok) with
      | none => none
      | some s2 =>
        if (s2.prod t).curr.isNone then some (s2, false) else
        match step cfg s2 (.pStart t) with
        | none => none
        | some s3 =>
          match step cfg s3 (.pMark t) with
          | none => none
          | some s4 => bump s4

/-- record_trace_data: a batch of records.  `onFail` says what happens when this record cannot be stored:
    `none` — the caller ignores it and goes on (record_event's callers); `some counted` — the rest of the batch
    is abandoned, `counted` = the code adds `count - 1` to `losts` (a parent's ENTRY) or not (the own ENTRY). -/
def emitBatch (cfg : Cfg) (s : State) (t : Tid) : List (Rec × Option Bool × Bool) → Option State
  | [] => some s
  | (r, onFail, ok) :: rest =>
    match emit cfg s t r ok with
    | none => none
    | some (s1, true) => emitBatch cfg s1 t rest
    | some (s1, false) =>
      match onFail with
      | none => emitBatch cfg s1 t rest
      | some counted => step cfg s1 (.pAbandon t (rest.map (·.1)) counted)

/-! ### under which tid a thread announces its buffers, and whose buffers it fills

libmcount/internal.h mcount_gettid (`mtdp->tid` is a cache, 0 = empty); libmcount/plthook.c prepare_vfork /
setup_vfork / restore_vfork and the tests around them in __plthook_exit; libmcount/mcount.c atfork_child_handler,
mcount_prepare.  REC_START / REC_END name a buffer `/uftrace-<sid>-<mcount_gettid()>-<idx>`, and the recorder appends
it to `<that tid>.dat`: the `t` of `Msg.recStart t i` above IS the thread only as long as the cache holds the thread's
own kernel tid and `mtdp->shmem` holds the buffers the thread itself started.  This is the machine that keeps them. -/

/-- the two repairs of the vfork bookkeeping (`false` = the code before them) -/
structure VforkFix where
  again : Bool := true   -- prepare_vfork drops MCOUNT_FL_VFORK from the copy of the frame it keeps for the parent
                         -- (F-C03-VFORK-AGAIN: the parent that finds this copy ran setup_vfork itself)
  mt : Bool := true      -- __plthook_exit calls restore_vfork only in the thread that called vfork
                         -- (F-C03-VFORK-MT: `if (vfork_parent)` alone is true in every thread of the process)

/-- what a thread is, and what its `struct mcount_thread_data` says -/
structure Ident where
  pid : Nat                                  -- getpid() of the process it runs in
  ktid : Nat                                 -- its kernel tid: what its messages and its data file must be named by
  cache : Nat := 0                           -- mtdp->tid
  bufs : Nat                                 -- kernel tid under which the buffers in mtdp->shmem were started
  saved : Option (Nat × Nat × Nat) := none   -- a vfork in flight: the parent's pid, kernel tid and buffers
                                             -- (vfork_parent, vfork_shmem; the thread runs as the child meanwhile)
  deriving DecidableEq, Repr

inductive IdOp where
  | gettid                     -- mcount_gettid(): any message naming the thread, any buffer name
  | vfork (child : Nat)        -- vfork() returns in the child: same stack, same mtdp, another process
  | vforkDone (stale : Bool)   -- the child has called _exit / exec, the parent returns from vfork(); `stale`: the frame
                               -- it finds is the restored copy of the vfork frame (rstack depth 0 and the child pushed
                               -- no frame: its _exit/exec PLT entry was already resolved)
  | fork (child : Nat)         -- fork(): this is the child after atfork_child_handler
  | exec                       -- a new image under the same kernel tid (mcount_prepare)
  | otherVfork (a : Nat)       -- another thread (kernel tid `a`) is inside vfork(), this one returns from a library call
  deriving DecidableEq, Repr

/-- the tid the next message / buffer name carries -/
def Ident.msgTid (s : Ident) : Nat := if s.cache = 0 then s.ktid else s.cache

def idStep (fx : VforkFix) (s : Ident) : IdOp → Ident
  | .gettid => { s with cache := s.msgTid }
  | .vfork c =>
    -- prepare_vfork (parent side kept), then setup_vfork in the child: tid cache = getpid(), fresh buffers under it
    { pid := c, ktid := c, cache := c, bufs := c, saved := some (s.pid, s.ktid, s.bufs) }
  | .vforkDone stale =>
    match s.saved with
    | none => s
    | some (p, k, b) =>
      if stale && !fx.again then
        -- MCOUNT_FL_VFORK still set on the restored frame: setup_vfork in the PARENT (tid cache = getpid(), new
        -- buffers started under that name, the old ones forgotten)
        { pid := p, ktid := k, cache := p, bufs := p, saved := none }
      else
        -- restore_vfork: "flush tid cache", mtdp->shmem = vfork_shmem
        { pid := p, ktid := k, cache := 0, bufs := b, saved := none }
  | .fork c => { pid := c, ktid := c, cache := c, bufs := c, saved := none }
  | .exec => { s with cache := 0, bufs := s.ktid, saved := none }
  | .otherVfork a =>
    -- restore_vfork on THIS thread's mtdp: rstack index, record depth and shmem of the vforking thread
    if fx.mt then s else { s with cache := 0, bufs := a }

def idRun (fx : VforkFix) : Ident → List IdOp → Ident
  | s, [] => s
  | s, o :: os => idRun fx (idStep fx s o) os

/-- the thread's messages carry its own tid and it fills its own buffers -/
def Ident.own (s : Ident) : Bool := s.msgTid == s.ktid && s.bufs == s.ktid

end Uft.Shmem
