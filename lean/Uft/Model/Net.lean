/-
C16 — model of network recording (record --host / uftrace recv).

Anchors: cmds/recv.c (send_trace_* senders, recv_trace_* handlers,
handle_client_sock dispatch, client list), utils/utils.c (read_all, write_all,
writev_all), cmds/record.c (write_buffer: local file vs socket).

Layers
  1. byte order and the wire format (`iovsOf`/`encode`: the iovec arrays the
     senders hand to writev_all, byte for byte);
  2. the full-write / full-read loops over arbitrary partial results
     (`writevAll`, `writeAll`, `readAll`);
  3. the raw receiver (`recvRaw`: what handle_client_sock does with a stream
     that arrives in arbitrary segments);
  4. the message-level receiver (`applyMsg`) and the per-directory semantics
     (`dirStep`), and the local recording path (`localStep`);
  5. several writer threads on one socket (`sockStream`).

Two behaviours of the unchanged tree violate C16 and carry a `fixed` switch:
  * F-C16-DIR: recv_trace_dir_name registers a client under the directory name
    it was sent even when another connected client is using that name (or its
    `.old`); create_directory then rotates the first client's directory away
    and both clients write into the same path.  `fixed = true` picks the first
    of NAME, NAME.1, NAME.2 … that no connected client uses.
  * F-C16-S5: all writer threads of `record --host` call send_trace_data on one
    socket without a lock; the chunks of concurrently written messages
    interleave.  `atomic = true` is a mutex around the socket writes.

Core-only imports: this file is linked into the `uvmodel` driver.
-/
namespace Uft.Net

abbrev Bytes := List UInt8

/-! ### 1. byte order -/

/-- little-endian value of a byte string -/
def leDecode : Bytes → Nat
  | [] => 0
  | b :: bs => b.toNat + 256 * leDecode bs

/-- the low `w` bytes of `n`, least significant first -/
def leEncode : Nat → Nat → Bytes
  | 0, _ => []
  | w + 1, n => UInt8.ofNat (n % 256) :: leEncode w (n / 256)

/-- memory image of a `w`-byte unsigned variable holding `n` on a host that is
    little-endian (`le = true`, x86_64/aarch64) or big-endian -/
def hostEncode (le : Bool) (w n : Nat) : Bytes :=
  if le then leEncode w n else (leEncode w n).reverse

def hostDecode (le : Bool) (bs : Bytes) : Nat :=
  if le then leDecode bs else leDecode bs.reverse

/-- network order = big-endian -/
def netEncode (w n : Nat) : Bytes := (leEncode w n).reverse
def netDecode (bs : Bytes) : Nat := leDecode bs.reverse

/-- htons / htonl / htonq (w = 2, 4, 8): the value whose memory image is the
    big-endian encoding of `v` -/
def hton (le : Bool) (w v : Nat) : Nat := hostDecode le (netEncode w v)
/-- ntohs / ntohl / ntohq -/
def ntoh (le : Bool) (w v : Nat) : Nat := netDecode (hostEncode le w v)

/-- apply a value-level conversion to a field in memory, in place
    (`hdr->version = htonl(hdr->version)`) -/
def inPlace (le : Bool) (f : Bool → Nat → Nat → Nat) (field : Bytes) : Bytes :=
  hostEncode le field.length (f le field.length (hostDecode le field))

/-! ### the wire format (cmds/recv.c:129-342, uftrace.h:404-441) -/

def MSG_MAGIC : Nat := 0xface
def T_DIR_NAME : Nat := 101
def T_DATA : Nat := 102
def T_KERNEL : Nat := 103
def T_PERF : Nat := 104
def T_INFO : Nat := 105
def T_META : Nat := 106
def T_END : Nat := 107
/-- sizeof(struct uftrace_file_header) -/
def HDR_SIZE : Nat := 40

/-- The SEND_* messages.  `tid`/`cpu` are the 32-bit patterns of the `int`
    arguments; `hdr` is the 40-byte `struct uftrace_file_header` in host order
    as it is in the local `info` file. -/
inductive Msg where
  | dirName (name : Bytes)
  | data (tid : Nat) (buf : Bytes)
  | kernel (cpu : Nat) (buf : Bytes)
  | perf (cpu : Nat) (buf : Bytes)
  | info (hdr : Bytes) (inf : Bytes)
  | file (name : Bytes) (content : Bytes)
  | end_
  deriving Repr, DecidableEq

/-- memory image of `struct uftrace_msg { u16 magic; u16 type; u32 len; }`
    initialised with `htons(MAGIC), htons(type), htonl(len)`; `len` is
    truncated to 32 bits by the assignment -/
def msgHdr (le : Bool) (type len : Nat) : Bytes :=
  hostEncode le 2 (hton le 2 MSG_MAGIC) ++ hostEncode le 2 (hton le 2 type) ++
    hostEncode le 4 (hton le 4 len)

/-- apply `g` to the five multi-byte fields of a file header image that
    send_trace_info / recv_trace_info convert (version, header_size, feat_mask,
    info_mask, max_stack); magic, endian, elf_class, unused1/2 are untouched -/
def hdrMap (g : Bytes → Bytes) (h : Bytes) : Bytes :=
  let magic := h.take 8
  let r := h.drop 8
  let version := r.take 4
  let r := r.drop 4
  let hsize := r.take 2
  let r := r.drop 2
  let endianClass := r.take 2
  let r := r.drop 2
  let feat := r.take 8
  let r := r.drop 8
  let infoMask := r.take 8
  let r := r.drop 8
  let maxStack := r.take 2
  let unused := r.drop 2
  magic ++ (g version ++ (g hsize ++ (endianClass ++ (g feat ++ (g infoMask ++ (g maxStack ++ unused))))))

/-- The iovec array each sender passes to writev_all (send_trace_end: the one
    buffer passed to write_all). -/
def iovsOf (le : Bool) : Msg → List Bytes
  | .dirName name => [msgHdr le T_DIR_NAME name.length, name]
  | .data tid buf => [msgHdr le T_DATA (4 + buf.length), hostEncode le 4 (hton le 4 tid), buf]
  | .kernel cpu buf => [msgHdr le T_KERNEL (4 + buf.length), hostEncode le 4 (hton le 4 cpu), buf]
  | .perf cpu buf => [msgHdr le T_PERF (4 + buf.length), hostEncode le 4 (hton le 4 cpu), buf]
  | .info hdr inf => [msgHdr le T_INFO (HDR_SIZE + inf.length), hdrMap (inPlace le hton) hdr, inf]
  | .file name content =>
    -- msg.len = sizeof(namelen) + namelen, later msg.len = htonl(msg.len + len);
    -- namelen = htonl(namelen) after the iovec already points at it
    [msgHdr le T_META (4 + name.length + content.length),
     hostEncode le 4 (hton le 4 name.length), name, content]
  | .end_ => [msgHdr le T_END 0]

def encode (le : Bool) (m : Msg) : Bytes := (iovsOf le m).flatten

/-! ### 2. full-write and full-read loops (utils/utils.c:37-140) -/

/-- result of one write/writev system call -/
inductive WOut where
  | wrote (n : Nat)     -- n bytes accepted (clipped to what was offered); 0 = no progress
  | eintr               -- -1, errno = EINTR
  | err                 -- -1, other errno
  deriving Repr, DecidableEq

inductive WRes where
  | ok          -- return 0
  | err         -- return -1
  | starved     -- the schedule ended before the loop did (still looping)
  | badcount    -- pr_err_ns("invalid iovec count?")
  deriving Repr, DecidableEq

/-- the iovec advance of writev_all:
    `while (ret > iov->iov_len) { ret -= iov->iov_len; count--; iov++; }
     iov->iov_base += ret; iov->iov_len -= ret;`
    (note `>`: an exactly consumed iovec stays, with length 0) -/
def advance : Nat → List Bytes → Option (List Bytes)
  | _, [] => none
  | ret, v :: vs => if ret > v.length then advance (ret - v.length) vs else some (v.drop ret :: vs)

/-- writev_all's loop.  `size` is the separately kept byte count. -/
def writevLoop : List WOut → List Bytes → Nat → Bytes → WRes × Bytes × List WOut
  | sched, _, 0, acc => (.ok, acc, sched)
  | [], _, _ + 1, acc => (.starved, acc, [])
  | .eintr :: s, iovs, size + 1, acc => writevLoop s iovs (size + 1) acc
  | .err :: s, _, _ + 1, acc => (.err, acc, s)
  | .wrote n :: s, iovs, size + 1, acc =>
    let ret := min n iovs.flatten.length
    let acc' := acc ++ iovs.flatten.take ret
    if size + 1 - ret = 0 then (.ok, acc', s) else
    match advance ret iovs with
    | none => (.badcount, acc', s)
    | some iovs' => writevLoop s iovs' (size + 1 - ret) acc'

/-- writev_all(fd, iov, count): result, the bytes that reached the fd, and the
    unused rest of the schedule -/
def writevAll (sched : List WOut) (iovs : List Bytes) : WRes × Bytes × List WOut :=
  writevLoop sched iovs (iovs.map List.length).sum []

/-- write_all's loop -/
def writeLoop : List WOut → Bytes → Bytes → WRes × Bytes × List WOut
  | sched, [], acc => (.ok, acc, sched)
  | [], _ :: _, acc => (.starved, acc, [])
  | .eintr :: s, b :: bs, acc => writeLoop s (b :: bs) acc
  | .err :: s, _ :: _, acc => (.err, acc, s)
  | .wrote n :: s, b :: bs, acc =>
    writeLoop s ((b :: bs).drop n) (acc ++ (b :: bs).take n)

def writeAll (sched : List WOut) (buf : Bytes) : WRes × Bytes × List WOut :=
  writeLoop sched buf []

/-- read_all(fd, buf, n) on a stream that arrives as the segments `segs`: each
    `read` returns what is left of the first segment, at most the requested
    size.  An empty segment is a `read` interrupted by a signal (EINTR: retry);
    the end of the list is end-of-file (`read` returns 0: failure).
    Result: the n bytes and the rest of the stream. -/
def readAll : Nat → List Bytes → Option (Bytes × List Bytes)
  | 0, segs => some ([], segs)
  | _ + 1, [] => none
  | n + 1, seg :: rest =>
    if seg.length ≤ n + 1 then
      (readAll (n + 1 - seg.length) rest).map fun (bs, r) => (seg ++ bs, r)
    else some (seg.take (n + 1), seg.drop (n + 1) :: rest)

/-! ### 3./4. receiver -/

/-- a directory: file name → content, in creation order -/
abbrev Dir := List (Bytes × Bytes)

def aget {α : Type} : List (Bytes × α) → Bytes → Option α
  | [], _ => none
  | (k, v) :: r, f => if k = f then some v else aget r f

def aerase {α : Type} : List (Bytes × α) → Bytes → List (Bytes × α)
  | [], _ => []
  | (k, v) :: r, f => if k = f then aerase r f else (k, v) :: aerase r f

/-- replace or add at the end -/
def aset {α : Type} : List (Bytes × α) → Bytes → α → List (Bytes × α)
  | [], f, x => [(f, x)]
  | (k, v) :: r, f, x => if k = f then (k, x) :: r else (k, v) :: aset r f x

/-- open(O_WRONLY|O_APPEND|O_CREAT) + write + close -/
def Dir.append (d : Dir) (f data : Bytes) : Dir :=
  match aget d f with
  | none => aset d f data
  | some old => aset d f (old ++ data)

/-- two's complement reading of a 32-bit pattern (`int32_t tid = ntohl(tid)`) -/
def toInt32 (u : Nat) : Int :=
  if u % 2 ^ 32 < 2 ^ 31 then (u % 2 ^ 32 : Nat) else (u % 2 ^ 32 : Nat) - (2 ^ 32 : Nat)

def decBytesAux : Nat → Nat → Bytes → Bytes
  | 0, _, acc => acc
  | fuel + 1, n, acc =>
    let acc' := UInt8.ofNat (48 + n % 10) :: acc
    if n / 10 = 0 then acc' else decBytesAux fuel (n / 10) acc'

/-- printf("%u") -/
def decBytes (n : Nat) : Bytes := decBytesAux (n + 1) n []

/-- printf("%d") -/
def fmtInt (i : Int) : Bytes :=
  if i < 0 then 45 :: decBytes i.natAbs else decBytes i.natAbs

/-- ".dat" -/
def dotDat : Bytes := [46, 100, 97, 116]
/-- "%d.dat" -/
def dataName (tid : Nat) : Bytes := fmtInt (toInt32 tid) ++ dotDat
/-- "kernel-cpu%d.dat" -/
def kernelName (cpu : Nat) : Bytes :=
  [107, 101, 114, 110, 101, 108, 45, 99, 112, 117] ++ fmtInt (toInt32 cpu) ++ dotDat
/-- "perf-cpu%d.dat" -/
def perfName (cpu : Nat) : Bytes :=
  [112, 101, 114, 102, 45, 99, 112, 117] ++ fmtInt (toInt32 cpu) ++ dotDat
/-- "info" -/
def infoName : Bytes := [105, 110, 102, 111]
/-- NAME ++ ".old" -/
def dotOld (n : Bytes) : Bytes := n ++ [46, 111, 108, 100]
/-- "default.opts" -/
def defaultOptsName : Bytes := [100, 101, 102, 97, 117, 108, 116, 46, 111, 112, 116, 115]

/-- what create_directory leaves in a fresh directory: `default.opts` (the
    receiver has no default options: empty file) -/
def freshDir : Dir := [(defaultOptsName, [])]

structure Client where
  sock : Nat
  dir : Bytes
  deriving Repr, DecidableEq

/-- the receiver: client list (new entries at the head, as list_add does) and
    the directories under its working directory -/
structure Server where
  clients : List Client
  fs : List (Bytes × Dir)

def Server.init : Server := { clients := [], fs := [] }

/-- find_client: first entry with that socket -/
def findClient (s : Server) (sock : Nat) : Option Client :=
  s.clients.find? (fun c => c.sock == sock)

/-- remove the first entry with that socket (list_del of find_client's result) -/
def delClient : List Client → Nat → List Client
  | [], _ => []
  | c :: r, sock => if c.sock = sock then r else c :: delClient r sock

/-- create_directory(name) in a working directory that holds only directories
    made by this receiver (each has default.opts, so is "uftrace data"): an
    existing NAME replaces NAME.old, then NAME is made afresh. -/
def createDir (fs : List (Bytes × Dir)) (name : Bytes) : List (Bytes × Dir) :=
  match aget fs name with
  | none => aset fs name freshDir
  | some d => aset (aset (aerase fs (dotOld name)) (dotOld name) d) name freshDir

/-- is the name (or what create_directory(name) would remove) in use by a
    connected client? -/
def inUse (s : Server) (n : Bytes) : Bool :=
  s.clients.any fun c => c.dir == n || c.dir == dotOld n

def candName (n : Bytes) : Nat → Bytes
  | 0 => n
  | k + 1 => n ++ 46 :: decBytes (k + 1)

/-- first of NAME, NAME.1, NAME.2, … not in use (`fuel` bounds the search) -/
def pickName (s : Server) (n : Bytes) : Nat → Nat → Option Bytes
  | 0, _ => none
  | fuel + 1, k => if inUse s (candName n k) then pickName s n fuel (k + 1) else some (candName n k)

/-- write_client_file: open DIR/FILE for append; fails (pr_err) when the
    directory is gone -/
def writeClientFile (s : Server) (c : Client) (f data : Bytes) : Option Server :=
  match aget s.fs c.dir with
  | none => none
  | some d => some { s with fs := aset s.fs c.dir (d.append f data) }

/-- the file a message appends to, and the bytes (none: no file write) -/
def fileOf : Msg → Option (Bytes × Bytes)
  | .data tid buf => some (dataName tid, buf)
  | .kernel cpu buf => some (kernelName cpu, buf)
  | .perf cpu buf => some (perfName cpu, buf)
  | .info hdr inf => some (infoName, hdr ++ inf)
  | .file name content => some (name, content)
  | _ => none

/-- message-level receiver: effect of one whole message arriving on `sock`.
    `none` = the receiver dies (pr_err). -/
def applyMsg (fixed : Bool) (s : Server) (sock : Nat) (m : Msg) : Option Server :=
  match m with
  | .dirName n =>
    match (if fixed then pickName s n (2 * s.clients.length + 2) 0 else some n) with
    | none => none
    | some n' => some { clients := { sock := sock, dir := n' } :: s.clients, fs := createDir s.fs n' }
  | .end_ => some { s with clients := delClient s.clients sock }
  | m =>
    match findClient s sock, fileOf m with
    | some c, some (f, data) => writeClientFile s c f data
    | _, _ => none

/-- per-directory effect of a message (what the receiver does to the client's
    own directory) -/
def dirStep (d : Dir) (m : Msg) : Dir :=
  match fileOf m with
  | some (f, data) => d.append f data
  | none => d

/-- the local recording path for the same buffers: write_buffer_file appends to
    TID.dat; the kernel and perf writers write to their per-cpu files; the
    metadata files and `info` are written once by the recorder itself (and are
    what send_trace_metadata / send_info_file read back). -/
def localStep (d : Dir) (m : Msg) : Dir :=
  match m with
  | .data tid buf => d.append (dataName tid) buf
  | .kernel cpu buf => d.append (kernelName cpu) buf
  | .perf cpu buf => d.append (perfName cpu) buf
  | .info hdr inf => aset d infoName (hdr ++ inf)
  | .file name content => aset d name content
  | _ => d

/-- sizes for which the C arithmetic (`int len`, `int size`) is exact -/
def Msg.payloadLen : Msg → Nat
  | .dirName n => n.length
  | .data _ b => 4 + b.length
  | .kernel _ b => 4 + b.length
  | .perf _ b => 4 + b.length
  | .info _ i => HDR_SIZE + i.length
  | .file n c => 4 + n.length + c.length
  | .end_ => 0

def Msg.WF : Msg → Prop
  | .data tid b => tid < 2 ^ 32 ∧ 4 + b.length < 2 ^ 31
  | .kernel cpu b => cpu < 2 ^ 32 ∧ 4 + b.length < 2 ^ 31
  | .perf cpu b => cpu < 2 ^ 32 ∧ 4 + b.length < 2 ^ 31
  | .info h i => h.length = HDR_SIZE ∧ HDR_SIZE + i.length < 2 ^ 31
  | .file n c => 4 + n.length + c.length < 2 ^ 31
  | .dirName n => n.length < 2 ^ 31
  | .end_ => True

/-- result of the raw receiver on one readable event -/
inductive Raw where
  | ok (s : Server) (rest : List Bytes) (closed : Bool)
  | fatal                 -- pr_err / failed read: the receiver process exits

/-- pr_err when a step failed, else continue with the rest of the stream -/
def Raw.ofOpt (o : Option Server) (rest : List Bytes) (closed : Bool) : Raw :=
  match o with
  | none => .fatal
  | some s => .ok s rest closed

/-- `int len = msg.len` of a 32-bit unsigned -/
def asInt (u : Nat) : Int := toInt32 u

/-- the common tail of recv_trace_data / kernel_data / perf_data:
    read the id, `len -= 4`, read `len` bytes, append to the file -/
def recvIdData (le : Bool) (s : Server) (sock : Nat) (len : Nat) (segs : List Bytes)
    (name : Nat → Bytes) : Raw :=
  match findClient s sock with
  | none => .fatal
  | some c =>
    match readAll 4 segs with
    | none => .fatal
    | some (idb, segs1) =>
      let id := ntoh le 4 (hostDecode le idb)
      if asInt len - 4 < 0 then .fatal else       -- xmalloc of a negative size fails
      match readAll (len - 4) segs1 with
      | none => .fatal
      | some (buf, segs2) =>
        Raw.ofOpt (writeClientFile s c (name id) buf) segs2 false

/-- the `switch (msg.type)` of handle_client_sock with the recv_trace_*
    handlers (cmds/recv.c:383-576, 647-680); `len` is msg.len after ntohl -/
def recvBody (le fixed : Bool) (s : Server) (sock : Nat) (type len : Nat) (segs0 : List Bytes) : Raw :=
  if type = T_DIR_NAME then
    if asInt len < 0 then .fatal else
    match readAll len segs0 with
    | none => .fatal
    | some (name, segs1) => Raw.ofOpt (applyMsg fixed s sock (.dirName name)) segs1 false
  else if type = T_DATA then recvIdData le s sock len segs0 dataName
  else if type = T_KERNEL then recvIdData le s sock len segs0 kernelName
  else if type = T_PERF then recvIdData le s sock len segs0 perfName
  else if type = T_INFO then
    match findClient s sock with
    | none => .fatal
    | some c =>
      match readAll HDR_SIZE segs0 with
      | none => .fatal
      | some (hdr, segs1) =>
        let hdr' := hdrMap (inPlace le ntoh) hdr
        if asInt len - HDR_SIZE < 0 then .fatal else
        match readAll (len - HDR_SIZE) segs1 with
        | none => .fatal
        | some (inf, segs2) => Raw.ofOpt (writeClientFile s c infoName (hdr' ++ inf)) segs2 false
  else if type = T_META then
    match findClient s sock with
    | none => .fatal
    | some c =>
      match readAll 4 segs0 with
      | none => .fatal
      | some (nlb, segs1) =>
        let namelen := asInt (ntoh le 4 (hostDecode le nlb))
        if namelen > asInt len then .fatal else          -- "invalid namelen received"
        if namelen < 0 then .fatal else                  -- (reads out of bounds in C)
        match readAll namelen.toNat segs1 with
        | none => .fatal
        | some (name, segs2) =>
          if asInt len - (4 + namelen) < 0 then .fatal else
          match readAll (len - (4 + namelen.toNat)) segs2 with
          | none => .fatal
          | some (content, segs3) => Raw.ofOpt (writeClientFile s c name content) segs3 false
  else if type = T_END then
    .ok { s with clients := delClient s.clients sock } segs0 true
  else .ok s segs0 false        -- unknown type: header dropped, payload NOT skipped

/-- handle_client_sock on a readable socket (cmds/recv.c:626-681) -/
def recvRaw (le fixed : Bool) (s : Server) (sock : Nat) (segs : List Bytes) : Raw :=
  match readAll 8 segs with
  | none => .fatal                                 -- "message recv failed"
  | some (h, segs0) =>
    let magic := ntoh le 2 (hostDecode le (h.take 2))
    let type := ntoh le 2 (hostDecode le ((h.drop 2).take 2))
    let len := ntoh le 4 (hostDecode le (h.drop 4))
    if magic ≠ MSG_MAGIC then .fatal else recvBody le fixed s sock type len segs0

/-- one connection served until SEND_END, a fatal error, or until nothing more
    has arrived (`fuel`: number of messages) -/
def recvConn (le fixed : Bool) : Nat → Server → Nat → List Bytes → Option Server
  | 0, s, _, _ => some s
  | fuel + 1, s, sock, segs =>
    if segs.flatten = [] then some s else
    match recvRaw le fixed s sock segs with
    | .fatal => none
    | .ok s' rest closed => if closed then some s' else recvConn le fixed fuel s' sock rest

/-- message-level run of one connection; stops after SEND_END (socket closed) -/
def runConn (fixed : Bool) : Server → Nat → List Msg → Option Server
  | s, _, [] => some s
  | s, sock, m :: ms =>
    match applyMsg fixed s sock m with
    | none => none
    | some s' => if m = .end_ then some s' else runConn fixed s' sock ms

/-- message-level run of the whole receiver: events are (socket, message) in
    the order epoll hands them out -/
def run (fixed : Bool) : Server → List (Nat × Msg) → Option Server
  | s, [] => some s
  | s, (sock, m) :: evs =>
    match applyMsg fixed s sock m with
    | none => none
    | some s' => run fixed s' evs

/-- what the receiver holds for one socket: the directory contents of its
    client entries, newest first -/
def obs (s : Server) (sock : Nat) : List (Option Dir) :=
  (s.clients.filter (fun c => c.sock == sock)).map fun c => aget s.fs c.dir

/-- the same seen by one client alone: a stack of directories -/
def ownStep : List (Option Dir) → Msg → List (Option Dir)
  | st, .dirName _ => some freshDir :: st
  | st, .end_ => st.drop 1
  | (some d) :: st, m => some (dirStep d m) :: st
  | st, _ => st

/-- a DIR_NAME is safe when nobody connected uses the name (pre-fix code) -/
def safeRun : Server → List (Nat × Msg) → Bool
  | _, [] => true
  | s, (sock, m) :: evs =>
    (match m with | .dirName n => !inUse s n | _ => true) &&
    match applyMsg false s sock m with
    | none => true
    | some s' => safeRun s' evs

/-! ### 5. several writer threads, one socket -/

/-- pick the head of thread `i`'s queue -/
def popAt {α : Type} : Nat → List (List α) → Option (α × List (List α))
  | _, [] => none
  | 0, q :: qs => match q with
    | [] => none
    | x :: q' => some (x, q' :: qs)
  | i + 1, q :: qs => (popAt i qs).map fun (x, qs') => (x, q :: qs')

/-- merge the queues in the order given by `sched`; what is left afterwards is
    drained thread by thread (all writers run to completion) -/
def mergeBy {α : Type} : List Nat → List (List α) → List α
  | [], qs => qs.flatten
  | i :: sched, qs =>
    match popAt i qs with
    | none => mergeBy sched qs
    | some (x, qs') => x :: mergeBy sched qs'

/-- The byte stream on a socket shared by writer threads.  Each thread has a
    list of messages, each message is the list of chunks its writev_all calls
    put on the socket.  Without a lock the unit of interleaving is the chunk;
    with a lock around the send (`atomic`) it is the message. -/
def sockStream (atomic : Bool) (sched : List Nat) (threads : List (List (List Bytes))) : Bytes :=
  if atomic then (mergeBy sched (threads.map fun t => t.map List.flatten)).flatten
  else (mergeBy sched (threads.map List.flatten)).flatten

/-! ### 6. the per-cpu perf files: what the client sends, and what the readers make of the files

`record_perf_data` (utils/perf.c:163) sends the new part of cpu N's ring buffer as SEND_PERF_DATA(N, bytes)
and returns early when there is nothing new, so a cpu without events sends nothing; the receiver creates
perf-cpuN.dat when the first data for N arrives.  The local recorder (`setup_perf_record`) creates a
perf-cpuN.dat for every cpu before tracing starts.  So the received directory has a file exactly for the
cpus that had events, the local one an empty file for each of the others.

The readers (`setup_perf_data`, utils/perf.c:254) take every file that glob("perf-cpu*.dat") returns, in that
order, and `read_perf_data` hands out the events of all of them merged by time stamp. -/

/-- the perf payloads a client sends for `cpu`, in order -/
def perfParts (cpu : Nat) (ms : List Msg) : List Bytes :=
  ms.filterMap fun m =>
    match m with
    | .perf c b => if c = cpu then some b else none
    | _ => none

/-- a perf event as far as the merge looks at it -/
structure PEv where
  time : Nat
  tid : Nat
  kind : Nat
  deriving Repr, DecidableEq

/-- one round of `read_perf_data` over the per-cpu readers (glob order): the reader whose next event has
    the smallest time stamp — `if (perf->time < min_time)`: of equal stamps the first reader wins — and the
    readers after that event is consumed; a reader at end of file (`done`) takes no part -/
def perfBest : List (List PEv) → Option (PEv × List (List PEv))
  | [] => none
  | [] :: r => (perfBest r).map fun x => (x.1, [] :: x.2)
  | (e :: es) :: r =>
    match perfBest r with
    | none => some (e, es :: r)
    | some x => if x.1.time < e.time then some (x.1, (e :: es) :: x.2) else some (e, es :: r)

/-- the events in the order the readers hand them to replay / report / dump (`fuel`: number of rounds) -/
def perfMerge : Nat → List (List PEv) → List PEv
  | 0, _ => []
  | n + 1, fs =>
    match perfBest fs with
    | none => []
    | some x => x.1 :: perfMerge n x.2

/-- the files that hold at least one event -/
def withEvents (fs : List (List PEv)) : List (List PEv) := fs.filter fun f => !f.isEmpty

/-- `uftrace dump` (cmds/dump.c:1566): the number printed in "reading perf-cpu%d.dat" for every per-cpu
    file that is not empty; the files in glob order as (cpu, has data).  As it is, the loop index `i` over
    `handle->perf[]` is printed: the file's position in the glob result.  `fixed`: the cpu number of the
    file (finding C16-DUMP-PERFIDX). -/
def dumpLabelsFrom (fixed : Bool) : Nat → List (Nat × Bool) → List Nat
  | _, [] => []
  | i, (cpu, has) :: r =>
    (if has then [if fixed then cpu else i] else []) ++ dumpLabelsFrom fixed (i + 1) r

def dumpLabels (fixed : Bool) (fs : List (Nat × Bool)) : List Nat := dumpLabelsFrom fixed 0 fs

end Uft.Net
