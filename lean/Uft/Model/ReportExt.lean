/- C08 — extensions of the `uftrace report` model (Uft.Model.Report):

   1. Node keying as the code does it.  `find_insert_node` (cmds/report.c:42) resolves the
      record's address to a symbol and `insert_node` looks the node up by the *name string*
      (`find_or_create_node`: `strcmp(iter->name, name)`): the symbol's name for every address
      inside a symbol (any module, any offset), the text `<hex address>` for an address no
      symbol covers (`symbol_getname`).  So a KEY is a name string: two addresses with the same
      name (static functions of different files, the same name in two modules, overloads under
      the default "simple" demangling, two offsets inside one function) share one node; two
      unnamed addresses never do.  `--srcline` and `-f` do not change the key (`node->loc` and
      `node->size` are overwritten by every update: the row shows those of the last one).
      The recursion test of `report_update_node` however compares *addresses*
      (`check->addr == fstack->addr`): an invocation of `dup@A` running inside `dup@B` is not
      "recursive", both durations are added to the one node `dup` (finding F-C08-SAMENAME:
      Total of a row can exceed the run time of the program).  `Keying.byName = true` is the
      repaired test (proposed_fixes/C08-SAMENAME.diff, `is_same_name`: an open caller whose
      symbol is named like the node makes the invocation recursive).

   2. A generic form of the whole-data-set loop (`stepG`/`runG`/`finishG`) so that the function
      report, the task report and the keyed report are instances of one machine, and the list
      of node updates in the order the code performs them (`logG`, `finLogG`).

   3. `--diff-policy percent`: the `cmp_pcnt_<key>` comparators.

   4. `report --task -s tid`: `cmp_task_tid` is `strcmp` on the decimal tid strings (finding
      F-C08-TIDSORT: 99 sorts above 100); the name tree of the task report is in `strcmp` order
      of those strings too (that is the order of rows that tie on every key). -/
import Uft.Model.Report
namespace Uft.Report

/-! ### the generic machine -/

/-- one record of the merged stream: the per-task step `stp i` produces the new reader state of
    task `i` and the node updates -/
def stepG (stp : Nat → Task → Rec → Task × List Upd) (s : St) (e : Nat × Rec) : St :=
  let r := stp e.1 (s.tasks e.1) e.2
  { tasks := fun i => if i = e.1 then r.1 else s.tasks i, nodes := s.nodes.upds r.2 }

def runG (stp : Nat → Task → Rec → Task × List Upd) (s : St) (evs : List (Nat × Rec)) : St :=
  evs.foldl (stepG stp) s

/-- end of data: `fin i` for the tasks 0 … n-1 in task order -/
def finishG (fin : Nat → Task → List Upd) (ntasks : Nat) (s : St) : Nodes :=
  (List.range ntasks).foldl (fun ns i => ns.upds (fin i (s.tasks i))) s.nodes

/-- the node updates of a run in the order the code performs them -/
def logG (stp : Nat → Task → Rec → Task × List Upd) : St → List (Nat × Rec) → List Upd
  | _, [] => []
  | s, e :: evs => (stp e.1 (s.tasks e.1) e.2).2 ++ logG stp (stepG stp s e) evs

def finLogG (fin : Nat → Task → List Upd) (ntasks : Nat) (s : St) : List Upd :=
  (List.range ntasks).flatMap (fun i => fin i (s.tasks i))

/-- the records of one task under the per-task step `stp` -/
def runTG (stp : Task → Rec → Task × List Upd) (t : Task) : List Rec → Task × List Upd
  | [] => (t, [])
  | r :: rs =>
    let a := stp t r
    let b := runTG stp a.1 rs
    (b.1, a.2 ++ b.2)

/-! ### keyed nodes -/

structure Keying where
  /-- address ↦ id of the name string `symbol_getname` returns for it (ids ordered like `strcmp`) -/
  name : Nat → Nat
  /-- the address lies inside a symbol (otherwise its name is the text `<hex address>`) -/
  sym : Nat → Bool
  /-- the repair of F-C08-SAMENAME: an open caller named like the node makes the call recursive -/
  byName : Bool

/-- the recursion test of `report_update_node` on the addresses `ctx` of the open callers, for the
    frame at address `addr` whose node is the one named like `keyAddr`.  As coded: the same address.
    Repaired (`is_same_name`): or the node is named after a symbol (`task->func`) and the caller's
    symbol has that name. -/
def recK (ky : Keying) (ctx : List Nat) (addr keyAddr : Nat) : Bool :=
  ctx.any (fun c => c == addr || (ky.byName && ky.sym keyAddr && ky.sym c && ky.name c == ky.name keyAddr))

/-- the same test on the slots below slot `i` -/
def isRecK (ky : Keying) (stk : List Fs) (i : Nat) (addr keyAddr : Nat) : Bool :=
  (stk.take i).any (fun c => c.addr == addr ||
    (ky.byName && ky.sym keyAddr && ky.sym c.addr && ky.name c.addr == ky.name keyAddr))

/-- `find_insert_node` + `report_update_node`: the node is the one named like `keyAddr` -/
def updOfK (ky : Keying) (stk : List Fs) (i : Nat) (fs : Fs) (keyAddr : Nat) : Upd :=
  { key := ky.name keyAddr, total := fs.total, self := sub64 fs.total fs.child,
    recursive := isRecK ky stk i fs.addr keyAddr }

def lostUpdsK (ky : Keying) (stk : List Fs) : Nat → Int → List Upd
  | 0, _ => []
  | n + 1, i =>
    match slot? stk i with
    | some fs => (if fs.valid then [updOfK ky stk i.toNat fs fs.addr] else []) ++ lostUpdsK ky stk n (i - 1)
    | none => lostUpdsK ky stk n (i - 1)

/-- one record in `build_function_tree` -/
def stepFK (ky : Keying) (t : Task) (r : Rec) : Task × List Upd :=
  let t := consume t r
  let t := { t with tsLast := if r.typ = 2 then t.tsLast else r.time, lastTime := r.time }
  if r.typ = 1 then
    match slot? t.stk t.sc with
    | none => (t, [])
    | some fs => (t, [updOfK ky t.stk t.sc.toNat fs r.addr])
  else if r.typ = 2 then
    let n := (t.sc - t.usc + 1).toNat
    ({ t with sc := t.sc - n }, lostUpdsK ky t.stk n t.sc)
  else (t, [])

/-- `add_remaining_fstack` for one task (function report) -/
def remLoopK (ky : Keying) (last : Nat) : Nat → List Fs → List Fs × List Upd
  | 0, stk => (stk, [])
  | n + 1, stk =>
    match stk[n]? with
    | none => remLoopK ky last n stk
    | some fs =>
      if fs.total > last then remLoopK ky last n stk
      else
        let total0 := last - fs.total
        let total := if fs.child > total0 then fs.child else total0
        let fs' := { fs with total := total }
        let stk1 := stk.set n fs'
        let stk2 := if n > 0 then bump stk1 (n - 1) total else stk1
        let u := updOfK ky stk2 n fs' fs.addr
        let r := remLoopK ky last n stk2
        (r.1, u :: r.2)

def finishFK (ky : Keying) (t : Task) : List Upd :=
  if t.sc = 0 then [] else (remLoopK ky t.lastTime t.sc.toNat t.stk).2

/-- the node table (keyed by name id) of a function report over the per-task record streams -/
def reportNodesK (ky : Keying) (maxStack : Nat) (streams : List (List Rec)) : Nodes :=
  finishG (fun _ => finishFK ky) streams.length
    (runG (fun _ => stepFK ky) (St.init maxStack) (mergeAll streams))

/-- all node updates of a function report, keyed by *address*, in the order the code performs
    them (used for `node->size`: the size of the last update's symbol) -/
def reportLog (maxStack : Nat) (streams : List (List Rec)) : List Upd :=
  logG (fun _ => stepF) (St.init maxStack) (mergeAll streams) ++
    finLogG (fun _ => finishF) streams.length (runG (fun _ => stepF) (St.init maxStack) (mergeAll streams))

/-- `node->size` of the node `k`: `report_update_node` overwrites it with the size of the symbol
    of every update (`symSize a` = size of the symbol covering address `a`, `none` if there is
    no symbol: the field is then left alone) -/
def sizeOfKey (name : Nat → Nat) (symSize : Nat → Option Nat) (log : List Upd) (k : Nat) : Nat :=
  log.foldl (fun sz u => if name u.key = k then (symSize u.key).getD sz else sz) 0

/-- renaming the addresses of a trace -/
def Rec.ren (name : Nat → Nat) (r : Rec) : Rec := { r with addr := name r.addr }

/-! ### `--diff-policy percent` -/

/-- sign and magnitude of `100.0 * (int64_t)diff / base` as an exact fraction (num, den), den > 0;
    `0` when the base figure is 0 (the `if (a->_field)` guard).  The C code computes in `double`:
    the comparison of two such values is exact while the figures stay below 2^26 (the products
    compared below are then exact in 53 bits; rounding is monotone, larger figures can only turn
    "different" into "equal") -/
def pcntOf (d : Int) (base : Nat) : Int × Nat := if base = 0 then (0, 1) else (100 * d, base)

/-- `cmp_pcnt_<key>` on the two (difference, base figure) pairs -/
def pcntCmp (absolute : Bool) (da : Int) (ba : Nat) (db : Int) (bb : Nat) : Int :=
  let pa := pcntOf da ba
  let pb := pcntOf db bb
  if pa.1 * pb.2 = pb.1 * pa.2 then 0
  else
    let na := if absolute then (if pa.1 > 0 then pa.1 else -pa.1) else pa.1
    let nb := if absolute then (if pb.1 > 0 then pb.1 else -pb.1) else pb.1
    if na * pb.2 > nb * pa.2 then 1 else -1

/-- `cmp_diff_<key>` with the percent policy -/
def Key.cmpDiffP (column : Nat) (absolute percent : Bool) (k : Key) (a b : DRow) : Int :=
  if k = .func then cmpNat b.base.key a.base.key
  else if column ≠ 2 then cmpNat (k.val a.base) (k.val b.base)
  else if percent then
    let da := if k = .size then diff32 (k.val a.base) (k.val a.pair) else diff64 (k.val a.base) (k.val a.pair)
    let db := if k = .size then diff32 (k.val b.base) (k.val b.pair) else diff64 (k.val b.base) (k.val b.pair)
    pcntCmp absolute da (k.val a.base) db (k.val b.base)
  else Key.cmpDiff column absolute k a b

def diffByKeysP (keys : List Key) (column : Nat) (absolute percent : Bool) (base pair : List Row) : List DRow :=
  diffRows (cmpChainD (keys.map (Key.cmpDiffP column absolute percent))) base pair

/-! ### the task report's names: decimal tid strings -/

/-- the decimal digits of `n`, most significant first (`snprintf(buf, "%d", tid)`) -/
def digitsAux : Nat → Nat → List Nat → List Nat
  | 0, _, acc => acc
  | fuel + 1, n, acc => if n < 10 then n :: acc else digitsAux fuel (n / 10) (n % 10 :: acc)

def digits (n : Nat) : List Nat := digitsAux (n + 1) n []

/-- `strcmp` of two digit strings: -1, 0, 1 -/
def strcmpD : List Nat → List Nat → Int
  | [], [] => 0
  | [], _ :: _ => -1
  | _ :: _, [] => 1
  | a :: as, b :: bs => if a < b then -1 else if a > b then 1 else strcmpD as bs

/-- task report keys; rows are keyed by the tid.  `tidFixed = false`: `cmp_task_tid` as coded
    (`strcmp(b->name, a->name)`: ascending tids, as strings), `true`: the tids compared as numbers -/
def taskCmpT (tidFixed : Bool) : String → Option (Row → Row → Int)
  | "total" => some (fun a b => cmpNat a.tsum b.tsum)
  | "self" => some (fun a b => cmpNat a.ssum b.ssum)
  | "func" => some (fun a b => cmpNat a.call b.call)
  | "tid" => some (fun a b => if tidFixed then cmpNat b.key a.key else strcmpD (digits b.key) (digits a.key))
  | "name" => some (fun _ _ => 0)
  | _ => none

/-- the name tree of the task report in name order: tids in `strcmp` order of their decimal strings -/
def insByStr (k : Nat) : List Nat → List Nat
  | [] => [k]
  | a :: r => if strcmpD (digits k) (digits a) < 0 then k :: a :: r else a :: insByStr k r

def sortByStr (l : List Nat) : List Nat := l.foldl (fun acc k => insByStr k acc) []

/-- the rows of the task report in the order of its name tree; task `i` has the tid `tids[i]`,
    the row's key is the tid -/
def taskRows (tids : List Nat) (ns : Nodes) : List Row :=
  (sortByStr tids).filterMap (fun tid =>
    let i := tids.idxOf tid
    if (ns i).call > 0 then some (Row.ofNode tid 0 (ns i)) else none)

/-- `report_setup_task` + `report_sort_tasks`; `none` = invalid sort key -/
def sortTaskRows (tidFixed : Bool) (names : List String) (rows : List Row) : Option (List Row) :=
  let cmps := names.map (taskCmpT tidFixed)
  if cmps.any (·.isNone) then none else some (sortRows (cmpChain (cmps.filterMap id)) rows)

/-! ### the keyed function report as a table -/

def insAsc (k : Nat) : List Nat → List Nat
  | [] => [k]
  | a :: r => if k < a then k :: a :: r else if k = a then a :: r else a :: insAsc k r

/-- the name ids of the addresses `addrs`, ascending and distinct (the name tree's order) -/
def nameKeys (name : Nat → Nat) (addrs : List Nat) : List Nat :=
  addrs.foldl (fun acc a => insAsc (name a) acc) []

/-- the rows of the function report in name order; `addrs` = the addresses that occur in the data -/
def keyedRows (ky : Keying) (symSize : Nat → Option Nat) (maxStack : Nat) (streams : List (List Rec))
    (addrs : List Nat) : List Row :=
  nameRows (reportNodesK ky maxStack streams)
    (sizeOfKey ky.name symSize (reportLog maxStack streams)) (nameKeys ky.name addrs)

end Uft.Report
