/-
C15 — call-path aggregation (`utils/graph.c`), the time accounting that feeds it
(`utils/fstack.c:1977-2015` entry/exit, `cmds/dump.c:1669-1725` remaining functions),
and the text printers of `dump --flame-graph / --graphviz / --mermaid`.

The graph is one trie shared by all tasks; every task owns a pointer into it
(`tg->node`).  Children are kept in creation order and looked up by *name*
(`add_graph_entry`: `strcmp(name, node->name)`), so a pointer is modelled by the
path of names from the root.  Core-only imports.
-/
import Uft.Model.Json
namespace Uft.Graph
open Uft.Json (dec)

abbrev Name := List Nat
abbrev Path := List Name

mutual
  /-- `struct uftrace_graph_node`: name, id, nr_calls, time, child_time, children.
      `child` holds the uint64 field as an exact integer; it is reduced mod 2^64 where
      the C code reads it (`adjust_fg_time` subtracts before the parent's own exit adds). -/
  inductive Node where
    | mk (name : Name) (id calls time : Nat) (child : Int) (kids : Nodes)
  inductive Nodes where
    | nil
    | cons (n : Node) (rest : Nodes)
end

namespace Node
def name : Node → Name | mk n _ _ _ _ _ => n
def id : Node → Nat | mk _ i _ _ _ _ => i
def calls : Node → Nat | mk _ _ c _ _ _ => c
def time : Node → Nat | mk _ _ _ t _ _ => t
def child : Node → Int | mk _ _ _ _ c _ => c
def kids : Node → Nodes | mk _ _ _ _ _ k => k
def setKids : Node → Nodes → Node | mk n i c t ch _, k => mk n i c t ch k
def incCalls : Node → Node | mk n i c t ch k => mk n i (c + 1) t ch k
/-- `node->time += total; node->child_time += child` -/
def addTime (total childT : Nat) : Node → Node
  | mk n i c t ch k => mk n i c (t + total) (ch + childT) k
/-- `node->child_time -= curr; node->child_time += accounted` -/
def addChild (d : Int) : Node → Node
  | mk n i c t ch k => mk n i c t (ch + d) k
def fresh (x : Name) (id : Nat) : Node := mk x id 1 0 0 .nil
end Node

namespace Nodes
/-- `list_for_each_entry(node, &curr->head, list) if (!strcmp(name, node->name)) break;` -/
def find (x : Name) : Nodes → Option Node
  | nil => none
  | cons n rest => if n.name = x then some n else rest.find x

/-- apply `g` to the first child called `x` -/
def mapFirst (x : Name) (g : Node → Node) : Nodes → Nodes
  | nil => nil
  | cons n rest => if n.name = x then cons (g n) rest else cons n (rest.mapFirst x g)

/-- find the child called `x` or append a new one (`list_add_tail`), then `nr_calls++` -/
def bump (x : Name) (id : Nat) : Nodes → Nodes
  | nil => cons (Node.fresh x id) nil
  | cons n rest => if n.name = x then cons n.incCalls rest else cons n (rest.bump x id)
end Nodes

namespace Node
def get : Path → Node → Option Node
  | [], n => some n
  | x :: p, n =>
    match n.kids.find x with
    | some c => get p c
    | none => none

def modifyAt : Path → (Node → Node) → Node → Node
  | [], f, n => f n
  | x :: p, f, n => n.setKids (n.kids.mapFirst x (modifyAt p f))
end Node

/-! ## reading the records: per-task function stack with time accounting -/

structure Rec where
  tid : Nat
  entry : Bool
  name : Name
  time : Nat
  deriving Repr, DecidableEq

/-- `struct uftrace_fstack`: `total_time` holds the start time while the call is open -/
structure Frame where
  name : Name
  start : Nat
  child : Nat
  deriving Repr, DecidableEq

/-- what the dump callbacks see for one record: the record, and at an exit the frame's
    `total_time` / `child_time` -/
structure Out where
  tid : Nat
  entry : Bool
  name : Name
  time : Nat
  total : Nat
  child : Nat
  deriving Repr, DecidableEq

def setFn {α : Type} (f : Nat → α) (k : Nat) (v : α) : Nat → α := fun x => if x = k then v else f x

structure RS where
  stacks : Nat → List Frame        -- innermost first
  last : Nat → Nat                 -- task->timestamp_last

def RS.init : RS := { stacks := fun _ => [], last := fun _ => 0 }

def addChildTop (d : Nat) : List Frame → List Frame
  | [] => []
  | f :: r => { f with child := f.child + d } :: r

/-- `fstack_account_time` for ENTRY / EXIT -/
def stepRec (s : RS) (r : Rec) : RS × Out :=
  let last := setFn s.last r.tid r.time
  if r.entry then
    ({ stacks := setFn s.stacks r.tid (⟨r.name, r.time, 0⟩ :: s.stacks r.tid), last := last },
     ⟨r.tid, true, r.name, r.time, 0, 0⟩)
  else
    match s.stacks r.tid with
    | [] => ({ s with last := last }, ⟨r.tid, false, r.name, r.time, 0, 0⟩)
    | f :: rest =>
      let delta := r.time - f.start
      ({ stacks := setFn s.stacks r.tid (addChildTop delta rest), last := last },
       ⟨r.tid, false, r.name, r.time, delta, min f.child delta⟩)

def replay : RS → List Rec → RS × List Out
  | s, [] => (s, [])
  | s, r :: rs =>
    let a := stepRec s r
    let b := replay a.1 rs
    (b.1, a.2 :: b.2)

/-- "add duration of remaining functions" for one task: innermost frame first;
    `carry` is what the previous (inner) frame added to this frame's child_time -/
def tailTask (tid last : Nat) : Nat → List Frame → List Out
  | _, [] => []
  | carry, f :: rest =>
    let child := f.child + carry
    if last < f.start then tailTask tid last 0 rest
    else
      let total := max (last - f.start) child
      ⟨tid, false, f.name, last, total, child⟩ :: tailTask tid last total rest

def tails : RS → List Nat → List Out
  | _, [] => []
  | s, t :: ts =>
    tailTask t (s.last t) 0 (s.stacks t) ++ tails { s with stacks := setFn s.stacks t [] } ts

/-- everything `do_dump_replay` hands to `ops->task_rstack`, in order -/
def outs (tids : List Nat) (recs : List Rec) : List Out :=
  let r := replay RS.init recs
  r.2 ++ tails r.1 tids

/-! ## scheduling events in `dump --chrome / --flame-graph / --graphviz / --mermaid`

`dump_replay_event` (cmds/dump.c:1662) hands the perf scheduling events of a task to
`ops->task_rstack` "as if functions": sched-out opens a call named linux:schedule, sched-in closes
it.  The time accounting (`fstack`) does the same for a sched-out of a PRE-EMPTED task
(EVENT_ID_PERF_SCHED_OUT_PREEMPT) — but `dump_replay_event` as it is lets only SCHED_IN and SCHED_OUT
through: the entry of a pre-empted schedule never reaches the dump callbacks while its sched-in does
(finding C15-DUMP-PREEMPT).  In the model a scheduling event is a record like any other (so the repaired
code is covered by the theorems about records); a name for which `isPre` holds marks the entry the
callbacks do not get as it is. -/

/-- what the dump callbacks get as it is: everything but the entries of pre-empted schedules -/
def dropEntries (isPre : Name → Bool) (os : List Out) : List Out :=
  os.filter fun o => !(o.entry && isPre o.name)

/-- the marker the driver puts at the end of such a name (no symbol name holds a NUL) -/
def isPreMark (n : Name) : Bool := n.getLast? == some 0

/-! ## graph_add_node -/

structure G where
  root : Node
  cur : Nat → Path       -- tg->node per task ([] = &graph->root, also used for NULL)
  nextId : Nat           -- the static `next_id`

def G.init (rootName : Name) : G :=
  { root := .mk rootName 0 0 0 0 .nil, cur := fun _ => [], nextId := 1 }

/-- `add_graph_entry` -/
def gEntry (g : G) (tid : Nat) (x : Name) : G :=
  let p := g.cur tid
  { root := g.root.modifyAt p (fun m => m.setKids (m.kids.bump x g.nextId))
    cur := setFn g.cur tid (p ++ [x])
    nextId := if (g.root.get (p ++ [x])).isSome then g.nextId else g.nextId + 1 }

/-- `add_graph_exit`; `sample = some st` installs `adjust_fg_time` as exit callback -/
def gExit (sample : Option Nat) (g : G) (tid total child : Nat) : G :=
  let p := g.cur tid
  let r1 := g.root.modifyAt p (Node.addTime total child)
  let r2 := match sample with
    | some st =>
      if st = 0 ∨ p = [] then r1
      else r1.modifyAt p.dropLast (Node.addChild ((total / st * st : Nat) - (total : Int)))
    | none => r1
  { g with root := r2, cur := setFn g.cur tid p.dropLast }

def gStep (sample : Option Nat) (g : G) (o : Out) : G :=
  if o.entry then gEntry g o.tid o.name else gExit sample g o.tid o.total o.child

def build (sample : Option Nat) (g : G) (os : List Out) : G := os.foldl (gStep sample) g

/-! ## printers -/

mutual
  /-- pre-order walk (`print_flame_graph`, `print_graph_to_graphviz`,
      `print_graph_node_mermaid` all recurse this way): (parent, path, node) -/
  def Node.dfs (parent : Node) (pre : Path) : Node → List (Node × Path × Node)
    | .mk n i c t ch kids =>
      (parent, pre ++ [n], .mk n i c t ch kids) :: Nodes.dfs (.mk n i c t ch kids) (pre ++ [n]) kids
  def Nodes.dfs (parent : Node) (pre : Path) : Nodes → List (Node × Path × Node)
    | .nil => []
    | .cons n rest => Node.dfs parent pre n ++ Nodes.dfs parent pre rest
end

/-- all nodes below the root -/
def walk (root : Node) : List (Node × Path × Node) := Nodes.dfs root [] root.kids

def W : Nat := 18446744073709551616

/-- the number `print_flame_graph` prints for a node -/
def sampleOf (st : Nat) (n : Node) : Nat :=
  if n.calls ≠ 0 ∧ st ≠ 0 then (((n.time : Int) - n.child) % (W : Int)).toNat / st else n.calls

def joinPath : Path → List Nat
  | [] => []
  | x :: r => x ++ [59] ++ joinPath r

/-- "a;b;c 12\n": every name followed by ';', the last ';' overwritten with a blank, then
    `snprintf(ptr, len, "%lu", sample)` where `len` is still the length of "a;b;c;" — the
    number is cut to `len - 1` digits.  `fixed`: the size argument is the room that is left
    (the buffer has 32 spare bytes), so the number is complete. -/
def flameLine (fixed : Bool) (p : Path) (s : Nat) : List Nat :=
  (joinPath p).dropLast ++ [32] ++
  (if fixed then dec s else (dec s).take ((joinPath p).length - 1)) ++ [10]

def flameText (fixed : Bool) (st : Nat) (root : Node) : List Nat :=
  (walk root).flatMap fun (_, p, n) =>
    if sampleOf st n = 0 then [] else flameLine fixed p (sampleOf st n)

/-- `for (s = 1000; s * 1000000 < total; s *= 10) if (s == 1000000000) break;` -/
def autoSampleFrom : Nat → Nat → Nat → Nat
  | 0, s, _ => s
  | fuel + 1, s, total =>
    if s * 1000000 < total then (if s = 1000000000 then s else autoSampleFrom fuel (s * 10) total) else s

def autoSample (total : Nat) : Nat := autoSampleFrom 8 1000 total

open Uft.Json in
def graphvizLine (pname nname : List Nat) (calls : Nat) : List Nat :=
  b!"    " ++ [34] ++ pname ++ b!"\" -> " ++ [34] ++ nname ++ [34] ++
  b!" [xlabel = \"" ++ dec calls ++ b!"\"]\n"

open Uft.Json in
def graphvizText (version : List Nat) (cmdline : Option (List Nat)) (root : Node) : List Nat :=
  b!"# version\":\"uftrace " ++ version ++ b!"\"\n" ++
  (match cmdline with
   | some c => b!"# command_line \"" ++ c ++ b!"\"\n"
   | none => []) ++
  b!"\ndigraph \"" ++ root.name ++ b!"\" { \n" ++
  ((walk root).flatMap fun (par, _, n) => if n.calls = 0 then [] else graphvizLine par.name n.name n.calls) ++
  b!"}\n"

open Uft.Json in
def mermaidLine (parent : Node) (p : Path) (n : Node) : List Nat :=
  b!"  " ++ dec (p.length - 1) ++ [95] ++ dec parent.id ++ b!"[\"" ++ parent.name ++ b!"\"] -->|" ++
  dec n.calls ++ b!"| " ++ dec p.length ++ [95] ++ dec n.id ++ b!"[\"" ++ n.name ++ b!"\"];\n"

/-- the lines between "flowchart TB" and "</div>" -/
def mermaidEdges (root : Node) : List Nat :=
  (walk root).flatMap fun (par, p, n) => mermaidLine par p n

/-- `uftrace graph` (full graph): root time is the sum of its children's -/
def sumTime : Nodes → Nat
  | .nil => 0
  | .cons n rest => n.time + sumTime rest

/-! ## `print_time_unit` (utils/debug.c:279): how `uftrace graph` shows a time -/

/-- the `limit[]` table without its INT_MAX terminator.  `fixed`: sixty minutes make an hour;
    the table as it is has 24 in that place (finding C15-TIMEUNIT). -/
def tuLimits (fixed : Bool) : List Nat := [1000, 1000, 1000, 60, if fixed then 60 else 24]

/-- `for (idx = 0; …) { small = delta % limit[idx]; delta /= limit[idx]; if (delta < limit[idx + 1]) break; }`
    — (delta, delta_small, idx).  The last comparison is with INT_MAX (true for every time below 2^63 ns). -/
def tuLoop : List Nat → Nat → Nat → Nat × Nat × Nat
  | [], idx, d => (d, 0, idx)
  | [l], idx, d => (d / l, d % l, idx)
  | l :: l2 :: r, idx, d =>
    if d / l < l2 then (d / l, d % l, idx) else tuLoop (l2 :: r) (idx + 1) (d / l)

/-- what `"%3lu.%03lu %s"` is given for a non-zero time: whole part, three-digit part and the unit
    (0 us, 1 ms, 2 s, 3 m, 4 h); `if (delta > 999) delta = delta_small = 999;` -/
def timeUnit (fixed : Bool) (ns : Nat) : Nat × Nat × Nat :=
  let r := tuLoop (tuLimits fixed) 0 ns
  if 999 < r.1 then (999, 999, r.2.2) else r

/-- nanoseconds in one unit, and in one step of the three-digit part (ns, us, ms, seconds, minutes) -/
def unitNs : Nat → Nat
  | 0 => 1000 | 1 => 1000000 | 2 => 1000000000 | 3 => 60000000000 | _ => 3600000000000
def subNs : Nat → Nat
  | 0 => 1 | 1 => 1000 | 2 => 1000000 | 3 => 1000000000 | _ => 60000000000

/-! ## the specification side: call paths of a record sequence -/

/-- annotate every record with the call path of the call it opens / closes -/
def annot : (Nat → Path) → List Out → List (Path × Out)
  | _, [] => []
  | cur, o :: os =>
    if o.entry then (cur o.tid ++ [o.name], o) :: annot (setFn cur o.tid (cur o.tid ++ [o.name])) os
    else (cur o.tid, o) :: annot (setFn cur o.tid (cur o.tid).dropLast) os

/-- number of calls with call path `p` -/
def callsAt (p : Path) (a : List (Path × Out)) : Nat :=
  (a.filter fun x => x.2.entry && decide (x.1 = p)).length

/-- total time of the calls with call path `p` -/
def timeAt (p : Path) (a : List (Path × Out)) : Nat :=
  ((a.filter fun x => !x.2.entry && decide (x.1 = p)).map fun x => x.2.total).sum

end Uft.Graph
