import Uft.Model.Symtab
/-
C10 — the `.sym` text format (utils/symbol.c).

Model of
  * `load_module_symbol_file()` (symbol.c:924): `getline` loop, `#` lines, `strtoull(line,&pos,16)`,
    optional hex size (only when the char after the first blank is a decimal digit), type char,
    name up to the first TAB, duplicate (addr,type) skipping with the SyS_/__ia32 renames, the
    allowed-type filter, `?`/`__sym_end` markers, size back-fill from the next symbol
    (`uint32_t` truncation), `qsort(addrsort)` after the back-fill.
  * `save_module_symbol_file()` (symbol.c:1289): header lines and
    `"%016lx %08x %c %s\n"` per symbol, nothing at all for an empty table.

  * `save_module_symtabs()` (symbol.c:1359) as `saveAll`: `saveInto` over all modules in turn — the
    writer's naming decision (already saved = same path name AND same build-id in the header of
    `<base>.sym`, else `make_new_symbol_filename`), which `selectSymName` (the reader) has to agree
    with: `c10_symfile_writer_reader_agree`.

A file is a `List Char`.  Deviations, all on inputs where the C code has undefined or
memory-unsafe behaviour and which the harness never generates: (1) a line that ends right
after `"<addr> "` or `"<addr> <size> "` makes the C code read the stale byte behind the
terminator; the model skips such a line.  (2) a duplicate-(addr,type) line while no symbol
is stored yet (only possible right after a `?`/`__sym_end` marker, or for addr 2^64-1 with
type 'X') makes the C code read `sym[-1]`; the model leaves the state unchanged.  (3) a
`# symbols: N` line is only an allocation hint; the model ignores it (in C a small N in the
middle of a file shrinks the array).  `demangle()` is the identity (names do not start with
`_Z`/`_R`).  `qsort` is modelled by a stable insertion sort; the theorems only use that
the result is an address-sorted permutation.
Core-only.
-/
namespace Uft.SymFile
open Uft.Symtab

/-! ### strtoull / strtoul with base 16 -/

def isSpaceC (c : Char) : Bool :=
  c == ' ' || c == '\t' || c == '\n' || c == Char.ofNat 11 || c == Char.ofNat 12 || c == '\r'

def hexVal (c : Char) : Option Nat :=
  if '0' ≤ c ∧ c ≤ '9' then some (c.toNat - 48)
  else if 'a' ≤ c ∧ c ≤ 'f' then some (c.toNat - 87)
  else if 'A' ≤ c ∧ c ≤ 'F' then some (c.toNat - 55)
  else none

/-- the digit loop: accumulates while hex digits follow -/
def hexDigits : List Char → Nat → Nat × List Char
  | [], acc => (acc, [])
  | c :: r, acc =>
    match hexVal c with
    | some v => hexDigits r (acc * 16 + v)
    | none => (acc, c :: r)

/-- optional sign -/
def stripSign (s : List Char) : Bool × List Char :=
  match s with
  | '-' :: r => (true, r)
  | '+' :: r => (false, r)
  | _ => (false, s)

/-- optional `0x`/`0X`, consumed only when a hex digit follows -/
def strip0x (s : List Char) : List Char :=
  match s with
  | '0' :: x :: h :: r => if (x == 'x' || x == 'X') && (hexVal h).isSome then h :: r else s
  | _ => s

/-- `strtoull(s, &end, 16)` for a 64-bit result: leading white space, optional sign,
    optional `0x`/`0X` (only when a hex digit follows), saturation at 2^64-1, negation
    in unsigned arithmetic; without any digit the result is 0 and `end = s`. -/
def strtoHex (cs : List Char) : Nat × List Char :=
  let sg := stripSign (cs.dropWhile isSpaceC)
  let s3 := strip0x sg.2
  match s3 with
  | c :: _ =>
    if (hexVal c).isSome then
      let d := hexDigits s3 0
      (if d.1 ≥ U64 then U64 - 1 else if sg.1 then (U64 - d.1) % U64 else d.1, d.2)
    else (0, cs)
  | [] => (0, cs)

/-! ### one line -/

/-- `pos = strchr(name, '\t'); if (pos) *pos = '\0';` -/
def cutTab (cs : List Char) : List Char := cs.takeWhile (· != '\t')

/-- Fields of a symbol line: (addr, size, type, name); `none` = "invalid symbol file format". -/
def parseFields (line : List Char) : Option (Nat × Nat × Char × List Char) :=
  let r := strtoHex line                      -- addr = strtoull(line, &pos, 16)
  match r.2 with
  | ' ' :: ty :: p2 =>
    if ty.isDigit then
      -- new symbol file has size info: strtoul(pos - 1, &pos, 16) into a uint32_t
      let r2 := strtoHex (ty :: p2)
      match r2.2 with
      | ' ' :: ty2 :: ' ' :: nm => some (r.1, r2.1 % U32, ty2, cutTab nm)
      | _ => none
    else
      match p2 with
      | ' ' :: nm => some (r.1, 0, ty, cutTab nm)
      | _ => none
  | _ => none

/-- one line (without its newline): `none` = the line is skipped (comment or malformed) -/
def parseLine (line : List Char) : Option (Nat × Nat × Char × List Char) :=
  match line with
  | '#' :: _ => none
  | _ => parseFields line

/-- `char allowed_types[] = "?TtwPKDdvu"` -/
def allowedTypes : List Char := ['?', 'T', 't', 'w', 'P', 'K', 'D', 'd', 'v', 'u']

/-! ### the loader -/

/-- loader state: symbols so far (newest first), `prev_addr`, `prev_type` -/
structure LdSt where
  rev : List Sym := []
  prevAddr : Nat := U64 - 1
  prevType : Char := 'X'
deriving Repr

/-- `if (sym[-1].size == 0) sym[-1].size = upto - sym[-1].addr;` (uint64 → uint32) -/
def fillLast (rev : List Sym) (upto : Nat) : List Sym :=
  match rev with
  | s :: r => if s.size = 0 then { s with size := ((upto + U64 - s.addr) % U64) % U32 } :: r else rev
  | [] => []

/-- `if (!strncmp(sym->name, "SyS_", 4) && !strncmp(name, "sys_", 4) && !strcmp(sym->name + 4, name + 4))
       strncpy(sym->name, name, 4);` -/
def renameSyS (old name : List Char) : List Char :=
  if old.take 4 = ['S','y','S','_'] ∧ name.take 4 = ['s','y','s','_'] ∧ old.drop 4 = name.drop 4
  then name.take 4 ++ old.drop 4 else old

/-- `if (!strncmp(sym->name, "__ia32", 6) && !strncmp(name, "__x64", 5) && !strcmp(sym->name + 6, name + 5))
       strcpy(sym->name, name);` -/
def renameIa32 (old name : List Char) : List Char :=
  if old.take 6 = ['_','_','i','a','3','2'] ∧ name.take 5 = ['_','_','x','6','4']
     ∧ old.drop 6 = name.drop 5 then name else old

/-- the renames done when a duplicated (addr, type) line is skipped -/
def renameLast (rev : List Sym) (name : List Char) : List Sym :=
  match rev with
  | s :: r => { s with name := renameIa32 (renameSyS s.name name) name } :: r
  | [] => []

/-- the loop body after the line has been split into fields; `off` is the `offset` argument -/
def loadFields (off : Nat) (st : LdSt) (addr size : Nat) (ty : Char) (name : List Char) : LdSt :=
  if addr = st.prevAddr ∧ ty = st.prevType then
    { st with rev := renameLast st.rev name }
  else if ¬ allowedTypes.contains ty then st
  else
    let a := (addr + off) % U64
    if ty = '?' ∨ isSymbolEnd name then
      { rev := fillLast st.rev a, prevAddr := addr, prevType := ty }
    else
      { rev := { addr := a, size := size, type := ty, name := name } :: fillLast st.rev a,
        prevAddr := addr, prevType := ty }

/-- body of the `while (getline(...) > 0)` loop -/
def loadLine (off : Nat) (st : LdSt) (line : List Char) : LdSt :=
  match parseLine line with
  | none => st
  | some (addr, size, ty, name) => loadFields off st addr size ty name

/-- `getline` + `if (strchr(line, '\n') == NULL) break;`: split at '\n'; a last piece without its
    newline is an incomplete record (cut file) and is not read — neither by
    `load_module_symbol_file` nor by `check_symbol_file` -/
def splitLinesAux : List Char → List Char → List (List Char)
  | [], _ => []
  | c :: r, cur => if c = '\n' then cur.reverse :: splitLinesAux r [] else splitLinesAux r (c :: cur)

def splitLines (text : List Char) : List (List Char) := splitLinesAux text []

/-- the table as it is in memory right before `qsort` -/
def rawLoad (off : Nat) (text : List Char) : List Sym :=
  ((splitLines text).foldl (loadLine off) {}).rev.reverse

/-- insertion before the first entry with `addr ≥` (stable) -/
def insertByAddr (s : Sym) : List Sym → List Sym
  | [] => [s]
  | x :: r => if s.addr ≤ x.addr then s :: x :: r else x :: insertByAddr s r

/-- `qsort(sym, nr_sym, sizeof(*sym), addrsort)` -/
def sortByAddr : List Sym → List Sym
  | [] => []
  | x :: r => insertByAddr x (sortByAddr r)

/-- `load_module_symbol_file(symtab, file, offset)` on an empty symtab -/
def load (off : Nat) (text : List Char) : List Sym := sortByAddr (rawLoad off text)

/-! ### the writer -/

def hexDigit (n : Nat) : Char :=
  match n with
  | 0 => '0' | 1 => '1' | 2 => '2' | 3 => '3' | 4 => '4' | 5 => '5' | 6 => '6' | 7 => '7'
  | 8 => '8' | 9 => '9' | 10 => 'a' | 11 => 'b' | 12 => 'c' | 13 => 'd' | 14 => 'e' | _ => 'f'

/-- `%0<w>x` for a value below `16^w` (most significant digit first) -/
def hexFixed : Nat → Nat → List Char
  | 0, _ => []
  | w + 1, n => hexDigit (n / 16 ^ w % 16) :: hexFixed w n

def decDigit (n : Nat) : Char :=
  match n with
  | 0 => '0' | 1 => '1' | 2 => '2' | 3 => '3' | 4 => '4' | 5 => '5' | 6 => '6' | 7 => '7'
  | 8 => '8' | _ => '9'

def decDigitsAux : Nat → Nat → List Char → List Char
  | 0, _, acc => acc
  | fuel + 1, n, acc =>
    if n / 10 = 0 then decDigit (n % 10) :: acc else decDigitsAux fuel (n / 10) (decDigit (n % 10) :: acc)

/-- `%zd` of a non-negative value -/
def decDigits (n : Nat) : List Char := decDigitsAux (n + 1) n []

/-- `"%016lx %08x %c %s\n"` with `sym->addr - offset` -/
def saveLine (off : Nat) (s : Sym) : List Char :=
  hexFixed 16 (sub64 s.addr off) ++ ' ' :: (hexFixed 8 (s.size % U32) ++ ' ' :: s.type :: ' ' :: s.name)
where sub64 (a b : Nat) : Nat := (a + U64 - b % U64) % U64

def header (n : Nat) (path buildId : List Char) : List Char :=
  "# symbols: ".toList ++ decDigits n ++ '\n' :: ("# path name: ".toList ++ path ++ ['\n'])
    ++ (if buildId.isEmpty then [] else "# build-id: ".toList ++ buildId ++ ['\n'])

/-- `save_module_symbol_file()`: content of a freshly created file (`[]` = no file) -/
def save (off : Nat) (path buildId : List Char) (t : List Sym) : List Char :=
  if t.isEmpty then []
  else header t.length path buildId ++ (t.map (fun s => saveLine off s ++ ['\n'])).flatten

/-! ### which file of the symbol directory belongs to a module
     (`check_symbol_file`, `make_new_symbol_filename`, the naming part of
     `save_module_symbol_file`, and `load_module_symbol` incl. SYMTAB_FL_SYMS_DIR) -/

/-- a symbol directory: file name ↦ content -/
abbrev SymDir := List (List Char × List Char)

def SymDir.get (d : SymDir) (name : List Char) : Option (List Char) := d.lookup name

/-- `uftrace_basename()`: the part after the last '/' -/
def basename (path : List Char) : List Char :=
  (path.reverse.takeWhile (· != '/')).reverse

/-- `strncmp(line, prefix, strlen(prefix)) == 0 ? line + strlen(prefix) : NULL` -/
def stripPrefix (pre line : List Char) : Option (List Char) :=
  if line.take pre.length = pre then some (line.drop pre.length) else none

/-- the header of a symbol file as `check_symbol_file` reads it: number of matching
    header entries, path name, build-id (at most 40 characters).  Only the leading
    `#` lines are looked at. -/
structure SymHdr where
  count : Nat := 0
  path : List Char := []
  bid : List Char := []
deriving Repr, DecidableEq

def hdrStep (h : SymHdr) (line : List Char) : SymHdr :=
  let h1 := match stripPrefix "# path name: ".toList line with
    | some p => { h with count := h.count + 1, path := p }
    | none => h
  match stripPrefix "# build-id: ".toList line with
  | some b => { h1 with count := h1.count + 1, bid := b.take 40 }
  | none => h1

def checkSymbolFile (text : List Char) : SymHdr :=
  ((splitLines text).takeWhile (fun l => l.head? == some '#')).foldl hdrStep {}

/-- `csum += (int)*p++` in a `uint16_t` (ASCII path names) -/
def pathCsum (path : List Char) : Nat := (path.foldl (fun a c => a + c.toNat) 0) % 65536

/-- `make_new_symbol_filename(symfile, pathname, build_id)` on the file name:
    `<base>-<first 4 of build-id>.sym`, or `<base>-<%04x checksum of the path>.sym` -/
def newSymName (symfile path bid : List Char) : List Char :=
  let stem := symfile.take (symfile.length - 4)
  if bid.isEmpty then stem ++ '-' :: hexFixed 4 (pathCsum path) ++ ".sym".toList
  else stem ++ '-' :: bid.take 4 ++ ".sym".toList

/-- `save_module_symbol_file(stab, pathname, build_id, "<dir>/<basename>.sym", 0)`:
    nothing for an empty table; a fresh file under the primary name; if that name is
    taken by another module (different path or build-id in its header) the alternative
    name, unless that is taken as well. -/
def saveInto (d : SymDir) (path bid : List Char) (t : List Sym) : SymDir :=
  if t.isEmpty then d else
  let name := basename path ++ ".sym".toList
  match d.get name with
  | none => d ++ [(name, save 0 path bid t)]
  | some old =>
    let h := checkSymbolFile old
    if h.count = 0 then d
    else if h.path = path ∧ h.bid = bid then d
    else
      let alt := newSymName name path bid
      match d.get alt with
      | none => d ++ [(alt, save 0 path bid t)]
      | some _ => d

/-- the file name `load_module_symbol` settles on for module `(mname, mbid)`;
    `withSyms` = SYMTAB_FL_SYMS_DIR (symbol directory differs from the data directory) -/
def selectSymName (d : SymDir) (withSyms : Bool) (mname mbid : List Char) : List Char :=
  let name := basename mname ++ ".sym".toList
  match d.get name with
  | none => name
  | some text =>
    let h := checkSymbolFile text
    if h.count > 0 ∧ ((h.path ≠ mname ∧ withSyms = false) ∨
                      (h.bid ≠ [] ∧ mbid ≠ [] ∧ h.bid ≠ mbid)) then
      newSymName name mname mbid
    else name

/-- the table of a module loaded with SYMTAB_FL_USE_SYMFILE (no ELF file to fall back to) -/
def moduleTable (d : SymDir) (withSyms : Bool) (mname mbid : List Char) : List Sym :=
  match d.get (selectSymName d withSyms mname mbid) with
  | some text => load 0 text
  | none => []

/-! ### the writer's side of the file naming: `save_module_symtabs` over all modules -/

/-- a module as `save_module_symtabs` sees it: path name, build-id read from the file, table -/
structure Mod where
  path : List Char
  bid : List Char
  tab : List Sym

/-- `<dir>/<basename>.sym` -/
def primaryName (m : Mod) : List Char := basename m.path ++ ".sym".toList
/-- the name `make_new_symbol_filename` gives the module -/
def altName (m : Mod) : List Char := newSymName (primaryName m) m.path m.bid

/-- `save_module_symtabs(dirname)`: every module in turn (any order) into the directory -/
def saveStep (d : SymDir) (m : Mod) : SymDir := saveInto d m.path m.bid m.tab
def saveAll (ms : List Mod) : SymDir := ms.foldl saveStep []

/-! ### predicates on tables used by the theorems and the monitor -/

def AddrSorted (l : List Sym) : Prop := l.Pairwise (fun a b => a.addr ≤ b.addr)

instance (l : List Sym) : Decidable (AddrSorted l) := by unfold AddrSorted; infer_instance

/-- the symmetric version of `Compat`: whichever of the two starts first, they are
    disjoint or cover the same range -/
def NoClash (x y : Sym) : Prop :=
  (x.addr ≤ y.addr → (x.stop ≤ y.addr ∨ (x.addr = y.addr ∧ x.stop = y.stop))) ∧
  (y.addr ≤ x.addr → (y.stop ≤ x.addr ∨ (y.addr = x.addr ∧ y.stop = x.stop)))

instance (x y : Sym) : Decidable (NoClash x y) := by unfold NoClash; infer_instance

/-- sizes do not properly overlap (order-independent, decidable) -/
def NoProperOverlap (t : List Sym) : Prop := t.Pairwise NoClash

instance (t : List Sym) : Decidable (NoProperOverlap t) := by unfold NoProperOverlap; infer_instance

end Uft.SymFile
