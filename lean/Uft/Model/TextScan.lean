/-
C12 — shared pieces of the text-file parser models (info, task.txt, sid-*.map, *.sym):
C strings, `fgets`/`getline`, `strtol`/`strtoull`, and an interpreter for the `sscanf` formats the
readers use, with the capacity of every `%s` destination explicit.

A parser result is `PR α`: a value, an error enum (the C function returns -1 / skips the line),
or `oob tag`: the C code reads or writes outside the object it was given (`tag` names the place).
Every function here is total on every byte string.  Core-only.

Fidelity notes (also in DESIGN.md Appendix A style):
  * numbers are unbounded (`%d`/`%lu`/`strtol` overflow is not modelled; `strtoull`/`%lx` saturate
    at 2^64-1); no file the check generates or cuts contains a number ≥ 2^31;
  * "0x" prefixes of `%x`/`strtoull(…,16)` are accepted only when a hex digit follows;
  * a byte string is cut at its first NUL when it is used as a C string (`cstr`);
  * reads behind the terminating NUL of the current line but inside the `getline` buffer (stale
    bytes of the previous line, e.g. `line + 5` for the 4-byte line "TASK") are reported as
    `oob "stale…"`: they are inside the allocation, ASan does not see them, but what is read there
    is not part of the file.
-/
namespace Uft.TextScan

abbrev Bytes := List UInt8

inductive PR (α : Type)
  | ok (a : α)
  | err (e : String)
  | oob (tag : String)
  deriving Repr, DecidableEq

def PR.bind {α β : Type} (x : PR α) (f : α → PR β) : PR β :=
  match x with
  | .ok a => f a
  | .err e => .err e
  | .oob t => .oob t

instance : Monad PR where
  pure := PR.ok
  bind := PR.bind

def PR.isOob {α : Type} : PR α → Bool
  | .oob _ => true
  | _ => false

/-- ASCII bytes of a literal -/
def b (s : String) : Bytes := s.toUTF8.toList

def NL : UInt8 := 10

/-- `isspace` in the C locale -/
def isSpace (c : UInt8) : Bool := c == 32 || (9 ≤ c && c ≤ 13)

def isDigit (c : UInt8) : Bool := 48 ≤ c && c ≤ 57

def hexVal (c : UInt8) : Option Nat :=
  if 48 ≤ c && c ≤ 57 then some (c.toNat - 48)
  else if 97 ≤ c && c ≤ 102 then some (c.toNat - 87)
  else if 65 ≤ c && c ≤ 70 then some (c.toNat - 55)
  else none

/-- the C string starting at the first byte: up to the first NUL -/
def cstr (s : Bytes) : Bytes := s.takeWhile (· != 0)

/-- `strncmp(s, p, strlen(p)) == 0` -/
def hasPrefix (p s : Bytes) : Bool := p.isPrefixOf s

/-- `fgets(buf, cap, fp)`: at most `cap - 1` bytes, through the first newline; `none` at EOF -/
def fgetsAux : Nat → Bytes → Bytes × Bytes
  | 0, s => ([], s)
  | _ + 1, [] => ([], [])
  | n + 1, c :: r =>
    if c == NL then ([c], r)
    else let x := fgetsAux n r; (c :: x.1, x.2)

def fgets (cap : Nat) (s : Bytes) : Option (Bytes × Bytes) :=
  if s.isEmpty then none else some (fgetsAux (cap - 1) s)

/-- `getline`: a whole line whatever its length -/
def getline (s : Bytes) : Option (Bytes × Bytes) := fgets (s.length + 2) s

/-- `strchr(line, '\n') != NULL` on the C string in the line buffer: the line holds its newline -/
def terminated (l : Bytes) : Bool := (cstr l).contains NL

/-- proposed_fixes/C12-F18{t,m,s,c,i}.diff (`nl = true`): every record of the text files ends with a
    newline, so a line without one is an incomplete record (the file was cut short) and is treated
    as the end of the file.  `nl = false`: the code as it is takes it as a line. -/
def nlGate (nl : Bool) (x : Option (Bytes × Bytes)) : Option (Bytes × Bytes) :=
  match x with
  | some (l, r) => if nl && !terminated l then none else some (l, r)
  | none => none

/-- the line loop of the readers: `get` delivers (line buffer, rest of the stream) or EOF, `step`
    handles one line and says whether the loop goes on (`true`) or `break`s (`false`).
    Fuel: a number above the length of the stream (every line has at least one byte). -/
def lineLoop {σ : Type} (get : Bytes → Option (Bytes × Bytes)) (step : σ → Bytes → PR (σ × Bool)) :
    Nat → Bytes → σ → PR σ
  | 0, _, st => .ok st
  | n + 1, s, st =>
    match get s with
    | none => .ok st
    | some (l, r) =>
      match step st l with
      | .ok (st1, true) => lineLoop get step n r st1
      | .ok (st1, false) => .ok st1
      | .err e => .err e
      | .oob t => .oob t

/-- the longest prefix of `s` that ends with a newline: the file "cut at the last whole record" -/
def wholeLines : Bytes → Bytes
  | [] => []
  | c :: r => if (c :: r).contains NL then c :: wholeLines r else []

/-- a file made of whole lines (each line given without its newline) -/
def joinLines : List Bytes → Bytes
  | [] => []
  | l :: ls => l ++ NL :: joinLines ls

/-- how many leading lines are completely (with their newline) inside the first `k` bytes -/
def wholeLinesBefore : List Bytes → Nat → Nat
  | [], _ => 0
  | l :: ls, k => if l.length + 1 ≤ k then 1 + wholeLinesBefore ls (k - (l.length + 1)) else 0

/-- a line of a text file as the writers produce it: no newline and no NUL inside -/
def CleanLine (l : Bytes) : Prop := l.contains NL = false ∧ l.contains 0 = false

def skipWs (s : Bytes) : Bytes := s.dropWhile isSpace

def digitsVal (ds : Bytes) : Nat := ds.foldl (fun acc c => acc * 10 + (c.toNat - 48)) 0

def hexDigitsVal (ds : Bytes) : Nat :=
  ds.foldl (fun acc c => acc * 16 + (hexVal c).getD 0) 0

def isHex (c : UInt8) : Bool := (hexVal c).isSome

/-- sign prefix: (negative, rest) -/
def sign (s : Bytes) : Bool × Bytes :=
  match s with
  | 45 :: r => (true, r)
  | 43 :: r => (false, r)
  | _ => (false, s)

/-- `strtol(s, &end, 10)`: (value, end); no digits: (0, s) -/
def strtol (s : Bytes) : Int × Bytes :=
  let sg := sign (skipWs s)
  let ds := sg.2.takeWhile isDigit
  if ds.isEmpty then (0, s)
  else ((if sg.1 then -1 else 1) * (digitsVal ds : Int), sg.2.dropWhile isDigit)

def U64 : Nat := 2 ^ 64

def strip0x (s : Bytes) : Bytes :=
  match s with
  | 48 :: x :: h :: r => if (x == 120 || x == 88) && isHex h then h :: r else s
  | _ => s

/-- `strtoull(s, &end, 16)`: (value, end), saturating; no digits: (0, s) -/
def strtoull16 (s : Bytes) : Nat × Bytes :=
  let sg := sign (skipWs s)
  let t := strip0x sg.2
  let ds := t.takeWhile isHex
  if ds.isEmpty then (0, s)
  else
    let v := hexDigitsVal ds
    ((if v ≥ U64 then U64 - 1 else if sg.1 then (U64 - v) % U64 else v), t.dropWhile isHex)

/-! ### sscanf -/

inductive Dir
  | lit (c : UInt8)                       -- an ordinary character of the format
  | ws                                    -- white space in the format
  | dec                                   -- %d, %lu
  | hex                                   -- %lx
  | str (cap : Nat) (width : Option Nat)  -- %s / %Ns into a `cap`-byte destination
  | skipHex                               -- %*x
  | skipDec                               -- %*d
  | skipNot (c : UInt8)                   -- %*[^c]
  deriving Repr

inductive Val
  | num (n : Int)
  | str (s : Bytes)
  deriving Repr, DecidableEq

def lits (s : String) : List Dir := (b s).map Dir.lit

/-- outcome of a scan: the assigned values and whether it stopped on an input failure
    (end of the string) rather than a matching failure or the end of the format -/
structure Scan where
  vals : List Val
  inputFail : Bool
  deriving Repr

/-- the value `sscanf` returns: EOF (-1) when nothing was assigned before an input failure -/
def Scan.ret (x : Scan) : Int :=
  if x.inputFail && x.vals.isEmpty then -1 else x.vals.length

def takeWidth (w : Option Nat) (t : Bytes) : Bytes :=
  match w with
  | some n => t.take n
  | none => t

/-- interpret the format on the C string `s` -/
def runFmt : List Dir → Bytes → List Val → PR Scan
  | [], _, acc => .ok ⟨acc.reverse, false⟩
  | d :: fmt, s, acc =>
    match d with
    | .ws => runFmt fmt (skipWs s) acc
    | .lit c =>
      match s with
      | [] => .ok ⟨acc.reverse, true⟩
      | x :: r => if x == c then runFmt fmt r acc else .ok ⟨acc.reverse, false⟩
    | .dec =>
      let s1 := skipWs s
      if s1.isEmpty then .ok ⟨acc.reverse, true⟩ else
      let sg := sign s1
      let ds := sg.2.takeWhile isDigit
      if ds.isEmpty then .ok ⟨acc.reverse, false⟩
      else runFmt fmt (sg.2.dropWhile isDigit)
        (.num ((if sg.1 then -1 else 1) * (digitsVal ds : Int)) :: acc)
    | .hex =>
      let s1 := skipWs s
      if s1.isEmpty then .ok ⟨acc.reverse, true⟩ else
      let sg := sign s1
      let t := strip0x sg.2
      let ds := t.takeWhile isHex
      if ds.isEmpty then .ok ⟨acc.reverse, false⟩
      else
        let v := hexDigitsVal ds
        runFmt fmt (t.dropWhile isHex)
          (.num (if v ≥ U64 then U64 - 1 else if sg.1 then (U64 - v) % U64 else v : Nat) :: acc)
    | .skipHex =>
      let s1 := skipWs s
      if s1.isEmpty then .ok ⟨acc.reverse, true⟩ else
      let sg := sign s1
      let t := strip0x sg.2
      if (t.takeWhile isHex).isEmpty then .ok ⟨acc.reverse, false⟩
      else runFmt fmt (t.dropWhile isHex) acc
    | .skipDec =>
      let s1 := skipWs s
      if s1.isEmpty then .ok ⟨acc.reverse, true⟩ else
      let sg := sign s1
      if (sg.2.takeWhile isDigit).isEmpty then .ok ⟨acc.reverse, false⟩
      else runFmt fmt (sg.2.dropWhile isDigit) acc
    | .skipNot c =>
      match s with
      | [] => .ok ⟨acc.reverse, true⟩
      | x :: _ =>
        if x == c then .ok ⟨acc.reverse, false⟩
        else runFmt fmt (s.dropWhile (· != c)) acc
    | .str cap w =>
      let s1 := skipWs s
      if s1.isEmpty then .ok ⟨acc.reverse, true⟩ else
      let tok := takeWidth w (s1.takeWhile (fun c => !isSpace c))
      -- the token and its NUL are stored into `cap` bytes
      if tok.length + 1 > cap then .oob "sscanf %s"
      else runFmt fmt (s1.drop tok.length) (.str tok :: acc)

/-- `strstr(s, pat)`: the suffix of `s` starting at the first occurrence -/
def strstr (pat : Bytes) : Bytes → Option Bytes
  | [] => if pat.isEmpty then some [] else none
  | c :: r => if pat.isPrefixOf (c :: r) then some (c :: r) else strstr pat r

/-- `p = strrchr(s, c); if (p) *p = 0;` -/
def cutLast (c : UInt8) (s : Bytes) : Bytes :=
  match (s.reverse.dropWhile (· != c)) with
  | [] => s
  | _ :: r => r.reverse

/-- `p = strchr(s, c); if (p) *p = 0;` -/
def cutFirst (c : UInt8) (s : Bytes) : Bytes := s.takeWhile (· != c)

end Uft.TextScan
