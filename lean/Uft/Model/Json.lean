/-
C15 — `dump --chrome`: JSON escaping, the fixed 2048-byte name buffer, the
header / event / footer printers, and a byte-level JSON recogniser.

Anchors (uftrace working tree):
  cmds/replay.c:384 print_char, :391 print_args, :403 print_json_escaped_char
  cmds/dump.c:833 dump_chrome_header, :865 dump_chrome_task_rstack, :1002 dump_chrome_footer
  utils/utils.c:761 json_quote   (record side, cmds/info.c:194 fill_cmdline)

Bytes are `Nat` values (0..255 in every use; the hex formatter reduces mod 256 as
`%02hhx` does).  Core-only imports.
-/
namespace Uft.Json

/-- a byte value -/
local notation "Byte" => Nat

-- string literal -> list of byte values, expanded at elaboration time
open Lean in
macro:max "b!" s:str : term => do
  let bytes := s.getString.toUTF8.toList.map (·.toNat)
  let elems := bytes.toArray.map fun n => Syntax.mkNumLit (toString n)
  `(([$elems,*] : List Nat))

/-! ## the escaper -/

def hexDigit (n : Nat) : Byte := if n < 10 then 48 + n else 87 + n

/-- `isprint()` in the C locale -/
def isPrint (c : Byte) : Bool := decide (32 ≤ c) && decide (c ≤ 126)

/-- does `print_json_escaped_char` take the `print_char` branch (no length check)? -/
def viaChar (c : Byte) : Bool := isPrint c && c != 92 && c != 34

/-- port of `print_json_escaped_char` (cmds/replay.c:403): the characters it produces.
    Note the C literals: "\\\\n" is backslash backslash n. -/
def escapeChar (c : Byte) : List Byte :=
  if c = 10 then [92, 92, 110]
  else if c = 9 then [92, 92, 116]
  else if c = 92 then [92, 92]
  else if c = 34 then [92, 34]
  else if isPrint c then [c]
  else [92, 92, 120, hexDigit (c / 16 % 16), hexDigit (c % 16)]

def escapeStr (bs : List Byte) : List Byte := bs.flatMap escapeChar

/-- port of `json_quote` (utils/utils.c:761): only the double quote is escaped. -/
def jsonQuote : List Byte → List Byte
  | [] => []
  | c :: r => if c = 34 then 92 :: 34 :: jsonQuote r else c :: jsonQuote r

/-- repaired footer: the stored command line already went through `json_quote`, so a
    backslash directly followed by a quote is that function's escape; everything else
    goes through the escaper. -/
def escCmdline : List Byte → List Byte
  | [] => []
  | [c] => escapeChar c
  | c :: d :: r =>
    if c = 92 ∧ d = 34 then 92 :: 34 :: escCmdline r else escapeChar c ++ escCmdline (d :: r)

/-! ## `name_buf[2048]` and the two writers -/

def cap : Nat := 2048
def W : Nat := 18446744073709551616      -- 2^64: `len` is a size_t

def wrapSub (a b : Nat) : Nat := (a + W - b % W) % W

/-- the state of the escape loop of `dump_chrome_task_rstack` -/
structure NB where
  out : List Byte      -- the C string in name_buf so far (up to the first NUL stored)
  term : Bool          -- a NUL was stored inside: later stores do not extend the string
  pos : Nat            -- p - name_buf
  len : Nat            -- the size_t `len`
  oob : Bool           -- some store went to an index ≥ 2048
  deriving Repr, DecidableEq

def nbInit : NB := { out := [], term := false, pos := 0, len := cap - 1, oob := false }

/-- `print_char`: stores unconditionally -/
def printChar (b : NB) (c : Byte) : NB :=
  { out := if b.term then b.out else b.out ++ [c]
    term := b.term
    pos := b.pos + 1
    len := wrapSub b.len 1
    oob := b.oob || decide (cap ≤ b.pos) }

/-- `print_args` with a format that expands to `s`: vsnprintf(p, len, …) stores
    min(|s|, len-1) characters and a NUL (nothing when len = 0) and returns |s|;
    then `p += x; len -= x`. -/
def printArgs (b : NB) (s : List Byte) : NB :=
  if b.len = 0 then { b with pos := b.pos + s.length, len := wrapSub 0 s.length }
  else
    let k := min s.length (b.len - 1)
    { out := if b.term then b.out else b.out ++ s.take k
      term := b.term || decide (k < s.length)
      pos := b.pos + s.length
      len := wrapSub b.len s.length
      oob := b.oob || decide (cap ≤ b.pos + k) }

def putEsc (b : NB) (c : Byte) : NB :=
  if viaChar c then printChar b c else printArgs b (escapeChar c)

/-- the loop `for (i = 0; i < namelen; i++) print_json_escaped_char(&p, &len, name[i]);`
    `fixed`: with the proposed guard `if (len < 6) break;` in front of the call. -/
def nameLoop (fixed : Bool) : NB → List Byte → NB
  | b, [] => b
  | b, c :: cs => if fixed && decide (b.len < 6) then b else nameLoop fixed (putEsc b c) cs

/-- loop, then `*p = '\0';` -/
def escapeName (fixed : Bool) (name : List Byte) : NB :=
  let b := nameLoop fixed nbInit name
  { b with oob := b.oob || decide (cap ≤ b.pos) }

/-! ## `spec_buf[2048]`: the argument / return value string of an event

`get_argspec_string(task, spec_buf, sizeof(spec_buf), NEEDS_JSON | …)` (cmds/replay.c:431)
prints through the same `print_args` / `print_char` pair.  Two repairs are modelled:
`abuf` — `print_args` drops a piece that does not fit instead of advancing past the end
(`*len` wrapped around and every later store went out of the buffer), `print_char` keeps
room for the NUL (finding C15-ARGBUF); `asym` — names taken from the data (the symbol a
pointer argument resolves to) go through the escaper instead of `%s` (finding C15-ARGSYM).
Both were confirmed on the real code (ASan stack-buffer-overflow in print_args / print_char
under get_argspec_string <- dump_chrome_task_rstack; `"arguments":"(&q"x)"`).  Not modelled:
what printf makes of the numeric formats (`ArgVal.raw`: the text is an input of the model),
terminal colours (the check runs with --color=no), FORMAT_HTML, the non-JSON mode of the
same function (replay / graph / tui, `args[1024]`). -/

/-- one value of the argument list, as far as the text depends on it -/
inductive ArgVal where
  /-- ARG_FMT_STR / ARG_FMT_STD_STRING: the `slen` payload bytes -/
  | str (bs : List Byte) (std : Bool)
  /-- ARG_FMT_CHAR -/
  | chr (c : Byte)
  /-- ARG_FMT_PTR whose value lies in a symbol: "&name" -/
  | sym (name : List Byte)
  /-- every other format: the text printf produces for the value (digits, 0x…, floats,
      "<ENUM?> 1f", "{...}"): one `print_args` call -/
  | raw (text : List Byte)
  deriving Repr, DecidableEq

/-- `print_args`; `abuf`: `if (x < 0 || (size_t)x >= *len) { if (*len) **args = 0; return; }` -/
def pA (abuf : Bool) (b : NB) (s : List Byte) : NB :=
  if abuf && decide (b.len ≤ s.length) then b else printArgs b s

/-- `print_char`; `abuf`: `if (*len < 2) return;` -/
def pC (abuf : Bool) (b : NB) (c : Byte) : NB :=
  if abuf && decide (b.len < 2) then b else printChar b c

/-- `print_json_escaped_char` -/
def pE (abuf : Bool) (b : NB) (c : Byte) : NB :=
  if viaChar c then pC abuf b c else pA abuf b (escapeChar c)

/-- `str[slen] = 0; while (*p)`: the bytes up to the first NUL -/
def cstr : List Byte → List Byte
  | [] => []
  | c :: r => if c = 0 then [] else c :: cstr r

/-- the body of the `list_for_each_entry` loop for one value (without the ", ") -/
def argPiece (abuf asym : Bool) (b : NB) : ArgVal → NB
  | .str bs std =>
    let b1 :=
      if bs = [255, 255, 255, 255] then pA abuf b b!"NULL"     -- slen == 4 && !memcmp(str, &null_str, 4)
      else pA abuf ((cstr bs).foldl (pE abuf) (pA abuf b [92, 34])) [92, 34]
    if std then pA abuf b1 [115] else b1
  | .chr c => pA abuf (pE abuf (pA abuf b [39]) c) [39]
  | .sym name =>
    if asym then name.foldl (pE abuf) (pA abuf b [38]) else pA abuf b (38 :: name)
  | .raw t => pA abuf b t

/-- the loop over the values that match `is_retval`: ", " between two values,
    `if (len <= 2) break; if (is_retval) break;` after each -/
def argLoop (abuf asym retval : Bool) : Bool → NB → List ArgVal → NB
  | _, b, [] => b
  | first, b, v :: vs =>
    let b1 := if first then b else pA abuf b b!", "
    let b2 := argPiece abuf asym b1 v
    if b2.len ≤ 2 ∨ retval = true then b2 else argLoop abuf asym retval false b2 vs

/-- `spec_buf` at the start: `len = sizeof(spec_buf)` -/
def sbInit : NB := { out := [], term := false, pos := 0, len := cap, oob := false }

/-- `get_argspec_string` in JSON mode with HAS_MORE: arguments in parentheses
    (NEEDS_PAREN), the return value bare and terminated by `args[0] = 0` at the end -/
def argString (abuf asym retval : Bool) (vs : List ArgVal) : NB :=
  if retval then
    let b := argLoop abuf asym true true sbInit vs
    { b with oob := b.oob || decide (cap ≤ b.pos) }
  else
    pA abuf (argLoop abuf asym false true (pA abuf sbInit [40]) vs) [41]

/-! ## numbers -/

def digit (n : Nat) : Byte := 48 + n % 10

/-- `%d` / `%lu` of a non-negative value (fuel: a number below `f` has at most `f` digits) -/
def decF : Nat → Nat → List Byte
  | 0, _ => []
  | f + 1, n => if n < 10 then [digit n] else decF f (n / 10) ++ [digit n]

def dec (n : Nat) : List Byte := decF (n + 1) n

/-- `%03d` of a value below 1000 -/
def pad3 (n : Nat) : List Byte := [digit (n / 100), digit (n / 10), digit n]

/-- `"%lu.%03d", time / 1000, time % 1000` -/
def tsText (t : Nat) : List Byte := dec (t / 1000) ++ [46] ++ pad3 (t % 1000)

/-- the number a reader gets from a string of decimal digits (exact, no floating point) -/
def digitsVal (bs : List Byte) : Nat := bs.foldl (fun a c => a * 10 + (c - 48)) 0

/-- every byte is one of '0'..'9' -/
def allDigits (bs : List Byte) : Bool := bs.all fun c => decide (48 ≤ c) && decide (c ≤ 57)

/-! ## the printers -/

structure Task where
  tid : Nat
  pid : Nat
  deriving Repr, DecidableEq

/-- one call of `ops->task_rstack` for an ENTRY/EXIT record -/
structure Ev where
  entry : Bool
  tid : Nat
  pid : Nat
  name : List Byte
  time : Nat
  /-- `frs->more`: the values of the argument list (ENTRY) / the return value (EXIT) -/
  args : Option (List ArgVal)
  deriving Repr, DecidableEq

/-- `uftrace_basename` -/
def basename (p : List Byte) : List Byte :=
  p.foldl (fun acc c => if c = 47 then [] else acc ++ [c]) []

/-- `strncpy(t->comm, basename(exename), 16); comm[15] = 0` -/
def commOf (exename : List Byte) : List Byte := (basename exename).take 15

def metaLine (kind : List Byte) (tid : Nat) (comm : List Byte) : List Byte :=
  b!"{\"ts\":0,\"ph\":\"M\",\"pid\":" ++ dec tid ++ b!",\"name\":\"" ++ kind ++
  b!"\",\"args\":{\"name\":\"[" ++ dec tid ++ b!"] " ++ comm ++ b!"\"}}"

/-- `dump_chrome_header` as it is: comm printed with %s, every line followed by ",\n";
    returns the text and `last_comma` -/
def headerPre (comm : List Byte) (tasks : List Task) : List Byte × Bool :=
  (b!"{\"traceEvents\":[\n" ++
    tasks.flatMap (fun t => metaLine b!"process_name" t.tid comm ++ b!",\n" ++
                            metaLine b!"thread_name" t.tid comm ++ b!",\n"),
   false)

/-- repaired header: comm escaped, separators printed through `last_comma` -/
def headerFixLines (comm : List Byte) : Bool → List Task → List Byte × Bool
  | lc, [] => ([], lc)
  | lc, t :: ts =>
    let r := headerFixLines comm true ts
    ((if lc then b!",\n" else []) ++ metaLine b!"process_name" t.tid (escapeStr comm) ++ b!",\n" ++
       metaLine b!"thread_name" t.tid (escapeStr comm) ++ r.1, r.2)

def headerFix (comm : List Byte) (tasks : List Task) : List Byte × Bool :=
  let r := headerFixLines comm false tasks
  (b!"{\"traceEvents\":[\n" ++ r.1, r.2)

def header (fixed : Bool) (comm : List Byte) (tasks : List Task) : List Byte × Bool :=
  if fixed then headerFix comm tasks else headerPre comm tasks

/-- which repairs are in: `main` = F9, F9b, S3, `abuf` = C15-ARGBUF (proposed_fixes/C15-ARGBUF.diff),
    `asym` = C15-ARGSYM (proposed_fixes/C15-ARGSYM.diff) -/
structure Fix where
  main : Bool
  abuf : Bool
  asym : Bool
  deriving Repr, DecidableEq

/-- the repaired code -/
def Fix.all : Fix := ⟨true, true, true⟩
/-- the tree with the `main` repairs only: before C15-ARGBUF and C15-ARGSYM -/
def Fix.repo : Fix := ⟨true, false, false⟩
/-- the tree before every repair -/
def Fix.none : Fix := ⟨false, false, false⟩

/-- the end of an event object: "}" or `,"args":{"arguments":"%s"}}` / `,"args":{"retval":"%s"}}` -/
def argsText (f : Fix) (e : Ev) : List Byte :=
  match e.args with
  | none => b!"}"
  | some vs =>
    (if e.entry then b!",\"args\":{\"arguments\":\"" else b!",\"args\":{\"retval\":\"") ++
    (argString f.abuf f.asym (!e.entry) vs).out ++ b!"\"}}"

/-- one event object -/
def evText (f : Fix) (e : Ev) : List Byte :=
  b!"{\"ts\":" ++ tsText e.time ++ b!",\"ph\":\"" ++ [if e.entry then 66 else 69] ++
  b!"\",\"pid\":" ++
  (if e.pid = e.tid then dec e.tid else dec e.pid ++ b!",\"tid\":" ++ dec e.tid) ++
  b!",\"name\":\"" ++ (escapeName f.main e.name).out ++ [34] ++ argsText f e

/-- the sequence of `dump_chrome_task_rstack` calls with the `last_comma` flag -/
def evsText (f : Fix) : Bool → List Ev → List Byte
  | _, [] => []
  | lc, e :: es => (if lc then b!",\n" else []) ++ evText f e ++ evsText f true es

/-- `dump_chrome_footer` -/
def footer (fixed : Bool) (version date : List Byte) (cmdline : Option (List Byte)) : List Byte :=
  b!"\n], \"displayTimeUnit\": \"ns\", \"metadata\": {\n" ++
  b!"\"version\":\"uftrace " ++ version ++ b!"\",\n" ++
  b!"\"recorded_time\":\"" ++ date ++ b!"\",\n" ++
  (match cmdline with
   | some c => b!"\"command_line\":\"" ++ (if fixed then escCmdline c else c) ++ b!"\"\n"
   | none => []) ++
  b!"} }\n"

structure Doc where
  exename : List Byte
  version : List Byte
  date : List Byte
  cmdline : Option (List Byte)
  tasks : List Task
  evs : List Ev

def chromeOutput (f : Fix) (d : Doc) : List Byte :=
  let h := header f.main (commOf d.exename) d.tasks
  h.1 ++ evsText f h.2 d.evs ++ footer f.main d.version d.date d.cmdline

/-- does the argument string of the event overrun `spec_buf`? -/
def argsOob (f : Fix) (e : Ev) : Bool :=
  match e.args with
  | none => false
  | some vs => (argString f.abuf f.asym (!e.entry) vs).oob

/-- does any event name overrun `name_buf`, or any argument string `spec_buf`
    (undefined behaviour in C)? -/
def chromeOob (f : Fix) (d : Doc) : Bool :=
  d.evs.any fun e => (escapeName f.main e.name).oob || argsOob f e

/-! ## a JSON recogniser (RFC 8259 grammar, ASCII only: bytes ≥ 0x80 are rejected,
    so acceptance does not depend on the encoding) -/

inductive SMode where
  | normal
  | esc
  | hex (n : Nat)        -- inside \u, n hex digits still to come
  deriving Repr, DecidableEq

inductive SRes where
  | close
  | cont (m : SMode)
  deriving Repr, DecidableEq

def isHex (c : Byte) : Bool :=
  (decide (48 ≤ c) && decide (c ≤ 57)) || (decide (65 ≤ c) && decide (c ≤ 70)) ||
  (decide (97 ≤ c) && decide (c ≤ 102))

/-- one byte inside a string -/
def strStep : SMode → Byte → Option SRes
  | .normal, c =>
    if c = 34 then some .close
    else if c = 92 then some (.cont .esc)
    else if c < 32 ∨ 127 < c then none
    else some (.cont .normal)
  | .esc, c =>
    if c = 34 ∨ c = 92 ∨ c = 47 ∨ c = 98 ∨ c = 102 ∨ c = 110 ∨ c = 114 ∨ c = 116 then
      some (.cont .normal)
    else if c = 117 then some (.cont (.hex 4))
    else none
  | .hex n, c =>
    if isHex c then some (.cont (if n ≤ 1 then .normal else .hex (n - 1))) else none

/-- run the string automaton over a string *body* (a closing quote is an error) -/
def bodyRun : SMode → List Byte → Option SMode
  | m, [] => some m
  | m, c :: cs =>
    match strStep m c with
    | some (.cont m') => bodyRun m' cs
    | _ => none

/-- what may stand between two double quotes -/
def validBody (bs : List Byte) : Bool := bodyRun .normal bs == some .normal

inductive Ctx where
  | obj | arr
  deriving Repr, DecidableEq

inductive Mode where
  | val | valOrEnd | keyOrEnd | key | colon | after
  | str (isKey : Bool) (m : SMode)
  | minus | zero | int | dot | frac | e | esign | exp
  | lit (rest : List Byte)
  deriving Repr, DecidableEq

structure St where
  mode : Mode
  stack : List Ctx
  deriving Repr, DecidableEq

def isWs (c : Byte) : Bool := c == 32 || c == 9 || c == 10 || c == 13
def isDigit (c : Byte) : Bool := decide (48 ≤ c) && decide (c ≤ 57)

def startValue (stk : List Ctx) (c : Byte) : Option St :=
  if c = 34 then some ⟨.str false .normal, stk⟩
  else if c = 123 then some ⟨.keyOrEnd, .obj :: stk⟩
  else if c = 91 then some ⟨.valOrEnd, .arr :: stk⟩
  else if c = 45 then some ⟨.minus, stk⟩
  else if c = 48 then some ⟨.zero, stk⟩
  else if isDigit c then some ⟨.int, stk⟩
  else if c = 116 then some ⟨.lit b!"rue", stk⟩
  else if c = 102 then some ⟨.lit b!"alse", stk⟩
  else if c = 110 then some ⟨.lit b!"ull", stk⟩
  else none

def afterValue (stk : List Ctx) (c : Byte) : Option St :=
  if isWs c then some ⟨.after, stk⟩
  else if c = 44 then
    match stk with
    | .obj :: _ => some ⟨.key, stk⟩
    | .arr :: _ => some ⟨.val, stk⟩
    | [] => none
  else if c = 125 then
    match stk with
    | .obj :: r => some ⟨.after, r⟩
    | _ => none
  else if c = 93 then
    match stk with
    | .arr :: r => some ⟨.after, r⟩
    | _ => none
  else none

def step (s : St) (c : Byte) : Option St :=
  match s.mode with
  | .val => if isWs c then some s else startValue s.stack c
  | .valOrEnd =>
    if isWs c then some s
    else if c = 93 then
      match s.stack with
      | .arr :: r => some ⟨.after, r⟩
      | _ => none
    else startValue s.stack c
  | .keyOrEnd =>
    if isWs c then some s
    else if c = 125 then
      match s.stack with
      | .obj :: r => some ⟨.after, r⟩
      | _ => none
    else if c = 34 then some ⟨.str true .normal, s.stack⟩
    else none
  | .key => if isWs c then some s else if c = 34 then some ⟨.str true .normal, s.stack⟩ else none
  | .colon => if isWs c then some s else if c = 58 then some ⟨.val, s.stack⟩ else none
  | .after => afterValue s.stack c
  | .str k m =>
    match strStep m c with
    | none => none
    | some .close => some ⟨if k then .colon else .after, s.stack⟩
    | some (.cont m') => some ⟨.str k m', s.stack⟩
  | .minus => if c = 48 then some ⟨.zero, s.stack⟩ else if isDigit c then some ⟨.int, s.stack⟩ else none
  | .zero =>
    if c = 46 then some ⟨.dot, s.stack⟩
    else if c = 101 ∨ c = 69 then some ⟨.e, s.stack⟩
    else afterValue s.stack c
  | .int =>
    if isDigit c then some s
    else if c = 46 then some ⟨.dot, s.stack⟩
    else if c = 101 ∨ c = 69 then some ⟨.e, s.stack⟩
    else afterValue s.stack c
  | .dot => if isDigit c then some ⟨.frac, s.stack⟩ else none
  | .frac =>
    if isDigit c then some s
    else if c = 101 ∨ c = 69 then some ⟨.e, s.stack⟩
    else afterValue s.stack c
  | .e => if c = 43 ∨ c = 45 then some ⟨.esign, s.stack⟩ else if isDigit c then some ⟨.exp, s.stack⟩ else none
  | .esign => if isDigit c then some ⟨.exp, s.stack⟩ else none
  | .exp => if isDigit c then some s else afterValue s.stack c
  | .lit [] => none
  | .lit (x :: r) => if c = x then some ⟨if r.isEmpty then .after else .lit r, s.stack⟩ else none

def run : St → List Byte → Option St
  | s, [] => some s
  | s, c :: cs =>
    match step s c with
    | some s' => run s' cs
    | none => none

def accepting (s : St) : Bool :=
  s.stack.isEmpty &&
  (match s.mode with
   | .after | .zero | .int | .frac | .exp => true
   | _ => false)

def init : St := ⟨.val, []⟩

/-- a complete JSON text -/
def validJson (bs : List Byte) : Bool :=
  match run init bs with
  | some s => accepting s
  | none => false

end Uft.Json
