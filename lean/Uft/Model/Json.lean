/-
C15 — `dump --chrome`: JSON escaping, the fixed 2048-byte name buffer, the
header / event / footer printers, and a byte-level JSON recogniser.

Anchors (uftrace working tree):
  cmds/replay.c:384 print_char, :391 print_args, :403 print_json_escaped_char
  cmds/dump.c:833 dump_chrome_header, :865 dump_chrome_task_rstack, :1002 dump_chrome_footer
  utils/utils.c:761 json_quote   (record side, cmds/info.c:194 fill_cmdline)

Bytes are `Nat` values (0..255 in every use; the hex formatter reduces mod 256 as
`%02hhx` does).  Core-only imports.
-/
namespace Uft.Json

/-- a byte value -/
local notation "Byte" => Nat

-- string literal -> list of byte values, expanded at elaboration time
open Lean in
macro:max "b!" s:str : term => do
  let bytes := s.getString.toUTF8.toList.map (·.toNat)
  let elems := bytes.toArray.map fun n => Syntax.mkNumLit (toString n)
  `(([$elems,*] : List Nat))

/-! ## the escaper -/

def hexDigit (n : Nat) : Byte := if n < 10 then 48 + n else 87 + n

/-- `isprint()` in the C locale -/
def isPrint (c : Byte) : Bool := decide (32 ≤ c) && decide (c ≤ 126)

/-- does `print_json_escaped_char` take the `print_char` branch (no length check)? -/
def viaChar (c : Byte) : Bool := isPrint c && c != 92 && c != 34

/-- port of `print_json_escaped_char` (cmds/replay.c:403): the characters it produces.
    Note the C literals: "\\\\n" is backslash backslash n. -/
def escapeChar (c : Byte) : List Byte :=
  if c = 10 then [92, 92, 110]
  else if c = 9 then [92, 92, 116]
  else if c = 92 then [92, 92]
  else if c = 34 then [92, 34]
  else if isPrint c then [c]
  else [92, 92, 120, hexDigit (c / 16 % 16), hexDigit (c % 16)]

def escapeStr (bs : List Byte) : List Byte := bs.flatMap escapeChar

/-- port of `json_quote` (utils/utils.c:761): only the double quote is escaped. -/
def jsonQuote : List Byte → List Byte
  | [] => []
  | c :: r => if c = 34 then 92 :: 34 :: jsonQuote r else c :: jsonQuote r

/-- repaired footer: the stored command line already went through `json_quote`, so a
    backslash directly followed by a quote is that function's escape; everything else
    goes through the escaper. -/
def escCmdline : List Byte → List Byte
  | [] => []
  | [c] => escapeChar c
  | c :: d :: r =>
    if c = 92 ∧ d = 34 then 92 :: 34 :: escCmdline r else escapeChar c ++ escCmdline (d :: r)

/-! ## `name_buf[2048]` and the two writers -/

def cap : Nat := 2048
def W : Nat := 18446744073709551616      -- 2^64: `len` is a size_t

def wrapSub (a b : Nat) : Nat := (a + W - b % W) % W

/-- the state of the escape loop of `dump_chrome_task_rstack` -/
structure NB where
  out : List Byte      -- the C string in name_buf so far (up to the first NUL stored)
  term : Bool          -- a NUL was stored inside: later stores do not extend the string
  pos : Nat            -- p - name_buf
  len : Nat            -- the size_t `len`
  oob : Bool           -- some store went to an index ≥ 2048
  deriving Repr, DecidableEq

def nbInit : NB := { out := [], term := false, pos := 0, len := cap - 1, oob := false }

/-- `print_char`: stores unconditionally -/
def printChar (b : NB) (c : Byte) : NB :=
  { out := if b.term then b.out else b.out ++ [c]
    term := b.term
    pos := b.pos + 1
    len := wrapSub b.len 1
    oob := b.oob || decide (cap ≤ b.pos) }

/-- `print_args` with a format that expands to `s`: vsnprintf(p, len, …) stores
    min(|s|, len-1) characters and a NUL (nothing when len = 0) and returns |s|;
    then `p += x; len -= x`. -/
def printArgs (b : NB) (s : List Byte) : NB :=
  if b.len = 0 then { b with pos := b.pos + s.length, len := wrapSub 0 s.length }
  else
    let k := min s.length (b.len - 1)
    { out := if b.term then b.out else b.out ++ s.take k
      term := b.term || decide (k < s.length)
      pos := b.pos + s.length
      len := wrapSub b.len s.length
      oob := b.oob || decide (cap ≤ b.pos + k) }

def putEsc (b : NB) (c : Byte) : NB :=
  if viaChar c then printChar b c else printArgs b (escapeChar c)

/-- the loop `for (i = 0; i < namelen; i++) print_json_escaped_char(&p, &len, name[i]);`
    `fixed`: with the proposed guard `if (len < 6) break;` in front of the call. -/
def nameLoop (fixed : Bool) : NB → List Byte → NB
  | b, [] => b
  | b, c :: cs => if fixed && decide (b.len < 6) then b else nameLoop fixed (putEsc b c) cs

/-- loop, then `*p = '\0';` -/
def escapeName (fixed : Bool) (name : List Byte) : NB :=
  let b := nameLoop fixed nbInit name
  { b with oob := b.oob || decide (cap ≤ b.pos) }

/-! ## numbers -/

def digit (n : Nat) : Byte := 48 + n % 10

/-- `%d` / `%lu` of a non-negative value (fuel: a number below `f` has at most `f` digits) -/
def decF : Nat → Nat → List Byte
  | 0, _ => []
  | f + 1, n => if n < 10 then [digit n] else decF f (n / 10) ++ [digit n]

def dec (n : Nat) : List Byte := decF (n + 1) n

/-- `%03d` of a value below 1000 -/
def pad3 (n : Nat) : List Byte := [digit (n / 100), digit (n / 10), digit n]

/-- `"%lu.%03d", time / 1000, time % 1000` -/
def tsText (t : Nat) : List Byte := dec (t / 1000) ++ [46] ++ pad3 (t % 1000)

/-! ## the printers -/

structure Task where
  tid : Nat
  pid : Nat
  deriving Repr, DecidableEq

/-- one call of `ops->task_rstack` for an ENTRY/EXIT record -/
structure Ev where
  entry : Bool
  tid : Nat
  pid : Nat
  name : List Byte
  time : Nat
  deriving Repr, DecidableEq

/-- `uftrace_basename` -/
def basename (p : List Byte) : List Byte :=
  p.foldl (fun acc c => if c = 47 then [] else acc ++ [c]) []

/-- `strncpy(t->comm, basename(exename), 16); comm[15] = 0` -/
def commOf (exename : List Byte) : List Byte := (basename exename).take 15

def metaLine (kind : List Byte) (tid : Nat) (comm : List Byte) : List Byte :=
  b!"{\"ts\":0,\"ph\":\"M\",\"pid\":" ++ dec tid ++ b!",\"name\":\"" ++ kind ++
  b!"\",\"args\":{\"name\":\"[" ++ dec tid ++ b!"] " ++ comm ++ b!"\"}}"

/-- `dump_chrome_header` as it is: comm printed with %s, every line followed by ",\n";
    returns the text and `last_comma` -/
def headerPre (comm : List Byte) (tasks : List Task) : List Byte × Bool :=
  (b!"{\"traceEvents\":[\n" ++
    tasks.flatMap (fun t => metaLine b!"process_name" t.tid comm ++ b!",\n" ++
                            metaLine b!"thread_name" t.tid comm ++ b!",\n"),
   false)

/-- repaired header: comm escaped, separators printed through `last_comma` -/
def headerFixLines (comm : List Byte) : Bool → List Task → List Byte × Bool
  | lc, [] => ([], lc)
  | lc, t :: ts =>
    let r := headerFixLines comm true ts
    ((if lc then b!",\n" else []) ++ metaLine b!"process_name" t.tid (escapeStr comm) ++ b!",\n" ++
       metaLine b!"thread_name" t.tid (escapeStr comm) ++ r.1, r.2)

def headerFix (comm : List Byte) (tasks : List Task) : List Byte × Bool :=
  let r := headerFixLines comm false tasks
  (b!"{\"traceEvents\":[\n" ++ r.1, r.2)

def header (fixed : Bool) (comm : List Byte) (tasks : List Task) : List Byte × Bool :=
  if fixed then headerFix comm tasks else headerPre comm tasks

/-- one event object (records without arguments) -/
def evText (fixed : Bool) (e : Ev) : List Byte :=
  b!"{\"ts\":" ++ tsText e.time ++ b!",\"ph\":\"" ++ [if e.entry then 66 else 69] ++
  b!"\",\"pid\":" ++
  (if e.pid = e.tid then dec e.tid else dec e.pid ++ b!",\"tid\":" ++ dec e.tid) ++
  b!",\"name\":\"" ++ (escapeName fixed e.name).out ++ b!"\"}"

/-- the sequence of `dump_chrome_task_rstack` calls with the `last_comma` flag -/
def evsText (fixed : Bool) : Bool → List Ev → List Byte
  | _, [] => []
  | lc, e :: es => (if lc then b!",\n" else []) ++ evText fixed e ++ evsText fixed true es

/-- `dump_chrome_footer` -/
def footer (fixed : Bool) (version date : List Byte) (cmdline : Option (List Byte)) : List Byte :=
  b!"\n], \"displayTimeUnit\": \"ns\", \"metadata\": {\n" ++
  b!"\"version\":\"uftrace " ++ version ++ b!"\",\n" ++
  b!"\"recorded_time\":\"" ++ date ++ b!"\",\n" ++
  (match cmdline with
   | some c => b!"\"command_line\":\"" ++ (if fixed then escCmdline c else c) ++ b!"\"\n"
   | none => []) ++
  b!"} }\n"

structure Doc where
  exename : List Byte
  version : List Byte
  date : List Byte
  cmdline : Option (List Byte)
  tasks : List Task
  evs : List Ev

def chromeOutput (fixed : Bool) (d : Doc) : List Byte :=
  let h := header fixed (commOf d.exename) d.tasks
  h.1 ++ evsText fixed h.2 d.evs ++ footer fixed d.version d.date d.cmdline

/-- does any event name overrun `name_buf` (undefined behaviour in C)? -/
def chromeOob (fixed : Bool) (d : Doc) : Bool :=
  d.evs.any fun e => (escapeName fixed e.name).oob

/-! ## a JSON recogniser (RFC 8259 grammar, ASCII only: bytes ≥ 0x80 are rejected,
    so acceptance does not depend on the encoding) -/

inductive SMode where
  | normal
  | esc
  | hex (n : Nat)        -- inside \u, n hex digits still to come
  deriving Repr, DecidableEq

inductive SRes where
  | close
  | cont (m : SMode)
  deriving Repr, DecidableEq

def isHex (c : Byte) : Bool :=
  (decide (48 ≤ c) && decide (c ≤ 57)) || (decide (65 ≤ c) && decide (c ≤ 70)) ||
  (decide (97 ≤ c) && decide (c ≤ 102))

/-- one byte inside a string -/
def strStep : SMode → Byte → Option SRes
  | .normal, c =>
    if c = 34 then some .close
    else if c = 92 then some (.cont .esc)
    else if c < 32 ∨ 127 < c then none
    else some (.cont .normal)
  | .esc, c =>
    if c = 34 ∨ c = 92 ∨ c = 47 ∨ c = 98 ∨ c = 102 ∨ c = 110 ∨ c = 114 ∨ c = 116 then
      some (.cont .normal)
    else if c = 117 then some (.cont (.hex 4))
    else none
  | .hex n, c =>
    if isHex c then some (.cont (if n ≤ 1 then .normal else .hex (n - 1))) else none

/-- run the string automaton over a string *body* (a closing quote is an error) -/
def bodyRun : SMode → List Byte → Option SMode
  | m, [] => some m
  | m, c :: cs =>
    match strStep m c with
    | some (.cont m') => bodyRun m' cs
    | _ => none

/-- what may stand between two double quotes -/
def validBody (bs : List Byte) : Bool := bodyRun .normal bs == some .normal

inductive Ctx where
  | obj | arr
  deriving Repr, DecidableEq

inductive Mode where
  | val | valOrEnd | keyOrEnd | key | colon | after
  | str (isKey : Bool) (m : SMode)
  | minus | zero | int | dot | frac | e | esign | exp
  | lit (rest : List Byte)
  deriving Repr, DecidableEq

structure St where
  mode : Mode
  stack : List Ctx
  deriving Repr, DecidableEq

def isWs (c : Byte) : Bool := c == 32 || c == 9 || c == 10 || c == 13
def isDigit (c : Byte) : Bool := decide (48 ≤ c) && decide (c ≤ 57)

def startValue (stk : List Ctx) (c : Byte) : Option St :=
  if c = 34 then some ⟨.str false .normal, stk⟩
  else if c = 123 then some ⟨.keyOrEnd, .obj :: stk⟩
  else if c = 91 then some ⟨.valOrEnd, .arr :: stk⟩
  else if c = 45 then some ⟨.minus, stk⟩
  else if c = 48 then some ⟨.zero, stk⟩
  else if isDigit c then some ⟨.int, stk⟩
  else if c = 116 then some ⟨.lit b!"rue", stk⟩
  else if c = 102 then some ⟨.lit b!"alse", stk⟩
  else if c = 110 then some ⟨.lit b!"ull", stk⟩
  else none

def afterValue (stk : List Ctx) (c : Byte) : Option St :=
  if isWs c then some ⟨.after, stk⟩
  else if c = 44 then
    match stk with
    | .obj :: _ => some ⟨.key, stk⟩
    | .arr :: _ => some ⟨.val, stk⟩
    | [] => none
  else if c = 125 then
    match stk with
    | .obj :: r => some ⟨.after, r⟩
    | _ => none
  else if c = 93 then
    match stk with
    | .arr :: r => some ⟨.after, r⟩
    | _ => none
  else none

def step (s : St) (c : Byte) : Option St :=
  match s.mode with
  | .val => if isWs c then some s else startValue s.stack c
  | .valOrEnd =>
    if isWs c then some s
    else if c = 93 then
      match s.stack with
      | .arr :: r => some ⟨.after, r⟩
      | _ => none
    else startValue s.stack c
  | .keyOrEnd =>
    if isWs c then some s
    else if c = 125 then
      match s.stack with
      | .obj :: r => some ⟨.after, r⟩
      | _ => none
    else if c = 34 then some ⟨.str true .normal, s.stack⟩
    else none
  | .key => if isWs c then some s else if c = 34 then some ⟨.str true .normal, s.stack⟩ else none
  | .colon => if isWs c then some s else if c = 58 then some ⟨.val, s.stack⟩ else none
  | .after => afterValue s.stack c
  | .str k m =>
    match strStep m c with
    | none => none
    | some .close => some ⟨if k then .colon else .after, s.stack⟩
    | some (.cont m') => some ⟨.str k m', s.stack⟩
  | .minus => if c = 48 then some ⟨.zero, s.stack⟩ else if isDigit c then some ⟨.int, s.stack⟩ else none
  | .zero =>
    if c = 46 then some ⟨.dot, s.stack⟩
    else if c = 101 ∨ c = 69 then some ⟨.e, s.stack⟩
    else afterValue s.stack c
  | .int =>
    if isDigit c then some s
    else if c = 46 then some ⟨.dot, s.stack⟩
    else if c = 101 ∨ c = 69 then some ⟨.e, s.stack⟩
    else afterValue s.stack c
  | .dot => if isDigit c then some ⟨.frac, s.stack⟩ else none
  | .frac =>
    if isDigit c then some s
    else if c = 101 ∨ c = 69 then some ⟨.e, s.stack⟩
    else afterValue s.stack c
  | .e => if c = 43 ∨ c = 45 then some ⟨.esign, s.stack⟩ else if isDigit c then some ⟨.exp, s.stack⟩ else none
  | .esign => if isDigit c then some ⟨.exp, s.stack⟩ else none
  | .exp => if isDigit c then some s else afterValue s.stack c
  | .lit [] => none
  | .lit (x :: r) => if c = x then some ⟨if r.isEmpty then .after else .lit r, s.stack⟩ else none

def run : St → List Byte → Option St
  | s, [] => some s
  | s, c :: cs =>
    match step s c with
    | some s' => run s' cs
    | none => none

def accepting (s : St) : Bool :=
  s.stack.isEmpty &&
  (match s.mode with
   | .after | .zero | .int | .frac | .exp => true
   | _ => false)

def init : St := ⟨.val, []⟩

/-- a complete JSON text -/
def validJson (bs : List Byte) : Bool :=
  match run init bs with
  | some s => accepting s
  | none => false

end Uft.Json
