import Uft.Model.Session
import Uft.Model.SymFile
/-
C10 — the record-time side of dlopen'ed libraries (libmcount/wrap.c).

Model of
  * `dlopen()`              (wrap.c:501)  `data.timestamp = mcount_gettime()` *before* `real_dlopen`,
                                           then `dl_iterate_phdr(dlopen_base_callback, &data)`
  * `dlopen_base_callback()`(wrap.c:73)   which loaded objects are reported with a DLOPEN message
                                           and get a `struct uftrace_mmap` in `mcount_sym_info`
  * `send_dlopen_msg()`     (wrap.c:29)   the message carries `data.timestamp` and `dlpi_addr`
  * `dlclose()`             (wrap.c:547)  `map->mod = NULL` for the handle's map

and of the part of the world the wrapper interacts with: a clock that never goes back
(time only advances through `Ev.tick dt`, `dt : Nat`), the loader's list of objects in load
order (new objects are appended, `dl_iterate_phdr` order; `dlpi_subs` counts the unloads), the
records written by `mcount_entry` with the time of the call.

Two switches:
  * `stampAtSend` — `false` is the code: the message carries the time taken before the real
    dlopen.  `true` is the variant in which `send_dlopen_msg` reads the clock itself (as
    `send_session_msg` does); the witness theorem shows why that is wrong.
  * `fixed` — `false` is the code as it is: an object is reported iff its `dlpi_name` contains the
    `filename` argument and no map has a basename starting with the object's basename
    (`find_map_by_name`); dlclose() marks the first live map of the handle.  This misses the
    dependencies a dlopen() brings in, a second library with the same basename (or a basename that
    is a prefix of a known one) and a library that is opened again after dlclose() (finding
    C10-DLREPORT, witnesses in Props/C10.lean).  `true` is proposed_fixes/C10-DLREPORT.diff: an
    object is reported iff it was appended to the loader's list after the timestamp was taken (its
    index is at least the number of objects counted before the real dlopen, corrected by the
    unloads since) and its first address is not inside a session map or a map of a dlopen() that
    is still in effect; dlclose() marks the map of every object that is no longer loaded.

Several dlopen() calls can be in progress at once (a constructor that calls dlopen, threads):
each has its own `Win` (the `struct dlopen_base_data` on its C stack), identified by a number.
Ghost fields (not in C): `Obj.born`, `Obj.id` (the number of the load), `Msg.obj` (the object the
message was sent for), `Rec.objs`, `St.nloads`, `St.lastRead` (the largest clock value read so far
by `mcount_entry` or `dlopen`).  `Obj.syms` is not part of `dl_phdr_info` either: it is the symbol
table of the object's file, which the analysis side loads for the library's DLOP line.
Not modelled: the early returns of the wrappers (no thread data, recursion guard taken), the
dynamic patching and trigger re-initialisation done for a reported object, `dlopen(NULL)`.
Core-only.
-/
namespace Uft.DlRecord
open Uft.Symtab Uft.SymFile

/-- one entry of the loader's list (`struct dl_phdr_info`) -/
structure Obj where
  name : List Char          -- dlpi_name
  real : List Char          -- realpath(dlpi_name)
  bias : Nat                -- dlpi_addr
  start : Nat               -- dlpi_addr + p_vaddr of the first PT_LOAD
  stop : Nat                -- end of the first executable PT_LOAD
  syms : List Sym           -- the symbol table of the file (addresses relative to `bias`): what
                            -- `uftrace record` saves as <basename>.sym and the analysis side loads
  born : Nat                -- ghost: time at which the loader mapped it
  id : Nat                  -- ghost: how many objects the loader had mapped before this one
deriving DecidableEq, Repr

/-- `struct uftrace_mmap` in `mcount_sym_info.maps`; `handle = none` for the maps read from
    /proc/self/maps at start-up; `live = false` ⇔ `mod == NULL` -/
structure MMap where
  name : List Char
  start : Nat
  stop : Nat
  handle : Option Nat
  live : Bool
deriving DecidableEq, Repr

/-- `struct dlopen_base_data` of a dlopen() call in progress -/
structure Win where
  id : Nat
  ts : Nat                  -- data.timestamp
  fname : List Char         -- data.filename
  nrBefore : Nat            -- (fix) objects counted before the real dlopen
  subsBefore : Nat          -- (fix) dlpi_subs at that time
deriving DecidableEq, Repr

/-- `struct uftrace_msg_dlopen` as written to task.txt -/
structure Msg where
  time : Nat
  bias : Nat                -- base_addr
  name : List Char          -- libname
  obj : Obj                 -- ghost: the object it was sent for
deriving DecidableEq, Repr

/-- a record of `mcount_entry` -/
structure Rec where
  time : Nat
  addr : Nat
  objs : List Obj           -- ghost: the loader's list when the call was made
deriving Repr

structure Cfg where
  stampAtSend : Bool := false
  fixed : Bool := false
deriving DecidableEq, Repr

structure St where
  now : Nat := 0
  loaded : List Obj := []
  subs : Nat := 0
  maps : List MMap := []    -- newest first
  wins : List Win := []
  msgs : List Msg := []     -- oldest first
  recs : List Rec := []     -- oldest first
  nloads : Nat := 0         -- ghost
  lastRead : Nat := 0       -- ghost
deriving Repr

inductive Ev where
  | tick (dt : Nat)
  | call (addr : Nat)
  | enter (w : Nat) (fname : List Char)
  | load (name real : List Char) (bias start stop : Nat) (syms : List Sym)
  | leave (w : Nat) (handle : Nat)
  | close (handle : Nat) (gone : List Nat)     -- starts of the objects the real dlclose unmaps
deriving Repr

/-! ### the report decision -/

/-- `strstr(s, pat) != NULL` -/
def hasInfix (pat : List Char) : List Char → Bool
  | [] => pat.isEmpty
  | c :: r => pat.isPrefixOf (c :: r) || hasInfix pat r

def vdsoName : List Char := "linux-vdso.so.1".toList

/-- `find_map_by_name(sinfo, prefix) != NULL`: a map whose basename starts with `prefix` -/
def findMapByName (maps : List MMap) (pre : List Char) : Bool :=
  maps.any (fun m => pre.isPrefixOf (basename m.name))

/-- (fix) `dlopen_addr_is_known(addr)` -/
def addrKnown (maps : List MMap) (a : Nat) : Bool :=
  maps.any (fun m => (m.handle.isNone || m.live) && decide (m.start ≤ a) && decide (a < m.stop))

/-- does `dlopen_base_callback` report the object at position `idx` of the loader's list? -/
def reports (cfg : Cfg) (win : Win) (subs : Nat) (maps : List MMap) (idx : Nat) (o : Obj) : Bool :=
  if o.name.isEmpty || o.name == vdsoName then false
  else if cfg.fixed then
    !(decide (idx + (subs - win.subsBefore) < win.nrBefore)) && !(addrKnown maps o.start)
  else
    hasInfix win.fname o.name && !(findMapByName maps (basename o.real))

/-- the message and the map of a reported object -/
def mkMsg (cfg : Cfg) (win : Win) (now : Nat) (o : Obj) : Msg :=
  { time := if cfg.stampAtSend then now else win.ts, bias := o.bias, name := o.name, obj := o }

def mkMap (h : Nat) (o : Obj) : MMap :=
  { name := o.real, start := o.start, stop := o.stop, handle := some h, live := true }

/-- `dl_iterate_phdr(dlopen_base_callback, &data)` from position `idx` on -/
def reportLoop (cfg : Cfg) (win : Win) (h now subs : Nat) :
    Nat → List Obj → List MMap → List Msg → List MMap × List Msg
  | _, [], maps, msgs => (maps, msgs)
  | idx, o :: r, maps, msgs =>
    if reports cfg win subs maps idx o then
      reportLoop cfg win h now subs (idx + 1) r (mkMap h o :: maps) (msgs ++ [mkMsg cfg win now o])
    else reportLoop cfg win h now subs (idx + 1) r maps msgs

/-- `dlclose()` as coded: the first live map of the handle is marked (`map->mod = NULL`) -/
def markClosed (h : Nat) : List MMap → List MMap
  | [] => []
  | m :: r =>
    if m.live ∧ m.handle = some h then { m with live := false } :: r
    else m :: markClosed h r

/-- (fix) `dlclose()`: every live dlopen() map whose object is not in the loader's list any more -/
def markGone (loaded : List Obj) (maps : List MMap) : List MMap :=
  maps.map (fun m =>
    if m.live && m.handle.isSome && !(loaded.any (fun o => o.start == m.start)) then
      { m with live := false }
    else m)

def findWin (wins : List Win) (w : Nat) : Option Win := wins.find? (fun x => x.id == w)

def step (cfg : Cfg) (st : St) : Ev → St
  | .tick dt => { st with now := st.now + dt }
  | .call a =>
    { st with recs := st.recs ++ [{ time := st.now, addr := a, objs := st.loaded }],
              lastRead := st.now }
  | .enter w f =>
    { st with wins := { id := w, ts := st.now, fname := f, nrBefore := st.loaded.length,
                        subsBefore := st.subs } :: st.wins,
              lastRead := st.now }
  | .load n r b s e t =>
    { st with loaded := st.loaded ++ [{ name := n, real := r, bias := b, start := s, stop := e,
                                        syms := t, born := st.now, id := st.nloads }],
              nloads := st.nloads + 1 }
  | .leave w h =>
    match findWin st.wins w with
    | none => st
    | some win =>
      let res := reportLoop cfg win h st.now st.subs 0 st.loaded st.maps st.msgs
      { st with maps := res.1, msgs := res.2, wins := st.wins.filter (fun x => x.id != w) }
  | .close h gone =>
    let rest := st.loaded.filter (fun o => !(gone.contains o.start))
    { st with loaded := rest,
              subs := st.subs + (st.loaded.filter (fun o => gone.contains o.start)).length,
              maps := if cfg.fixed then markGone rest st.maps else markClosed h st.maps }

def run (cfg : Cfg) (st : St) (evs : List Ev) : St := evs.foldl (step cfg) st

/-! ### what the analysis side makes of the messages

Each message becomes an entry of the session's dlopen list (`session_add_dlopen`, in file
order) with the library's symbol table, loaded at the message's `base_addr`. -/

def libOf (m : Msg) : Uft.Session.DlLib :=
  { time := m.time, base := m.bias, syms := m.obj.syms }

def dlList (msgs : List Msg) : List Uft.Session.DlLib :=
  msgs.foldl (fun acc m => Uft.Session.addDlopen acc (libOf m)) []

/-- the symbol under which a record is shown (`none` = raw address, module [unknown]):
    `session_find_dlsym(sess, time, addr)` -/
def shownIn (msgs : List Msg) (t a : Nat) : Option Sym :=
  Uft.Session.findDlsym (dlList msgs) t a

end Uft.DlRecord
