import Uft.Gen.PatchTables
/-
C14 — model of the x86_64 dynamic patcher without capstone:
  arch/x86_64/mcount-dynamic.c  patch_fentry_code (:261), get_target_addr (:256),
                                mcount_patch_func (:591, the size rule),
                                unpatch_func (:534), unpatch_fentry_func (:560),
                                unpatch_mcount_func (:578), mcount_unpatch_func (:629)
                                (`Cfg.fixed`, `Cfg.skipEndbr`: false = the code as it is —
                                unpatch_func overwrites any `e8` / `ff 15`, finding
                                C14-UNPATCH-ANY-CALL; unpatch_fentry_func does not skip
                                endbr64, finding C14-UNPATCH-ENDBR — true = the proposed
                                repairs, proposed_fixes/C14-UNPATCH-*.diff),
                                mcount_setup_trampoline (:26),
                                mcount_cleanup_trampoline (:94),
                                the signature scan of mcount_arch_find_module (:208)
                                (`detectTypeG fixed`: fixed = false is the code as it
                                is — it does not skip endbr64, finding "endbr64 + NOP
                                module is classified DYNAMIC_NONE"; fixed = true is the
                                proposed repair)
  libmcount/dynamic.c           skip_sym (:461), patch_normal_func_matched (:552),
                                patch_patchable_func_matched (:500),
                                do_dynamic_update (:600), freeze_dynamic_update (:631)

A module's memory is `code : List UInt8`, index i = address `start + i`
(`start` = map->start; symbol addresses are relative to it, as in the code).
Reads are `getD … 0`, writes are `List.set` (both total; an access outside the
list is outside the model — in C it is outside the mapping).
Byte tables come from Uft/Gen/PatchTables.lean (generated from the C source).

Core-only imports: this file is linked into the `uvmodel` driver.
-/
namespace Uft.Patch
open Uft.Gen.PatchTables

abbrev Code := List UInt8

def rd (c : Code) (i : Nat) : UInt8 := c.getD i 0

/-- `memcmp(c + o, p, |p|) == 0` -/
def matchAt (c : Code) (o : Nat) : List UInt8 → Bool
  | [] => true
  | b :: bs => (rd c o == b) && matchAt c (o + 1) bs

/-- `memcpy(c + o, bs, |bs|)` -/
def writeAt (c : Code) (o : Nat) : List UInt8 → Code
  | [] => c
  | b :: bs => writeAt (c.set o b) (o + 1) bs

/-- INSTRUMENT_SUCCESS / FAILED / SKIPPED -/
inductive Res where
  | success | failed | skipped
  deriving DecidableEq, Repr

def Res.toInt : Res → Int
  | .success => INSTRUMENT_SUCCESS
  | .failed => INSTRUMENT_FAILED
  | .skipped => INSTRUMENT_SKIPPED

def le32 (n : Nat) : List UInt8 :=
  [UInt8.ofNat (n % 256), UInt8.ofNat (n / 256 % 256), UInt8.ofNat (n / 65536 % 256),
   UInt8.ofNat (n / 16777216 % 256)]

def le64 (n : Nat) : List UInt8 := le32 (n % 4294967296) ++ le32 (n / 4294967296 % 4294967296)

/-- get_target_addr (64-bit unsigned arithmetic) assigned to `unsigned int target_addr`. -/
def targetAddr (tramp insn : Nat) : Nat :=
  ((tramp % 2 ^ 64 + 2 ^ 64 - (insn + CALL_INSN_SIZE) % 2 ^ 64) % 2 ^ 64) % 2 ^ 32

/-- the four memcmp's of patch_fentry_code -/
def isNopPrologue (c : Code) (o : Nat) : Bool :=
  matchAt c o patchable_gcc_nop || matchAt c o patchable_clang_nop ||
  matchAt c o fentry_nop_patt1 || matchAt c o fentry_nop_patt2

/-- where patch_fentry_code looks: after an optional endbr64 -/
def prologueOff (c : Code) (a : Nat) : Nat :=
  if matchAt c a endbr64 then a + endbr64.length else a

/-- the `call rel32` written by patch_fentry_code -/
def callInsn (t : Nat) : List UInt8 := 0xe8 :: le32 t

/-- patch_fentry_code(mdi, sym): `a` = sym->addr, `start` = mdi->map->start,
    `tramp` = mdi->trampoline. -/
def patchFentry (c : Code) (start a tramp : Nat) : Code × Res :=
  let o := prologueOff c a
  if !isNopPrologue c o then (c, .skipped) else
  let t := targetAddr tramp (start + o)
  if t = 0 then (c, .skipped) else
  (writeAt c o (callInsn t), .success)

/-- enum mcount_dynamic_type -/
inductive DynType where
  | none | pg | fentry | fentryNop | xray | patchable
  deriving DecidableEq, Repr

/-- the size rule of mcount_patch_func -/
def effMinSize (minSize : Nat) : Nat :=
  if minSize < CALL_INSN_SIZE + 1 then CALL_INSN_SIZE + 1 else minSize

/-- mcount_patch_func.  DYNAMIC_NONE goes to patch_normal_func whose
    disasm_check_insns is the no-capstone stub (INSTRUMENT_FAILED, nothing
    written).  DYNAMIC_XRAY is outside the model (no xray map: the loop body never
    runs and the initial `ret = -2` is returned). -/
def patchFunc (ty : DynType) (minSize symSize : Nat) (c : Code) (start a tramp : Nat) : Code × Res :=
  if symSize < effMinSize minSize then (c, .skipped) else
  match ty with
  | .fentryNop => patchFentry c start a tramp
  | .patchable => patchFentry c start a tramp
  | .none => (c, .failed)
  | .xray => (c, .skipped)
  | .pg => (c, .skipped)
  | .fentry => (c, .skipped)

/-- unpatch_func(insn) as it is in the code: any `e8` / `ff 15` is overwritten
    (= `unpatchAtG` with `fixed = false`, see `unpatchAtG_false`) -/
def unpatchAt (c : Code) (o : Nat) : Code × Res :=
  if rd c o == 0xe8 then (writeAt c o unpatch_nop5, .success)
  else if rd c o == 0xff && rd c (o + 1) == 0x15 then (writeAt c o unpatch_nop6, .success)
  else (c, .skipped)

/-- mcount_unpatch_func; `loc` = result of the bsearch over __mcount_loc for
    DYNAMIC_PG (none when there is no such section or no entry inside the symbol). -/
def unpatchFunc (ty : DynType) (c : Code) (a : Nat) (loc : Option Nat) : Code × Res :=
  match ty with
  | .fentry => unpatchAt c a
  | .patchable => unpatchAt c a
  | .pg => (match loc with
            | some l => unpatchAt c l
            | none => (c, .skipped))
  | _ => (c, .skipped)

/-! ### the per-module loops of libmcount/dynamic.c -/

structure Sym where
  name : String
  addr : Nat
  size : Nat
  isFunc : Bool        -- type ∈ {LOCAL_FUNC, GLOBAL_FUNC, WEAK_FUNC}
  isPlt : Bool := false  -- type = ST_PLT_FUNC (a PLT entry merged in from the dynamic symbols)
  deriving Repr, DecidableEq

def csuSkipSyms : List String := ["_start", "__libc_csu_init", "__libc_csu_fini"]

/-- skip_sym -/
def skipSym (s : Sym) : Bool := csuSkipSyms.contains s.name || !s.isFunc

structure Stats where
  total : Nat := 0
  failed : Nat := 0
  skipped : Nat := 0
  noMatch : Nat := 0
  deriving Repr, DecidableEq

/-- per-module constants seen by the loops -/
structure Cfg where
  ty : DynType
  minSize : Nat
  start : Nat
  tramp : Nat
  locs : List Nat      -- mdi->patch_target as relative addresses
  /-- false = unpatch_func as it is (any `e8` / `ff 15` is overwritten: finding
      C14-UNPATCH-ANY-CALL); true = the proposed repair (the call must enter the tracer) -/
  fixed : Bool := true
  /-- false = unpatch_fentry_func as it is (it looks at the first byte of the symbol, so a
      function that starts with endbr64 is never unpatched: finding C14-UNPATCH-ENDBR);
      true = the proposed repair (skip an endbr64 exactly like patch_fentry_code) -/
  skipEndbr : Bool := true
  mapLen : Nat := 0          -- map->end - map->start
  textLo : Nat := 0          -- mdi->text_addr - map->start
  textHi : Nat := 0          -- mdi->text_addr + mdi->text_size - map->start
  symtab : List Sym := []    -- map->mod->symtab (what find_sym searches)
  entryFuncs : List Nat := []  -- addresses of __fentry__ and mcount inside libmcount

structure LoopSt where
  code : Code
  stats : Stats

def bumpStats (st : Stats) : Res → Stats
  | .failed => { st with failed := st.failed + 1, total := st.total + 1 }
  | .skipped => { st with skipped := st.skipped + 1, total := st.total + 1 }
  | .success => { st with total := st.total + 1 }

/-- bsearch(sym, mcount_loc, …, cmp_loc): an entry inside [addr, addr+size) -/
def findLoc (locs : List Nat) (s : Sym) : Option Nat :=
  locs.find? fun l => s.addr ≤ l && l < s.addr + s.size

/-- find_sym(symtab, addr) -/
def findSym (syms : List Sym) (a : Nat) : Option Sym :=
  syms.find? fun s => s.addr ≤ a && a < s.addr + s.size

/-! ### unpatch with the call-target test (`fixed = true`: proposed repair of
    finding C14-UNPATCH-ANY-CALL; `fixed = false`: the code as it is) -/

/-- little-endian loads from the image (`memcpy(&x, p, sizeof(x))`) -/
def rd32 (c : Code) (o : Nat) : Nat :=
  (rd c o).toNat + 256 * (rd c (o + 1)).toNat + 65536 * (rd c (o + 2)).toNat +
    16777216 * (rd c (o + 3)).toNat

def rd64 (c : Code) (o : Nat) : Nat := rd32 c o + 4294967296 * rd32 c (o + 4)

/-- `x + (int32_t)d` in `unsigned long` arithmetic (d = the 32-bit field, x < 2^64) -/
def addS32 (x d : Nat) : Nat :=
  if d < 2 ^ 31 then (x + d) % 2 ^ 64 else (x + 2 ^ 64 - (2 ^ 32 - d)) % 2 ^ 64

/-- is_trace_entry_name -/
def entryNames : List String := ["__fentry__", "mcount", "_mcount"]

/-- where the `call rel32` at offset `o` goes (absolute, 64-bit wrap) -/
def callTarget (cfg : Cfg) (c : Code) (o : Nat) : Nat :=
  addS32 ((cfg.start + o + CALL_INSN_SIZE) % 2 ^ 64) (rd32 c (o + 1))

/-- calls_trace_entry for `e8 rel32`: the target is this module's trampoline, or
    find_sym says it lies in a PLT entry named __fentry__ / mcount / _mcount -/
def callsEntryDirect (cfg : Cfg) (c : Code) (o : Nat) : Bool :=
  let target := callTarget cfg c o
  (cfg.tramp != 0 && target == cfg.tramp) ||
  (match findSym cfg.symtab ((target + 2 ^ 64 - cfg.start % 2 ^ 64) % 2 ^ 64) with
   | some s => s.isPlt && entryNames.contains s.name
   | none => false)

/-- the GOT slot used by the `call *disp32(%rip)` at offset `o` (absolute) -/
def gotSlot (cfg : Cfg) (c : Code) (o : Nat) : Nat :=
  addS32 ((cfg.start + o + 6) % 2 ^ 64) (rd32 c (o + 2))

/-- calls_trace_entry for `ff 15 disp32`: the slot lies in this module's mapping,
    entirely outside the code segment, and holds the address of __fentry__ / mcount -/
def callsEntryGot (cfg : Cfg) (c : Code) (o : Nat) : Bool :=
  let slot := gotSlot cfg c o
  let mend := cfg.start + cfg.mapLen
  if slot < cfg.start ∨ mend ≤ slot ∨ mend - slot < 8 then false else
  let rel := slot - cfg.start
  if cfg.textLo < rel + 8 ∧ rel < cfg.textHi then false else
  cfg.entryFuncs.contains (rd64 c rel)

/-- unpatch_func(mdi, insn) -/
def unpatchAtG (cfg : Cfg) (c : Code) (o : Nat) : Code × Res :=
  if rd c o == 0xe8 then
    if cfg.fixed && !callsEntryDirect cfg c o then (c, .skipped)
    else (writeAt c o unpatch_nop5, .success)
  else if rd c o == 0xff && rd c (o + 1) == 0x15 then
    if cfg.fixed && !callsEntryGot cfg c o then (c, .skipped)
    else (writeAt c o unpatch_nop6, .success)
  else (c, .skipped)

/-- where unpatch_fentry_func looks: the first byte of the symbol in the code as it
    is, after an optional endbr64 in the repaired code -/
def unpatchSite (cfg : Cfg) (c : Code) (a : Nat) : Nat :=
  if cfg.skipEndbr then prologueOff c a else a

/-- mcount_unpatch_func (see `unpatchFunc`) with the call-target test and the endbr64 skip -/
def unpatchFuncG (cfg : Cfg) (c : Code) (a : Nat) (loc : Option Nat) : Code × Res :=
  match cfg.ty with
  | .fentry => unpatchAtG cfg c (unpatchSite cfg c a)
  | .patchable => unpatchAtG cfg c (unpatchSite cfg c a)
  | .pg => (match loc with
            | some l => unpatchAtG cfg c l
            | none => (c, .skipped))
  | _ => (c, .skipped)

/-- the code effect of one loop iteration once the verdict is known -/
def stepCode (cfg : Cfg) (v : Option Bool) (c : Code) (s : Sym) : Code × Option Res :=
  match v with
  | none => (c, none)
  | some true =>
    let r := patchFunc cfg.ty cfg.minSize s.size c cfg.start s.addr cfg.tramp
    (r.1, some r.2)
  | some false => ((unpatchFuncG cfg c s.addr (findLoc cfg.locs s)).1, none)

/-- `match … mcount_patch_func_with_stats / mcount_unpatch_func` for one symbol -/
def stepSym (cfg : Cfg) (verdict : String → Option Bool) (st : LoopSt) (s : Sym) : LoopSt :=
  let r := stepCode cfg (verdict s.name) st.code s
  { code := r.1,
    stats := match r.2 with
             | some res => bumpStats st.stats res
             | none => st.stats }

/-- the symbols a loop acts on, in order -/
def runSyms (cfg : Cfg) (verdict : String → Option Bool) (st : LoopSt) (syms : List Sym) : LoopSt :=
  syms.foldl (stepSym cfg verdict) st

def hexDigit (n : Nat) : Char :=
  if n < 10 then Char.ofNat (n + 48) else Char.ofNat (n - 10 + 97)

def hexDigitsAux : Nat → Nat → List Char → List Char
  | 0, _, acc => acc
  | fuel + 1, n, acc =>
    if n < 16 then hexDigit n :: acc else hexDigitsAux fuel (n / 16) (hexDigit (n % 16) :: acc)

/-- `snprintf("%lx")` -/
def toHex (n : Nat) : String := String.ofList (hexDigitsAux 17 n [])

/-- patch_patchable_func_matched: resolve each __patchable_function_entries
    location to the symbol acted on (a fake `<addr>` symbol of size UINT_MAX when
    find_sym fails; skip_sym'd symbols are dropped). -/
def resolveLocs (syms : List Sym) (locs : List Nat) : List Sym :=
  locs.filterMap fun l =>
    match findSym syms l with
    | none => some { name := "<" ++ toHex l ++ ">", addr := l, size := 4294967295, isFunc := true }
    | some s => if skipSym s then none else some s

/-- the list of symbols patch_func_matched acts on -/
def targets (ty : DynType) (syms : List Sym) (locs : List Nat) : List Sym :=
  if ty = .patchable then resolveLocs syms locs else syms.filter (fun s => !skipSym s)

/-- patch_func_matched(mdi, map) -/
def patchFuncMatched (cfg : Cfg) (verdict : String → Option Bool) (syms : List Sym) (st : LoopSt) :
    LoopSt :=
  let ts := targets cfg.ty syms cfg.locs
  let st' := runSyms cfg verdict st ts
  if ts.isEmpty then { st' with stats := { st'.stats with noMatch := st'.stats.noMatch + 1 } } else st'

/-! ### page permissions: mcount_setup_trampoline / mcount_cleanup_trampoline -/

structure Perm where
  r : Bool
  w : Bool
  x : Bool
  deriving DecidableEq, Repr

def Perm.rwx : Perm := ⟨true, true, true⟩
def Perm.rx : Perm := ⟨true, false, true⟩

/-- page number → protection -/
abbrev Pages := Nat → Perm

def alignUp (n a : Nat) : Nat := (n + a - 1) / a * a

/-- the pages touched by `mprotect(PAGE_ADDR(addr), PAGE_LEN(addr, size), …)` -/
def firstPage (addr : Nat) : Nat := addr / PAGE_SIZE
def endPage (addr size : Nat) : Nat := (addr + size + PAGE_SIZE - 1) / PAGE_SIZE

def setRange (pg : Pages) (lo hi : Nat) (p : Perm) : Pages :=
  fun n => if lo ≤ n ∧ n < hi then p else pg n

def mprotectText (pg : Pages) (textAddr textSize : Nat) (p : Perm) : Pages :=
  setRange pg (firstPage textAddr) (endPage textAddr textSize) p

/-- struct mcount_dynamic_info plus the module's memory and symbols -/
structure Module where
  libname : String           -- uftrace_basename(map->libname)
  ty : DynType
  start : Nat
  textAddr : Nat
  textSize : Nat
  trampoline : Nat := 0
  code : Code
  syms : List Sym
  locs : List Nat
  setupFails : Bool := false -- fault oracle: the mprotect of setup fails
  mapLen : Nat := 0          -- map->end - map->start
  /-- process-wide constants, carried per module to keep the loop signatures:
      `unpatchFixed` / `unpatchEndbr` = which unpatch_func / unpatch_fentry_func is modelled
      (see `Cfg.fixed`, `Cfg.skipEndbr`),
      `mcountAddr` = address of libmcount's `mcount` (that of `__fentry__` is the
      `fentryAddr` parameter of the update functions) -/
  unpatchFixed : Bool := true
  unpatchEndbr : Bool := true
  mcountAddr : Nat := 0

/-- mcount_setup_trampoline for DYNAMIC_FENTRY_NOP / DYNAMIC_PATCHABLE (other
    types: same placement and protection; NONE without capstone writes nothing;
    XRAY is outside the model).  Returns the updated mdi/memory, pages and the
    return value (true = 0, false = -1). -/
def setupTrampoline (fentryAddr : Nat) (m : Module) (pg : Pages) : Module × Pages × Bool :=
  let tend := m.textAddr + m.textSize
  let t0 := alignUp tend PAGE_SIZE - TRAMPOLINE_SIZE
  let grow := t0 < tend
  let tr := if grow then t0 + TRAMPOLINE_SIZE else t0
  let tsize := if grow then m.textSize + PAGE_SIZE else m.textSize
  -- mmap(trampoline, PAGE_SIZE, RWX, MAP_FIXED_NOREPLACE|MAP_PRIVATE|MAP_ANONYMOUS)
  let pg1 := if grow then setRange pg (tr / PAGE_SIZE) (tr / PAGE_SIZE + 1) Perm.rwx else pg
  let m1 := { m with trampoline := tr, textSize := tsize }
  if m.setupFails then (m1, pg1, false) else
  let pg2 := mprotectText pg1 m.textAddr tsize Perm.rwx
  let code :=
    if m.ty = .fentryNop ∨ m.ty = .patchable then
      writeAt m.code (tr - m.start) (trampoline_jmp ++ le64 fentryAddr)
    else m.code
  ({ m1 with code := code }, pg2, true)

/-- mcount_cleanup_trampoline -/
def cleanupTrampoline (m : Module) (pg : Pages) : Pages :=
  mprotectText pg m.textAddr m.textSize Perm.rx

structure World where
  mods : List Module
  pages : Pages
  stats : Stats

/-- one iteration of the for_each_map loop of do_dynamic_update:
    setup_trampoline(map) then patch_func_matched. -/
def updateModule (fentryAddr minSize : Nat) (verdict : Module → String → Option Bool)
    (m : Module) (pg : Pages) (st : Stats) : Module × Pages × Stats :=
  let r := if m.trampoline = 0 then setupTrampoline fentryAddr m pg else (m, pg, true)
  let m1 := r.1
  if !r.2.2 then (m1, r.2.1, st) else
  let cfg : Cfg := { ty := m1.ty, minSize := minSize, start := m1.start, tramp := m1.trampoline,
                     locs := m1.locs, fixed := m1.unpatchFixed, skipEndbr := m1.unpatchEndbr,
                     mapLen := m1.mapLen,
                     textLo := m1.textAddr - m1.start,
                     textHi := m1.textAddr - m1.start + m1.textSize,
                     symtab := m1.syms, entryFuncs := [fentryAddr, m1.mcountAddr] }
  let ls := patchFuncMatched cfg (verdict m1) m1.syms { code := m1.code, stats := st }
  ({ m1 with code := ls.code }, r.2.1, ls.stats)

def updateAll (fentryAddr minSize : Nat) (verdict : Module → String → Option Bool) :
    List Module → Pages → Stats → List Module × Pages × Stats
  | [], pg, st => ([], pg, st)
  | m :: rest, pg, st =>
    let r := updateModule fentryAddr minSize verdict m pg st
    let r2 := updateAll fentryAddr minSize verdict rest r.2.1 r.2.2
    (r.1 :: r2.1, r2.2.1, r2.2.2)

/-- freeze_dynamic_update: mcount_cleanup_trampoline for every mdi -/
def freezeAll : List Module → Pages → Pages
  | [], pg => pg
  | m :: rest, pg => freezeAll rest (cleanupTrampoline m pg)

/-- do_dynamic_update (state before the freeze) -/
def doDynamicUpdate (fentryAddr minSize : Nat) (verdict : Module → String → Option Bool)
    (w : World) : World :=
  let r := updateAll fentryAddr minSize verdict w.mods w.pages w.stats
  { mods := r.1, pages := r.2.1, stats := r.2.2 }

/-- mcount_dynamic_update = do_dynamic_update; freeze_dynamic_update -/
def dynamicUpdate (fentryAddr minSize : Nat) (verdict : Module → String → Option Bool)
    (w : World) : World :=
  let w1 := doDynamicUpdate fentryAddr minSize verdict w
  { w1 with pages := freezeAll w1.mods w1.pages }

/-! ### module type detection: the signature scan of mcount_arch_find_module -/

/-- a symtab entry as the scan sees it; `lg` = type is LOCAL_FUNC or GLOBAL_FUNC
    (weak functions are not looked at) -/
structure DSym where
  name : String
  addr : Nat
  lg : Bool
  deriving Repr, DecidableEq

/-- one iteration of the loop at arch/x86_64/mcount-dynamic.c:208: symbols whose
    name starts with '_' are skipped; a hit is one of the four NOP patterns at the
    symbol's address.  The code as it is (`fixed = false`) compares at the very
    first byte; the repaired code (`fixed = true`) first skips an endbr64, exactly
    like patch_fentry_code does. -/
def scanHit (fixed : Bool) (c : Code) (s : DSym) : Bool :=
  s.lg && !(s.name.toList.head? == some '_') &&
    isNopPrologue c (if fixed then prologueOff c s.addr else s.addr)

/-- mcount_arch_find_module: `sect` = type given by a `__patchable_function_entries`
    / `xray_instr_map` section if there is one; otherwise the signature scan; otherwise
    `fallback` = what check_trace_functions says (pg / fentry / none). -/
def detectTypeG (fixed : Bool) (sect : Option DynType) (c : Code) (syms : List DSym)
    (fallback : DynType) : DynType :=
  match sect with
  | some t => t
  | none => if syms.any (scanHit fixed c) then .fentryNop else fallback

/-- the repaired behaviour (see known finding: endbr64 + NOP is not detected) -/
def detectType := detectTypeG true

/-- observable "this function now calls the tracer": the byte at the patch
    site is the call opcode -/
def instrumented (c : Code) (s : Sym) : Bool := rd c (prologueOff c s.addr) == 0xe8

end Uft.Patch
