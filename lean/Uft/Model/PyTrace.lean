/-
C19 — model of python/trace-python.c: the per-event decision of
`uftrace_trace_python` (`:935`), i.e. `init_filters` (`:457`, how
`filter_state.mode` is derived from UFTRACE_FILTER), `apply_filters` (`:521`),
`can_trace` (`:573`) and the mapping of profile events to
`cygprof_enter` / `cygprof_exit`, plus the order in which
`convert_function_addr` hands out pseudo addresses.

The model follows the code that exists: C `int` counters are `Int` (they do go
negative on event streams that are not nested), only the *first* matching
filter counts, `libcall_count` is global and clamped at 0, events other than
the five profile events still pass through `apply_filters` with `delta = -1`.

`fixed = false` is the code as found (finding F2: in opt-in mode the `return`
of an opt-out function whose `call` was skipped is not skipped);
`fixed = true` adds the one symmetric test that repairs it.

Names are an arbitrary type `α`; pattern matching (strcmp / regexec / fnmatch)
is abstracted into a predicate per filter.  Core-only imports (linked into
`uvmodel`).
-/
namespace Uft.PyTrace

/-- mode of one filter entry: `-F` (FILTER_MODE_IN) or `-N` / `!name` (FILTER_MODE_OUT) -/
inductive FMode where
  | fin | fout
  deriving DecidableEq, Repr

/-- `filter_state.mode` -/
inductive GMode where
  | none | fin | fout
  deriving DecidableEq, Repr

/-- `libcall_mode` -/
inductive LibMode where
  | none | single | nested
  deriving DecidableEq, Repr

/-- the event string handed to the profile function.  `other`: any string that
    is not one of the five profile events, with a C function as argument
    (`sys.setprofile` never sends one; with any other argument
    `convert_function_addr` returns NULL and the event is dropped) -/
inductive EvKind where
  | call | ret | ccall | cret | cexc | other
  deriving DecidableEq, Repr

/-- `is_entry` in `apply_filters` -/
def EvKind.isEntry : EvKind → Bool
  | .call | .ccall => true
  | _ => false

structure Filter (α : Type) where
  /-- `match_filter(filter, name)` -/
  hit : α → Bool
  mode : FMode

structure Cfg (α : Type) where
  /-- `true`: with the repair of F2 -/
  fixed : Bool
  /-- `none`: UFTRACE_FILTER is not set; otherwise the entries in option order -/
  filters : Option (List (Filter α))
  lmode : LibMode
  /-- `sym->flag & UFT_PYSYM_F_LIBCALL`: decided once per code object
      (not `__main__`, file not under the main script's directory; every C function) -/
  isLib : α → Bool

structure Ev (α : Type) where
  kind : EvKind
  name : α

/-- `filter_state.count_in`, `filter_state.count_out`, `libcall_count` -/
structure St where
  cin : Int
  cout : Int
  lib : Int
  deriving DecidableEq, Repr

def St.init : St := { cin := 0, cout := 0, lib := 0 }

/-- a call of `cygprof_enter(sym->addr, 0)` / `cygprof_exit(0, 0)` -/
inductive Out (α : Type) where
  | enter (n : α)
  | exit
  deriving DecidableEq, Repr

variable {α : Type}

/-- the filter list (empty when UFTRACE_FILTER is unset) -/
def Cfg.flist (c : Cfg α) : List (Filter α) :=
  match c.filters with
  | none => []
  | some fs => fs

/-- `init_filters`: NONE without UFTRACE_FILTER; OUT, switched to IN by any
    entry that does not start with `!` -/
def Cfg.gmode (c : Cfg α) : GMode :=
  match c.filters with
  | none => .none
  | some fs => if fs.any (fun f => f.mode == .fin) then .fin else .fout

/-- the `list_for_each_entry … break` loop: mode of the first matching filter -/
def firstMatch : List (Filter α) → α → Option FMode
  | [], _ => none
  | f :: fs, n => if f.hit n then some f.mode else firstMatch fs n

/-- counters after the loop in `apply_filters` -/
def cinAfter (m : Option FMode) (cin : Int) (isEntry : Bool) : Int :=
  if m = some .fin then (if isEntry then cin + 1 else cin - 1) else cin

def coutAfter (m : Option FMode) (cout : Int) (isEntry : Bool) : Int :=
  if m = some .fout then (if isEntry then cout + 1 else cout - 1) else cout

/-- the return value of `apply_filters` ("skip this event"), given the updated
    counters -/
def skipDecision (fixed : Bool) (g : GMode) (m : Option FMode) (cin cout : Int)
    (isEntry : Bool) : Bool :=
  if cout > 0 then true
  else match g with
    | .fin =>
      if fixed && (m == some .fout) && !isEntry then true      -- the repair (F2)
      else if cin > 0 then false
      else if (m == some .fin) && !isEntry then false
      else true
    | .fout => (m == some .fout) && !isEntry
    | .none => false

/-- `libcall_count` after `can_trace(is_entry, sym)` -/
def libAfter (c : Cfg α) (lib : Int) (isEntry : Bool) (n : α) : Int :=
  if c.isLib n && c.lmode == .single then
    (if isEntry then lib + 1
     else if lib - 1 > 0 then lib - 1 else if lib - 1 < 0 then 0 else lib - 1)
  else lib

/-- return value of `can_trace(is_entry, sym)` -/
def canTrace (c : Cfg α) (lib : Int) (isEntry : Bool) (n : α) : Bool :=
  if !c.isLib n then true
  else match c.lmode with
    | .none => false
    | .nested => true
    | .single => if isEntry then !(lib > 0) else !(lib - 1 > 0)

/-- does the event get as far as `can_trace`?  (`filter_state.mode != NONE &&
    apply_filters(...)` returns early; an unknown event string matches no
    branch of the if-chain) -/
def reaches (c : Cfg α) (s : St) (e : Ev α) : Bool :=
  let m := firstMatch c.flist e.name
  let ent := e.kind.isEntry
  !(c.gmode != .none &&
      skipDecision c.fixed c.gmode m (cinAfter m s.cin ent) (coutAfter m s.cout ent) ent)
    && e.kind != .other

/-- one call of `uftrace_trace_python`: new state -/
def stepSt (c : Cfg α) (s : St) (e : Ev α) : St :=
  let m := firstMatch c.flist e.name
  let ent := e.kind.isEntry
  { cin := if c.gmode = .none then s.cin else cinAfter m s.cin ent
    cout := if c.gmode = .none then s.cout else coutAfter m s.cout ent
    lib := if reaches c s e then libAfter c s.lib ent e.name else s.lib }

/-- one call of `uftrace_trace_python`: the hook calls made -/
def stepOut (c : Cfg α) (s : St) (e : Ev α) : List (Out α) :=
  if reaches c s e && canTrace c s.lib e.kind.isEntry e.name then
    (if e.kind.isEntry then [.enter e.name] else [.exit])
  else []

/-- the whole event stream -/
def run (c : Cfg α) : St → List (Ev α) → St × List (Out α)
  | s, [] => (s, [])
  | s, e :: es =>
    let r := run c (stepSt c s e) es
    (r.1, stepOut c s e ++ r.2)

/-! ### call trees (the interpreter's discipline) and their event streams -/

/-- how a call shows up in the profile stream: a Python function
    (`call … return`, also when it ends by an exception or is a generator
    resumption), a C function (`c_call … c_return`), a C function that raises
    (`c_call … c_exception`) -/
inductive CKind where
  | py | c | cexc
  deriving DecidableEq, Repr

mutual
  inductive Call (α : Type) where
    | node (name : α) (k : CKind) (kids : Calls α)
  inductive Calls (α : Type) where
    | nil
    | cons (c : Call α) (rest : Calls α)
end

def CKind.entry : CKind → EvKind
  | .py => .call
  | _ => .ccall

def CKind.exit : CKind → EvKind
  | .py => .ret
  | .c => .cret
  | .cexc => .cexc

mutual
  def events : Call α → List (Ev α)
    | .node n k kids => ⟨k.entry, n⟩ :: (eventsL kids ++ [⟨k.exit, n⟩])
  def eventsL : Calls α → List (Ev α)
    | .nil => []
    | .cons c r => events c ++ eventsL r
end

/-! ### the documented selection, as a structurally recursive function on call trees

`-F`: the named functions and everything they call; `-N`: the named functions
and everything they call are left out (and win inside an `-F` region); when
both name a function the first option on the command line counts.  Library
functions: `--no-libcall` none, `--nest-libcall` all, default only those with
no (selected) library function above them.  The environment is passed *down*
only: nothing leaks into later siblings. -/
/-- is a call selected by `-F`/`-N`, given whether an `-F` function (`active`) /
    an `-N` function (`blocked`) is on the stack including the call itself -/
def selected (c : Cfg α) (active blocked : Bool) : Bool :=
  !blocked && (c.gmode != .fin || active)

/-- is a selected call recorded, given the number `ld` of selected library
    calls above it -/
def traced (c : Cfg α) (sel : Bool) (n : α) (ld : Nat) : Bool :=
  sel && (!c.isLib n || c.lmode == .nested || (c.lmode == .single && ld == 0))

/-- library depth seen by the callees -/
def ldNext (c : Cfg α) (sel : Bool) (n : α) (ld : Nat) : Nat :=
  if sel && c.isLib n && c.lmode == .single then ld + 1 else ld

mutual
  def specCall (c : Cfg α) (active blocked : Bool) (ld : Nat) : Call α → List (Out α)
    | .node n _ kids =>
      let active' := active || (firstMatch c.flist n == some .fin)
      let blocked' := blocked || (firstMatch c.flist n == some .fout)
      let sel := selected c active' blocked'
      (if traced c sel n ld then [.enter n] else []) ++
        (specCalls c active' blocked' (ldNext c sel n ld) kids ++
          (if traced c sel n ld then [.exit] else []))
  def specCalls (c : Cfg α) (active blocked : Bool) (ld : Nat) : Calls α → List (Out α)
    | .nil => []
    | .cons x r => specCall c active blocked ld x ++ specCalls c active blocked ld r
end

/-! ### balance of a hook-call sequence -/

/-- stack depth after the sequence, `none` if an exit came with nothing open -/
def walk : Nat → List (Out α) → Option Nat
  | d, [] => some d
  | d, .enter _ :: r => walk (d + 1) r
  | 0, .exit :: _ => none
  | d + 1, .exit :: r => walk d r

/-- a Dyck word: never below zero, back at zero at the end -/
def Balanced (l : List (Out α)) : Prop := walk 0 l = some 0

def enters : List (Out α) → Nat
  | [] => 0
  | .enter _ :: r => enters r + 1
  | .exit :: r => enters r

def exits : List (Out α) → Nat
  | [] => 0
  | .enter _ :: r => exits r
  | .exit :: r => exits r + 1

/-! ### pseudo addresses (`convert_function_addr`, `get_new_sym_addr`)

Every event — also a filtered one, also a return — first looks its function
name up and, when it is new, appends it to the symbol table; the address is
the 1-based position. -/
def intern [BEq α] (syms : List α) (n : α) : List α :=
  if syms.contains n then syms else syms ++ [n]

def symsOf [BEq α] (syms : List α) : List (Ev α) → List α
  | [] => syms
  | e :: es => symsOf (intern syms e.name) es

def addrOf [BEq α] (syms : List α) (n : α) : Nat := syms.idxOf n + 1

end Uft.PyTrace
