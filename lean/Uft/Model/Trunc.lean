/-
C12 — the per-task trace-data reader as a total function on bytes.

Model of utils/fstack.c:
  * `__read_task_ustack()`  (16-byte `fread`, magic check; a failed `fread` at EOF leaves the
    bytes it could get in `task->ustack`),
  * `read_task_arg()` / `read_task_args()` (length-prefixed strings, 4-alignment of every piece,
    8-alignment by `fseek` at the end, EOF inside any piece),
  * `read_task_event_size()` / `read_task_watch_event()` / `save_task_event()` / `read_task_event()`,
  * `read_task_ustack()` (what it does with a failed payload read, the
    "record missing argument info" test),
and of the consumers of `task->args.data` (cmds/replay.c `get_argspec_string`, cmds/dump.c
`pr_args`/`pr_retval`, utils/event.c `event_get_data_str`), which walk a copy of exactly
`args.len` bytes guided by the argument spec: `consumeOk` says that walk stays inside the copy.

`fixed = false` is the code as found, `fixed = true` the code with proposed_fixes/C12-F7.diff
(transactional record read), C12-S4.diff (watch-event length check) and C12-F14.diff (raw dump
`memcmp` on a short string).

A stream is the list of bytes not yet read; `fread n` fails (EOF) when fewer than `n` bytes are
left and then leaves the stream empty.  I/O errors other than EOF are not modelled (regular file).
The reader's own writes into `args.data` are each preceded by an `xrealloc` to exactly the end of
the write, so they are in bounds by construction; the accesses that can leave the buffer are the
consumers'.  Core-only.
-/
namespace Uft.Trunc

abbrev Bytes := List UInt8

/-- little-endian value of a byte string -/
def leVal : Bytes → Nat
  | [] => 0
  | b :: r => b.toNat + 256 * leVal r

/-- `n` bytes, little endian, of `v` -/
def leBytes : Nat → Nat → Bytes
  | 0, _ => []
  | n + 1, v => UInt8.ofNat (v % 256) :: leBytes n (v / 256)

def zeros (n : Nat) : Bytes := List.replicate n 0

/-- `fread(buf, n, 1, fp) == 1`: all `n` bytes or EOF -/
def fread (n : Nat) (s : Bytes) : Option (Bytes × Bytes) :=
  if n ≤ s.length then some (s.take n, s.drop n) else none

/-! ### argument specs -/

/-- what the reader and the consumers distinguish in `spec->fmt` -/
inductive Fmt
  | str      -- ARG_FMT_STR, ARG_FMT_STD_STRING: 2-byte length prefix
  | chr      -- ARG_FMT_CHAR: the consumer reads one byte
  | strct    -- ARG_FMT_STRUCT: replay prints `{...}` without reading
  | other    -- integers, floats, pointers, enums: `spec->size` bytes
  deriving DecidableEq, Repr

structure Spec where
  idx : Nat          -- RETVAL_IDX = 0
  fmt : Fmt
  size : Nat
  deriving DecidableEq, Repr

/-- `session_find_filter()` + the ARGUMENT|RETVAL flag test: the spec list of an address, or
    `none` ("cannot find session / filter / arg spec") -/
structure Ctx where
  specs : Nat → Option (List Spec)

/-- a delivered record: header fields and `args.data[0 .. args.len)` -/
structure Rec where
  time : Nat
  typ : Nat            -- 0 ENTRY, 1 EXIT, 2 LOST, 3 EVENT
  more : Bool
  depth : Nat
  addr : Nat
  payload : Bytes
  partl : Bool := false   -- pre-fix only: delivered although its payload read hit EOF
  deriving DecidableEq, Repr

inductive Status
  | eof            -- end of data (task->done)
  | badMagic       -- "invalid rstack read"
  | missingArg     -- pr_err_ns("record missing argument info for %s")
  | unknownEvent   -- pr_err_ns("unknown event has data")
  | assertLen      -- ASSERT(len == buflen)
  | badEvent       -- fixed only: watch event with an impossible length, end of data
  | oob            -- a write/read outside an object (watch event, pre-fix)
  | fuel
  deriving DecidableEq, Repr

/-- `task->args.args` -/
inductive ArgsPtr
  | null
  | specs (l : List Spec)
  | event             -- `(void *)1`
  deriving DecidableEq, Repr

structure RState where
  args : ArgsPtr
  data : Bytes        -- args.data[0 .. args.len)
  ust : Bytes         -- the 16 bytes of task->ustack
  deriving DecidableEq, Repr

def RState.init : RState := { args := .null, data := [], ust := zeros 16 }

/-! ### read_task_arg / read_task_args -/

def pad4 (len size : Nat) : Nat :=
  if (len + size) % 4 ≠ 0 then size + (4 - (len + size) % 4) else size

/-- `read_task_arg`: `(args.data, stream, ok)`; on EOF the data read so far stays -/
def readArg (sp : Spec) (d s : Bytes) : Bytes × Bytes × Bool :=
  if sp.size = 0 then (d, s, true) else
  if sp.fmt = .str then
    match fread 2 s with
    | none => (d, [], false)
    | some (l, s1) =>
      let d1 := d ++ l
      let size := pad4 (d.length + 2) (leVal l)
      if size = 0 then (d1, s1, true) else
      match fread size s1 with
      | none => (d1, [], false)
      | some (x, s2) => (d1 ++ x, s2, true)
  else
    let size := pad4 d.length sp.size
    match fread size s with
    | none => (d, [], false)
    | some (x, s2) => (d ++ x, s2, true)

/-- the `list_for_each_entry` loop of `read_task_args` -/
def readSpecs (isRet : Bool) : List Spec → Bytes → Bytes → Bytes × Bytes × Bool
  | [], d, s => (d, s, true)
  | sp :: r, d, s =>
    if isRet != (sp.idx == 0) then readSpecs isRet r d s else
    match readArg sp d s with
    | (d1, s1, true) => readSpecs isRet r d1 s1
    | (d1, s1, false) => (d1, s1, false)

/-- `fseek(fp, 8 - rem, SEEK_CUR)` -/
def pad8 (n : Nat) : Nat := if n % 8 ≠ 0 then 8 - n % 8 else 0

/-- sum of the sizes of the wanted specs ("zero-length struct as a return value") -/
def actualLen (isRet : Bool) : List Spec → Nat
  | [] => 0
  | sp :: r => (if isRet != (sp.idx == 0) then 0 else sp.size) + actualLen isRet r

/-! ### events -/

/-- builtin events with a fixed-size payload: `sizeof` of the struct read -/
def eventSize (id : Nat) : Option Nat :=
  if id = 100001 ∨ id = 100003 then some 24          -- proc/statm
  else if 100002 ≤ id ∧ id ≤ 100010 then some 16     -- page-fault, pmu-cycle/cache/branch
  else if id = 100011 then some 4                    -- watch:cpu
  else none

def watchVarId : Nat := 100012

inductive PayRes
  | ok (args : ArgsPtr) (data : Bytes) (rest : Bytes)
  | eofFail (args : ArgsPtr) (data : Bytes)     -- a payload `fread` hit EOF
  | stop (st : Status)
  deriving Repr

/-- `read_task_event` (lp64 data) -/
def readEvent (fixed : Bool) (id : Nat) (st : RState) (s : Bytes) : PayRes :=
  match eventSize id with
  | some n =>
    match fread 2 s with
    | none => .eofFail st.args st.data
    | some (l, s1) =>
      if leVal l ≠ n then .stop .assertLen else
      match fread n s1 with
      | none => .eofFail st.args st.data
      | some (x, s2) => .ok .event x (s2.drop (pad8 (n + 2)))
  | none =>
    if id = watchVarId then
      match fread 2 s with
      | none => .eofFail st.args st.data
      | some (l, s1) =>
        let len := leVal l
        if fixed && (len < 8 || len > 16) then .stop .badEvent else
        match fread 8 s1 with
        | none => .eofFail st.args st.data
        | some (a, s2) =>
          -- `len -= 8` in uint16_t; the data lands in an 8-byte field of a 24-byte union
          if len < 8 || len > 24 then .stop .oob else
          match fread (len - 8) s2 with
          | none => .eofFail st.args st.data
          | some (x, s3) => .ok .event (a ++ x) (s3.drop (pad8 (len + 2)))
    else .stop .unknownEvent

/-- the payload part of `read_task_ustack` for a record with `more` set -/
def readPayload (fixed : Bool) (ctx : Ctx) (typ addr : Nat) (st : RState) (s : Bytes) : PayRes :=
  if typ = 0 ∨ typ = 1 then
    match ctx.specs addr with
    | none => .ok .null [] s
    | some l =>
      match readSpecs (typ == 1) l [] s with
      | (d, s1, true) => .ok (.specs l) d (s1.drop (pad8 d.length))
      | (d, _, false) => .eofFail (.specs l) d
  else if typ = 3 then readEvent fixed addr st s
  else .ok st.args st.data s     -- UFTRACE_LOST: nothing is read

/-! ### one record -/

inductive StepRes
  | got (r : Rec) (st : RState) (rest : Bytes)
  | done (status : Status) (st : RState)
  deriving Repr

/-- header fields out of the 16 bytes -/
def decodeHdr (h : Bytes) : Rec :=
  let w := leVal (h.drop 8)
  { time := leVal (h.take 8), typ := w % 4, more := (w / 4) % 2 == 1,
    depth := (w / 64) % 1024, addr := w / 65536, payload := [] }

def hdrMagic (h : Bytes) : Nat := (leVal (h.drop 8) / 8) % 8

/-- `task->args.args == NULL || task->args.len == 0`, minus the zero-length-struct exception -/
def isMissing (isRet : Bool) (args : ArgsPtr) (data : Bytes) : Bool :=
  match args with
  | .null => true
  | .specs l => data.isEmpty && actualLen isRet l != 0
  | .event => data.isEmpty

/-- the test after the payload read: deliver or "record missing argument info" -/
def deliver (r0 : Rec) (args : ArgsPtr) (data rest : Bytes) (ust : Bytes) (partl : Bool) : StepRes :=
  if isMissing (r0.typ == 1) args data then
    .done .missingArg { args := args, data := data, ust := ust }
  else .got { r0 with payload := data, partl := partl } { args := args, data := data, ust := ust } rest

/-- `read_task_ustack` -/
def readRec (fixed : Bool) (ctx : Ctx) (st : RState) (s : Bytes) : StepRes :=
  match fread 16 s with
  | none =>
    -- fread stored the bytes it got in task->ustack; the repaired code reads into a local
    .done .eof { st with ust := if fixed then st.ust else s ++ st.ust.drop s.length }
  | some (h, s1) =>
    if hdrMagic h ≠ 5 then .done .badMagic { st with ust := h } else
    let r0 := decodeHdr h
    if !r0.more then .got r0 { st with ust := h } s1 else
    match readPayload fixed ctx r0.typ r0.addr st s1 with
    | .ok args data rest => deliver r0 args data rest h false
    | .stop status => .done status { st with ust := h }
    | .eofFail args data =>
      if fixed then .done .eof { args := .null, data := [], ust := st.ust }
      else deliver r0 args data [] h true

def readAllF (fixed : Bool) (ctx : Ctx) : Nat → RState → Bytes → List Rec × Status × Bytes
  | 0, st, _ => ([], .fuel, st.ust)
  | n + 1, st, s =>
    match readRec fixed ctx st s with
    | .done status st' => ([], status, st'.ust)
    | .got r st' rest =>
      let x := readAllF fixed ctx n st' rest
      (r :: x.1, x.2)

/-- all records of one `<tid>.dat`, the reason reading stopped, and the final `task->ustack` -/
def readAll (fixed : Bool) (ctx : Ctx) (s : Bytes) : List Rec × Status × Bytes :=
  readAllF fixed ctx (s.length / 16 + 1) RState.init s

/-! ### the consumers of a delivered payload -/

def align4 (n : Nat) : Nat := (n + 3) / 4 * 4

/-- one spec of `get_argspec_string` (raw = false) or of `pr_args`/`pr_retval` of `dump`
    (raw = true): (all accesses are inside the `len` bytes of the copy of `args.data`, the size
    the walk advances by).  `memcpy(val.v, data, spec->size)` also needs `size ≤ 16` (8 in dump). -/
def consumeOne (fixed raw : Bool) (sp : Spec) (off : Nat) (d : Bytes) : Bool × Nat :=
  match sp.fmt with
  | .str =>
    if off + 2 ≤ d.length then
      let slen := leVal ((d.drop off).take 2)
      -- raw dump: memcmp(buf, &null_str, 4) on a (slen + 1)-byte buffer
      (decide (off + 2 + slen ≤ d.length) && (!raw || fixed || decide (4 ≤ slen + 1)), slen + 2)
    else (false, 0)
  | .chr => if raw then (decide (off + sp.size ≤ d.length ∧ sp.size ≤ 8), sp.size)
            else (decide (off + 1 ≤ d.length), 1)
  | .strct => if raw then (decide (off + sp.size ≤ d.length), sp.size) else (true, sp.size)
  | .other => (decide (off + sp.size ≤ d.length ∧ sp.size ≤ (if raw then 8 else 16)), sp.size)

/-- the consumers' walk over the wanted specs (replay stops after the first return value) -/
def consumeSpecs (fixed raw isRet : Bool) : List Spec → Nat → Bytes → Bool
  | [], _, _ => true
  | sp :: r, off, d =>
    if isRet != (sp.idx == 0) then consumeSpecs fixed raw isRet r off d else
    (consumeOne fixed raw sp off d).1 &&
      (if isRet && !raw then true
       else consumeSpecs fixed raw isRet r (off + align4 (consumeOne fixed raw sp off d).2) d)

/-- `event_get_data_str` -/
def consumeEvent (id : Nat) (d : Bytes) : Bool :=
  match eventSize id with
  | some n => decide (n ≤ d.length)
  | none => if id = watchVarId then decide (8 ≤ d.length ∧ d.length ≤ 24) else true

/-- all consumer accesses for one delivered record are in bounds -/
def consumeOk (fixed raw : Bool) (ctx : Ctx) (r : Rec) : Bool :=
  if !r.more then true
  else if r.typ = 0 ∨ r.typ = 1 then
    match ctx.specs r.addr with
    | some l => consumeSpecs fixed raw (r.typ == 1) l 0 r.payload
    | none => false
  else if r.typ = 3 then consumeEvent r.addr r.payload
  else true

/-! ### the writer's side: encoding of whole records -/

def hdrWord (r : Rec) : Nat :=
  r.typ + 4 * (if r.more then 1 else 0) + 8 * 5 + 64 * r.depth + 65536 * r.addr

def encHdr (r : Rec) : Bytes := leBytes 8 r.time ++ leBytes 8 (hdrWord r)

/-- bytes of the payload as they are in the file, without the final 8-alignment -/
def encBody (r : Rec) : Bytes :=
  if r.more then (if r.typ = 3 then leBytes 2 r.payload.length else []) ++ r.payload else []

def encode (r : Rec) : Bytes :=
  encHdr r ++ encBody r ++ zeros (pad8 (encBody r).length)

def encodeAll : List Rec → Bytes
  | [] => []
  | r :: rs => encode r ++ encodeAll rs

/-- bytes that must be present for the reader to deliver `r` -/
def need (r : Rec) : Nat := 16 + (encBody r).length

/-- number of leading records completely present in the first `k` bytes of `encodeAll rs` -/
def wholeRecordsBefore : List Rec → Nat → Nat
  | [], _ => 0
  | r :: rs, k => if need r ≤ k then 1 + wholeRecordsBefore rs (k - (encode r).length) else 0

/-- what a writer can produce and the reader accepts: field ranges, and a payload that is
    exactly what `read_task_args` / `read_task_event` consume for that record -/
def WF (ctx : Ctx) (r : Rec) : Prop :=
  r.time < 2 ^ 64 ∧ r.typ < 4 ∧ r.depth < 1024 ∧ r.addr < 2 ^ 48 ∧ r.partl = false ∧
  (r.more = false → r.payload = []) ∧
  (r.more = true →
    ((r.typ = 0 ∨ r.typ = 1) ∧ ∃ l, ctx.specs r.addr = some l ∧
        readSpecs (r.typ == 1) l [] r.payload = (r.payload, [], true) ∧
        (r.payload ≠ [] ∨ actualLen (r.typ == 1) l = 0)) ∨
    (r.typ = 3 ∧ r.payload.length < 65536 ∧
      (eventSize r.addr = some r.payload.length ∨
       (r.addr = watchVarId ∧ 8 ≤ r.payload.length ∧ r.payload.length ≤ 16))))

/-- what `task->ustack` holds after reading the records `rs` on top of `u` -/
def lastHdrOr (u : Bytes) : List Rec → Bytes
  | [] => u
  | r :: rs => lastHdrOr (encHdr r) rs

/-- the header of the last record (zeros when there is none) -/
def lastHdr (rs : List Rec) : Bytes := lastHdrOr (zeros 16) rs

/-- sanity of an argument spec as `parse_argspec` produces it: strings have a non-zero size
    field, a char is one byte, scalars fit the consumers' 8-byte temporaries -/
def SpecOK (sp : Spec) : Prop :=
  (sp.fmt = .str → sp.size ≠ 0) ∧ (sp.fmt = .chr → sp.size = 1) ∧ (sp.fmt = .other → sp.size ≤ 8)

def SpecsOK (ctx : Ctx) : Prop := ∀ a l, ctx.specs a = some l → ∀ sp ∈ l, SpecOK sp

/-! ### perf-cpuN.dat: `read_perf_event()` of utils/perf.c

A record is a `struct perf_event_header {u32 type; u16 misc; u16 size}` followed by `size - 8` bytes:
PERF_RECORD_SWITCH (14) = `sample_id {u32 pid, tid; u64 time}`; PERF_RECORD_FORK (7) / _EXIT (4) =
`{u32 pid, ppid, tid, ptid; u64 time}` + the trailing `sample_id`; PERF_RECORD_COMM (3) =
`{u32 pid, tid; char comm[]}` (8-aligned) + the trailing `sample_id`; every other type is skipped with
`fseek(len)`, which also succeeds beyond the end of the file.  The reader is modelled AS CODED: the body
of a known record is read with one `fread(&u, len, 1, fp)` of the whole record (comm: the part before
the `sample_id`, then the `sample_id`) into a 40-byte union on the stack, with `len` taken from the file.
A failed body read is `return -1` WITHOUT `perf->done`: the caller's next call goes on at the (then
exhausted) file position - `.again`.  `fixed = true` is the reader with proposed_fixes/C12-PERF-LEN.diff
(a record whose size field does not fit its type ends the file).  Fields of a record shorter than its
struct are indeterminate stack bytes in C; here they decode the bytes that are there. -/

/-- an event as `read_perf_event` delivers it (before the caller's task / time-range filter) -/
structure PEv where
  typ : Nat          -- PERF_RECORD_*: 3 COMM, 4 EXIT, 7 FORK, 14 SWITCH
  misc : Nat
  pid : Nat
  tid : Nat
  time : Nat
  deriving DecidableEq, Repr

inductive PStatus
  | eof            -- the header read failed: perf->done
  | oob            -- fread stored more than sizeof(u) = 40 bytes in the union
  | badSize        -- h.size < sizeof(h): `len` wraps around (fseek backwards / fread of 2^64 - x bytes)
  | fuel
  deriving DecidableEq, Repr

inductive PStep
  | got (e : PEv) (rest : Bytes)
  | again (rest : Bytes)     -- `goto again` / `return -1` without `done`: reading goes on at `rest`
  | done (st : PStatus)
  deriving Repr

def perfUnion : Nat := 40

/-- little-endian field of `n` bytes at offset `off` -/
def sub (b : Bytes) (off n : Nat) : Nat := leVal ((b.drop off).take n)

def readPerfEv (fixed : Bool) (s : Bytes) : PStep :=
  match fread 8 s with
  | none => .done .eof
  | some (h, s1) =>
    let typ := sub h 0 4
    let misc := sub h 4 2
    let size := sub h 6 2
    if size < 8 then .done (if fixed then .eof else .badSize) else
    let len := size - 8
    if typ = 14 ∨ typ = 4 ∨ typ = 7 then
      if fixed && (len < (if typ = 14 then 16 else 24) || perfUnion < len) then .done .eof else
      -- fread stores what it gets, up to `len` bytes, in the union
      if perfUnion < min len s1.length then .done .oob else
      if len = 0 then .again s1 else          -- fread of 0 bytes returns 0
      match fread len s1 with
      | none => .again []
      | some (b, rest) =>
        if typ = 14 then .got ⟨typ, misc, sub b 0 4, sub b 4 4, sub b 8 8⟩ rest
        else .got ⟨typ, misc, sub b 0 4, sub b 8 4, sub b 16 8⟩ rest
    else if typ = 3 then
      if fixed && (len < 24 || perfUnion < len) then .done .eof else
      -- comm_len = ALIGN(len - sizeof(sample_id), 8) in an int: negative (a huge size_t) for len ≤ 8
      if len < 9 then (if perfUnion < s1.length then .done .oob else .again []) else
      let cl := (len - 16 + 7) / 8 * 8
      if perfUnion < min cl s1.length then .done .oob else
      if cl = 0 then .again s1 else
      match fread cl s1 with
      | none => .again []
      | some (c, s2) =>
        match fread 16 s2 with
        | none => .again []
        | some (sid, rest) => .got ⟨typ, misc, sub c 0 4, sub c 4 4, sub sid 8 8⟩ rest
    else .again (s1.drop len)

def readPerfAllF (fixed : Bool) : Nat → Bytes → List PEv × PStatus
  | 0, _ => ([], .fuel)
  | n + 1, s =>
    match readPerfEv fixed s with
    | .done st => ([], st)
    | .again rest => readPerfAllF fixed n rest
    | .got e rest =>
      let x := readPerfAllF fixed n rest
      (e :: x.1, x.2)

/-- all events of one perf-cpuN.dat and the reason reading stopped -/
def readPerfAll (fixed : Bool) (s : Bytes) : List PEv × PStatus :=
  readPerfAllF fixed (s.length / 8 + 2) s

/-! the writer's side (the kernel's ring buffer, copied by `record_perf_data`) -/

structure PRec where
  typ : Nat
  misc : Nat
  body : Bytes
  deriving DecidableEq, Repr

def PRec.hdr (r : PRec) : Bytes := leBytes 4 r.typ ++ (leBytes 2 r.misc ++ leBytes 2 (8 + r.body.length))

def PRec.enc (r : PRec) : Bytes := r.hdr ++ r.body

def pEncodeAll : List PRec → Bytes
  | [] => []
  | r :: rs => r.enc ++ pEncodeAll rs

/-- what the kernel writes with `sample_id_all` and sample_type TID | TIME: the body sizes of the four
    record types the reader knows; any other type with any body -/
def PWF (r : PRec) : Prop :=
  r.typ < 2 ^ 32 ∧ r.misc < 2 ^ 16 ∧ 8 + r.body.length < 2 ^ 16 ∧
  (r.typ = 14 → r.body.length = 16) ∧ (r.typ = 4 ∨ r.typ = 7 → r.body.length = 40) ∧
  (r.typ = 3 → r.body.length = 32 ∨ r.body.length = 40)

/-- the event a whole record stands for (`none`: a type the reader skips) -/
def pEvOf (r : PRec) : Option PEv :=
  if r.typ = 14 then some ⟨r.typ, r.misc, sub r.body 0 4, sub r.body 4 4, sub r.body 8 8⟩
  else if r.typ = 4 ∨ r.typ = 7 then some ⟨r.typ, r.misc, sub r.body 0 4, sub r.body 8 4, sub r.body 16 8⟩
  else if r.typ = 3 then
    some ⟨r.typ, r.misc, sub r.body 0 4, sub r.body 4 4, sub (r.body.drop (r.body.length - 16)) 8 8⟩
  else none

/-- number of leading records completely present in the first `k` bytes of `pEncodeAll rs` -/
def pWholeBefore : List PRec → Nat → Nat
  | [], _ => 0
  | r :: rs, k => if r.enc.length ≤ k then 1 + pWholeBefore rs (k - r.enc.length) else 0

end Uft.Trunc
