/- C08 — executable model of `uftrace report`: the reader's per-task stack machine
   (utils/fstack.c `fstack_account_time` + `fstack_update_stack_count`), the per-exit
   accumulation (utils/report.c `report_update_node`), end-of-data handling
   (cmds/report.c `add_remaining_fstack`, `add_lost_fstack`, `report_task`,
   `add_remaining_task_fstack`, `adjust_task_runtime`), `report_calc_avg`, the sort key
   chain + `report_sort_nodes` (insertion into a list ordered by the comparator chain),
   `convert_sort_keys` and `report_diff_nodes`.

   What is modelled, as coded:
   * `uint64_t` time arithmetic of the stack slots wraps modulo 2^64 (`add64`/`sub64`);
     the clamps `child ≤ total` (exit, LOST) and `total ≥ child` (open calls at the end);
   * `func_stack` is an array of `max_stack` zeroed slots (`fstack_get` = `slot?`);
   * the first record of a task sets `stack_count` from its depth (A17), a record
     after LOST re-synchronises it and resets the slots `user_stack_count + [0..depth]`;
   * LOST charges the slots `stack_count … user_stack_count` (that is the *stale* slot
     above the top for pure user traces) and `add_lost_fstack` walks the same range;
   * recursion test = same address anywhere below on the stack;
   * node statistics: `sum`/`rec` are kept as unbounded naturals here, the C value is
     the residue modulo 2^64 (taken in `Row.ofNode`); `avg` is the C integer division.
   Not modelled (inputs of the check avoid them): filters, triggers, depth and time thresholds (C05, C07),
   kernel/perf/sched records, --time-range, fork display depth, stdv (a double).
   Symbol resolution is taken as a 1-1 map address → function id (id 0 = the zero
   address, printed `<0>`), C10's subject.  -/
import Uft.Model.CallTree
namespace Uft.Report

def M64 : Nat := 18446744073709551616

def add64 (a b : Nat) : Nat := (a + b) % M64
def sub64 (a b : Nat) : Nat := (a + M64 - b % M64) % M64

/-- one trace record: typ 0 ENTRY, 1 EXIT, 2 LOST, 3 EVENT (a user event) -/
structure Rec where
  time : Nat
  typ : Nat
  depth : Nat
  addr : Nat
  deriving DecidableEq, Repr, Inhabited

/-- one slot of `task->func_stack` -/
structure Fs where
  addr : Nat := 0
  total : Nat := 0
  child : Nat := 0
  valid : Bool := false
  deriving DecidableEq, Repr, Inhabited

/-- `struct report_time_stat` (integer part). `sum`, `recs` unbounded (C value = mod 2^64). -/
structure Stat where
  sum : Nat := 0
  recs : Nat := 0
  min : Nat := M64 - 1
  max : Nat := 0
  deriving DecidableEq, Repr, Inhabited

/-- `struct uftrace_report_node`; a function without node is `{}` (call = 0) -/
structure Node where
  call : Nat := 0
  total : Stat := {}
  self : Stat := {}
  deriving DecidableEq, Repr, Inhabited

abbrev Nodes := Nat → Node

/-- `update_time_stat` -/
def Stat.upd (ts : Stat) (t : Nat) (recursive : Bool) : Stat :=
  { sum := if recursive then ts.sum else ts.sum + t
    recs := if recursive then ts.recs + t else ts.recs
    min := if ts.min > t then t else ts.min
    max := if ts.max < t then t else ts.max }

/-- what `report_update_node` adds to a node: the slot's total, self = total − child, recursion flag -/
structure Upd where
  key : Nat
  total : Nat
  self : Nat
  recursive : Bool
  deriving DecidableEq, Repr, Inhabited

def Node.upd (n : Node) (u : Upd) : Node :=
  { call := n.call + 1, total := n.total.upd u.total u.recursive, self := n.self.upd u.self false }

def Nodes.upd (ns : Nodes) (u : Upd) : Nodes :=
  fun k => if k = u.key then (ns k).upd u else ns k

def Nodes.upds (ns : Nodes) (us : List Upd) : Nodes := us.foldl Nodes.upd ns

/-- reader state of one task (`struct uftrace_task_reader`, the fields `report` depends on) -/
structure Task where
  sc : Int := 0            -- stack_count
  usc : Nat := 0           -- user_stack_count
  fset : Bool := false     -- fstack_set
  lost : Bool := false     -- lost_seen
  stk : List Fs            -- func_stack[max_stack]
  tsLast : Nat := 0        -- timestamp_last
  lastTime : Nat := 0      -- task->rstack->time (last consumed record)
  deriving Repr, Inhabited

def Task.init (maxStack : Nat) : Task := { stk := List.replicate maxStack {} }

/-- `fstack_get`: NULL for a negative index or one ≥ max_stack -/
def slot? (stk : List Fs) (i : Int) : Option Fs :=
  if i < 0 then none else stk[i.toNat]?

/-- `fstack[-1].child_time += delta` -/
def bump (stk : List Fs) (i : Nat) (delta : Nat) : List Fs :=
  match stk[i]? with
  | none => stk
  | some fs => stk.set i { fs with child := add64 fs.child delta }

/-- first record of a task: slots 0 … n-1 start now (fstack.c:1924) -/
def initSlots (time : Nat) : Nat → List Fs → List Fs
  | 0, stk => stk
  | n + 1, stk =>
    let stk' := initSlots time n stk
    match stk'[n]? with
    | none => stk'
    | some fs => stk'.set n { fs with total := time, child := 0, valid := true }

/-- first record after LOST: slots base … base+n-1 restart at `time - 1` (fstack.c:1954) -/
def resetSlots (tm1 base : Nat) : Nat → List Fs → List Fs
  | 0, stk => stk
  | n + 1, stk =>
    let stk' := resetSlots tm1 base n stk
    match stk'[base + n]? with
    | none => stk'
    | some fs => stk'.set (base + n) { fs with total := tm1, child := 0 }

/-- the LOST loop of `fstack_account_time` (fstack.c:2024): `n` iterations from slot `i` downwards -/
def lostLoop : Nat → Int → Nat → List Fs → List Fs
  | 0, _, _, stk => stk
  | n + 1, i, lt, stk =>
    match slot? stk i with
    | none => lostLoop n (i - 1) lt stk
    | some fs =>
      let lt' := if lt = 0 then add64 fs.total 1 else lt
      let delta := sub64 lt' fs.total
      let child := if fs.child > delta then delta else fs.child
      let stk1 := stk.set i.toNat { fs with total := delta, child := child }
      let stk2 := if i > 0 then bump stk1 (i.toNat - 1) delta else stk1
      lostLoop n (i - 1) lt' stk2

def depthCount (r : Rec) : Int := if r.typ = 1 then (r.depth : Int) + 1 else r.depth

/-- the `!fstack_set` block -/
def acctInit (t : Task) (r : Rec) : Task :=
  if t.fset then t else
  let sc := depthCount r
  { t with sc := sc, fset := true, stk := initSlots r.time sc.toNat t.stk }

/-- the `lost_seen` block for a non-LOST record -/
def acctResync (t : Task) (r : Rec) : Task :=
  if t.lost then
    { t with sc := depthCount r, lost := false,
             stk := resetSlots (sub64 r.time 1) t.usc (r.depth + 1) t.stk }
  else t

def acctEntry (t : Task) (r : Rec) : Task :=
  match slot? t.stk t.sc with
  | none => t
  | some _ => { t with stk := t.stk.set t.sc.toNat { addr := r.addr, total := r.time, child := 0, valid := true } }

def acctExit (t : Task) (r : Rec) : Task :=
  match slot? t.stk (t.sc - 1) with
  | none => t
  | some fs =>
    let delta := if fs.valid then sub64 r.time fs.total else 0
    let child := if fs.child > delta then delta else fs.child
    let stk1 := t.stk.set (t.sc - 1).toNat { fs with total := delta, child := child, valid := false }
    { t with stk := if t.sc > 1 then bump stk1 ((t.sc - 1).toNat - 1) delta else stk1 }

def acctLost (t : Task) : Task :=
  { t with lost := true, stk := lostLoop (t.sc - t.usc + 1).toNat t.sc 0 t.stk }

/-- `fstack_account_time` -/
def account (t : Task) (r : Rec) : Task :=
  if r.typ = 3 then t else            -- a non-perf EVENT returns at once
  let t := acctInit t r
  if t.lost && r.typ = 2 then t else
  let t := acctResync t r
  if r.typ = 0 then acctEntry t r
  else if r.typ = 1 then acctExit t r
  else acctLost t

/-- `fstack_update_stack_count` (user records) -/
def updCount (t : Task) (r : Rec) : Task :=
  if r.typ = 0 then { t with sc := t.sc + 1, usc := t.usc + 1 }
  else if r.typ = 1 then
    { t with sc := if t.sc > 0 then t.sc - 1 else t.sc, usc := t.usc - 1 }
  else t

/-- `__fstack_consume` -/
def consume (t : Task) (r : Rec) : Task := updCount (account t r) r

/-- the recursion test of `report_update_node`: same address anywhere below slot `i` -/
def isRec (stk : List Fs) (i : Nat) (addr : Nat) : Bool :=
  (stk.take i).any (fun c => c.addr == addr)

/-- `report_update_node` for the slot at `task->stack_count = i`, node named by `key` -/
def updOf (stk : List Fs) (i : Nat) (fs : Fs) (key : Nat) : Upd :=
  { key := key, total := fs.total, self := sub64 fs.total fs.child, recursive := isRec stk i fs.addr }

/-- `add_lost_fstack`: `n` iterations from `task->stack_count = i` downwards; returns the updates
    in order -/
def lostUpds (stk : List Fs) : Nat → Int → List Upd
  | 0, _ => []
  | n + 1, i =>
    match slot? stk i with
    | some fs => (if fs.valid then [updOf stk i.toNat fs fs.addr] else []) ++ lostUpds stk n (i - 1)
    | none => lostUpds stk n (i - 1)

/-- one record in `build_function_tree` (function report): new task state and node updates -/
def stepF (t : Task) (r : Rec) : Task × List Upd :=
  let t := consume t r
  let t := { t with tsLast := if r.typ = 2 then t.tsLast else r.time, lastTime := r.time }
  if r.typ = 1 then
    match slot? t.stk t.sc with
    | none => (t, [])
    | some fs => (t, [updOf t.stk t.sc.toNat fs r.addr])
  else if r.typ = 2 then
    let n := (t.sc - t.usc + 1).toNat
    ({ t with sc := t.sc - n }, lostUpds t.stk n t.sc)
  else (t, [])

/-- `add_remaining_fstack` for one task: slots `n-1 … 0`; `keyOf` names the node
    (function report: the slot's address; task report: the tid, and slots with address 0 are skipped) -/
def remLoop (last : Nat) (taskKey : Option Nat) : Nat → List Fs → List Fs × List Upd
  | 0, stk => (stk, [])
  | n + 1, stk =>
    match stk[n]? with
    | none => remLoop last taskKey n stk
    | some fs =>
      if taskKey.isSome && fs.addr = 0 then remLoop last taskKey n stk
      else if fs.total > last then remLoop last taskKey n stk
      else
        let total0 := last - fs.total
        let total := if fs.child > total0 then fs.child else total0
        let fs' := { fs with total := total }
        let stk1 := stk.set n fs'
        let stk2 := if n > 0 then bump stk1 (n - 1) total else stk1
        let u := updOf stk2 n fs' (taskKey.getD fs.addr)
        let r := remLoop last taskKey n stk2
        (r.1, u :: r.2)

def finishF (t : Task) : List Upd :=
  if t.sc = 0 then [] else (remLoop t.lastTime none t.sc.toNat t.stk).2

/-- one record in `report_task` -/
def stepT (tid : Nat) (t : Task) (r : Rec) : Task × List Upd :=
  let t := consume t r
  if r.typ = 0 || r.typ = 2 then (t, [])
  else if r.typ = 3 then
    -- event_skip_out (default): events outside user functions are skipped before timestamp_last
    (if t.usc = 0 then t else { t with tsLast := r.time }, [])
  else
    match slot? t.stk t.sc with
    | none => (t, [])
    | some fs => ({ t with tsLast := r.time }, [updOf t.stk t.sc.toNat fs tid])

def finishT (tid : Nat) (t : Task) : List Upd :=
  if t.sc = 0 then [] else (remLoop t.tsLast (some tid) t.sc.toNat t.stk).2

/-- `adjust_task_runtime` (no sched events: idle = 0) -/
def Node.adjustTask (n : Node) : Node :=
  { n with total := n.self, self := { sum := n.self.sum, recs := 0, min := 0, max := 0 } }

/-- the records of one task in a function report: final reader state and the node updates in order -/
def runT (t : Task) : List Rec → Task × List Upd
  | [] => (t, [])
  | r :: rs =>
    let a := stepF t r
    let b := runT a.1 rs
    (b.1, a.2 ++ b.2)

/-! ### whole data set -/

structure St where
  tasks : Nat → Task
  nodes : Nodes := fun _ => {}

def St.init (maxStack : Nat) : St := { tasks := fun _ => Task.init maxStack }

/-- `taskMode = false`: function report; `true`: --task (node key = task index) -/
def step (taskMode : Bool) (s : St) (e : Nat × Rec) : St :=
  let r := if taskMode then stepT e.1 (s.tasks e.1) e.2 else stepF (s.tasks e.1) e.2
  { tasks := fun i => if i = e.1 then r.1 else s.tasks i, nodes := s.nodes.upds r.2 }

def run (taskMode : Bool) (s : St) (evs : List (Nat × Rec)) : St := evs.foldl (step taskMode) s

/-- end of data: the open calls of tasks 0 … n-1, in task order -/
def finish (taskMode : Bool) (ntasks : Nat) (s : St) : Nodes :=
  (List.range ntasks).foldl (fun ns i =>
    ns.upds (if taskMode then finishT i (s.tasks i) else finishF (s.tasks i))) s.nodes

/-- `read_user_stack`: the task whose next record has the smallest time, lowest index on ties (A15) -/
def pickMin : List (List Rec) → Nat → Option (Nat × Nat) → Option Nat
  | [], _, best => best.map (·.1)
  | [] :: rest, i, best => pickMin rest (i + 1) best
  | (r :: _) :: rest, i, best =>
    match best with
    | none => pickMin rest (i + 1) (some (i, r.time))
    | some (bi, bt) => if r.time < bt then pickMin rest (i + 1) (some (i, r.time)) else pickMin rest (i + 1) (some (bi, bt))

def popAt : List (List Rec) → Nat → Option Rec × List (List Rec)
  | [], _ => (none, [])
  | l :: rest, 0 => (l.head?, l.tail :: rest)
  | l :: rest, i + 1 => let r := popAt rest i; (r.1, l :: r.2)

/-- the merged record stream -/
def merge : Nat → List (List Rec) → List (Nat × Rec)
  | 0, _ => []
  | fuel + 1, streams =>
    match pickMin streams 0 none with
    | none => []
    | some i =>
      match popAt streams i with
      | (some r, rest) => (i, r) :: merge fuel rest
      | (none, _) => []

def mergeAll (streams : List (List Rec)) : List (Nat × Rec) :=
  merge (streams.foldl (fun n l => n + l.length) 0) streams

/-- the node table of a report over the per-task record streams -/
def reportNodes (taskMode : Bool) (maxStack : Nat) (streams : List (List Rec)) : Nodes :=
  let ns := finish taskMode streams.length (run taskMode (St.init maxStack) (mergeAll streams))
  if taskMode then fun k => (ns k).adjustTask else ns

/-! ### rows, `report_calc_avg`, sorting -/

/-- what is printed for one node: C values (mod 2^64), `avg = (sum + rec) / call` -/
structure Row where
  key : Nat
  call : Nat
  size : Nat
  tsum : Nat
  tavg : Nat
  tmin : Nat
  tmax : Nat
  ssum : Nat
  savg : Nat
  smin : Nat
  smax : Nat
  deriving DecidableEq, Repr, Inhabited

def Stat.avg (ts : Stat) (call : Nat) : Nat := ((ts.sum + ts.recs) % M64) / call

def Row.ofNode (key size : Nat) (n : Node) : Row :=
  { key := key, call := n.call, size := size,
    tsum := n.total.sum % M64, tavg := n.total.avg n.call, tmin := n.total.min, tmax := n.total.max,
    ssum := n.self.sum % M64, savg := n.self.avg n.call, smin := n.self.min, smax := n.self.max }

/-- the name tree in name order: the keys (ascending, distinct) that have a node -/
def nameRows (ns : Nodes) (size : Nat → Nat) (keys : List Nat) : List Row :=
  (keys.filter (fun k => (ns k).call > 0)).map (fun k => Row.ofNode k (size k) (ns k))

inductive Key where
  | total | totalAvg | totalMin | totalMax | self | selfAvg | selfMin | selfMax | call | func | size
  deriving DecidableEq, Repr, Inhabited

def cmpNat (a b : Nat) : Int := if a = b then 0 else if a > b then 1 else -1

/-- the `SORT_KEY` comparators; `func` is `strcmp(b->name, a->name)` (names ordered like keys) -/
def Key.cmp : Key → Row → Row → Int
  | .total, a, b => cmpNat a.tsum b.tsum
  | .totalAvg, a, b => cmpNat a.tavg b.tavg
  | .totalMin, a, b => cmpNat a.tmin b.tmin
  | .totalMax, a, b => cmpNat a.tmax b.tmax
  | .self, a, b => cmpNat a.ssum b.ssum
  | .selfAvg, a, b => cmpNat a.savg b.savg
  | .selfMin, a, b => cmpNat a.smin b.smin
  | .selfMax, a, b => cmpNat a.smax b.smax
  | .call, a, b => cmpNat a.call b.call
  | .func, a, b => cmpNat b.key a.key
  | .size, a, b => cmpNat a.size b.size

/-- `cmp_node`: first key that tells the two apart -/
def cmpChain (cmps : List (Row → Row → Int)) (a b : Row) : Int :=
  match cmps with
  | [] => 0
  | c :: rest => if c a b ≠ 0 then c a b else cmpChain rest a b

/-- `insert_node`: left of every node that compares smaller, right of the others -/
def insertRow (cmp : Row → Row → Int) (node : Row) : List Row → List Row
  | [] => [node]
  | iter :: rest => if cmp iter node < 0 then node :: iter :: rest else iter :: insertRow cmp node rest

/-- `report_sort_nodes`: insert the name tree's nodes in name order -/
def sortRows (cmp : Row → Row → Int) (rows : List Row) : List Row :=
  rows.foldl (fun acc r => insertRow cmp r acc) []

def sortByKeys (keys : List Key) (rows : List Row) : List Row :=
  sortRows (cmpChain (keys.map Key.cmp)) rows

/-- task report keys: total, self, func (= call), tid (`strcmp(b,a)`), name (all equal here) -/
def taskCmp : String → Option (Row → Row → Int)
  | "total" => some (fun a b => cmpNat a.tsum b.tsum)
  | "self" => some (fun a b => cmpNat a.ssum b.ssum)
  | "func" => some (fun a b => cmpNat a.call b.call)
  | "tid" => some (fun a b => cmpNat b.key a.key)
  | "name" => some (fun _ _ => 0)
  | _ => none

def Key.ofName : String → Option Key
  | "total" => some .total | "total_avg" => some .totalAvg | "total_min" => some .totalMin
  | "total_max" => some .totalMax | "self" => some .self | "self_avg" => some .selfAvg
  | "self_min" => some .selfMin | "self_max" => some .selfMax | "call" => some .call
  | "func" => some .func | "size" => some .size
  | _ => none

/-- `convert_sort_keys`: avgMode 0 none, 1 --avg-total, 2 --avg-self; `none` = no -s option -/
def convertSortKeys (s : Option String) (avgMode : Nat) : List String :=
  match s with
  | none => [if avgMode = 0 then "total" else if avgMode = 1 then "total_avg" else "self_avg"]
  | some s =>
    if avgMode = 0 then (s.map (fun c => if c = '-' then '_' else c)).splitOn ","
    else (s.splitOn ",").map fun k =>
      if k = "avg" then (if avgMode = 1 then "total_avg" else "self_avg")
      else if k = "min" then (if avgMode = 1 then "total_min" else "self_min")
      else if k = "max" then (if avgMode = 1 then "total_max" else "self_max")
      else k

/-- `report_setup_sort`: none = "invalid sort key" -/
def setupSort (names : List String) : Option (List Key) :=
  names.foldr (fun n acc => match Key.ofName n, acc with
    | some k, some l => some (k :: l)
    | _, _ => none) (some [])

/-! ### finding F-C08-DUP: the same sort key twice

`report_setup_sort` links the one static `struct sort_key` of a name into the list `sort_keys`
with `list_add_tail` once per occurrence.  Linking a node that is already in the list corrupts
it: `-s total,total` leaves `total.next = total` (an endless chain: `cmp_node` never returns
when two rows tie on `total`), `-s total,self,total` unlinks `self` (the rows are ordered by
`total` alone).  Mathematically a repeated key adds nothing (`cmpChain_dedup`), so the repaired
behaviour is `setupSort`/`sortByKeys` above; what the unrepaired code does is modelled here. -/

/-- the intrusive list: node 0 is the head `sort_keys`, node i + 1 the static key number i -/
structure Links where
  next : Nat → Nat
  prev : Nat → Nat

def Links.init : Links := { next := fun _ => 0, prev := fun _ => 0 }

def setAt (f : Nat → Nat) (i v : Nat) : Nat → Nat := fun k => if k = i then v else f k

/-- `list_add_tail(new, head)` = `__list_add(new, head->prev, head)` -/
def Links.addTail (l : Links) (new : Nat) : Links :=
  let prev := l.prev 0
  let l1 : Links := { l with prev := setAt l.prev 0 new }          -- next->prev = new
  let l2 : Links := { l1 with next := setAt l1.next new 0 }         -- new->next = next
  let l3 : Links := { l2 with prev := setAt l2.prev new prev }      -- new->prev = prev
  { l3 with next := setAt l3.next prev new }                        -- prev->next = new

/-- `list_for_each_entry`: the nodes visited from `pos` until the head comes round again;
    `true` when it does not within `fuel` steps (the chain is endless) -/
def walk (l : Links) : Nat → Nat → List Nat × Bool
  | 0, _ => ([], true)
  | fuel + 1, pos =>
    if pos = 0 then ([], false)
    else let r := walk l fuel (l.next pos); (pos :: r.1, r.2)

def Key.all : List Key :=
  [.total, .totalAvg, .totalMin, .totalMax, .self, .selfAvg, .selfMin, .selfMax, .call, .func, .size]

def Key.idx (k : Key) : Nat := (Key.all.findIdx? (· == k)).getD 0

/-- the key chain `cmp_node` walks after the unrepaired `report_setup_sort`, and whether it is endless -/
def chainPre (keys : List Key) : List Key × Bool :=
  let l := keys.foldl (fun l k => l.addTail (k.idx + 1)) Links.init
  let w := walk l (2 * keys.length + 2) (l.next 0)
  (w.1.map (fun i => Key.all.getD (i - 1) .total), w.2)

/-- the repair: a key that is already linked is not linked again -/
def dedupAux (seen : List Key) : List Key → List Key
  | [] => []
  | k :: ks => if k ∈ seen then dedupAux seen ks else k :: dedupAux (k :: seen) ks

def dedupKeys (ks : List Key) : List Key := dedupAux [] ks

/-- `report_setup_sort` + the chain `cmp_node` then walks: `fixed = true` the repaired code,
    `false` the code as it is; `none` = invalid sort key; the flag = endless chain -/
def setupSortG (fixed : Bool) (names : List String) : Option (List Key × Bool) :=
  (setupSort names).map fun ks => if fixed then (dedupKeys ks, false) else chainPre ks

/-- the sorted table; `none` = `uftrace report` does not terminate -/
def sortByChainG (chain : List Key × Bool) (rows : List Row) : Option (List Row) :=
  let cmp := cmpChain (chain.1.map Key.cmp)
  let rec ties : List Row → Bool
    | [] => false
    | a :: rest => rest.any (fun b => cmp a b == 0) || ties rest
  if chain.2 && ties rows then none else some (sortRows cmp rows)

/-! ### --diff -/

def zeroRow (key : Nat) : Row :=
  { key := key, call := 0, size := 0, tsum := 0, tavg := 0, tmin := 0, tmax := 0,
    ssum := 0, savg := 0, smin := 0, smax := 0 }

/-- a node of the diff tree: the base node's figures and its pair's -/
structure DRow where
  base : Row
  pair : Row
  deriving DecidableEq, Repr, Inhabited

def Key.val : Key → Row → Nat
  | .total, a => a.tsum | .totalAvg, a => a.tavg | .totalMin, a => a.tmin | .totalMax, a => a.tmax
  | .self, a => a.ssum | .selfAvg, a => a.savg | .selfMin, a => a.smin | .selfMax, a => a.smax
  | .call, a => a.call | .func, a => a.key | .size, a => a.size

/-- `(int64_t)(pair - base)` -/
def diff64 (base pair : Nat) : Int :=
  let d := sub64 pair base
  if d ≥ M64 / 2 then (d : Int) - M64 else d

/-- `size` is an `unsigned`: `pair - base` wraps at 2^32 before it is widened to `int64_t` -/
def diff32 (base pair : Nat) : Int := ((pair + 4294967296 - base % 4294967296) % 4294967296 : Nat)

/-- `cmp_diff_<key>`: column ≠ 2 compares the base fields, column 2 the (absolute) differences -/
def Key.cmpDiff (column : Nat) (absolute : Bool) (k : Key) (a b : DRow) : Int :=
  if k = .func then cmpNat b.base.key a.base.key
  else if column ≠ 2 then cmpNat (k.val a.base) (k.val b.base)
  else
    let da := if k = .size then diff32 (k.val a.base) (k.val a.pair) else diff64 (k.val a.base) (k.val a.pair)
    let db := if k = .size then diff32 (k.val b.base) (k.val b.pair) else diff64 (k.val b.base) (k.val b.pair)
    if da = db then 0
    else
      -- after taking absolute values there is no test for equality any more (report.c:367):
      -- differences +d and -d compare as "smaller" in both directions
      let da' := if absolute then (if da > 0 then da else -da) else da
      let db' := if absolute then (if db > 0 then db else -db) else db
      if da' > db' then 1 else -1

def cmpChainD (cmps : List (DRow → DRow → Int)) (a b : DRow) : Int :=
  match cmps with
  | [] => 0
  | c :: rest => if c a b ≠ 0 then c a b else cmpChainD rest a b

def insertDRow (cmp : DRow → DRow → Int) (node : DRow) : List DRow → List DRow
  | [] => [node]
  | iter :: rest => if cmp iter node < 0 then node :: iter :: rest else iter :: insertDRow cmp node rest

/-- `report_diff_nodes`: every base node with its pair (or the all-zero dummy), then the pair
    nodes that no base node used (as an all-zero base) -/
def diffRows (cmp : DRow → DRow → Int) (base pair : List Row) : List DRow :=
  let t1 := base.foldl (fun acc b =>
    insertDRow cmp { base := b, pair := (pair.find? (fun p => p.key = b.key)).getD (zeroRow b.key) } acc) []
  (pair.filter (fun p => !(base.any (fun b => b.key = p.key)))).foldl (fun acc p =>
    insertDRow cmp { base := zeroRow p.key, pair := p } acc) t1

def diffByKeys (keys : List Key) (column : Nat) (absolute : Bool) (base pair : List Row) : List DRow :=
  diffRows (cmpChainD (keys.map (Key.cmpDiff column absolute))) base pair

/-- `report_setup_diff` has no stdv keys but is otherwise `report_setup_sort` -/
def setupDiff (names : List String) : Option (List Key) := setupSort names

end Uft.Report
