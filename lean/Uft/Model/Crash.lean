/-
C04 — what is added to `Shmem` for a crashing / killed / finished tracee.

`Shmem` already has the micro-steps of the producer, `kill t` (the thread takes no further
step: SIGKILL, the tail of SIGSEGV/SIGABRT, _exit, exec), `pFinishTrigger` / `pFinish`
(finish trigger, mtd_dtor) and the recorder's `rFlush` (flush_shmem_list, flush_old_shmem),
`rStop` (stop_all_writers), `rRemaining` (record_remaining_buffer).  Here:

  * libmcount/mcount.c segv_handler + libmcount/misc.c mcount_rstack_restore: which shadow-stack
    slots the crash handler touches, and which ENTRY records it hands to record_trace_data
    (`segvFlush`, on top of the hook model `Uft.Mcount`); `fixed = false` is the code as it
    is (finding F11: index `idx - 1` is used although `idx` may exceed `mcount_rstack_max`);
  * cmds/record.c do_main_loop tail → stop_tracing → finish_writers as one function
    (`shutdown`), and the measure that bounds every shutdown schedule (`mu`).
Core-only imports (linked into uvmodel).
-/
import Uft.Model.Shmem
import Uft.Model.Mcount
namespace Uft.Crash
open Uft.Shmem Uft.Writers

/-! ### the crash handler -/

inductive SegvOutcome where
  | nothing                    -- `mtdp->idx <= 0`: goto out
  | wild (index : Nat)         -- `&mtdp->rstack[index]` with index ≥ mcount_rstack_max is read
                               -- (record_trace_data) and written through (`*rstack->parent_loc = …`)
  | flushed (frames : List Mcount.Frame) (recs : List Mcount.Rec)
  deriving Repr

/-- segv_handler: `mcount_rstack_restore(mtdp); rstack = &mtdp->rstack[mtdp->idx - 1];
    record_trace_data(mtdp, rstack, NULL);`.  `st.frames` are the slots inside the array
    (innermost first), `st.over = idx - mcount_rstack_max` when cygprof_entry counted beyond it.
    `fixed`: the index is clamped to the array. -/
def segvFlush (fixed : Bool) (st : Mcount.St) : SegvOutcome :=
  if st.idx = 0 then .nothing
  else if st.over > 0 && !fixed then .wild (st.idx - 1)
  else
    let p := Mcount.recordTrace st.frames
    .flushed p.1 p.2

/-! ### what a thread does before it crashes: any sequence of hook calls -/

inductive HookOp where
  | enter (k : Mcount.Kind) (addr now : Nat)   -- mcount_entry / __fentry__ / __cyg_profile_func_enter / plthook_entry
  | leave (now : Nat)                          -- the matching exit hook of the innermost open call
  | flush                                      -- record_trace_data on the top frame (fork / exec / exit wrappers …)
  | forkChild                                  -- atfork_child_handler
  deriving Repr

def hookStep (cfg : Mcount.Cfg) (s : Mcount.St) : HookOp → Mcount.St
  | .enter k addr now => (Mcount.entry cfg k s addr now).1
  | .leave now => Mcount.exit cfg s now
  | .flush => Mcount.flushTop s
  | .forkChild => Mcount.forkChild s

def runHooks (cfg : Mcount.Cfg) : Mcount.St → List HookOp → Mcount.St
  | s, [] => s
  | s, o :: os => runHooks cfg (hookStep cfg s o) os

/-! ### the recorder's shutdown as one function -/

/-- do `n` times: the action `pick s` proposes, as long as it is enabled -/
def iter (cfg : Cfg) (pick : State → Option Action) : Nat → State → State
  | 0, s => s
  | n + 1, s =>
    match pick s with
    | none => s
    | some a =>
      match step cfg s a with
      | some s' => iter cfg pick n s'
      | none => s

/-- stop_tracing: read what is left in the pipe -/
def drainPick (s : State) : Option Action := if s.pipe.isEmpty then none else some .rRead

/-- pthread_join of writer `i`: it finishes its local list, splices what was passed to it, repeats -/
def joinPick (i : Nat) (s : State) : Option Action :=
  match s.pool.writers[i]? with
  | none => none
  | some w => if !w.head.isEmpty then some (.wWrite i) else if w.tid.isSome then some (.wSplice i) else none

def poolBufs (p : Pool) : Nat :=
  p.writeList.length + (p.writers.map fun w => w.head.length + w.bufs.length).sum

/-- flush_shmem_list: every entry of shmem_list_head, in order -/
def flushAll (cfg : Cfg) (s : State) : State :=
  s.shmemList.foldl (fun acc wb => match step cfg acc (.rFlush wb.tid wb.idx) with
    | some s' => s'
    | none => acc) s

def shutdown (cfg : Cfg) (s : State) : State :=
  let s1 := iter cfg drainPick s.pipe.length s
  let s2 := match step cfg s1 .rStop with | some x => x | none => s1
  let s3 := (List.range s2.pool.writers.length).foldl
    (fun acc i => iter cfg (joinPick i) (2 * poolBufs acc.pool + 2) acc) s2
  let s4 := flushAll cfg s3
  iter cfg (fun _ => some .rRemaining) s4.pool.writeList.length s4

/-- weight of the work the recorder still has: bounds the length of every shutdown schedule -/
def mu (s : State) : Nat :=
  6 * s.pipe.length + 5 * s.shmemList.length + 4 * s.pool.writeList.length +
  (s.pool.writers.map fun w => 2 * w.head.length + 4 * w.bufs.length + (if w.tid.isSome then 1 else 0)).sum

/-- the actions of the shutdown sequence -/
def isShutdownAct : Action → Bool
  | .rRead | .rFlush _ _ | .rRemaining | .wWrite _ | .wSplice _ => true
  | _ => false

/-- every thread of every process has stopped (killed, exited through mtd_dtor, or tracing finished) -/
def stopped (s : State) (t : Tid) : Bool := !(s.prod t).alive || (s.prod t).done || s.pipeClosed

def showRec (r : Mcount.Rec) : String := s!"{if r.type == 0 then "E" else "X"}:{r.depth}:{r.addr}"

def showSegv : SegvOutcome → String
  | .nothing => "nothing"
  | .wild i => s!"wild {i}"
  | .flushed fs recs => "flushed recs=[" ++ " ".intercalate (recs.map showRec) ++ "] written=[" ++
      " ".intercalate (fs.map fun f => if f.written then "1" else "0") ++ "]"

/-! ### the recorder's task list, and a tid that lives on in a new image (exec)

cmds/record.c read_record_mmap: REC_START / REC_END / TASK_START / FORK_START / FORK_END / TASK_END,
flush_old_shmem, and flush_shmem_list at the end — as far as they decide in which ORDER the buffers of
one tid are handed to copy_to_buffer (`enq`, ghost).  By the writer pool's per-tid FIFO
(Lemmas/Writers: enqueue_queue, popHead_queue) that is the order in which they reach `<tid>.dat`.
`known pos.pid pos.tid msg.pid msg.tid` is the test "existing tid (due to exec)" of the TASK_START
case; the code's own is generated into Uft/Gen/TaskStart.lean on every run. -/

/-- struct tid_list; `tid = -1`: FORK_START seen, FORK_END not yet -/
structure Task where
  pid : Int
  tid : Int
  exited : Bool := false
  deriving DecidableEq, Repr

inductive CMsg where
  | recStart (tid : Int) (b : Nat)      -- `b`: the buffer (session, tid, seq)
  | recEnd (tid : Int) (b : Nat)
  | taskStart (pid tid : Int)
  | forkStart (pid : Int)
  | forkEnd (pid tid : Int)             -- pid = the child's getppid(), tid = the child
  | taskEnd (tid : Int)
  deriving DecidableEq, Repr

structure RecState where
  tasks : List Task := []               -- tid_list_head (list_add: newest first)
  shm : List (Int × Nat) := []          -- shmem_list_head
  enq : List (Int × Nat) := []          -- ghost: buffers handed to record_mmap_file → copy_to_buffer, in order
  deriving Repr

/-- flush_old_shmem: the first entry of that tid leaves shmem_list and is handed over -/
def flushOld (tid : Int) : List (Int × Nat) → Option ((Int × Nat) × List (Int × Nat))
  | [] => none
  | e :: l => if e.1 = tid then some (e, l) else
    match flushOld tid l with
    | some (x, l') => some (x, e :: l')
    | none => none

/-- FORK_END: the entry of that parent still waiting for its child's tid; else (daemon) the first waiting one -/
def forkEndUpdate (pid tid : Int) (ts : List Task) : List Task :=
  let rec setFirst (p : Task → Bool) : List Task → Option (List Task)
    | [] => none
    | t :: l => if p t then some ({ t with tid := tid } :: l) else (setFirst p l).map (t :: ·)
  match setFirst (fun t => t.pid == pid && t.tid == -1) ts with
  | some l => l
  | none =>
    match setFirst (fun t => t.tid == -1) ts with
    | some l => l
    | none => ts          -- pr_err("cannot find fork pid")

def handle (known : Int → Int → Int → Int → Bool) (s : RecState) : CMsg → RecState
  | .recStart t b => { s with shm := s.shm ++ [(t, b)] }
  | .recEnd t b => { s with shm := s.shm.erase (t, b), enq := s.enq ++ [(t, b)] }
  | .taskStart pid tid =>
    if s.tasks.any (fun pos => known pos.pid pos.tid pid tid) then
      match flushOld tid s.shm with
      | some (e, l) => { s with shm := l, enq := s.enq ++ [e] }
      | none => s
    else { s with tasks := { pid := pid, tid := tid } :: s.tasks }
  | .forkStart pid => { s with tasks := { pid := pid, tid := -1 } :: s.tasks }
  | .forkEnd pid tid => { s with tasks := forkEndUpdate pid tid s.tasks }
  | .taskEnd tid => { s with tasks := s.tasks.map fun t => if t.tid == tid then { t with exited := true } else t }

/-- finish_writers: flush_shmem_list -/
def finishRec (s : RecState) : RecState := { s with shm := [], enq := s.enq ++ s.shm }

def runRec (known : Int → Int → Int → Int → Bool) (msgs : List CMsg) : RecState :=
  finishRec (msgs.foldl (handle known) {})

/-- buffers of `t`, in the order they were started -/
def startsOf (t : Int) : List CMsg → List (Int × Nat)
  | [] => []
  | .recStart t' b :: l => if t' = t then (t', b) :: startsOf t l else startsOf t l
  | _ :: l => startsOf t l

def knownTid (s : RecState) (t : Int) : Bool := s.tasks.any (fun x => x.tid == t)

def shmOf (s : RecState) (t : Int) : List (Int × Nat) := s.shm.filter (fun e => e.1 = t)

/-- what the producers guarantee about a message, given what the recorder holds (C03: a REC_END ends the one
    buffer the recorder holds for that tid; a new image starts its first buffer while at most the dead image's
    last one is still announced; TASK_START comes either from a task not seen before, or from a new image of a
    known task whose old image left its last buffer behind) -/
def msgOk (s : RecState) : CMsg → Bool
  | .recStart t _ => (shmOf s t).length ≤ 1
  | .recEnd t b => shmOf s t == [(t, b)]
  | .taskStart _ t => ((shmOf s t).length == 2 && knownTid s t) || (decide ((shmOf s t).length ≤ 1) && !knownTid s t)
  | _ => true

def valid (known : Int → Int → Int → Int → Bool) : RecState → List CMsg → Bool
  | _, [] => true
  | s, m :: l => msgOk s m && valid known (handle known s m) l

end Uft.Crash
