/-
C09 — model of the argument / return-value payload path.

  writer   libmcount/record.c          save_to_argbuf, save_argument, save_retval,
                                       record_ret_stack (payload part)
           arch/x86_64/mcount-support.c mcount_arch_get_arg / mcount_arch_get_retval
  reader   utils/fstack.c              read_task_arg, read_task_args   (framing)
           cmds/replay.c               get_argspec_string              (values, text)

The per-frame argument buffer is a 1024-byte slice of one heap block
(`mtdp->argbuf + idx * ARGBUF_SIZE`).  Memory is modelled as a total function
from offsets (relative to the start of the slice) to bytes plus a high-water
mark `hi` (1 + the largest offset ever written): a write at offset ≥ 1024 is
outside the slice (`oob`).

`Fix` selects the repaired behaviour for the two findings:
  nullMarker (F6)  the writer stores the NULL marker 0xffffffff the readers test for
                   (today: the characters 'N','U','L','L')
  bounds     (S1)  the writer keeps 32 bytes of slack and re-checks the total before
                   every value; a struct's stack copy only happens for %stack specs
                   (today: values are stored first and the total is checked at the end).
Core-only imports (linked into uvmodel).
-/
import Uft.Base
import Uft.Gen.Layout
namespace Uft.Argbuf

abbrev Byte := UInt8

def SLICE : Nat := 1024        -- ARGBUF_SIZE
def STRMAX : Nat := 98         -- ARG_STR_MAX

def align4 (n : Nat) : Nat := (n + 3) / 4 * 4
def align8 (n : Nat) : Nat := (n + 7) / 8 * 8

/-- n bytes of v, little endian -/
def leBytes : Nat → Nat → List Byte
  | 0, _ => []
  | n + 1, v => UInt8.ofNat (v % 256) :: leBytes n (v / 256)

def ofLe : List Byte → Nat
  | [] => 0
  | b :: r => b.toNat + 256 * ofLe r

structure Fix where
  nullMarker : Bool
  bounds : Bool
  deriving DecidableEq, Repr

def Fix.none : Fix := ⟨false, false⟩
def Fix.all : Fix := ⟨true, true⟩

/-- max_size of save_to_argbuf -/
def maxSize (fx : Fix) : Nat := if fx.bounds then SLICE - 4 - 32 else SLICE - 4

inductive Fmt
  | auto | sint | uint | hex | oct | str | chr | flt | stdstr | ptr | enm | strct
  deriving DecidableEq, Repr, Inhabited

/-- struct uftrace_arg_spec (utils/argspec.h) -/
structure Spec where
  idx : Nat                 -- 0 = RETVAL_IDX
  fmt : Fmt
  size : Nat
  ty : Nat := 0             -- ARG_TYPE_INDEX 0, FLOAT 1, REG 2, STACK 3
  loc : Nat := 0            -- union { reg_idx; stack_ofs }
  sregs : List Nat := []    -- struct_regs[0 .. struct_reg_cnt)
  deriving DecidableEq, Repr, Inhabited

def Spec.isStr (sp : Spec) : Bool := sp.fmt == .str || sp.fmt == .stdstr
def Spec.isRet (sp : Spec) : Bool := sp.idx == 0

/-- `if (is_retval != (spec->idx == RETVAL_IDX)) continue;` -/
def sel (isRet : Bool) (specs : List Spec) : List Spec := specs.filter (fun sp => sp.isRet == isRet)

/-! ## memory -/

structure Mem where
  get : Nat → Byte
  hi : Nat

def Mem.wr (m : Mem) (i : Nat) (b : Byte) : Mem :=
  ⟨fun j => if j = i then b else m.get j, max m.hi (i + 1)⟩

def Mem.blit (m : Mem) (off : Nat) (bs : List Byte) : Mem :=
  ⟨fun j => if off ≤ j ∧ j < off + bs.length then bs.getD (j - off) 0 else m.get j,
   if bs.length = 0 then m.hi else max m.hi (off + bs.length)⟩

/-- n bytes starting at a -/
def Mem.rd (m : Mem) : Nat → Nat → List Byte
  | _, 0 => []
  | a, n + 1 => m.get a :: m.rd (a + 1) n

/-! ## what the fetchers hand to the packer -/

inductive Val
  | word (w : Nat)            -- ctx->val.v (16 bytes, little endian) after the fetch
  | str (s : List Byte)       -- readable C string: the bytes before the NUL
  | null                      -- NULL pointer
  | bad (a : Nat)             -- pointer rejected by check_mem_region
  | blob (bs : List Byte)     -- what mcount_get_struct_arg stored at ptr
  deriving DecidableEq, Repr, Inhabited

def hexBytes (a : Nat) : List Byte := (Nat.toDigits 16 a).map (fun c => UInt8.ofNat c.toNat)

/-- snprintf(buf, 32, "<%p>", str) for a non-NULL pointer -/
def badText (a : Nat) : List Byte := [60, 48, 120] ++ hexBytes a ++ [62]

def Val.src : Val → Option (List Byte)
  | .str s => some s
  | .bad a => some (badText a)
  | _ => none

def Val.asWord : Val → Nat
  | .word w => w
  | _ => 0

def Val.asBlob : Val → List Byte
  | .blob bs => bs
  | _ => []

/-! ## save_to_argbuf -/

structure St where
  mem : Mem
  total : Nat          -- total_size
  stop : Bool          -- the loop was left by `break`

def DOT : Byte := 46

/-- `for (i = 0; i < room; i++) { dst[i] = str[i]; if (i == ARG_STR_MAX) {…} if (!dst[i]) break; len++; }`
    d = offset of dst[0]; returns the memory and `i` (= len). -/
def copyLoop (str : List Byte) (room d : Nat) : Nat → Nat → Mem → Mem × Nat
  | 0, i, m => (m, i)
  | fuel + 1, i, m =>
    if i < room then
      let m1 := m.wr (d + i) (str.getD i 0)
      let m2 := if i = 98 then
          (((m1.wr (d + i - 3) DOT).wr (d + i - 2) DOT).wr (d + i - 1) DOT).wr (d + i) 0
        else m1
      if m2.get (d + i) = 0 then (m2, i) else copyLoop str room d fuel (i + 1) m2
    else (m, i)

/-- `max_size - total_size` in unsigned arithmetic -/
def roomOf (fx : Fix) (total : Nat) : Nat :=
  if total ≤ maxSize fx then maxSize fx - total else 2 ^ 32 + maxSize fx - total

def nullBytes (fx : Fix) : List Byte :=
  if fx.nullMarker then [255, 255, 255, 255] else [78, 85, 76, 76]

def packStr (fx : Fix) (src : Option (List Byte)) (st : St) : St :=
  let ptr := 4 + st.total
  match src with
  | some s =>
    let r := copyLoop s (roomOf fx st.total) (ptr + 2) 100 0 st.mem
    let m := r.1.blit ptr (leBytes 2 r.2)
    { mem := m, total := st.total + align4 (r.2 + 2), stop := false }
  | none =>
    let m := st.mem.blit ptr (leBytes 2 4)
    let m := m.blit (ptr + 2) (nullBytes fx)
    { mem := m, total := st.total + align4 (4 + 2), stop := false }

/-- one iteration of list_for_each_entry for a selected spec -/
def packOne (fx : Fix) (sp : Spec) (v : Val) (st : St) : St :=
  if fx.bounds = true ∧ st.total > maxSize fx then { st with stop := true } else
  if sp.fmt = .strct ∧ st.total + sp.size > maxSize fx then
    { st with total := st.total + sp.size, stop := true }
  else if sp.isStr then packStr fx v.src st
  else if sp.fmt = .strct then
    { mem := st.mem.blit (4 + st.total) v.asBlob, total := st.total + align4 sp.size, stop := false }
  else
    { mem := st.mem.blit (4 + st.total) (leBytes (align4 sp.size) v.asWord),
      total := st.total + align4 sp.size, stop := false }

/-- the loop over the selected specs and their fetched values -/
def packRun (fx : Fix) : List Spec → List Val → St → St
  | sp :: specs, v :: vals, st =>
    let st' := packOne fx sp v st
    if st'.stop then st' else packRun fx specs vals st'
  | _, _, st => st

def St.init (m : Mem) : St := { mem := { m with hi := 0 }, total := 0, stop := false }

inductive Err | oob | tooBig
  deriving DecidableEq, Repr

/-- the payload of a finished run: argbuf[4 .. 4 + total) -/
def St.payload (st : St) : List Byte := st.mem.rd 4 st.total

/-- save_to_argbuf + the caller's `*(unsigned *)argbuf = size`; `specs` already selected -/
def packArgs (fx : Fix) (specs : List Spec) (vals : List Val) (m0 : Mem) : Except Err (List Byte) :=
  let st := packRun fx specs vals (St.init m0)
  if st.mem.hi > SLICE then .error .oob
  else if st.total > maxSize fx then .error .tooBig
  else .ok st.payload

/-- what save_argument / save_retval record: only the total is checked (`size == -1U`); data that passed
    the check is recorded even when a byte outside the slice was written on the way -/
def accepted (fx : Fix) (specs : List Spec) (vals : List Val) (m0 : Mem) : Option (List Byte) :=
  let st := packRun fx specs vals (St.init m0)
  if st.total > maxSize fx then none else some st.payload

/-- what record_ret_stack appends after the 16-byte header: the payload, advanced by ALIGN(size, 8) -/
def padTo8 (n : Nat) : List Byte := List.replicate (align8 n - n) 0

/-- header of a record (two little-endian 64-bit words) -/
def hdrBytes (time type : Nat) (more : Bool) (depth addr : Nat) : List Byte :=
  leBytes 8 time ++ leBytes 8 (Uft.Gen.Layout.packWord type more depth addr)

/-- the bytes of one ENTRY/EXIT record; `payload = none` when there is no argument data
    (no spec, or the data was too big and the flag was dropped) -/
def recordBytes (time type depth addr : Nat) (payload : Option (List Byte)) : List Byte :=
  match payload with
  | none => hdrBytes time type false depth addr
  | some p => hdrBytes time type true depth addr ++ p ++ padTo8 p.length

/-! ## the fetchers (arch/x86_64/mcount-support.c) -/

structure Machine where
  regs : List Nat := []        -- rdi rsi rdx rcx r8 r9
  xmm : List Nat := []         -- xmm0..xmm7, low 64 bits
  stack : List Nat := []       -- stack_base[1], stack_base[2], …  (64-bit words)
  stackOk : Bool := true       -- check_mem_region on the stack address
  retval : Nat := 0            -- *retval
  fpret : Nat := 0             -- xmm0 at exit
  st0 : Nat := 0               -- x87 st(0), 80 bits
  strs : List (Nat × List Byte) := []      -- readable C strings by address
  objs : List (Nat × Nat) := []            -- readable std::string objects: address ↦ _M_dataplus
  regions : List (Nat × Nat) := []         -- mapped readable regions [start, end); [] = not specified
  deriving Repr, Inhabited

def W64 : Nat := 2 ^ 64

/-- replace the low n bytes of a 16-byte value -/
def setLow (val n x : Nat) : Nat := val / 256 ^ n * 256 ^ n + x % 256 ^ n

def stackBytes (m : Machine) : List Byte := m.stack.flatMap (leBytes 8)

/-- mcount_get_register_arg: returns the new ctx->val and whether it succeeded -/
def getRegArg (m : Machine) (val : Nat) (ty idx loc size : Nat) : Nat × Bool :=
  if ty = 3 ∨ ty > 3 then (val, false) else
  let r := if ty = 2 then loc else if ty = 0 then idx else idx + 100
  let v0 := setLow val 8 0
  if 1 ≤ r ∧ r ≤ 6 then (setLow val 8 (m.regs.getD (r - 1) 0), true)
  else if 101 ≤ r ∧ r ≤ 108 then
    let x := m.xmm.getD (r - 101) 0
    (if size = 8 then setLow v0 8 x else setLow v0 4 x, true)
  else (v0, false)

/-- mcount_get_stack_arg -/
def getStackArg (m : Machine) (val : Nat) (ty idx loc size : Nat) : Nat :=
  let off : Int := if ty = 3 then (loc : Int) else if ty = 0 then (idx : Int) - 6 else ((idx : Int) - 8) * 2 - 1
  if off < 1 ∨ off > 100 then 0
  else if m.stackOk then
    let n := align4 size
    setLow val n (ofLe (((stackBytes m).drop (8 * (off.toNat - 1))).take n ++ List.replicate n 0))
  else 0

def lookup {α : Type} (l : List (Nat × α)) (a : Nat) : Option α :=
  match l with
  | [] => none
  | (k, v) :: r => if k = a then some v else lookup r a

/-- the specified verdict of check_mem_region: an address is readable iff its first byte lies inside a
    mapped readable region [start, end) (when the regions are not given, every address with known
    contents counts as mapped) -/
def mapped (m : Machine) (p : Nat) : Bool :=
  m.regions.isEmpty || m.regions.any (fun r => decide (r.1 ≤ p) && decide (p < r.2))

/-- classification of a `char *`: memory is only looked at when the pointer is mapped -/
def strVal (m : Machine) (p : Nat) : Val :=
  if p = 0 then .null else
  if mapped m p = false then .bad p else
  match lookup m.strs p with
  | some s => .str s
  | none => .bad p

/-- mcount_get_struct_arg -/
def getStructArg (fx : Fix) (m : Machine) (val : Nat) (sp : Spec) : List Byte × Nat :=
  let step := fun (acc : List Byte × Nat) (r : Nat) =>
    let v := (getRegArg m acc.2 2 0 r 0).1
    (acc.1 ++ leBytes 8 v, v)
  let a := sp.sregs.foldl step ([], val)
  if (if fx.bounds then sp.ty = 3 ∧ sp.loc > 0 else sp.loc > 0) then
    let n := sp.size / 4 * 4
    if m.stackOk then
      (a.1 ++ (((stackBytes m).drop (8 * (sp.loc - 1))).take n ++ List.replicate n 0).take n, a.2)
    else (a.1 ++ List.replicate n 0, a.2)
  else if sp.sregs.length = 0 then
    let v := (getRegArg m a.2 sp.ty sp.idx sp.loc sp.size).1
    (a.1 ++ leBytes 8 v, v)
  else a

/-- mcount_arch_get_arg / mcount_arch_get_retval followed by the classification
    save_to_argbuf makes; returns the value handed to the packer and the new ctx->val -/
def fetch (fx : Fix) (m : Machine) (isRet : Bool) (val : Nat) (sp : Spec) : Val × Nat :=
  let val' : Nat × Option (List Byte) :=
    if isRet then
      if sp.fmt = .strct then (setLow val 8 m.retval, some [])
      else if sp.fmt ≠ .flt then (setLow val sp.size m.retval, none)
      else if sp.size = 10 then (setLow val 10 m.st0, none)
      else (setLow val 8 m.fpret, none)
    else if sp.fmt = .strct then
      let r := getStructArg fx m val sp
      (r.2, some r.1)
    else
      let r := getRegArg m val sp.ty sp.idx sp.loc sp.size
      if r.2 then (r.1, none) else (getStackArg m r.1 sp.ty sp.idx sp.loc sp.size, none)
  let v := val'.1
  match val'.2 with
  | some bs => (.blob bs, v)
  | none =>
    if sp.fmt = .str then (strVal m (v % W64), v)
    else if sp.fmt = .stdstr then
      let base := v % W64
      match (if mapped m base then lookup m.objs base else none) with
      | some data => (strVal m data, v)
      | none => (strVal m base, v)      -- unreadable object: the object address itself is treated as the string
    else (.word v, v)

def fetchAll (fx : Fix) (m : Machine) (isRet : Bool) : List Spec → Nat → List Val
  | [], _ => []
  | sp :: r, val =>
    let f := fetch fx m isRet val sp
    f.1 :: fetchAll fx m isRet r f.2

/-- a struct argument checked by save_to_argbuf does not call the fetcher when it does not fit;
    `fetchAll` is only used on the prefix that is reached, the driver cuts the list itself. -/
def captured (fx : Fix) (m : Machine) (isRet : Bool) (specs : List Spec) (m0 : Mem) : Except Err (List Byte) :=
  packArgs fx (sel isRet specs) (fetchAll fx m isRet (sel isRet specs) 0) m0

/-! ## the readers -/

/-- read_task_arg: `data` = task->args.data[0 .. args.len), `inp` = the file from the current position -/
def readArg (sp : Spec) (data inp : List Byte) : Option (List Byte × List Byte) :=
  if sp.size = 0 then some (data, inp)
  else if sp.isStr then
    match inp with
    | b0 :: b1 :: inp' =>
      let slen := b0.toNat + 256 * b1.toNat
      let len := data.length + 2
      let rem := (len + slen) % 4
      let size := if rem ≠ 0 then slen + (4 - rem) else slen
      if inp'.length < size then none
      else some (data ++ [b0, b1] ++ inp'.take size, inp'.drop size)
    | _ => none
  else
    let rem := (data.length + sp.size) % 4
    let size := if rem ≠ 0 then sp.size + (4 - rem) else sp.size
    if inp.length < size then none
    else some (data ++ inp.take size, inp.drop size)

def readLoop : List Spec → List Byte → List Byte → Option (List Byte × List Byte)
  | [], data, inp => some (data, inp)
  | sp :: r, data, inp =>
    match readArg sp data inp with
    | some (d, i) => readLoop r d i
    | none => none

/-- read_task_args on the already selected specs: (args.data, the file after the final fseek) -/
def readArgs (specs : List Spec) (inp : List Byte) : Option (List Byte × List Byte) :=
  match readLoop specs [] inp with
  | some (data, rest) =>
    let rem := data.length % 8
    some (data, if rem ≠ 0 then rest.drop (8 - rem) else rest)
  | none => none

/-- a value as get_argspec_string sees it -/
inductive PVal
  | int (v : Nat)              -- memcpy(val.v, data, spec->size), zero extended
  | str (s : List Byte)        -- slen bytes after the 2-byte length
  | chr (c : Byte)
  | strct
  deriving DecidableEq, Repr, Inhabited

/-- the walk of get_argspec_string over args.data (its own stride: ALIGN(size, 4)) -/
def decodeVals : List Spec → List Byte → List PVal
  | [], _ => []
  | sp :: r, data =>
    if sp.isStr then
      let slen := ofLe (data.take 2)
      .str ((data.drop 2).take slen) :: decodeVals r (data.drop (align4 (slen + 2)))
    else if sp.fmt = .chr then
      .chr (data.getD 0 0) :: decodeVals r (data.drop (align4 1))
    else if sp.fmt = .strct then
      .strct :: decodeVals r (data.drop (align4 sp.size))
    else
      .int (ofLe (data.take sp.size)) :: decodeVals r (data.drop (align4 sp.size))

/-- what the reader must show for a value handed to the packer -/
def strObs (s : List Byte) : List Byte :=
  if s.length < 98 then s else s.take 95 ++ [DOT, DOT, DOT]

def obs (fx : Fix) (sp : Spec) (v : Val) : PVal :=
  if sp.isStr then
    match v.src with
    | some s => .str (strObs s)
    | none => .str (nullBytes fx)
  else if sp.fmt = .chr then .chr (UInt8.ofNat (v.asWord % 256))
  else if sp.fmt = .strct then .strct
  else .int (v.asWord % 256 ^ sp.size)

/-! ## text (cmds/replay.c get_argspec_string; --color=no, not JSON) -/

def decDigits (n : Nat) : List Byte := (Nat.toDigits 10 n).map (fun c => UInt8.ofNat c.toNat)
def octDigits (n : Nat) : List Byte := (Nat.toDigits 8 n).map (fun c => UInt8.ofNat c.toNat)

/-- two's complement value of the low `bits` bits -/
def sdec (bits v : Nat) : List Byte :=
  let x := v % 2 ^ bits
  if x < 2 ^ (bits - 1) then decDigits x else 45 :: decDigits (2 ^ bits - x)

/-- printf("%#<lm>x") -/
def hexText (bits v : Nat) : List Byte :=
  let x := v % 2 ^ bits
  if x = 0 then [48] else [48, 120] ++ hexBytes x

def octText (bits v : Nat) : List Byte :=
  let x := v % 2 ^ bits
  if x = 0 then [48] else 48 :: octDigits x

/-- bits of the printf length modifier chosen through `idx = ffs(size) - 1` -/
def lmBits (size : Nat) : Nat :=
  if size % 2 = 1 then 8 else if size % 4 = 2 then 16 else if size % 8 = 4 then 32 else 64

def escChar (c : Byte) : List Byte :=
  if c = 0 then [92, 48] else if c = 8 then [92, 98] else if c = 10 then [92, 110] else [c]

/-- the text of one value.  `v` is `val.i` (size ≤ 8) zero extended. -/
def renderVal (sp : Spec) (pv : PVal) : List Byte :=
  match pv with
  | .str s =>
    let body :=
      if s = [255, 255, 255, 255] then [78, 85, 76, 76]        -- NULL, no quotes
      else
        let c := s.takeWhile (· ≠ 0)                           -- C string inside the buffer
        -- `while (*p) { c = *p++; if (c & 0x80) break; }  if (*p) raw else escaped`
        match c.dropWhile (· < 128) with
        | _ :: _ :: _ => [34] ++ c ++ [34]                     -- "%.*s"
        | _ => [34] ++ c.flatMap escChar ++ [34]
    if sp.fmt = .stdstr then body ++ [115] else body
  | .chr c => [39] ++ escChar c ++ [39]
  | .strct => if sp.size = 0 then [123, 125] else [123, 46, 46, 46, 125]
  | .int v0 =>
    let v := v0 % W64
    let bits := if sp.size = 8 then 64 else lmBits sp.size
    match sp.fmt with
    | .auto =>
      -- val.i as signed long
      let big := (v < 2 ^ 63 ∧ v > 100000) ∨ (v ≥ 2 ^ 63 ∧ 2 ^ 64 - v > 100000)
      if big then
        if v > 0xffff0000 ∧ v ≤ 0xffffffff then sdec 32 v
        else hexText bits v
      else sdec bits v
    | .sint => sdec bits v
    | .uint => if v > 100000 then hexText bits v else decDigits (v % 2 ^ bits)
    | .hex => hexText bits v
    | .oct => octText bits v
    | .ptr => if v = 0 then [48] else [48, 120] ++ hexBytes v
    | _ => []

def intercalate (sep : List Byte) : List (List Byte) → List Byte
  | [] => []
  | [x] => x
  | x :: r => x ++ sep ++ intercalate sep r

/-- text of all values: "a, b, c" (arguments) or the first one only (return value) -/
def renderAll (isRet : Bool) (specs : List Spec) (pvs : List PVal) : List Byte :=
  let ts := (specs.zip pvs).map (fun p => renderVal p.1 p.2)
  if isRet then ts.headD [] else intercalate [44, 32] ts

/-! ## a stream of records -/

structure Rec where
  time : Nat
  type : Nat
  depth : Nat
  addr : Nat
  data : Option (List Byte)      -- args.data when `more`
  deriving DecidableEq, Repr

/-- read_task_ustack over a whole file: header, then (when `more`) read_task_args with the
    specs registered for the address; fuel = number of bytes -/
def decodeAll (specOf : Nat → List Spec) : Nat → List Byte → Option (List Rec)
  | 0, inp => if inp.isEmpty then some [] else none
  | fuel + 1, inp =>
    if inp.isEmpty then some [] else
    if inp.length < 16 then none else
    let time := ofLe (inp.take 8)
    let w := ofLe ((inp.drop 8).take 8)
    let type := Uft.Gen.Layout.unpackType w
    let addr := Uft.Gen.Layout.unpackAddr w
    let depth := Uft.Gen.Layout.unpackDepth w
    if Uft.Gen.Layout.unpackMagic w ≠ Uft.Gen.Layout.RECORD_MAGIC then none else
    let rest := inp.drop 16
    if Uft.Gen.Layout.unpackMore w = 1 then
      if type ≥ 2 then none else       -- events are not modelled
      match readArgs (sel (type == 1) (specOf addr)) rest with
      | some (data, rest') =>
        match decodeAll specOf fuel rest' with
        | some rs => some ({ time, type, depth, addr, data := some data } :: rs)
        | none => none
      | none => none
    else
      match decodeAll specOf fuel rest with
      | some rs => some ({ time, type, depth, addr, data := none } :: rs)
      | none => none

/-! ## where a function's spec list comes from (option sources)

  writer   libmcount/mcount.c   mcount_trigger_init: uftrace_setup_trigger(UFTRACE_TRIGGER), then
                                uftrace_setup_argument(UFTRACE_ARGUMENT), then uftrace_setup_retval(UFTRACE_RETVAL)
  info     utils/auto-args.c    extract_trigger_args (called by cmds/info.c fill_arg_spec): the `argspec:` /
                                `retspec:` lines = what was taken out of -T, then -A / -R
  reader   utils/fstack.c       setup_fstack_args: uftrace_setup_argument(argspec), uftrace_setup_retval(retspec),
                                then the old-format pass uftrace_setup_retval(argspec) when "retval" occurs in argspec
  both     utils/filter.c       setup_trigger / setup_trigger_action (which actions an option accepts),
                                update_filter (item without specs: auto-args table / DWARF), add_arg_spec

The writer lays a payload out by walking its list, the reader decodes it by walking the list it built
from the info file: the two lists are derived independently from the option strings.  Names and patterns
are abstract: an item carries the set of functions its pattern matches (regexec / fnmatch / strcmp are
opaque) and whether the pattern is a plain name (PATT_SIMPLE: "exact").
`XFix` selects the repaired behaviour for three findings in the info transformation:
  ret     (C09-TRIGRET)   a `retval/<fmt>` trigger action is stored as written (today: as plain `retval`)
  auto    (C09-TRIGAUTO)  `auto-args` next to explicit specs in one trigger is not stored (the writer ignores
                          it there; today the reader looks the function up in the auto-args table / DWARF)
  compat  (C09-OLDFMT)    the old-format pass only runs when there is no `retspec:` line (today: whenever the
                          characters "retval" occur in the argspec line). -/

/-- an entry of `filter->args`: the spec and `exact` (set by a plain-name match) -/
structure LSpec where
  sp : Spec
  exact : Bool
  deriving DecidableEq, Repr, Inhabited

/-- add_arg_spec: "the same argument" -/
def sameKey (a o : Spec) : Bool :=
  a.ty == o.ty && (if a.ty ≤ 1 then a.idx == o.idx else a.loc == o.loc)

/-- add_arg_spec, found: `if (exact_match || !oarg->exact)` format, size, type, location are replaced; the
    entry keeps its place in the list and its `idx` -/
def overwrite (o : LSpec) (a : Spec) (exact : Bool) : LSpec :=
  if exact || !o.exact then
    ⟨{ o.sp with fmt := a.fmt, size := a.size, ty := a.ty, loc := a.loc, sregs := a.sregs }, exact⟩
  else o

/-- add_arg_spec: the first entry with the same key is updated, otherwise the spec is appended -/
def addArgSpec (exact : Bool) : List LSpec → Spec → List LSpec
  | [], a => [⟨a, exact⟩]
  | o :: r, a => if sameKey a o.sp then overwrite o a exact :: r else o :: addArgSpec exact r a

/-- which option a string came from: -T (flags 0), -A (TRIGGER_FL_ARGUMENT), -R (TRIGGER_FL_RETVAL) -/
inductive Src | trig | arg | ret
  deriving DecidableEq, Repr

/-- one `name@action,action,…` item of an option string -/
structure Item where
  tag : Nat := 0               -- position in its option string (for the harness)
  fns : List Nat               -- the functions whose name the pattern matches
  exact : Bool                 -- PATT_SIMPLE
  specs : List Spec            -- the arg / fparg / retval actions in the order written
  autoArgs : Bool := false     -- an `auto-args` action
  nameRetval : Bool := false   -- the characters "retval" occur in the name part
  deriving DecidableEq, Repr, Inhabited

/-- setup_trigger_action: `if (orig_flags && !(orig_flags & action->compat_flags)) break;` -/
def compat (s : Src) (sp : Spec) : Bool :=
  match s with
  | .trig => true
  | .arg => !sp.isRet
  | .ret => sp.isRet

/-- the (exact, spec) pairs update_filter hands to add_arg_spec for function f, in order.
    `auto f isRet` = what find_auto_argspec / find_auto_retspec know about f (auto-args table, DWARF):
    used when the item has no spec of its own. -/
def itemAdds (auto : Nat → Bool → List Spec) (s : Src) (it : Item) (f : Nat) : List (Bool × Spec) :=
  if it.fns.contains f then
    let ps := it.specs.filter (compat s)
    let l :=
      if ps.isEmpty then
        (if s == .arg || (s == .trig && it.autoArgs) then auto f false else []) ++
        (if s == .ret || (s == .trig && it.autoArgs) then auto f true else [])
      else ps
    l.map (fun sp => (it.exact, sp))
  else []

def addsOf (auto : Nat → Bool → List Spec) (s : Src) (items : List Item) (f : Nat) : List (Bool × Spec) :=
  items.flatMap (fun it => itemAdds auto s it f)

def buildFrom (l : List LSpec) (adds : List (Bool × Spec)) : List LSpec :=
  adds.foldl (fun l a => addArgSpec a.1 l a.2) l

def build (adds : List (Bool × Spec)) : List LSpec := buildFrom [] adds

/-- libmcount: triggers first, then -A, then -R -/
def writerAdds (auto : Nat → Bool → List Spec) (T A R : List Item) (f : Nat) : List (Bool × Spec) :=
  addsOf auto .trig T f ++ addsOf auto .arg A f ++ addsOf auto .ret R f

def writerList (auto : Nat → Bool → List Spec) (T A R : List Item) (f : Nat) : List LSpec :=
  build (writerAdds auto T A R f)

structure XFix where
  ret : Bool
  auto : Bool
  compat : Bool
  deriving DecidableEq, Repr

def XFix.none : XFix := ⟨false, false, false⟩
def XFix.all : XFix := ⟨true, true, true⟩

/-- `rval = "retval"` -/
def DEFRET : Spec := { idx := 0, fmt := .auto, size := 8 }

/-- the bare `name` extract_trigger_args appends to both strings for an `auto-args` action -/
def xAuto (xf : XFix) (it : Item) : List Item :=
  if it.autoArgs && !(xf.auto && !it.specs.isEmpty) then [{ it with specs := [], autoArgs := false }] else []

/-- extract_trigger_args, the argument string: per trigger `name@<arg and fparg actions>`, then the bare name -/
def xArgs (xf : XFix) (it : Item) : List Item :=
  (if (it.specs.filter (fun sp => !sp.isRet)).isEmpty then []
   else [{ it with specs := it.specs.filter (fun sp => !sp.isRet), autoArgs := false }]) ++ xAuto xf it

/-- extract_trigger_args, the return-value string: per trigger `name@retval`, then the bare name -/
def xRets (xf : XFix) (it : Item) : List Item :=
  (if (it.specs.filter (fun sp => sp.isRet)).isEmpty then []
   else [{ it with specs := if xf.ret then it.specs.filter (fun sp => sp.isRet) else [DEFRET], autoArgs := false }])
  ++ xAuto xf it

def extractArgs (xf : XFix) (T : List Item) : List Item := T.flatMap (xArgs xf)
def extractRets (xf : XFix) (T : List Item) : List Item := T.flatMap (xRets xf)

/-- the `argspec:` and `retspec:` lines of the info file -/
def infoArgs (xf : XFix) (T A : List Item) : List Item := extractArgs xf T ++ A
def infoRets (xf : XFix) (T R : List Item) : List Item := extractRets xf T ++ R

/-- `strstr(argspec, "retval")` -/
def mentionsRetval (as : List Item) : Bool :=
  as.any (fun it => it.nameRetval || it.specs.any (fun sp => sp.isRet))

/-- does setup_fstack_args run the old-format pass -/
def oldPass (xf : XFix) (as rs : List Item) : Bool :=
  mentionsRetval as && !(xf.compat && !rs.isEmpty)

/-- setup_fstack_args on the two info lines -/
def readerAddsOf (auto : Nat → Bool → List Spec) (xf : XFix) (as rs : List Item) (f : Nat) : List (Bool × Spec) :=
  addsOf auto .arg as f ++ addsOf auto .ret rs f ++ (if oldPass xf as rs then addsOf auto .ret as f else [])

def readerAdds (auto : Nat → Bool → List Spec) (xf : XFix) (T A R : List Item) (f : Nat) : List (Bool × Spec) :=
  readerAddsOf auto xf (infoArgs xf T A) (infoRets xf T R) f

def readerList (auto : Nat → Bool → List Spec) (xf : XFix) (T A R : List Item) (f : Nat) : List LSpec :=
  build (readerAdds auto xf T A R f)

/-- the layout of a payload: the specs walked by save_to_argbuf / read_task_args, in list order -/
def layout (isRet : Bool) (l : List LSpec) : List Spec := sel isRet (l.map (·.sp))

/-! ## `uftrace dump` (raw output): cmds/dump.c pr_args / pr_retval, the `print_raw` branch

`long long val = 0; memcpy(&val, ptr, spec->size); pr_out("%c%d: 0x%0*llx", …, spec->size * 2, val)` for every
format that is not a string, a pointer, an enum or a struct — also for a `long double` (size 10).
Result: (the number printed, the number of bytes memcpy stores into the 8-byte `val`).
`fixed` (finding C09-DUMPF80): a value wider than `val` is printed from its bytes, nothing is copied. -/
def dumpRaw (fixed : Bool) (size : Nat) (data : List Byte) : Nat × Nat :=
  if fixed && decide (size > 8) then (ofLe (data.take size), 0)
  else (ofLe (data.take (min size 8)), size)

/-! ## the agent's deep copy of the trigger tree: utils/filter.c deep_copy_filter / deep_copy_triggers

`uftrace live -p PID …` makes the libmcount agent copy the whole tree (`uftrace_deep_copy_triggers`), apply the new
options to the copy and swap it in: from then on save_to_argbuf walks the COPIED `filter->args` lists, while the
readers keep decoding by the info file.  `deep_copy_filter`:
`INIT_LIST_HEAD(&new->args); list_for_each_entry(arg, &old->args, list) { copy; list_add_tail(&copy->list, &new->args); }`
`addTail = true` is the code as it is (`list_add_tail`); `false` is `list_add` (link at the head). -/
def copyArgsG (addTail : Bool) (l : List LSpec) : List LSpec :=
  l.foldl (fun acc a => if addTail then acc ++ [a] else a :: acc) []

def copyArgs (l : List LSpec) : List LSpec := copyArgsG true l

/-- the rb-tree of filters (shape kept: the copy mirrors the nodes and their colours) -/
inductive FTree where
  | leaf
  | node (l : FTree) (start stop : Nat) (args : List LSpec) (r : FTree)
  deriving DecidableEq, Repr, Inhabited

/-- deep_copy_triggers: the node, then the left and the right subtree -/
def copyTree : FTree → FTree
  | .leaf => .leaf
  | .node l s e a r => .node (copyTree l) s e (copyArgs a) (copyTree r)

/-- uftrace_match_filter on the model tree -/
def FTree.find : FTree → Nat → Option (List LSpec)
  | .leaf, _ => none
  | .node l s e a r, addr =>
    if s ≤ addr ∧ addr < e then some a else if s > addr then l.find addr else r.find addr

end Uft.Argbuf
