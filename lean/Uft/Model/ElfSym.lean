import Uft.Model.SymFile
/-
C10 — symbol tables built from ELF files (utils/symbol.c).

Model of
  * `load_symbol()`   (symbol.c:237)  which `.symtab` (or `.dynsym`) entries become symbols:
                                       defined, non-zero `st_size`, FUNC / GNU_IFUNC / OBJECT, not the
                                       same `st_value` as the previously *accepted* entry ("skip
                                       aliases"); `addr = st_value + offset` in 64 bits, `size` is an
                                       `unsigned` (truncated), type letter from binding and type
  * `load_symtab()`   (symbol.c:364)  the loop over the entries in file order (`prev_sym_value`
                                       starts as -1)
  * `sort_symtab()`   (symbol.c:306)  `qsort(addrsort)`, then every run of entries with the same
                                       address is replaced by its *last* entry, named by the first
                                       name of the run that does not start with `_` if the run's
                                       first name starts with `_` and is not mangled (`_Z`)
  * `merge_symtabs()` (symbol.c:660)  normal table and PLT table: concatenation (the one with the
                                       smaller first address first) and `qsort(addrsort)`; no
                                       de-duplication

`qsort` is the stable insertion sort of Model/SymFile.lean (glibc's qsort is a merge sort);
the theorems only need that it returns an address-sorted permutation that keeps the order
of equal addresses.  Section selection, `elf_retry` (separate debug file), demangling and
`update_symtab_using_dynsym` (renames only) are not modelled.  Core-only.
-/
namespace Uft.ElfSym
open Uft.Symtab Uft.SymFile

/-- `Elf64_Sym` as far as `load_symbol` looks at it -/
structure ESym where
  value : Nat
  size : Nat
  info : Nat          -- st_info: binding * 16 + type
  shndx : Nat
  name : List Char
deriving DecidableEq, Repr

def ESym.stType (e : ESym) : Nat := e.info % 16
def ESym.stBind (e : ESym) : Nat := e.info / 16 % 16

/-- the `switch (elf_symbol_bind(elf_sym))` of `load_symbol` -/
def symType (e : ESym) : Char :=
  let obj := e.stType == 1
  match e.stBind with
  | 0 => if obj then 'd' else 't'
  | 1 => if obj then 'D' else 'T'
  | 2 => if obj then 'v' else 'w'
  | 10 => if obj then 'u' else '?'
  | _ => '?'

/-- the three early returns of `load_symbol` -/
def accepts (e : ESym) : Bool :=
  e.shndx != 0 && e.size != 0 && (e.stType == 2 || e.stType == 10 || e.stType == 1)

def toSym (off : Nat) (e : ESym) : Sym :=
  { addr := (e.value + off) % U64, size := e.size % U32, type := symType e, name := e.name }

/-- the `elf_for_each_symbol` loop of `load_symtab`; `prev` is `prev_sym_value` -/
def loadSymbols (off : Nat) : Nat → List ESym → List Sym
  | _, [] => []
  | prev, e :: r =>
    if accepts e ∧ prev ≠ e.value then toSym off e :: loadSymbols off e.value r
    else loadSymbols off prev r

/-- `if (bestname[0] == '_' && bestname[1] != 'Z' && next->name[0] != '_') bestname = next->name;` -/
def bestName (best next : List Char) : List Char :=
  if best.head? = some '_' ∧ best.tail.head? ≠ some 'Z' ∧ next.head? ≠ some '_' then next else best

/-- the duplicate-removing loop of `sort_symtab` on an address-sorted array: `cur` is the
    last entry of the current run seen so far, `best` the name chosen for the run -/
def dedupRun (cur : Sym) (best : List Char) : List Sym → List Sym
  | [] => [{ cur with name := best }]
  | y :: r =>
    if cur.addr = y.addr then dedupRun y (bestName best y.name) r
    else { cur with name := best } :: dedupRun y y.name r

def dedup : List Sym → List Sym
  | [] => []
  | x :: r => dedupRun x x.name r

/-- `sort_symtab()` -/
def sortSymtab (t : List Sym) : List Sym := dedup (sortByAddr t)

/-- `load_symtab(symtab, file, offset, flags)` on the entries of the chosen section;
    `off` is `offset` after the SYMTAB_FL_ADJ_OFFSET adjustment -/
def loadSymtab (off : Nat) (es : List ESym) : List Sym :=
  sortSymtab (loadSymbols off (U64 - 1) es)

/-- `merge_symtabs(left, right)`: the table left in `left` -/
def mergeSymtabs (l r : List Sym) : List Sym :=
  match r, l with
  | [], _ => l
  | _, [] => r
  | y :: _, x :: _ => sortByAddr (if x.addr < y.addr then l ++ r else r ++ l)

end Uft.ElfSym
