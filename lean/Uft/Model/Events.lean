/-
C17 — model of libmcount's read-trigger and watchpoint events, on top of the
per-thread entry/exit hook model (`Uft.Model.Mcount`, regular build only: the
DISABLE_MCOUNT_FILTER build has no events).
  libmcount/record.c : save_trigger_read, save_watchpoint, record_event,
                       record_ret_stack (emission order), record_trace_data
  libmcount/mcount.c : mcount_entry_filter_record, mcount_exit_filter_record
                       (flush on ASYNC_IDX / `nr_events = k`), mcount_watch_update,
                       mcount_watch_setup
  libmcount/event.c  : mcount_save_event (asynchronous events)
Value sources (getrusage, /proc/self/statm, sched_getcpu, the watched variables)
are inputs: one `Obs` per hook.

Four behaviours of the unchanged tree are modelled both as coded and repaired
(`fixArg`, `fixVar`, `fixIdx`, `fixPair` = true is the repaired code):
  F17c  save_trigger_read reads the argument size from `argbuf + event_idx`
        instead of the start of the frame's slice
  F17b  save_watchpoint never refreshes the per-thread copy of a watched variable
  F17d  save_watchpoint tags its events with the rstack index although
        mcount_exit_filter_record keeps events with `idx < mtdp->idx`
  F17e  save_trigger_read checks the room in the frame's slice event by event: with an
        argument payload of 957..988 bytes (page-fault; 941..980 proc/statm) the read event of
        the entry hook fits and the diff event of the exit hook does not, and an exit hook that
        finds no read event stores a second READ event instead of nothing.  Repaired: the entry
        hook stores its read events only if the diff events fit as well, the exit hook stores a
        diff event only for a read event it finds.
Time stamps are uint64_t: the duration the time filter sees is `end_time - start_time` modulo 2^64.
Core-only imports (linked into uvmodel).
-/
import Uft.Model.Mcount
import Uft.Gen.EventTab
namespace Uft.Events
open Uft.Mcount

/- constants and the read-event table: regenerated from the sources on every run
   (translators/events2lean.py -> Uft/Gen/EventTab.lean) -/
def ARGBUF_SIZE : Nat := Gen.EventTab.ARGBUF_SIZE
def EVTBUF_HDR : Nat := Gen.EventTab.EVTBUF_HDR       -- offsetof(struct mcount_event, data)
def MAX_EVENT : Nat := Gen.EventTab.MAX_EVENT
def ASYNC_IDX : Nat := Gen.EventTab.ASYNC_IDX
def ARG_MAX : Nat := Gen.EventTab.ARG_MAX             -- `max_size` of save_to_argbuf
def EVENT_ID_WATCH_CPU : Nat := Gen.EventTab.EVENT_ID_WATCH_CPU
def EVENT_ID_WATCH_VAR : Nat := Gen.EventTab.EVENT_ID_WATCH_VAR

/-- one row of `read_events[]` (libmcount/record.c) -/
structure ReadSrc where
  bit : Nat        -- TRIGGER_READ_*
  idRead : Nat     -- EVENT_ID_READ_*
  idDiff : Nat     -- EVENT_ID_DIFF_*
  nfields : Nat    -- the payload is `nfields` uint64_t
  deriving DecidableEq, Repr

/-- proc/statm, page-fault, pmu-cycle, pmu-cache, pmu-branch — in table order -/
def readEvents : List ReadSrc :=
  Gen.EventTab.readTable.map fun r => ⟨r.1, r.2.1, r.2.2.1, r.2.2.2⟩

def ReadSrc.dsize (r : ReadSrc) : Nat := 8 * r.nfields
def ReadSrc.evsize (r : ReadSrc) : Nat := EVTBUF_HDR + r.dsize

/-- struct mcount_event -/
structure Ev where
  id : Nat
  time : Nat
  idx : Nat := 0
  dsize : Nat := 0
  data : List Nat := []     -- read/diff: the uint64 fields; cpu: [cpu]; var: [variable index, value]
  deriving DecidableEq, Repr

/-- what the value sources return during one hook -/
structure Obs where
  reads : Nat → Option (List Nat) := fun _ => none  -- per TRIGGER_READ bit; none: save() < 0
  cpu : Nat := 0                                    -- sched_getcpu()
  vars : List Nat := []                             -- current values of the watched variables
  probe : Nat := 0    -- the uint32 at `argbuf + ARGBUF_SIZE` of the frame's slice (only the unrepaired F17c reads it)

structure ECfg where
  base : Cfg := {}
  read : Nat → Nat := fun _ => 0                -- tr->read of the function's trigger
  argSize : Nat → Option Nat := fun _ => none   -- -A: the size save_to_argbuf computes for the function
  retSize : Nat → Option Nat := fun _ => none   -- -R: same for the return value
  watchCpu : Bool := false                      -- MCOUNT_WATCH_CPU
  varSizes : List Nat := []                     -- MCOUNT_WATCH_VAR: sizes of the watched variables, list order
  fixArg : Bool := true
  fixVar : Bool := true
  fixIdx : Bool := true
  fixPair : Bool := true

def ECfg.watch (c : ECfg) : Bool := c.watchCpu || !c.varSizes.isEmpty

/-- mcount_ret_stack plus its slice of the argument buffer -/
structure EFrame where
  b : Frame
  evs : List Ev := []        -- event area, latest first: get_event_pointer(base, i) = evs[i]
  eventIdx : Nat := ARGBUF_SIZE
  argFl : Bool := false      -- MCOUNT_FL_ARGUMENT
  argSz : Nat := 0           -- *(uint32_t *)argbuf while argFl
  retFl : Bool := false      -- MCOUNT_FL_RETVAL
  readFl : Bool := false     -- MCOUNT_FL_READ
  deriving Repr

/-- a record of the output stream -/
inductive Out where
  | record (r : Rec) (payload : Option Nat)   -- ENTRY / EXIT; `some n`: the `more` bit and n bytes of arguments / return value
  | event (e : Ev)                          -- EVENT (depth 0, addr = id, payload = data)
  deriving DecidableEq, Repr

structure ESt where
  frames : List EFrame := []     -- innermost first
  over : Nat := 0
  recordIdx : Nat := 0
  warned : Bool := false
  filt : Filt := {}
  enabled : Bool := true
  enableCached : Bool := true
  finished : Bool := false
  pend : List Ev := []           -- mtdp->event[0 .. nr_events), oldest first
  winited : Bool := false        -- mtdp->watch.inited
  wcpu : Option Nat := none      -- mtdp->watch.cpu (-1 before the first observation)
  wcopy : List Nat := []         -- the thread's copies of the watched variables (mcount_watch_setup)
  glob : List (Option Nat) := [] -- the global watch items (shared by all threads): none = !inited, some v = last reported
  out : List Out := []           -- oldest first

/-- mcount_prepare: `vars` are the values of the watched variables at that moment -/
def ESt.init (cfg : ECfg) (vars : List Nat) (glob : List (Option Nat)) : ESt :=
  { filt := { size := cfg.base.minSize }, enabled := cfg.base.enabled0, enableCached := cfg.base.enabled0,
    wcopy := vars, glob := glob }

def ESt.idx (s : ESt) : Nat := s.frames.length + s.over

def setWritten (f : EFrame) : EFrame := { f with b := { f.b with written := true } }
/-- rstack->end_time = mcount_gettime() -/
def setEnd (f : EFrame) (t : Nat) : EFrame := { f with b := { f.b with endT := t } }

/-! ### save_trigger_read -/

def u64 : Nat := 2 ^ 64
/-- `dst -= src` on uint64_t -/
def subU64 (a b : Nat) : Nat := (a % u64 + u64 - b % u64) % u64

def zipSub : List Nat → List Nat → List Nat
  | a :: as, b :: bs => subU64 a b :: zipSub as bs
  | as, [] => as.map (· % u64)
  | [], _ => []

/-- `rstack->end_time ?: rstack->start_time` -/
def hookTime (b : Frame) : Nat := if b.endT != 0 then b.endT else b.start

/-- where `arg_data` points, as an offset into the frame's slice -/
def argDataOff (cfg : ECfg) (f : EFrame) (probe : Nat) : Nat :=
  if cfg.fixArg then (if f.argFl then 4 + f.argSz else 0)
  else if f.argFl || f.retFl then
    (match f.evs with
     | e :: _ => e.time % 2 ^ 32   -- `*(uint32_t *)ptr` is the low word of the latest event's time
     | [] => probe)                -- … or the first word of the next frame's slice
  else 0

/-- the event one iteration of the loop stores (READ, or DIFF when an older event of the same id exists) -/
def mkReadEv (f : EFrame) (now midx : Nat) (diff : Bool) (src : ReadSrc) (v : List Nat) : Ev :=
  match (if diff then f.evs.find? (fun o => o.id == src.idRead) else none) with
  | some o => { id := src.idDiff, time := now, idx := midx, dsize := src.dsize, data := zipSub v o.data }
  | none => { id := src.idRead, time := now, idx := midx, dsize := src.dsize, data := v.map (· % u64) }

/-- the frame holds a READ event of the source (the search over `rstack->nr_events` events) -/
def hasRead (f : EFrame) (src : ReadSrc) : Bool := (f.evs.find? (fun o => o.id == src.idRead)).isSome

/-- one iteration of the loop over `read_events[]`; `pair`: the repaired code (F17e), which at exit
    (`diff`) skips a source without a read event from the entry hook -/
def saveReadOne (pair : Bool) (off now midx : Nat) (diff : Bool) (o : Obs) (mask : Nat) (f : EFrame) (src : ReadSrc) :
    EFrame :=
  if mask &&& src.bit == 0 then f else
  if pair && diff && !hasRead f src then f else
  -- event = ptr - evsize; "do not overwrite argument data": (void *)event < arg_data
  if f.eventIdx < src.evsize + off then f else
  match o.reads src.bit with
  | none => f
  | some v => { f with evs := mkReadEv f now midx diff src v :: f.evs, eventIdx := f.eventIdx - src.evsize }

def saveReadL (pair : Bool) (off now midx : Nat) (diff : Bool) (o : Obs) (mask : Nat) : List ReadSrc → EFrame → EFrame
  | [], f => f
  | src :: r, f => saveReadL pair off now midx diff o mask r (saveReadOne pair off now midx diff o mask f src)

/-- the room the events of the selected sources take (`need` of the repaired save_trigger_read) -/
def readNeed (mask : Nat) : List ReadSrc → Nat
  | [] => 0
  | src :: r => (if mask &&& src.bit == 0 then 0 else src.evsize) + readNeed mask r

/-- save_trigger_read(mtdp, rstack, type = mask, diff); `midx` = mtdp->idx.  Repaired (F17e): the entry
    hook stores nothing unless the read events and the diff events of the exit hook all fit above the
    argument data (`ptr - 2 * need < arg_data`: return) -/
def saveRead (cfg : ECfg) (f : EFrame) (mask midx : Nat) (diff : Bool) (o : Obs) : EFrame :=
  if cfg.fixPair && !diff && f.eventIdx < 2 * readNeed mask readEvents + argDataOff cfg f o.probe then f else
  saveReadL cfg.fixPair (argDataOff cfg f o.probe) (hookTime f.b) midx diff o mask readEvents f

/-! ### save_watchpoint -/

def cpuEv (t ridx cpu : Nat) : Ev :=
  { id := EVENT_ID_WATCH_CPU, time := t, idx := ridx, dsize := 4, data := [cpu] }
def varEv (t ridx k size v : Nat) : Ev :=
  { id := EVENT_ID_WATCH_VAR, time := t, idx := ridx, dsize := 8 + size, data := [k, v] }

/-- the MCOUNT_WATCH_CPU part -/
def saveWatchCpu (s : ESt) (t ridx cpu : Nat) (init : Bool) : ESt :=
  let emit := (s.wcpu != some cpu || init) && s.pend.length < MAX_EVENT
  { s with pend := if emit then s.pend ++ [cpuEv t ridx cpu] else s.pend, wcpu := some cpu }

/-- one iteration of the loop over the thread's watch items (item `k`, its size, the value read now) -/
def saveWatchVar (cfg : ECfg) (t ridx : Nat) (s : ESt) (k size v : Nat) : ESt :=
  if s.pend.length ≥ MAX_EVENT then s else
  if s.wcopy[k]? == some v then s else          -- !memcmp(&watch_data, w->data, w->size)
  let s1 := if cfg.fixVar then { s with wcopy := s.wcopy.set k v } else s
  if s.glob[k]? == some (some v) then s1 else   -- mcount_watch_update: someone already updated for us
  { s1 with glob := s.glob.set k (some v), pend := s.pend ++ [varEv t ridx k size v] }

def saveWatchVars (cfg : ECfg) (t ridx : Nat) : ESt → Nat → List Nat → List Nat → ESt
  | s, k, size :: szs, v :: vs => saveWatchVars cfg t ridx (saveWatchVar cfg t ridx s k size v) (k + 1) szs vs
  | s, _, _, _ => s

/-- save_watchpoint(mtdp, rstack, mcount_watchpoints) for the frame `b` at rstack index `ri` -/
def saveWatch (cfg : ECfg) (s : ESt) (b : Frame) (ri : Nat) (o : Obs) : ESt :=
  let init := !s.winited
  let t := hookTime b + (if init then 2 else 0) - 1
  let ridx := if cfg.fixIdx then ri + 1 else ri
  let s0 := { s with winited := true }
  let s1 := if cfg.watchCpu then saveWatchCpu s0 t ridx o.cpu init else s0
  saveWatchVars cfg t ridx s1 0 cfg.varSizes o.vars

/-- `if (mcount_watchpoints) save_watchpoint(…)` -/
def watchStep (cfg : ECfg) (s : ESt) (b : Frame) (ri : Nat) (o : Obs) : ESt :=
  if cfg.watch then saveWatch cfg s b ri o else s

/-! ### record_ret_stack / record_trace_data -/

/-- `while (nr_events && event[0].time < timestamp) record_event(event[0])`: (written, kept) -/
def takeAsync : List Ev → Nat → List Ev × List Ev
  | [], _ => ([], [])
  | e :: r, ts => if e.time < ts then (e :: (takeAsync r ts).1, (takeAsync r ts).2) else ([], e :: r)

/-- after ENTRY: oldest first, stop at the first event of another time -/
def entryEvs (f : EFrame) : List Ev := f.evs.reverse.takeWhile (fun e => e.time == f.b.start)
/-- before EXIT: oldest first, every event of the exit time -/
def exitEvs (f : EFrame) : List Ev := f.evs.reverse.filter (fun e => e.time == f.b.endT)

def entryOut (f : EFrame) : Out := .record (entryRec f.b) (if f.argFl then some f.argSz else none)

/-- record_ret_stack(ENTRY): (kept async events, records) -/
def recEntry (pend : List Ev) (f : EFrame) : List Ev × List Out :=
  ((takeAsync pend f.b.start).2,
   (takeAsync pend f.b.start).1.map .event ++ [entryOut f] ++ (entryEvs f).map .event)

/-- record_ret_stack(EXIT) -/
def recExit (pend : List Ev) (f : EFrame) (rs : Option Nat) : List Ev × List Out :=
  ((takeAsync pend f.b.endT).2,
   (takeAsync pend f.b.endT).1.map .event ++ (exitEvs f).map .event ++ [.record (exitRec f.b) rs])

/-- the downward walk of record_trace_data (compare `Mcount.flushBelow`) -/
def flushBelowE : List EFrame → List Ev → List EFrame × List Ev × List Out
  | [], p => ([], p, [])
  | f :: r, p =>
    if f.b.written then (f :: r, p, []) else
    let q := flushBelowE r p
    if f.b.skip then (f :: q.1, q.2.1, q.2.2) else
    (setWritten f :: q.1, (recEntry q.2.1 f).1, q.2.2 ++ (recEntry q.2.1 f).2)

/-- the size of the return-value payload: save_retval succeeded and MCOUNT_FL_RETVAL is still set -/
def retPayload (cfg : ECfg) (retv : Bool) (f : EFrame) : Option Nat :=
  if retv && f.retFl then
    (match cfg.retSize f.b.addr with
     | some n => if n ≤ ARG_MAX then some n else none
     | none => none)
  else none

/-- record_trace_data(mtdp, top frame, retval); `retv`: retval != NULL -/
def recordTraceE (cfg : ECfg) (retv : Bool) : List EFrame → List Ev → List EFrame × List Ev × List Out
  | [], p => ([], p, [])
  | top :: rest, p =>
    let q := if top.b.written then (rest, p, []) else flushBelowE rest p
    let e := !top.b.written && !top.b.skip
    let en := if e then recEntry q.2.1 top else (q.2.1, [])
    let top1 := if e then setWritten top else top
    let x := top.b.endT != 0
    let rs := retPayload cfg retv top
    let ex := if x then recExit en.1 top rs else (en.1, [])
    let top2 := if x then { setWritten top1 with evs := [], retFl := rs.isSome } else top1
    (top2 :: q.1, ex.1, q.2.2 ++ en.2 ++ ex.2)

/-- apply a record_trace_data result to the thread state -/
def ESt.recorded (s : ESt) (r : List EFrame × List Ev × List Out) : ESt :=
  { s with frames := r.1, pend := r.2.1, out := s.out ++ r.2.2 }

def hasAsync (p : List Ev) : Bool := p.any (fun e => e.idx == ASYNC_IDX)

/-- `mtdp->nr_events = k`: cut the trailing events whose idx is not below mtdp->idx -/
def keepSync (p : List Ev) (n : Nat) : List Ev :=
  (p.reverse.dropWhile (fun e => !(decide (e.idx < n)))).reverse

/-! ### the hooks -/

/-- mcount_check_rstack -/
def checkRstackE (cfg : ECfg) (s : ESt) : Bool × ESt :=
  if s.idx ≥ cfg.base.maxStack then
    if !s.warned then (true, { s.recorded (recordTraceE cfg false s.frames s.pend) with warned := true })
    else (true, s)
  else (false, { s with warned := false })

/-- the TRACE_OFF update of mcount_entry_filter_check after the repair of finding F-C07-TRACEOFF-FLUSH
    (`Mcount.traceOffFlush` with events): record_trace_data(mtdp, top caller frame, NULL) while tracing
    is still on, before `mcount_enabled = false` -/
def traceOffFlushE (cfg : ECfg) (s : ESt) (tr : Trigger) : ESt :=
  if cfg.base.f7fixed && tr.traceOff && (tr.traceOn || s.enabled) then
    s.recorded (recordTraceE cfg false s.frames s.pend)
  else s

@[simp] theorem traceOffFlushE_of_traceOff_false (cfg : ECfg) (s : ESt) (tr : Trigger) (h : tr.traceOff = false) :
    traceOffFlushE cfg s tr = s := by simp [traceOffFlushE, h]
@[simp] theorem traceOffFlushE_of_f7_false (cfg : ECfg) (s : ESt) (tr : Trigger) (h : cfg.base.f7fixed = false) :
    traceOffFlushE cfg s tr = s := by simp [traceOffFlushE, h]
@[simp] theorem traceOffFlushE_none (cfg : ECfg) (s : ESt) : traceOffFlushE cfg s {} = s := by simp [traceOffFlushE]
@[simp] theorem traceOffFlushE_over (cfg : ECfg) (s : ESt) (tr : Trigger) : (traceOffFlushE cfg s tr).over = s.over := by
  unfold traceOffFlushE; split <;> rfl
@[simp] theorem traceOffFlushE_recordIdx (cfg : ECfg) (s : ESt) (tr : Trigger) :
    (traceOffFlushE cfg s tr).recordIdx = s.recordIdx := by unfold traceOffFlushE; split <;> rfl
@[simp] theorem traceOffFlushE_warned (cfg : ECfg) (s : ESt) (tr : Trigger) :
    (traceOffFlushE cfg s tr).warned = s.warned := by unfold traceOffFlushE; split <;> rfl
@[simp] theorem traceOffFlushE_filt (cfg : ECfg) (s : ESt) (tr : Trigger) : (traceOffFlushE cfg s tr).filt = s.filt := by
  unfold traceOffFlushE; split <;> rfl
@[simp] theorem traceOffFlushE_enabled (cfg : ECfg) (s : ESt) (tr : Trigger) :
    (traceOffFlushE cfg s tr).enabled = s.enabled := by unfold traceOffFlushE; split <;> rfl
@[simp] theorem traceOffFlushE_enableCached (cfg : ECfg) (s : ESt) (tr : Trigger) :
    (traceOffFlushE cfg s tr).enableCached = s.enableCached := by unfold traceOffFlushE; split <;> rfl
@[simp] theorem traceOffFlushE_finished (cfg : ECfg) (s : ESt) (tr : Trigger) :
    (traceOffFlushE cfg s tr).finished = s.finished := by unfold traceOffFlushE; split <;> rfl
@[simp] theorem traceOffFlushE_winited (cfg : ECfg) (s : ESt) (tr : Trigger) :
    (traceOffFlushE cfg s tr).winited = s.winited := by unfold traceOffFlushE; split <;> rfl
@[simp] theorem traceOffFlushE_wcpu (cfg : ECfg) (s : ESt) (tr : Trigger) :
    (traceOffFlushE cfg s tr).wcpu = s.wcpu := by unfold traceOffFlushE; split <;> rfl
@[simp] theorem traceOffFlushE_wcopy (cfg : ECfg) (s : ESt) (tr : Trigger) :
    (traceOffFlushE cfg s tr).wcopy = s.wcopy := by unfold traceOffFlushE; split <;> rfl
@[simp] theorem traceOffFlushE_glob (cfg : ECfg) (s : ESt) (tr : Trigger) :
    (traceOffFlushE cfg s tr).glob = s.glob := by unfold traceOffFlushE; split <;> rfl

/-- mcount_entry_filter_check (regular build) -/
def entryFilterCheckE (cfg : ECfg) (s : ESt) (addr : Nat) : FR × ESt × Trigger :=
  let c := checkRstackE cfg s
  if c.1 then (.rstack, c.2, {}) else
  let s := c.2
  let f0 := saveFilt s.filt
  if f0.outCount > 0 then (.out, { s with filt := f0 }, {}) else
  let tr := cfg.base.trig addr
  let f1 := matchFilt tr f0
  if earlyOut cfg.base tr f0 then (.out, { s with filt := f1 }, tr) else
  let f3 := trigFilt tr f1
  let en := trigEnabled tr s.enabled
  let s := traceOffFlushE cfg s tr
  if f3.depth ≥ depthLimit cfg.base tr f0 then (.out, { s with filt := f3, enabled := en }, tr)
  else (.in_, { s with filt := { f3 with depth := f3.depth + 1 }, enabled := en }, tr)

/-- save_argument -/
def saveArgument (cfg : ECfg) (f : EFrame) : EFrame :=
  match cfg.argSize f.b.addr with
  | some n => if n ≤ ARG_MAX then { f with argFl := true, argSz := n } else f
  | none => f

def setReadFl (f : EFrame) : EFrame := { f with readFl := true }

/-- save_argument and save_trigger_read(…, false) on the frame just pushed; `midx` = mtdp->idx -/
def entryArea (cfg : ECfg) (f : EFrame) (matched argok : Bool) (midx : Nat) (o : Obs) : EFrame :=
  let f2 := if argok then saveArgument cfg f else f
  let mask := if matched then cfg.read f.b.addr else 0
  if mask != 0 then setReadFl (saveRead cfg f2 mask midx false o) else f2

/-- save_trigger_read(…, true) at exit -/
def exitArea (cfg : ECfg) (f : EFrame) (midx : Nat) (o : Obs) : EFrame :=
  if f.readFl then saveRead cfg f (cfg.read f.b.addr) midx true o else f

/-- save_watchpoint and the flush for asynchronous events at the end of the entry hook;
    `f3` is the frame just pushed (arguments and read events saved), `s` the state without it -/
def entryFinish (cfg : ECfg) (s : ESt) (f3 : EFrame) (rest : List EFrame) (o : Obs) : ESt :=
  let s1 := watchStep cfg s f3.b rest.length o
  if hasAsync s1.pend then { s1 with frames := f3 :: rest }.recorded (recordTraceE cfg false (f3 :: rest) s1.pend)
  else { s1 with frames := f3 :: rest }

/-- the part of mcount_entry_filter_record that runs for a recorded frame while tracing is on:
    save_argument, save_trigger_read, save_watchpoint and the flush for asynchronous events.
    `f` is the frame just pushed, `rest` the frames below, `s` the state without it. -/
def entryEvents (cfg : ECfg) (s : ESt) (f : EFrame) (rest : List EFrame) (matched argok : Bool) (o : Obs) : ESt :=
  entryFinish cfg s (entryArea cfg f matched argok (rest.length + 1) o) rest o

/-- mcount_entry_filter_record on the frame just pushed. `matched`: the trigger was looked up
    (FILTER_IN); `argok`: the hook supports arguments and return values (__cygprof_entry clears
    TRIGGER_FL_ARGUMENT | TRIGGER_FL_RETVAL) -/
def entryFilterRecordE (cfg : ECfg) (s : ESt) (tr : Trigger) (matched argok : Bool) (o : Obs) : ESt :=
  match s.frames with
  | [] => s
  | f :: rest =>
    let nr := f.b.norecord || s.filt.outCount > 0 || (s.filt.inCount = 0 && cfg.base.optIn) ||
              (s.filt.size > 0 && cfg.base.fsize f.b.addr < s.filt.size)
    let b1 : Frame := { f.b with
      norecord := nr,
      sDepth := s.filt.svDepth, sMaxDepth := s.filt.svMaxDepth, sTime := s.filt.svTime, sSize := s.filt.svSize,
      filtered := tr.filter == some true,
      notrace := tr.filter == some false,
      trace := tr.trace, caller := tr.caller }
    let f1 : EFrame := { f with b := b1, retFl := argok && (cfg.retSize f.b.addr).isSome }
    if tr.finish then
      { ({ s with frames := f1 :: rest }.recorded (recordTraceE cfg false (f1 :: rest) s.pend)) with finished := true }
    else if nr then { s with frames := f1 :: rest } else
    let s0 := { s with recordIdx := s.recordIdx + 1,
                       enableCached := if tr.traceOn || tr.traceOff then s.enabled else s.enableCached }
    if !s.enabled then
      let f2 : EFrame := { f1 with b := { b1 with disabled := true } }
      if s.enableCached then { s0 with frames := f2 :: rest }.recorded (recordTraceE cfg false (f2 :: rest) s.pend)
      else { s0 with frames := f2 :: rest }
    else entryEvents cfg s0 f1 rest matched argok o

/-- save_watchpoint, then record / flush / drop; `f` the frame before, `f1` after save_trigger_read -/
def exitFinish (cfg : ECfg) (s : ESt) (f f1 : EFrame) (rest : List EFrame) (timeFilter : Nat) (retv : Bool)
    (o : Obs) : ESt :=
  let s1 := watchStep cfg s f1.b rest.length o
  let s2 := { s1 with frames := f1 :: rest }
  -- `rstack->end_time - rstack->start_time >= time_filter` on uint64_t
  if (durOk cfg.base (subU64 f.b.endT f.b.start) timeFilter && (!cfg.base.callerMode || f.b.caller)) || f.b.written || f.b.trace then
    s2.recorded (recordTraceE cfg retv (f1 :: rest) s1.pend)
  else if !s1.pend.isEmpty then
    if hasAsync s1.pend then s2.recorded (recordTraceE cfg retv (f1 :: rest) s1.pend)
    else { s2 with pend := keepSync s1.pend (rest.length + 1) }
  else s2

/-- the tail of mcount_exit_filter_record for a recorded frame while tracing is on -/
def exitEvents (cfg : ECfg) (s : ESt) (f : EFrame) (rest : List EFrame) (timeFilter : Nat) (retv : Bool)
    (o : Obs) : ESt :=
  exitFinish cfg s f (exitArea cfg f (rest.length + 1) o) rest timeFilter retv o

/-- mcount_exit_filter_record on the top frame (its `endT` already set); `pg`: retval != NULL -/
def exitFilterRecordE (cfg : ECfg) (s : ESt) (pg : Bool) (o : Obs) : ESt :=
  match s.frames with
  | [] => s
  | f :: rest =>
    let timeFilter := if s.filt.time = noTime then cfg.base.threshold else s.filt.time
    let fl : Filt := { s.filt with
      inCount := if f.b.filtered then s.filt.inCount - 1 else s.filt.inCount,
      outCount := if !f.b.filtered && f.b.notrace then s.filt.outCount - 1 else s.filt.outCount,
      depth := f.b.sDepth, maxDepth := f.b.sMaxDepth, time := f.b.sTime, size := f.b.sSize }
    let s1 := { s with filt := fl }
    if f.b.norecord then s1 else
    let s2 := { s1 with recordIdx := s1.recordIdx - 1 }
    if !s.enabled then s2 else
    exitEvents cfg s2 f rest timeFilter (pg && f.retFl) o

/-- entry hook (`Mcount.entry` with events) -/
def entryE (cfg : ECfg) (k : Kind) (s : ESt) (addr now : Nat) (o : Obs) : ESt × Bool :=
  let c := entryFilterCheckE cfg s addr
  let s1 := c.2.1
  let tr := c.2.2
  match k with
  | .pg =>
    -- a filtered-out call whose trigger changed the filter state gets a NORECORD frame (repair of F4)
    if c.1 == .rstack || (c.1 != .in_ && !(cfg.base.f4fixed && tr.changesState)) then (s1, false) else
    let f : EFrame := { b := { addr := addr, start := now, depth := s1.recordIdx, norecord := c.1 != .in_ } }
    (entryFilterRecordE cfg { s1 with frames := f :: s1.frames } tr (c.1 == .in_) (c.1 == .in_) o, true)
  | .cyg =>
    if c.1 == .rstack then ({ s1 with over := s1.over + 1 }, true) else
    let isIn := c.1 == .in_
    let f : EFrame := { b := { addr := addr, start := if isIn then now else 0, depth := s1.recordIdx,
                               cyg := true, norecord := !isIn } }
    (entryFilterRecordE cfg { s1 with frames := f :: s1.frames } tr isIn false o, true)

/-- exit hook for the innermost frame -/
def exitE (cfg : ECfg) (s : ESt) (now : Nat) (o : Obs) : ESt :=
  if s.over > 0 then { s with over := s.over - 1 } else
  match s.frames with
  | [] => s
  | f :: rest =>
    let f1 := if f.b.cyg && f.b.norecord then f else setEnd f now
    let s1 := exitFilterRecordE cfg { s with frames := f1 :: rest } (!f.b.cyg) o
    { s1 with frames := s1.frames.tail }

/-- mcount_save_event: an asynchronous (SDT) event at time `now` -/
def asyncEvent (s : ESt) (id now : Nat) : ESt :=
  if s.pend.length < MAX_EVENT then { s with pend := s.pend ++ [{ id := id, time := now, idx := ASYNC_IDX }] } else s

/-- what the SIGSEGV handler does first -/
def flushTopE (cfg : ECfg) (s : ESt) : ESt := s.recorded (recordTraceE cfg false s.frames s.pend)

/-! ### call histories with observations -/

mutual
  inductive ECall where
    | node (f t0 t1 : Nat) (oE oX : Obs) (kids : ECalls)
  inductive ECalls where
    | nil
    | cons (c : ECall) (rest : ECalls)
end

mutual
  def runECall (cfg : ECfg) (k : Kind) : ESt → ECall → ESt
    | s, .node f t0 t1 oE oX kids =>
      let r := entryE cfg k s f t0 oE
      let s2 := runECalls cfg k r.1 kids
      if r.2 then exitE cfg s2 t1 oX else s2
  def runECalls (cfg : ECfg) (k : Kind) : ESt → ECalls → ESt
    | s, .nil => s
    | s, .cons c rest => runECalls cfg k (runECall cfg k s c) rest
end

end Uft.Events
