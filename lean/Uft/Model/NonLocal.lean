/-
C11 — model of libmcount's shadow stack under non-local control flow
(`Shadow` part) next to a model of the real machine stack (`NonLocal` part),
and of the replay-side depth fix-up for longjmp.

Anchors (line by line where it matters):
  libmcount/mcount.c   __mcount_entry (in_exception handling), __mcount_exit,
                       mtd_dtor
  libmcount/plthook.c  __plthook_entry / __plthook_exit with the special
                       symbols (setjmp, longjmp, vfork, flush, except, skip),
                       setup_jmpbuf_rstack, restore_jmpbuf_rstack,
                       prepare_vfork, setup_vfork, restore_vfork
  libmcount/misc.c     mcount_rstack_restore, mcount_rstack_rehook,
                       mcount_auto_restore, mcount_auto_rehook
  libmcount/wrap.c     mcount_rstack_rehook_exception, __cxa_throw,
                       __cxa_rethrow, _Unwind_Resume, __cxa_begin_catch,
                       pthread_exit
  libmcount/record.c   record_trace_data (lazy ENTRY records, WRITTEN flag)
  utils/fstack.c       fstack_entry fix-ups (setjmp/longjmp), fstack_update

Modelled configuration: x86_64 (ARCH_SUPPORT_AUTO_RECOVER = 1,
ARCH_CAN_RESTORE_PLTHOOK = 1), no --estimate-return, no filters (every entry is
FILTER_IN, time threshold 0 with a strictly increasing clock), -pg / -mfentry
and PLT entries (the -finstrument-functions path never touches return slots).

Addresses are word indices (`parent_loc - 1` is `loc - 1`).  The two return
trampolines are the constants `TRAMP` (mcount_return) and `PTRAMP`
(plthook_return).  The shadow stack is a list whose head is `rstack[idx-1]`.

`Fix` selects, per finding, the code as it is (`false`) or the repaired code
(`true`); see Props/C11.lean for the witnesses.

Core-only imports: this file is linked into the `uvmodel` driver.
-/
namespace Uft.NonLocal

def TRAMP : Nat := 1
def PTRAMP : Nat := 2
def isTramp (v : Nat) : Bool := v == TRAMP || v == PTRAMP
/-- the trampoline a hooked return slot holds: mcount_return_fn or plthook_return -/
def hv (plt : Bool) : Nat := if plt then PTRAMP else TRAMP

/-- MCOUNT_RSTACK_MAX: capacity of `struct mcount_jmpbuf_rstack.rstack[]` -/
def JMPBUF_CAP : Nat := 1024

structure Fix where
  /-- C11-REHOOK-ORDER: mcount_rstack_rehook loops bottom→top -/
  rehook : Bool
  /-- C11-EXC-FRAME: __mcount_entry's fallback frame address is parent_loc -/
  excFrame : Bool
  /-- C11-JMPBUF-OVERFLOW: the saved copy is allocated with `count` entries -/
  jmpCap : Bool
  /-- C11-PTHREAD-EXIT: pthread_exit restores everything, then idx = 0 -/
  pthExit : Bool
  /-- C11-EXC-PLT: __plthook_entry handles in_exception like __mcount_entry -/
  excPlt : Bool
  deriving DecidableEq, Repr

def Fix.all : Fix := ⟨true, true, true, true, true⟩
def Fix.none : Fix := ⟨false, false, false, false, false⟩

/-- a code variant: the libmcount side and replay's longjmp fix-up (C11-LONGJMP-DEPTH) -/
structure Code where
  lib : Fix
  replayFixed : Bool
  deriving DecidableEq, Repr

/-- THE CODE THAT IS IN /repo: all six libmcount-side repairs are committed (5f938bf, e263074, 1097009,
    ede9d19, d634a1b, d21226c); replay's longjmp fix-up is as it was (one global setjmp_depth).
    checks/c11.py reads this definition through the driver (`CURRENT`) and verifies with its probes that
    the implementation follows exactly this variant. -/
def Code.current : Code := ⟨Fix.all, false⟩
@[reducible] def Fix.current : Fix := Code.current.lib
@[reducible] def replayCurrent : Bool := Code.current.replayFixed

/-- control part of a `struct mcount_ret_stack` -/
structure Ctl where
  loc : Nat      -- parent_loc
  ip : Nat       -- parent_ip
  child : Nat    -- child_ip
  plt : Bool     -- dyn_idx != MCOUNT_INVALID_DYNIDX
  ljmp : Bool    -- MCOUNT_FL_LONGJMP
  vfork : Bool   -- MCOUNT_FL_VFORK
  deriving DecidableEq, Repr

structure Ent where
  c : Ctl
  depth : Nat          -- rstack->depth (record_idx at entry)
  written : Bool       -- MCOUNT_FL_WRITTEN
  jb : Nat             -- end_time abused as the jmp_buf address
  deriving DecidableEq, Repr

structure Rec where
  typ : Nat     -- 0 = ENTRY, 1 = EXIT
  depth : Nat
  addr : Nat
  tid : Nat     -- 0 = the task's buffer, 1 = the vfork child's buffer
  deriving DecidableEq, Repr

abbrev Mem := Nat → Nat
def upd (m : Mem) (a v : Nat) : Mem := fun x => if x = a then v else m x

structure VSave where
  parent : Nat
  idx : Nat
  recIdx : Nat
  ent : Ent

structure Sh where
  rs : List Ent
  mem : Mem
  recIdx : Nat
  inExc : Bool
  /-- jmpbuf_list: address ↦ (copy of rstack[0..count), record_idx) -/
  jbs : List (Nat × (List Ent × Nat))
  vf : Option VSave
  pid : Nat
  child : Bool
  out : List Rec
  /-- wrote beyond the saved copy's array (C11-JMPBUF-OVERFLOW) -/
  oob : Bool
  /-- reached pr_err / ASSERT / a NULL or out-of-range rstack access -/
  dead : Bool

def Sh.init : Sh :=
  { rs := [], mem := fun _ => 0, recIdx := 0, inExc := false, jbs := [], vf := none, pid := 100,
    child := false, out := [], oob := false, dead := false }

def Sh.tid (s : Sh) : Nat := if s.child then 1 else 0

def entryRec (tid : Nat) (e : Ent) : Rec := ⟨0, e.depth, e.c.child, tid⟩
def exitRec (tid : Nat) (e : Ent) : Rec := ⟨1, e.depth, e.c.child, tid⟩

/-- record_trace_data, ENTRY part, for the stack whose head is `mrstack`:
    unwritten frames from the first one above a WRITTEN frame up to `mrstack`. -/
def writeEntries (tid : Nat) : List Ent → List Ent × List Rec
  | [] => ([], [])
  | e :: r =>
    if e.written then (e :: r, [])
    else
      let p := writeEntries tid r
      ({ e with written := true } :: p.1, p.2 ++ [entryRec tid e])

/-- record_trace_data(mtdp, top, _); the EXIT record only if end_time was set -/
def Sh.record (s : Sh) (withExit : Bool) : Sh :=
  match s.rs with
  | [] => s
  | e :: _ =>
    let p := writeEntries s.tid s.rs
    { s with rs := p.1, out := s.out ++ p.2 ++ (if withExit then [exitRec s.tid e] else []) }

/-- mcount_exit_filter_record for a recorded frame (no filters) -/
def exitFilterRecord (s : Sh) (withEnd : Bool) : Sh :=
  { s.record withEnd with recIdx := s.recIdx - 1 }

def firstReal : List Ent → Option Ent
  | [] => none
  | e :: r => if isTramp e.c.ip then firstReal r else some e

/-- mcount_auto_restore (called right after the push) -/
def autoRestore (s : Sh) : Sh :=
  match s.rs with
  | cur :: prev :: r =>
    if s.inExc then s
    else if cur.c.loc = prev.c.loc then s
    else
      match firstReal (prev :: r) with
      | some e => { s with mem := upd s.mem e.c.loc e.c.ip }
      | none => s
  | _ => s

/-- mcount_auto_rehook (called before the pop) -/
def autoRehook (s : Sh) : Sh :=
  match s.rs with
  | cur :: prev :: _ =>
    if s.inExc then s
    else if cur.c.loc = prev.c.loc then s
    else { s with mem := upd s.mem prev.c.loc (hv prev.c.plt) }
  | _ => s

/-- mcount_rstack_restore: top to bottom, skipping tail-called entries -/
def restoreMem : List Ent → Mem → Mem
  | [], m => m
  | e :: r, m => restoreMem r (if isTramp e.c.ip then m else upd m e.c.loc e.c.ip)

/-- mcount_rstack_rehook as it is: top to bottom -/
def rehookTopDown : List Ent → Mem → Mem
  | [], m => m
  | e :: r, m => rehookTopDown r (upd m e.c.loc (hv e.c.plt))

/-- repaired order: bottom to top (the last entry of a tail-call chain wins) -/
def rehookBottomUp : List Ent → Mem → Mem
  | [], m => m
  | e :: r, m => upd (rehookBottomUp r m) e.c.loc (hv e.c.plt)

def rehookMem (fx : Fix) (rs : List Ent) (m : Mem) : Mem :=
  if fx.rehook then rehookBottomUp rs m else rehookTopDown rs m

/-- the loop of mcount_rstack_rehook_exception: record and drop every entry whose
    location is not above `fa` (fuel = number of entries) -/
def popDead (tid fa : Nat) : Nat → List Ent → Nat → List Rec → List Ent × Nat × List Rec
  | 0, rs, ri, out => (rs, ri, out)
  | _ + 1, [], ri, out => ([], ri, out)
  | n + 1, e :: r, ri, out =>
    if fa < e.c.loc then (e :: r, ri, out)
    else
      let p := writeEntries tid (e :: r)
      popDead tid fa n p.1.tail (ri - 1) (out ++ p.2 ++ [exitRec tid e])

/-- "do not overwrite current return address": the first entry of the surviving
    tail-call chain takes the current content of its return slot -/
def fixChain (m : Mem) : List Ent → List Ent
  | [] => []
  | [e] => [{ e with c := { e.c with ip := m e.c.loc } }]
  | e :: e2 :: r =>
    if e.c.loc = e2.c.loc then e :: fixChain m (e2 :: r)
    else { e with c := { e.c with ip := m e.c.loc } } :: e2 :: r

def rehookException (fx : Fix) (s : Sh) (fa : Nat) : Sh :=
  let p := popDead s.tid fa s.rs.length s.rs s.recIdx s.out
  let rs1 := fixChain s.mem p.1
  { s with rs := rs1, recIdx := p.2.1, out := p.2.2, mem := rehookMem fx rs1 s.mem }

def mkEnt (loc ip child : Nat) (plt : Bool) (depth : Nat) : Ent :=
  { c := ⟨loc, ip, child, plt, false, false⟩, depth := depth, written := false, jb := 0 }

/-- the part common to both entry hooks: fill the next rstack slot, hijack the return
    address, mcount_auto_restore, mcount_entry_filter_record (record_idx++) -/
def pushHook (s : Sh) (loc child : Nat) (plt : Bool) : Sh :=
  let e := mkEnt loc (s.mem loc) child plt s.recIdx
  let s2 := autoRestore { s with rs := e :: s.rs, mem := upd s.mem loc (hv plt) }
  { s2 with recIdx := s2.recIdx + 1 }

/-- `if (mtdp->in_exception) { mcount_rstack_rehook_exception(mtdp, fa); in_exception = false; }` -/
def excPre (fx : Fix) (s : Sh) (fa : Nat) : Sh := { rehookException fx s fa with inExc := false }

/-- the frame address __mcount_entry uses: parent_loc[-1] with its "basic sanity check" -/
def entryFrameAddr (fx : Fix) (s : Sh) (loc : Nat) : Nat :=
  if s.mem (loc - 1) < loc then (if fx.excFrame then loc else loc - 1) else s.mem (loc - 1)

/-- __mcount_entry(parent_loc = loc, child); `mem (loc-1)` is parent_loc[-1] -/
def mcountEntry (fx : Fix) (s : Sh) (loc child : Nat) : Sh :=
  pushHook (if s.inExc then excPre fx s (entryFrameAddr fx s loc) else s) loc child false

/-- the common tail of __mcount_exit / __plthook_exit -/
def exitTop (s : Sh) : Sh × Nat :=
  match s.rs with
  | [] => ({ s with dead := true }, 0)
  | e :: _ =>
    let s2 := autoRehook (exitFilterRecord s true)
    ({ s2 with rs := s2.rs.tail }, e.c.ip)

def mcountExit (s : Sh) : Sh × Nat := exitTop s

inductive Sym where
  | plain     -- an ordinary library function (also pthread_exit: PLT_FL_RESOLVE only)
  | skip      -- skip_syms: __cxa_throw, __cxa_begin_catch, _Unwind_Resume, …
  | setjmp
  | longjmp   -- also in flush_syms
  | vfork     -- also in flush_syms
  | flush     -- fork, exit, exec*, posix_spawn*, daemon
  | except    -- _Unwind_RaiseException
  deriving DecidableEq, Repr

def Sym.flushes : Sym → Bool
  | .longjmp | .vfork | .flush => true
  | _ => false

def jbSet (l : List (Nat × (List Ent × Nat))) (a : Nat) (v : List Ent × Nat) : List (Nat × (List Ent × Nat)) :=
  (a, v) :: l.filter (fun p => p.1 != a)

/-- setup_jmpbuf_rstack -/
def setupJmpbuf (fx : Fix) (s : Sh) (addr : Nat) : Sh :=
  { s with jbs := jbSet s.jbs addr (s.rs, s.recIdx),
           oob := s.oob || (!fx.jmpCap && decide (JMPBUF_CAP < s.rs.length)) }

/-- restore_jmpbuf_rstack (ASSERT when the address is unknown) -/
def restoreJmpbuf (s : Sh) (addr : Nat) : Sh :=
  match s.jbs.lookup addr with
  | none => { s with dead := true }
  | some (srs, sidx) => { s with rs := srs.map (fun e => { e with written := true }), recIdx := sidx }

def setTop (rs : List Ent) (f : Ent → Ent) : List Ent :=
  match rs with
  | [] => []
  | e :: r => f e :: r

/-- prepare_vfork -/
def prepareVfork (s : Sh) : Sh :=
  match s.rs with
  | [] => s
  | e :: _ => { s with vf := some ⟨s.pid, s.rs.length, s.recIdx, { e with written := true }⟩ }

/-- restore_vfork; `none` models the NULL it returns when called without an rstack -/
def restoreVfork (s : Sh) : Sh :=
  match s.vf with
  | none => s
  | some v =>
    if s.pid = v.parent then
      if v.idx - 1 ≤ s.rs.length then
        { s with child := false, rs := v.ent :: s.rs.drop (s.rs.length - (v.idx - 1)), recIdx := v.recIdx,
                 vf := none }
      else { s with dead := true }   -- stale array content: not modelled
    else s

/-- the `if (unlikely(special_flag))` part of __plthook_entry after the flush -/
def pltSpecial (fx : Fix) (s4 : Sh) (sym : Sym) (arg1 : Nat) : Sh :=
  match sym with
  | .setjmp => setupJmpbuf fx s4 arg1
  | .longjmp => { s4 with rs := setTop s4.rs fun e => { e with c := { e.c with ljmp := true }, jb := arg1 } }
  | .vfork => prepareVfork { s4 with rs := setTop s4.rs fun e => { e with c := { e.c with vfork := true } } }
  | .except => { s4 with mem := restoreMem s4.rs s4.mem }
  | _ => s4

/-- __plthook_entry(ret_addr = loc, symbol, ARG1 = arg1) -/
def plthookEntry (fx : Fix) (s : Sh) (loc child : Nat) (sym : Sym) (arg1 : Nat) : Sh :=
  if sym = .skip then s
  else
    let s0 := if fx.excPlt && s.inExc && sym != .except then excPre fx s loc else s
    let s3 := pushHook s0 loc child true
    let s4 := if sym.flushes then s3.record false else s3
    pltSpecial fx s4 sym arg1

/-- __plthook_exit after the `again:` label has settled -/
def plthookExitCore (s : Sh) : Sh × Nat :=
  let s0 := if s.rs.isEmpty then restoreVfork s else s
  match s0.rs with
  | [] => ({ s0 with dead := true }, 0)
  | e :: _ =>
    if e.c.ljmp then ({ s0 with dead := true }, 0)   -- a second `goto again`: not reachable from a setjmp copy
    else
      let s1 := if e.c.vfork then { s0 with child := true } else s0     -- setup_vfork
      let s2 := if s1.vf.isSome then restoreVfork s1 else s1
      match s2.rs with
      | [] => ({ s2 with dead := true }, 0)
      | e2 :: _ =>
        if !e2.c.plt then ({ s2 with dead := true }, 0)    -- pr_err_ns("invalid dynsym idx")
        else exitTop s2

def plthookExit (s : Sh) : Sh × Nat :=
  match s.rs with
  | e :: r =>
    if e.c.ljmp then
      plthookExitCore (restoreJmpbuf { s with rs := { e with c := { e.c with ljmp := false } } :: r } e.jb)
    else plthookExitCore s
  | [] => plthookExitCore s

/-- __cxa_throw / __cxa_rethrow / _Unwind_Resume wrappers (before the real call) -/
def cxaThrow (s : Sh) : Sh := { s with inExc := true, mem := restoreMem s.rs s.mem }

/-- __cxa_begin_catch wrapper with `*__builtin_frame_address(0)` = fa -/
def beginCatch (fx : Fix) (s : Sh) (fa : Nat) : Sh :=
  if s.inExc then { rehookException fx s fa with inExc := false } else s

/-- pthread_exit wrapper (before the real call) -/
def pthreadExitW (fx : Fix) (s : Sh) : Sh :=
  match s.rs with
  | [] => { s with dead := true }
  | _ :: _ =>
    let s1 := exitFilterRecord s false
    if fx.pthExit then { s1 with mem := restoreMem s1.rs s1.mem, rs := [] }
    else { s1 with rs := s1.rs.tail, mem := restoreMem s1.rs.tail s1.mem }

/-- mtd_dtor: restore, then the rstack is freed -/
def mtdDtor (s : Sh) : Sh := { s with mem := restoreMem s.rs s.mem, rs := [] }

/-- what the return stubs do: as long as the address is a trampoline, call the exit hook -/
def retLoop : Nat → Sh → Nat → Sh × Nat
  | 0, s, v => (s, v)
  | n + 1, s, v =>
    if v = TRAMP then
      let p := mcountExit s
      retLoop n p.1 p.2
    else if v = PTRAMP then
      let p := plthookExit s
      retLoop n p.1 p.2
    else (s, v)

/-! ### The real stack -/

structure Link where
  child : Nat
  plt : Bool
  deriving DecidableEq, Repr

/-- an activation frame: address of its return slot, the real return address, and the
    hooked logical calls running on it (a tail-call chain; head = the current function) -/
structure Frame where
  slot : Nat
  orig : Nat
  chain : List Link
  deriving DecidableEq, Repr

/-- what the real jmp_buf remembers -/
structure RJb where
  frames : List Frame
  sslot : Nat
  sorig : Nat
  schild : Nat
  pc : Nat
  deriving DecidableEq, Repr

structure M where
  fs : List Frame
  sh : Sh
  rjb : List (Nat × RJb)
  /-- where control went after the last return / jump -/
  last : Nat
  halted : Bool

def M.init : M := { fs := [], sh := Sh.init, rjb := [], last := 0, halted := false }

inductive Kind where
  | none | mcount | plt
  deriving DecidableEq, Repr

inductive Op where
  /-- push the return address `orig` at `slot` (and `fpw` below it), enter the callee -/
  | call (k : Kind) (child slot orig fpw : Nat)
  | ret
  /-- the current function jumps to a hooked function -/
  | tailcall (k : Kind) (child : Nat)
  | setjmp (j child slot orig : Nat)
  | longjmp (j child slot orig : Nat)
  | throw
  /-- the unwinder drops the top frame -/
  | unwind
  | resume
  | catch_ (fa : Nat)
  | pthreadExit (child slot orig : Nat)
  | exit (child slot orig : Nat)
  | vforkExec (child slot orig echild eorig : Nat)
  | mtdDtor
  /-- fork@plt and its return, seen in the parent (`inChild = false`) or in the child, which goes on
      with a copy of the shadow stack and a fresh record buffer (atfork child handler) -/
  | fork (inChild : Bool) (child slot orig : Nat)
  /-- exec*@plt (forced flush), then the process image is replaced: a new libmcount starts with an
      empty shadow stack; the task's record stream goes on -/
  | exec (child slot orig : Nat)
  deriving DecidableEq, Repr

def rjbSet (l : List (Nat × RJb)) (a : Nat) (v : RJb) : List (Nat × RJb) :=
  (a, v) :: l.filter (fun p => p.1 != a)

def chainOf (k : Kind) (child : Nat) : List Link :=
  match k with
  | .none => []
  | .mcount => [⟨child, false⟩]
  | .plt => [⟨child, true⟩]

def hookEntry (fx : Fix) (s : Sh) (k : Kind) (slot child : Nat) : Sh :=
  match k with
  | .none => s
  | .mcount => mcountEntry fx s slot child
  | .plt => plthookEntry fx s slot child .plain 0

/-- after fork: the parent's view, or the child's (own pid, fresh record buffer: atfork child handler) -/
def forkSide (inChild : Bool) (s : Sh) : Sh := if inChild then { s with child := true, pid := s.pid + 1 } else s

/-- enough fuel for the exit through longjmp: the longjmp entry, then the saved copy -/
def ljFuel (s : Sh) (j : Nat) : Nat := s.rs.length + (s.jbs.lookup j).elim 0 (fun x => x.1.length) + 2

def step (fx : Fix) (m : M) : Op → M
  | .call k child slot orig fpw =>
    if m.halted then m else
    let sh0 := { m.sh with mem := upd (upd m.sh.mem slot orig) (slot - 1) fpw }
    { m with fs := ⟨slot, orig, chainOf k child⟩ :: m.fs, sh := hookEntry fx sh0 k slot child }
  | .ret =>
    if m.halted then m else
    match m.fs with
    | [] => m
    | f :: fs =>
      let p := retLoop (m.sh.rs.length + 1) m.sh (m.sh.mem f.slot)
      { m with fs := fs, sh := p.1, last := p.2 }
  | .tailcall k child =>
    if m.halted then m else
    match m.fs with
    | [] => m
    | f :: fs =>
      { m with fs := { f with chain := chainOf k child ++ f.chain } :: fs, sh := hookEntry fx m.sh k f.slot child }
  | .setjmp j child slot orig =>
    if m.halted then m else
    let sh0 := { m.sh with mem := upd m.sh.mem slot orig }
    let sh1 := plthookEntry fx sh0 slot child .setjmp j
    let jb : RJb := ⟨m.fs, slot, orig, child, sh1.mem slot⟩
    let p := retLoop (sh1.rs.length + 1) sh1 (sh1.mem slot)
    { m with sh := p.1, last := p.2, rjb := rjbSet m.rjb j jb }
  | .longjmp j child slot orig =>
    if m.halted then m else
    let sh0 := { m.sh with mem := upd m.sh.mem slot orig }
    let sh1 := plthookEntry fx sh0 slot child .longjmp j
    match m.rjb.lookup j with
    | none => { m with sh := sh1, halted := true }
    | some jb =>
      let p := retLoop (ljFuel sh1 j) sh1 jb.pc
      { m with fs := jb.frames, sh := p.1, last := p.2 }
  | .throw => if m.halted then m else { m with sh := cxaThrow m.sh }
  | .unwind => if m.halted then m else { m with fs := m.fs.tail }
  | .resume => if m.halted then m else { m with sh := cxaThrow m.sh }
  | .catch_ fa => if m.halted then m else { m with sh := beginCatch fx m.sh fa }
  | .pthreadExit child slot orig =>
    if m.halted then m else
    let sh0 := { m.sh with mem := upd m.sh.mem slot orig }
    let sh1 := plthookEntry fx sh0 slot child .plain 0
    { m with fs := [], sh := pthreadExitW fx sh1 }
  | .exit child slot orig =>
    if m.halted then m else
    let sh0 := { m.sh with mem := upd m.sh.mem slot orig }
    { m with sh := mtdDtor (plthookEntry fx sh0 slot child .flush 0), halted := true }
  | .vforkExec child slot orig echild eorig =>
    if m.halted then m else
    -- vfork@plt in the parent, return in the child, exec*@plt in the child, return in the parent
    let sh0 := { m.sh with mem := upd m.sh.mem slot orig }
    let sh1 := plthookEntry fx sh0 slot child .vfork 0
    let saved := sh1.mem slot
    let p1 := retLoop (sh1.rs.length + 1) { sh1 with pid := sh1.pid + 1 } saved
    let sh2 := { p1.1 with mem := upd p1.1.mem slot eorig }
    let sh3 := plthookEntry fx sh2 slot echild .flush 0
    let p2 := retLoop (sh3.rs.length + 1) { sh3 with pid := sh3.pid - 1 } saved
    { m with sh := p2.1, last := p2.2 }
  | .mtdDtor => if m.halted then m else { m with sh := mtdDtor m.sh }
  | .fork inChild child slot orig =>
    if m.halted then m else
    let sh0 := { m.sh with mem := upd m.sh.mem slot orig }
    let sh1 := plthookEntry fx sh0 slot child .flush 0
    let sh2 := forkSide inChild sh1
    let p := retLoop (sh2.rs.length + 1) sh2 (sh2.mem slot)
    { m with sh := p.1, last := p.2 }
  | .exec child slot orig =>
    if m.halted then m else
    let sh0 := { m.sh with mem := upd m.sh.mem slot orig }
    let sh1 := plthookEntry fx sh0 slot child .flush 0
    { M.init with sh := { Sh.init with out := sh1.out, pid := sh1.pid, child := sh1.child }, last := m.last }

def run (fx : Fix) (m : M) (ops : List Op) : M := ops.foldl (step fx) m

/-! ### Replay: display depth with the longjmp fix-up (utils/fstack.c) -/

inductive RKind where
  | plain | setjmp | longjmp | exec
  deriving DecidableEq, Repr

/-- which fix-up symbol a recorded address is (utils/fstack.c fixup_syms by name); the ids are those of
    the harness: setjmp/__sigsetjmp, longjmp/siglongjmp, execl -/
def symKind (addr : Nat) : RKind :=
  if addr = 101 ∨ addr = 110 then .setjmp
  else if addr = 102 ∨ addr = 109 then .longjmp
  else if addr = 104 then .exec
  else .plain

structure RRec where
  typ : Nat       -- 0 ENTRY, 1 EXIT
  depth : Nat
  kind : RKind
  deriving DecidableEq, Repr

structure RSt where
  dd : Nat                    -- task->display_depth
  set : Bool                  -- display_depth_set
  last : Nat                  -- setjmp_depth (one global; as it is)
  tab : Nat → Nat             -- repaired: setjmp_depth[] by record depth
  pend : Bool                 -- repaired: longjmp_seen

def RSt.init : RSt := { dd := 0, set := false, last := 0, tab := fun _ => 0, pend := false }

/-- one record of one task through fstack_entry/fstack_update (no replay-time filters).
    Returns the new state and the depth at which the record is displayed. -/
def rstep (fixed : Bool) (s : RSt) (r : RRec) : RSt × Nat :=
  if r.typ = 0 then
    -- display_depth is initialised from the first record (stack_count - 1 = record depth)
    let s := if s.set then s else { s with dd := r.depth, set := true }
    let shown := s.dd
    let s := match r.kind with
      | .setjmp => { s with last := s.dd + 1, tab := fun d => if d = r.depth then s.dd + 1 else s.tab d }
      | _ => s
    let s := match r.kind with
      | .longjmp => if fixed then { s with pend := true, dd := s.dd + 1 } else { s with dd := s.last }
      | .exec => { s with dd := 0 }      -- FSTACK_FL_EXEC: the new image starts at depth 0
      | _ => { s with dd := s.dd + 1 }
    (s, shown)
  else
    let s := if s.set then s else { s with dd := r.depth + 1, set := true }
    let s := if fixed && s.pend then { s with pend := false, dd := s.tab r.depth } else s
    let s := { s with dd := s.dd - 1 }
    (s, s.dd)

def rrun (fixed : Bool) : RSt → List RRec → List Nat
  | _, [] => []
  | s, r :: rs => (rstep fixed s r).2 :: rrun fixed (rstep fixed s r).1 rs

/-- local coherence of one task's record stream, as the shadow stack emits it:
    an ENTRY is one deeper than what is open; an EXIT closes the innermost open call,
    except right after a longjmp ENTRY where it is the second return of a setjmp that
    is still open-able (its depth was seen before and is not deeper than the jump). -/
structure CSt where
  cur : Nat            -- number of open calls
  started : Bool
  seen : Nat → Bool    -- a setjmp ENTRY at this depth has been seen
  afterLj : Bool
  lastSj : Option Nat  -- depth of the most recent setjmp ENTRY

def CSt.init : CSt := { cur := 0, started := false, seen := fun _ => false, afterLj := false, lastSj := none }

/-- may `r` follow in state `s`? -/
def cok (s : CSt) (r : RRec) : Bool :=
  if r.typ = 0 then
    !s.afterLj && (r.depth == (if s.started then s.cur else r.depth))
  else if s.afterLj then
    decide (r.depth < (if s.started then s.cur else r.depth + 1)) && s.seen r.depth
  else
    r.depth + 1 == (if s.started then s.cur else r.depth + 1)

def cnext (s : CSt) (r : RRec) : CSt :=
  if r.typ = 0 then
    { cur := if r.kind = .exec then 0 else r.depth + 1, started := true,
      seen := if r.kind = .setjmp then (fun d => if d = r.depth then true else s.seen d) else s.seen,
      afterLj := decide (r.kind = .longjmp),
      lastSj := if r.kind = .setjmp then some r.depth else s.lastSj }
  else
    { s with cur := r.depth, started := true, afterLj := false }

def cstep (s : CSt) (r : RRec) : Option CSt := if cok s r then some (cnext s r) else none

def coherent : CSt → List RRec → Bool
  | _, [] => true
  | s, r :: rs => match cstep s r with
    | none => false
    | some s' => coherent s' rs

/-- the excluding hypothesis for replay as it is (one global setjmp_depth): every longjmp lands in the
    setjmp whose ENTRY was the last one seen -/
def latestOk (s : CSt) (r : RRec) : Bool :=
  if r.typ ≠ 0 ∧ s.afterLj then s.lastSj == some r.depth else true

def latestOnly : CSt → List RRec → Bool
  | _, [] => true
  | s, r :: rs => latestOk s r && latestOnly (cnext s r) rs

/-- a libmcount record as replay sees it -/
def toRRec (r : Rec) : RRec := ⟨r.typ, r.depth, symKind r.addr⟩

/-- the record stream of the task itself (the vfork child's records go to its own file) -/
def taskStream (out : List Rec) : List RRec := (out.filter (fun r => r.tid == 0)).map toRRec

end Uft.NonLocal
