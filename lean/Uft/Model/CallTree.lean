/- Call histories as trees (own mutual inductive: structural recursion and
   mutual induction work directly), and running a hook model over them. -/
import Uft.Model.Mcount
namespace Uft.Mcount

mutual
  inductive Call where
    | node (f t0 t1 : Nat) (kids : Calls)
  inductive Calls where
    | nil
    | cons (c : Call) (rest : Calls)
end

mutual
  /-- what the thread executes for one call: entry hook, the callees, exit hook
      (the exit hook runs only if the entry hook took the call) -/
  def runCall (cfg : Cfg) (k : Kind) : St → Call → St
    | s, .node f t0 t1 kids =>
      let r := entry cfg k s f t0
      let s2 := runCalls cfg k r.1 kids
      if r.2 then exit cfg s2 t1 else s2
  def runCalls (cfg : Cfg) (k : Kind) : St → Calls → St
    | s, .nil => s
    | s, .cons c rest => runCalls cfg k (runCall cfg k s c) rest
end

mutual
  /-- the eager trace of a call executed at nesting depth `d` -/
  def evCall (d : Nat) : Call → List Rec
    | .node f t0 t1 kids =>
      [{ time := t0, type := 0, depth := d, addr := f }] ++ evCalls (d + 1) kids ++
      [{ time := t1, type := 1, depth := d, addr := f }]
  def evCalls (d : Nat) : Calls → List Rec
    | .nil => []
    | .cons c rest => evCall d c ++ evCalls d rest
end

mutual
  def Call.height : Call → Nat
    | .node _ _ _ kids => kids.height + 1
  def Calls.height : Calls → Nat
    | .nil => 0
    | .cons c rest => max c.height rest.height
end

mutual
  /-- every call takes measurable time on the clock (t0 < t1) -/
  def Call.timed : Call → Prop
    | .node _ t0 t1 kids => t0 < t1 ∧ kids.timed
  def Calls.timed : Calls → Prop
    | .nil => True
    | .cons c rest => c.timed ∧ rest.timed
end

mutual
  /-- what the exit hook needs of a call's two clock readings: the call passes the (absent) time
      filter and the clock did not read 0 at its end (0 marks a still open call) -/
  def Call.okFor (cfg : Cfg) : Call → Prop
    | .node _ t0 t1 kids => (durOk cfg (t1 - t0) 0 = true ∧ t1 ≠ 0) ∧ kids.okFor cfg
  def Calls.okFor (cfg : Cfg) : Calls → Prop
    | .nil => True
    | .cons c rest => c.okFor cfg ∧ rest.okFor cfg
end

mutual
  /-- no hook of the history reads 0 on the clock at an exit -/
  def Call.ended : Call → Prop
    | .node _ _ t1 kids => t1 ≠ 0 ∧ kids.ended
  def Calls.ended : Calls → Prop
    | .nil => True
    | .cons c rest => c.ended ∧ rest.ended
end

end Uft.Mcount
