/-
C01 — a small x86-64 machine for the straight-line entry/exit stubs of
arch/x86_64/{mcount,fentry,dynamic,plthook}.S.  The instruction lists are
generated from the .S files by translators/asm2lean.py (Uft/Gen/Stubs.lean).
Core-only imports.
-/
namespace Uft.Asm

inductive Reg where
  | rax | rbx | rcx | rdx | rsi | rdi | rbp | rsp
  | r8 | r9 | r10 | r11 | r12 | r13 | r14 | r15
  deriving DecidableEq, Repr

structure M where
  gpr : Reg → Nat
  xlo : Nat → Nat          -- xmm_i bits 0..63
  xhi : Nat → Nat          -- xmm_i bits 64..127
  mem : Nat → Nat          -- 8-byte words, indexed by byte address
  rip : Nat

inductive Instr where
  | subi (n : Nat) (r : Reg)                       -- sub $n, %r
  | addi (n : Nat) (r : Reg)                       -- add $n, %r
  | store (src : Reg) (off : Nat) (base : Reg)     -- movq %src, off(%base)
  | load (off : Nat) (base : Reg) (dst : Reg)      -- movq off(%base), %dst
  | storex (x : Nat) (off : Nat) (base : Reg)      -- movdqu %xmm_x, off(%base)
  | loadx (off : Nat) (base : Reg) (x : Nat)       -- movdqu off(%base), %xmm_x
  | mov (src dst : Reg)                            -- movq %src, %dst
  | lea (off : Nat) (base : Reg) (dst : Reg)       -- lea off(%base), %dst
  | and16 (r : Reg)                                -- andq $-16, %r
  | push (r : Reg)
  | pop (r : Reg)
  | call (sym : String)
  | ret
  | pltTail (resolver : String)  -- cmpq $0,%r11; cmovz resolver(%rip),%r11; jz 1f; add $16,%rsp; 1: jmp *%r11
  deriving Repr

def setR (m : M) (r : Reg) (v : Nat) : M := { m with gpr := fun x => if x = r then v else m.gpr x }
def setM (m : M) (a v : Nat) : M := { m with mem := fun x => if x = a then v else m.mem x }
def setX (m : M) (i lo hi : Nat) : M :=
  { m with xlo := fun x => if x = i then lo else m.xlo x, xhi := fun x => if x = i then hi else m.xhi x }

/-- environment: what each called C function does, and the value of the
    `plthook_resolver_addr` variable -/
structure Env where
  callee : String → M → M
  resolver : Nat

/-- `andq $-16, %r` -/
def align16 (x : Nat) : Nat := x - x % 16

def step (env : Env) (m : M) : Instr → M
  | .subi n r => setR m r (m.gpr r - n)
  | .addi n r => setR m r (m.gpr r + n)
  | .store s off b => setM m (m.gpr b + off) (m.gpr s)
  | .load off b d => setR m d (m.mem (m.gpr b + off))
  | .storex x off b => setM (setM m (m.gpr b + off) (m.xlo x)) (m.gpr b + off + 8) (m.xhi x)
  | .loadx off b x => setX m x (m.mem (m.gpr b + off)) (m.mem (m.gpr b + off + 8))
  | .mov s d => setR m d (m.gpr s)
  | .lea off b d => setR m d (m.gpr b + off)
  | .and16 r => setR m r (align16 (m.gpr r))
  | .push r => setM (setR m .rsp (m.gpr .rsp - 8)) (m.gpr .rsp - 8) (m.gpr r)
  | .pop r => setR (setR m r (m.mem (m.gpr .rsp))) .rsp (m.gpr .rsp + 8)
  | .call sym => env.callee sym m
  | .ret => { setR m .rsp (m.gpr .rsp + 8) with rip := m.mem (m.gpr .rsp) }
  | .pltTail _ =>
    if m.gpr .r11 = 0 then { setR m .r11 env.resolver with rip := env.resolver }
    else { setR m .rsp (m.gpr .rsp + 16) with rip := m.gpr .r11 }

def exec (env : Env) (is : List Instr) (m : M) : M := is.foldl (step env) m

/-- SysV ABI as seen by a caller, for a C function entered with stack pointer
    `m.gpr .rsp`: callee-saved registers and the stack pointer come back, and
    the caller's memory in `[rsp, hi)` is untouched (`hi` = end of the stub's
    own frame; what lies above belongs to the traced program and the hooks are
    allowed to write the hijacked return slot there). Everything else — all
    caller-saved registers, all vector registers, memory below rsp — may change
    arbitrarily. -/
structure ABI (c : M → M) (hi : Nat) : Prop where
  rbx : ∀ m, (c m).gpr .rbx = m.gpr .rbx
  rbp : ∀ m, (c m).gpr .rbp = m.gpr .rbp
  rsp : ∀ m, (c m).gpr .rsp = m.gpr .rsp
  r12 : ∀ m, (c m).gpr .r12 = m.gpr .r12
  r13 : ∀ m, (c m).gpr .r13 = m.gpr .r13
  r14 : ∀ m, (c m).gpr .r14 = m.gpr .r14
  r15 : ∀ m, (c m).gpr .r15 = m.gpr .r15
  mem : ∀ m a, m.gpr .rsp ≤ a → a < hi → (c m).mem a = m.mem a

/-- additionally: the callee does not touch vector registers (what libmcount's
    own code guarantees by -mgeneral-regs-only; libc calls on slow paths do not) -/
def NoVec (c : M → M) : Prop := ∀ m i, (c m).xlo i = m.xlo i ∧ (c m).xhi i = m.xhi i

end Uft.Asm
