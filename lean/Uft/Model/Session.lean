import Uft.Model.Symtab
/-
C10 — session in force at a timestamp, dlopen'ed libraries by time (utils/session.c).

Model of
  * `create_session()`     (session.c:196)  rb-tree keyed by (pid, start_time), equal keys go right;
                                              the tree is modelled by its in-order list
  * `find_session()`       (session.c:262)  right-most node with the pid and start_time <= timestamp
  * `add_session_ref()`    (session.c:464)  closes the previous reference at `timestamp`, appends
                                              `[timestamp, -1ULL)`
  * `find_task_session()`  (session.c:499)  first reference with `start <= t < end`, else the
                                              parent's / thread leader's (`ppid ?: pid`)
  * `create_task()`        (session.c:536)  new task or new reference for an existing tid
  * `session_add_dlopen()` (session.c:349)  time-ordered insertion (after equal times)
  * `session_find_dlsym()` (session.c:382)  newest library with `time <= t` that resolves `addr - base`
  * `task_find_sym_addr()` (session.c:724)  session → `find_symtabs` → `session_find_dlsym`
                                              (without the perf sched-event pseudo symbols)

pids/tids are positive `int`s in C, `Nat` here.  Sessions are identified by a number
(the harness uses it to form a unique sid).  Core-only.
-/
namespace Uft.Session
open Uft.Symtab

/-- `-1ULL`, the open end of the last reference -/
def TMAX : Nat := U64 - 1

/-- `struct uftrace_sess_ref` -/
structure SessRef where
  sess : Nat
  start : Nat
  stop : Nat
deriving Repr, DecidableEq

/-- `struct uftrace_dlopen_list` -/
structure DlLib where
  time : Nat
  base : Nat
  syms : List Sym
deriving Repr

/-- `struct uftrace_session` -/
structure Sess where
  sid : Nat
  pid : Nat
  tid : Nat
  start : Nat
  info : SymInfo
  dl : List DlLib := []
deriving Repr

/-- `struct uftrace_task`; `refs = []` ⇔ `sref_last == NULL`. -/
structure Task where
  tid : Nat
  pid : Nat
  ppid : Nat
  refs : List SessRef := []
deriving Repr

/-- `struct uftrace_session_link`: `sessions` is the in-order sequence of the rb-tree. -/
structure Link where
  sessions : List Sess := []
  tasks : List Task := []
  first : Option Nat := none      -- sid of `sessions->first`
deriving Repr

/-! ### task → session references -/

/-- `task->sref_last->end = timestamp` -/
def closeLast : List SessRef → Nat → List SessRef
  | [], _ => []
  | [r], ts => [{ r with stop := ts }]
  | r :: r2 :: rs, ts => r :: closeLast (r2 :: rs) ts

/-- `add_session_ref(task, sess, timestamp)` with `sess != NULL` -/
def addRef (refs : List SessRef) (sess ts : Nat) : List SessRef :=
  closeLast refs ts ++ [{ sess := sess, start := ts, stop := TMAX }]

/-- the inner `while (ref)` loop of `find_task_session` -/
def findRef (refs : List SessRef) (t : Nat) : Option SessRef :=
  refs.find? (fun r => decide (r.start ≤ t ∧ t < r.stop))

/-- `find_task()` -/
def findTask (tasks : List Task) (tid : Nat) : Option Task :=
  tasks.find? (fun t => t.tid == tid)

/-- `find_task_session()`; `fuel` bounds the walk up the parent chain (the C loop does
    not terminate on a cyclic ppid chain; the harness never builds one). -/
def findTaskSession (tasks : List Task) : Nat → Option Task → Nat → Option Nat
  | 0, _, _ => none
  | _ + 1, none, _ => none
  | fuel + 1, some task, t =>
    match findRef task.refs t with
    | some r => some r.sess
    | none =>
      let parent := if task.ppid ≠ 0 then task.ppid else task.pid
      if parent = 0 ∨ parent = task.tid then none
      else findTaskSession tasks fuel (findTask tasks parent) t

/-! ### sessions -/

/-- descent of `create_session`: go left iff `s->pid > pid || (s->pid == pid && s->start_time > time)` -/
def sessAfter (s : Sess) (pid time : Nat) : Bool :=
  decide (s.pid > pid) || (s.pid == pid && decide (s.start > time))

/-- in-order position of a new node: before the first node that sorts after it -/
def insertSess (x : Sess) : List Sess → List Sess
  | [] => [x]
  | s :: r => if sessAfter s x.pid x.start then x :: s :: r else s :: insertSess x r

/-- `create_session()` as far as lookup is concerned -/
def createSession (lk : Link) (x : Sess) : Link :=
  { lk with sessions := insertSess x lk.sessions,
            first := match lk.first with | none => some x.sid | some f => some f }

/-- `find_session(sessions, pid, timestamp)` -/
def findSession (ss : List Sess) (pid ts : Nat) : Option Sess :=
  (ss.filter (fun s => s.pid == pid && decide (s.start ≤ ts))).getLast?

/-- `create_task(sessions, msg, fork)` -/
def createTask (lk : Link) (mpid mtid mtime : Nat) (fork : Bool) : Link :=
  match findTask lk.tasks mtid with
  | some _ =>
    -- existing tid: only a new session reference (after exec)
    match findSession lk.sessions mpid mtime with
    | some s =>
      { lk with tasks := lk.tasks.map (fun t =>
          if t.tid == mtid then { t with refs := addRef t.refs s.sid mtime } else t) }
    | none => lk
  | none =>
    let pt := findTask lk.tasks mpid
    let s : Option Nat :=
      match findSession lk.sessions mpid mtime with
      | some s => some s.sid
      | none =>
        match pt with
        | some p =>
          match p.refs.getLast? with
          | some last => if last.start < mtime then some last.sess else none
          | none => none
        | none => none
    let t : Task := { tid := mtid, pid := if fork then mtid else mpid,
                      ppid := if fork then mpid else 0,
                      refs := match s with | some sid => addRef [] sid mtime | none => [] }
    { lk with tasks := lk.tasks ++ [t] }

/-! ### dlopen'ed libraries -/

/-- `session_add_dlopen`: `list_add_tail` before the first entry with `pos->time > timestamp` -/
def addDlopen (libs : List DlLib) (x : DlLib) : List DlLib :=
  match libs with
  | [] => [x]
  | l :: r => if l.time > x.time then x :: l :: r else l :: addDlopen r x

/-- `addr - pos->base` in `unsigned long` -/
def sub64 (a b : Nat) : Nat := (a + U64 - b % U64) % U64

/-- `session_find_dlsym(sess, timestamp, addr)` -/
def findDlsym (libs : List DlLib) (t addr : Nat) : Option Sym :=
  libs.reverse.findSome? (fun l => if l.time > t then none else findSym l.syms (sub64 addr l.base))

/-- the session with a given sid (sids are unique in the harness) -/
def getSess (lk : Link) (sid : Nat) : Option Sess := lk.sessions.find? (fun s => s.sid == sid)

/-- `task_find_sym_addr(sessions, task, time, addr)` (sessions->first must exist in C;
    the sched-event pseudo symbols are left out). Returns (sid of the session used, symbol). -/
def taskFindSymAddr (lk : Link) (tid time addr : Nat) : Option Nat × Option Sym :=
  let sess : Option Sess :=
    match findTaskSession lk.tasks (lk.tasks.length + 1) (findTask lk.tasks tid) time with
    | some sid => getSess lk sid
    | none =>
      match lk.first.bind (getSess lk) with
      | some f => if addr ≥ f.info.kernelBase then some f else none
      | none => none
  match sess with
  | none => (none, none)
  | some s =>
    match findSymtabs s.info addr with
    | some sym => (some s.sid, some sym)
    | none => (some s.sid, findDlsym s.dl time addr)

end Uft.Session
