/-
C03 / C04 — the recorder's writer pool (cmds/record.c):
  struct buf_list {tid, shmem_buf}            = WBuf
  struct writer_arg {tid, bufs} + local `head` = Warg
  buf_write_list, writer_list, thread_ctl kicks = Pool
  copy_to_buffer                              = Pool.enqueue
  writer_thread, critical section 1           = Pool.pick
  write_buf_list, one buffer at a time        = Pool.popHead
  writer_thread, critical section 2           = Pool.splice
  record_remaining_buffer, one buffer         = Pool.popRemaining
`Writers` is the sub-model of the W_* actions alone; `Uft/Model/Shmem.lean`
puts it next to the producers and the control pipe.
Core-only imports (linked into uvmodel).
-/
import Uft.Base
namespace Uft.Writers

/-- a `struct buf_list`: which task's file it goes to and which shared buffer it maps -/
structure WBuf where
  tid : Tid
  idx : Nat
  deriving DecidableEq, Repr

/-- a writer thread.  `tid = none` is `warg->tid == -1`: the writer is not on
    `writer_list`.  (`warg->tid` and membership in `writer_list` always change
    together under `write_list_lock`, lines 729-730 and 750-751.) -/
structure Warg where
  tid : Option Tid := none
  head : List WBuf := []      -- the local `head` list of writer_thread
  bufs : List WBuf := []      -- `warg->bufs`: buffers passed directly by copy_to_buffer
  deriving Repr

structure Pool where
  writeList : List WBuf := []   -- buf_write_list
  writers : List Warg := []     -- one entry per writer thread (`--num-thread`)
  kicks : Nat := 0              -- unread ints in the thread_ctl pipe
  deriving Repr

/-- copy_to_buffer, first half: `list_for_each_entry(writer, &writer_list)` —
    pass the buffer to the writer that works for its tid, if any -/
def handTo (wb : WBuf) : List Warg → Option (List Warg)
  | [] => none
  | w :: ws =>
    if w.tid = some wb.tid then some ({ w with bufs := w.bufs ++ [wb] } :: ws)
    else match handTo wb ws with
      | some ws' => some (w :: ws')
      | none => none

/-- copy_to_buffer -/
def Pool.enqueue (p : Pool) (wb : WBuf) : Pool :=
  match handTo wb p.writers with
  | some ws => { p with writers := ws }
  | none => { p with writeList := p.writeList ++ [wb], kicks := p.kicks + 1 }

def Warg.idle (w : Warg) : Bool := w.tid.isNone && w.head.isEmpty

/-- writer_thread lines 715-739: one kick was read (or the pipe is closed:
    `force`), then under the lock the first buffer of the list is taken, the writer
    registers for its tid and takes every other buffer of that tid.  With an
    empty list nothing happens (A14: the stale `warg->tid` matches nothing). -/
def Pool.pick (p : Pool) (i : Nat) (force : Bool) : Option Pool :=
  match p.writers[i]? with
  | none => none
  | some w =>
    if !w.idle then none else
    if p.kicks = 0 && !force then none else
    match p.writeList with
    | [] => some { p with kicks := p.kicks - 1 }
    | first :: rest =>
      some { writeList := rest.filter (fun b => b.tid ≠ first.tid),
             writers := p.writers.set i { w with tid := some first.tid,
                                                 head := first :: rest.filter (fun b => b.tid = first.tid) },
             kicks := p.kicks - 1 }

/-- write_buf_list: the next buffer of the writer's local list (the caller
    appends its bytes to `<tid>.dat`, zeroes `size`, sets `flag = WRITTEN`) -/
def Pool.popHead (p : Pool) (i : Nat) : Option (Pool × WBuf) :=
  match p.writers[i]? with
  | none => none
  | some w =>
    match w.head with
    | [] => none
    | wb :: rest => some ({ p with writers := p.writers.set i { w with head := rest } }, wb)

/-- writer_thread lines 744-753: `list_splice_tail_init(&warg->bufs, &head)`;
    with nothing passed meanwhile the writer deregisters -/
def Pool.splice (p : Pool) (i : Nat) : Option Pool :=
  match p.writers[i]? with
  | none => none
  | some w =>
    if w.tid.isNone || !w.head.isEmpty then none else
    let w' : Warg := { tid := if w.bufs.isEmpty then none else w.tid, head := w.bufs, bufs := [] }
    some { p with writers := p.writers.set i w' }

def Pool.allIdle (p : Pool) : Bool := p.writers.all Warg.idle

/-- record_remaining_buffer (after every writer was joined): first buffer of the list -/
def Pool.popRemaining (p : Pool) : Option (Pool × WBuf) :=
  if !p.allIdle then none else
  match p.writeList with
  | [] => none
  | wb :: rest => some ({ p with writeList := rest }, wb)

/-- buffers a registered writer holds for `t`, in the order it will write them -/
def wq (t : Tid) : List Warg → List WBuf
  | [] => []
  | w :: ws => (if w.tid = some t then w.head ++ w.bufs else []) ++ wq t ws

/-- everything queued for `t` in the pool, in the order it will reach `<t>.dat` -/
def Pool.queue (p : Pool) (t : Tid) : List WBuf :=
  wq t p.writers ++ p.writeList.filter (fun b => b.tid = t)

/-! ### The recorder's session around the pool (cmds/record.c), as driven by harness/c03_writer.c

`shm` is `shmem_list_head` (buffers announced by REC_START and not yet ended; the list may hold one buffer
twice: libmcount announces the first buffer of a fork child twice when the forking thread was unknown to it),
`log` the buffers whose bytes were appended to a data file, in order.  A buffer is written with its current
`size`; `write_buffer` sets `size = 0` afterwards, so a buffer that is reached a second time through another
list entry (same shared memory) contributes nothing: `nonEmpty`. -/
structure Sess where
  shm : List WBuf := []
  pool : Pool := {}
  log : List WBuf := []
  stopped : Bool := false      -- stop_all_writers: buf_done, control pipe closed
  deriving Repr

/-- `shmem_buf->size != 0` for a buffer the tracee filled once: nobody has written it yet -/
def Sess.nonEmpty (s : Sess) (wb : WBuf) : Bool := !s.log.contains wb

/-- record_mmap_file: a RECORDING buffer with data is queued (copy_to_buffer), anything else unmapped -/
def Sess.mmapFile (s : Sess) (wb : WBuf) : Sess :=
  if s.nonEmpty wb then { s with pool := s.pool.enqueue wb } else s

/-- read_record_mmap, UFTRACE_MSG_REC_START: `list_add_tail(&sl->list, &shmem_list_head)` -/
def Sess.recStart (s : Sess) (wb : WBuf) : Sess := { s with shm := s.shm ++ [wb] }

/-- read_record_mmap, UFTRACE_MSG_REC_END: the first entry with that id is unlinked, then record_mmap_file -/
def Sess.recEnd (s : Sess) (wb : WBuf) : Sess := ({ s with shm := s.shm.erase wb }).mmapFile wb

/-- the bytes of one buffer reach the data file (write_buffer): logged when there are any -/
def Sess.append (s : Sess) (wb : WBuf) : Sess :=
  if s.nonEmpty wb then { s with log := s.log ++ [wb] } else s

def Sess.pick (s : Sess) (i : Nat) : Option Sess :=
  if s.stopped then none else (s.pool.pick i false).map fun p => { s with pool := p }

/-- write_buf_list, one buffer -/
def Sess.write (s : Sess) (i : Nat) : Option Sess :=
  match s.pool.popHead i with
  | none => none
  | some (p, wb) => some ({ s with pool := p }.append wb)

def Sess.splice (s : Sess) (i : Nat) : Option Sess :=
  (s.pool.splice i).map fun p => { s with pool := p }

/-- stop_all_writers + join: only with every writer back in poll() -/
def Sess.stop (s : Sess) : Option Sess :=
  if s.stopped || !s.pool.allIdle then none else some { s with stopped := true }

/-- flush_shmem_list: every entry in list order through record_mmap_file -/
def Sess.flushAll (s : Sess) : Sess :=
  s.shm.foldl (fun a wb => a.mmapFile wb) { s with shm := [] }

/-- record_remaining_buffer: everything left on buf_write_list, in order -/
def Sess.remaining (s : Sess) : Sess :=
  s.pool.writeList.foldl (fun a wb => a.append wb) { s with pool := { s.pool with writeList := [] } }

/-- what the schedule of harness/c03_writer.c is made of -/
inductive SOp where
  | start (wb : WBuf) | fin (wb : WBuf) | pick (i : Nat) | write (i : Nat) | splice (i : Nat)
  | stop | flushAll | remaining
  deriving Repr

def Sess.step (s : Sess) : SOp → Option Sess
  | .start wb => some (s.recStart wb)
  | .fin wb => some (s.recEnd wb)
  | .pick i => s.pick i
  | .write i => s.write i
  | .splice i => s.splice i
  | .stop => s.stop
  | .flushAll => if s.stopped then some s.flushAll else none
  | .remaining => if s.stopped then some s.remaining else none

/-- a whole schedule; a step that is not enabled leaves the state as it is -/
def Sess.run (s : Sess) : List SOp → Sess
  | [] => s
  | op :: ops => Sess.run ((s.step op).getD s) ops

def Sess.init (nw : Nat) : Sess := { pool := { writers := List.replicate nw {} } }

end Uft.Writers
