/-
C03 / C04 — the recorder's writer pool (cmds/record.c):
  struct buf_list {tid, shmem_buf}            = WBuf
  struct writer_arg {tid, bufs} + local `head` = Warg
  buf_write_list, writer_list, thread_ctl kicks = Pool
  copy_to_buffer                              = Pool.enqueue
  writer_thread, critical section 1           = Pool.pick
  write_buf_list, one buffer at a time        = Pool.popHead
  writer_thread, critical section 2           = Pool.splice
  record_remaining_buffer, one buffer         = Pool.popRemaining
`Writers` is the sub-model of the W_* actions alone; `Uft/Model/Shmem.lean`
puts it next to the producers and the control pipe.
Core-only imports (linked into uvmodel).
-/
import Uft.Base
namespace Uft.Writers

/-- a `struct buf_list`: which task's file it goes to and which shared buffer it maps -/
structure WBuf where
  tid : Tid
  idx : Nat
  deriving DecidableEq, Repr

/-- a writer thread.  `tid = none` is `warg->tid == -1`: the writer is not on
    `writer_list`.  (`warg->tid` and membership in `writer_list` always change
    together under `write_list_lock`, lines 729-730 and 750-751.) -/
structure Warg where
  tid : Option Tid := none
  head : List WBuf := []      -- the local `head` list of writer_thread
  bufs : List WBuf := []      -- `warg->bufs`: buffers passed directly by copy_to_buffer
  deriving Repr

structure Pool where
  writeList : List WBuf := []   -- buf_write_list
  writers : List Warg := []     -- one entry per writer thread (`--num-thread`)
  kicks : Nat := 0              -- unread ints in the thread_ctl pipe
  deriving Repr

/-- copy_to_buffer, first half: `list_for_each_entry(writer, &writer_list)` —
    pass the buffer to the writer that works for its tid, if any -/
def handTo (wb : WBuf) : List Warg → Option (List Warg)
  | [] => none
  | w :: ws =>
    if w.tid = some wb.tid then some ({ w with bufs := w.bufs ++ [wb] } :: ws)
    else match handTo wb ws with
      | some ws' => some (w :: ws')
      | none => none

/-- copy_to_buffer -/
def Pool.enqueue (p : Pool) (wb : WBuf) : Pool :=
  match handTo wb p.writers with
  | some ws => { p with writers := ws }
  | none => { p with writeList := p.writeList ++ [wb], kicks := p.kicks + 1 }

def Warg.idle (w : Warg) : Bool := w.tid.isNone && w.head.isEmpty

/-- writer_thread lines 715-739: one kick was read (or the pipe is closed:
    `force`), then under the lock the first buffer of the list is taken, the writer
    registers for its tid and takes every other buffer of that tid.  With an
    empty list nothing happens (A14: the stale `warg->tid` matches nothing). -/
def Pool.pick (p : Pool) (i : Nat) (force : Bool) : Option Pool :=
  match p.writers[i]? with
  | none => none
  | some w =>
    if !w.idle then none else
    if p.kicks = 0 && !force then none else
    match p.writeList with
    | [] => some { p with kicks := p.kicks - 1 }
    | first :: rest =>
      some { writeList := rest.filter (fun b => b.tid ≠ first.tid),
             writers := p.writers.set i { w with tid := some first.tid,
                                                 head := first :: rest.filter (fun b => b.tid = first.tid) },
             kicks := p.kicks - 1 }

/-- write_buf_list: the next buffer of the writer's local list (the caller
    appends its bytes to `<tid>.dat`, zeroes `size`, sets `flag = WRITTEN`) -/
def Pool.popHead (p : Pool) (i : Nat) : Option (Pool × WBuf) :=
  match p.writers[i]? with
  | none => none
  | some w =>
    match w.head with
    | [] => none
    | wb :: rest => some ({ p with writers := p.writers.set i { w with head := rest } }, wb)

/-- writer_thread lines 744-753: `list_splice_tail_init(&warg->bufs, &head)`;
    with nothing passed meanwhile the writer deregisters -/
def Pool.splice (p : Pool) (i : Nat) : Option Pool :=
  match p.writers[i]? with
  | none => none
  | some w =>
    if w.tid.isNone || !w.head.isEmpty then none else
    let w' : Warg := { tid := if w.bufs.isEmpty then none else w.tid, head := w.bufs, bufs := [] }
    some { p with writers := p.writers.set i w' }

def Pool.allIdle (p : Pool) : Bool := p.writers.all Warg.idle

/-- record_remaining_buffer (after every writer was joined): first buffer of the list -/
def Pool.popRemaining (p : Pool) : Option (Pool × WBuf) :=
  if !p.allIdle then none else
  match p.writeList with
  | [] => none
  | wb :: rest => some ({ p with writeList := rest }, wb)

/-- buffers a registered writer holds for `t`, in the order it will write them -/
def wq (t : Tid) : List Warg → List WBuf
  | [] => []
  | w :: ws => (if w.tid = some t then w.head ++ w.bufs else []) ++ wq t ws

/-- everything queued for `t` in the pool, in the order it will reach `<t>.dat` -/
def Pool.queue (p : Pool) (t : Tid) : List WBuf :=
  wq t p.writers ++ p.writeList.filter (fun b => b.tid = t)

end Uft.Writers
