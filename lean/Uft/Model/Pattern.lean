/-
C14 — model of the -P and -U pattern list of libmcount/dynamic.c:
`parse_pattern_list` (:413) and `match_pattern_list` (:393).

The pattern list is the string of UFTRACE_PATCH: items separated by ';', a
leading '!' marks a -U (negative) item, the text after the *first* '@' is the
module (default: basename of the main executable).  Matching a symbol walks the
whole list in order; an item takes part only if its module is a *prefix*
(`strncmp(libname, module, strlen(module)) == 0`) of the map's basename or of
its soname; the last item that matches decides.

The regex/glob/simple matching itself (`match_filter_pattern`: regexec /
fnmatch / strcmp) is not modelled: it is a parameter `M : Nat → String → Bool`
(pattern index × symbol name), supplied as data by the correspondence harness
from the real engines.

Core-only imports: this file is linked into the `uvmodel` driver.
-/
namespace Uft.Pattern

/-- one `struct patt_list` entry; `idx` is its position in the list (the key of
    the opaque match relation). -/
structure Patt where
  idx : Nat
  name : String
  module : String
  positive : Bool
  deriving Repr, DecidableEq

/-- `strv_split(&funcs, patch_funcs, ";")`: every ';' separates, empty items are
    kept. -/
def splitSemi (s : String) : List String := s.splitOn ";"

/-- body of the `strv_for_each` loop of parse_pattern_list for one item. -/
def parseItem (defMod : String) (idx : Nat) (item : String) : Patt :=
  let cs := item.toList
  let (positive, rest) :=
    match cs with
    | '!' :: r => (false, r)            -- name[0] == '!' → name++ (positive stays false)
    | _ => (true, cs)
  let nm := rest.takeWhile (· ≠ '@')    -- strchr(name, '@'): first '@'
  let after := rest.dropWhile (· ≠ '@')
  let module :=
    match after with
    | [] => defMod                      -- delim == NULL → xstrdup(def_mod)
    | _ :: m => String.ofList m         -- *delim = 0; module = ++delim
  { idx := idx, name := String.ofList nm, module := module, positive := positive }

def parseItems (defMod : String) : Nat → List String → List Patt
  | _, [] => []
  | i, it :: rest => parseItem defMod i it :: parseItems defMod (i + 1) rest

/-- parse_pattern_list (list_add_tail: list order = string order). -/
def parsePatternList (patchFuncs defMod : String) : List Patt :=
  parseItems defMod 0 (splitSemi patchFuncs)

/-- `!strncmp(x, module, strlen(module))`. -/
def prefixOf (module x : String) : Bool := module.toList.isPrefixOf x.toList

/-- the negation of the `continue` condition of match_pattern_list:
    `strncmp(libname, module, len) && (!soname || strncmp(soname, module, len))`. -/
def moduleMatches (p : Patt) (libname : String) (soname : Option String) : Bool :=
  prefixOf p.module libname ||
  (match soname with
   | some so => prefixOf p.module so
   | none => false)

/-- an item takes part in the decision for `sym` -/
def applies (M : Nat → String → Bool) (libname : String) (soname : Option String) (sym : String)
    (p : Patt) : Bool :=
  moduleMatches p libname soname && M p.idx sym

/-- match_pattern_list: `none` = 0 (no match), `some true` = 1, `some false` = -1. -/
def decidePatch (M : Nat → String → Bool) (ps : List Patt) (libname : String)
    (soname : Option String) (sym : String) : Option Bool :=
  ps.foldl (fun ret p => if applies M libname soname sym p then some p.positive else ret) none

/-- match_pattern_module (used at dlopen time): any item whose module is a
    prefix of the basename or soname. -/
def matchPatternModule (ps : List Patt) (libname : String) (soname : Option String) : Bool :=
  ps.any fun p => moduleMatches p libname soname

end Uft.Pattern
