/- C06 model, part 1: the k-way merge of the per-task record streams done by
   `read_rstack` (utils/fstack.c).

   With user data only (no kernel/perf/event/extern sources) `__read_rstack`
   is `read_user_stack`: for every task in `info.tids` order take the head of
   its look-ahead list (`get_task_ustack`; without time or size filters the head of
   the list is simply the next unread record of `<tid>.dat`), and keep the
   task whose head has the smallest timestamp, comparing with a strict `<`
   (fstack.c:1797) so the lowest task index wins ties.  `fstack_consume` then
   drops that head.  Core-only. -/
namespace Uft.Merge

/-- one 16-byte trace record (`struct uftrace_record`), ENTRY or EXIT -/
structure Rec where
  time : Nat
  exit : Bool
  depth : Nat
  addr : Nat
deriving DecidableEq, Repr, Inhabited

/-- The loop of `read_user_stack` (fstack.c:1792-1801): `i` is the running task
    index, `best` is `(next_i, next_time)` (`none` = `next_i < 0`). -/
def pickLoop : List (List Rec) → Nat → Option (Nat × Nat) → Option (Nat × Nat)
  | [], _, best => best
  | [] :: ts, i, best => pickLoop ts (i + 1) best            -- get_task_ustack() == NULL: continue
  | (r :: _) :: ts, i, none => pickLoop ts (i + 1) (some (i, r.time))
  | (r :: _) :: ts, i, some (bi, bt) =>
    if r.time < bt then pickLoop ts (i + 1) (some (i, r.time))
    else pickLoop ts (i + 1) (some (bi, bt))

/-- index of the task that delivers the next record -/
def pickIdx (ts : List (List Rec)) : Option Nat := (pickLoop ts 0 none).map (·.1)

/-- the unread records of task `i` (empty for an index that is not a task) -/
def nth : List (List Rec) → Nat → List Rec
  | [], _ => []
  | t :: _, 0 => t
  | _ :: ts, i + 1 => nth ts i

/-- `read_rstack` repeated until every task is done; `fuel` bounds the number of records. -/
def mergeFuel : Nat → List (List Rec) → List (Nat × Rec)
  | 0, _ => []
  | n + 1, ts =>
    match pickIdx ts with
    | none => []
    | some i =>
      match nth ts i with
      | [] => []
      | r :: rest => (i, r) :: mergeFuel n (ts.set i rest)

def total (ts : List (List Rec)) : Nat := (ts.map List.length).sum

/-- the merged stream: (task index, record) in the order `read_rstack` returns them -/
def merge (ts : List (List Rec)) : List (Nat × Rec) := mergeFuel (total ts) ts

/-- `--tid`: tasks that are not selected are marked `done` before reading (fstack_setup_task) -/
def selectTasks (sel : Nat → Bool) (ts : List (List Rec)) : List (List Rec) :=
  go 0 ts
where
  go : Nat → List (List Rec) → List (List Rec)
    | _, [] => []
    | i, t :: ts => (if sel i then t else []) :: go (i + 1) ts

end Uft.Merge
