/-
C02 / C05 — model of libmcount's per-thread entry/exit hooks:
  libmcount/mcount.c : mcount_check_rstack, mcount_entry_filter_check,
                       mcount_entry_filter_record, mcount_exit_filter_record,
                       __mcount_entry/__mcount_exit, __cygprof_entry/__cygprof_exit
  libmcount/record.c : record_trace_data, record_ret_stack (without payloads)
Both the regular build and the DISABLE_MCOUNT_FILTER ("fast") build.
Core-only imports (linked into uvmodel).
-/
import Uft.Base
import Uft.Gen.Consts
namespace Uft.Mcount

/-- a decoded trace record (payload-free part) -/
structure Rec where
  time : Nat
  type : Nat          -- 0 ENTRY, 1 EXIT, 2 EVENT, 3 LOST
  depth : Nat
  addr : Nat
  deriving DecidableEq, Repr

/-- what `uftrace_match_filter` returns for a function -/
structure Trigger where
  filter : Option Bool := none     -- TRIGGER_FL_FILTER: some true = FILTER_MODE_IN (-F), some false = OUT (-N)
  loc : Option Bool := none        -- TRIGGER_FL_LOC: some true = lmode IN, some false = lmode OUT
  depth : Option Nat := none       -- TRIGGER_FL_DEPTH
  traceOn : Bool := false
  traceOff : Bool := false
  time : Option Nat := none        -- TRIGGER_FL_TIME_FILTER
  size : Option Nat := none        -- TRIGGER_FL_SIZE_FILTER
  trace : Bool := false            -- TRIGGER_FL_TRACE
  caller : Bool := false           -- TRIGGER_FL_CALLER
  finish : Bool := false           -- TRIGGER_FL_FINISH
  deriving Repr

def Trigger.none : Trigger := {}

/-- TRIGGER_FL_FILTER | DEPTH | TIME_FILTER | SIZE_FILTER: the trigger modifies the per-thread filter state -/
def Trigger.changesState (t : Trigger) : Bool :=
  t.filter.isSome || t.depth.isSome || t.time.isSome || t.size.isSome

structure Cfg where
  maxStack : Nat := Uft.Gen.Consts.OPT_RSTACK_DEFAULT       -- mcount_rstack_max
  depthOpt : Nat := Uft.Gen.Consts.OPT_DEPTH_DEFAULT     -- mcount_depth (MCOUNT_DEFAULT_DEPTH)
  threshold : Nat := 0         -- mcount_threshold
  optIn : Bool := false        -- mcount_triggers->filter_count > 0
  locIn : Bool := false        -- mcount_triggers->loc_count > 0
  callerMode : Bool := false   -- mcount_triggers->caller_count > 0
  minSize : Nat := 0           -- mcount_min_size
  fast : Bool := false         -- DISABLE_MCOUNT_FILTER build
  enabled0 : Bool := true      -- !UFTRACE_TRACE_OFF
  f4fixed : Bool := true       -- false: __mcount_entry before the repair of finding F4
  s4fixed : Bool := true       -- false: exit hooks keep a call only if it ran strictly longer than the threshold (finding S4)
  f7fixed : Bool := true       -- false: no flush of the pending ENTRY records at the TRACE_OFF update of
                               -- mcount_entry_filter_check (finding F-C07-TRACEOFF-FLUSH)
  trig : Nat → Trigger := fun _ => {}
  fsize : Nat → Nat := fun _ => 16

/-- FILTER_NO_MAX_DEPTH, FILTER_NO_TIME: regenerated from libmcount/internal.h on every run -/
def noMaxDepth : Nat := Uft.Gen.Consts.FILTER_NO_MAX_DEPTH
def noTime : Nat := Uft.Gen.Consts.FILTER_NO_TIME

structure Frame where
  addr : Nat
  start : Nat
  endT : Nat := 0
  depth : Nat
  cyg : Bool := false
  norecord : Bool := false
  filtered : Bool := false
  notrace : Bool := false
  trace : Bool := false
  caller : Bool := false
  disabled : Bool := false
  written : Bool := false
  sDepth : Nat := 0
  sMaxDepth : Nat := 0
  sTime : Nat := 0
  sSize : Nat := 0
  deriving Repr

structure Filt where
  inCount : Nat := 0
  outCount : Nat := 0
  depth : Nat := 0
  maxDepth : Nat := noMaxDepth
  time : Nat := noTime
  size : Nat := 0
  svDepth : Nat := 0
  svMaxDepth : Nat := 0
  svTime : Nat := 0
  svSize : Nat := 0
  deriving DecidableEq, Repr

structure St where
  frames : List Frame := []      -- innermost first; length = min idx maxStack
  over : Nat := 0                -- idx - maxStack when idx is beyond the stack (cygprof only)
  recordIdx : Nat := 0
  warned : Bool := false
  filt : Filt := {}
  enabled : Bool := true
  enableCached : Bool := true
  finished : Bool := false
  out : List Rec := []           -- oldest first

def St.init (cfg : Cfg) : St :=
  { filt := { size := cfg.minSize }, enabled := cfg.enabled0, enableCached := cfg.enabled0 }

def Frame.skip (f : Frame) : Bool := f.norecord || f.disabled

def entryRec (f : Frame) : Rec := { time := f.start, type := 0, depth := f.depth, addr := f.addr }
def exitRec (f : Frame) : Rec := { time := f.endT, type := 1, depth := f.depth, addr := f.addr }

/-- the downward walk of record_trace_data: ENTRY records for the not yet
    written frames below the current one, outermost first; skipped frames
    (NORECORD/DISABLED) are passed over and stay unwritten -/
def flushBelow : List Frame → List Frame × List Rec
  | [] => ([], [])
  | f :: r =>
    if f.written then (f :: r, []) else
    let p := flushBelow r
    if f.skip then (f :: p.1, p.2) else ({ f with written := true } :: p.1, p.2 ++ [entryRec f])

/-- record_trace_data(mtdp, top frame, …) -/
def recordTrace : List Frame → List Frame × List Rec
  | [] => ([], [])
  | top :: rest =>
    let p := if top.written then (rest, []) else flushBelow rest
    let e := !top.written && !top.skip
    let top1 := if e then { top with written := true } else top
    let r2 := if e then [entryRec top] else []
    let x := top.endT != 0
    let top2 := if x then { top1 with written := true } else top1
    let r3 := if x then [exitRec top] else []
    (top2 :: p.1, p.2 ++ r2 ++ r3)

def St.idx (s : St) : Nat := s.frames.length + s.over

/-- mcount_check_rstack: returns (overflow?, state) -/
def checkRstack (cfg : Cfg) (s : St) : Bool × St :=
  if s.idx ≥ cfg.maxStack then
    if !s.warned then
      let p := recordTrace s.frames
      (true, { s with frames := p.1, out := s.out ++ p.2, warned := true })
    else (true, s)
  else (false, { s with warned := false })

inductive FR where | in_ | out | rstack
  deriving DecidableEq, Repr

/-- mcount_save_filter -/
def saveFilt (f : Filt) : Filt :=
  { f with svDepth := f.depth, svMaxDepth := f.maxDepth, svTime := f.time, svSize := f.size }

/-- TRIGGER_FL_FILTER: count the hit and reset the depth -/
def matchFilt (tr : Trigger) (f : Filt) : Filt :=
  match tr.filter with
  | some true => { f with inCount := f.inCount + 1, depth := 0 }
  | some false => { f with outCount := f.outCount + 1, depth := 0 }
  | none => f

/-- the two early `return FILTER_OUT`s after the trigger was matched: opt-in
    mode without an enclosing -F hit, and the location filter -/
def earlyOut (cfg : Cfg) (tr : Trigger) (f0 : Filt) : Bool :=
  (tr.filter.isNone && cfg.optIn && f0.inCount = 0) ||
  (match tr.loc with
   | some m => !m
   | none => cfg.locIn)

/-- depth= / time= / size= actions -/
def trigFilt (tr : Trigger) (f : Filt) : Filt :=
  let f2 : Filt := match tr.depth with
    | some d => { f with depth := 0, maxDepth := d }
    | none => f
  { f2 with time := tr.time.getD f2.time, size := tr.size.getD f2.size }

def depthLimit (cfg : Cfg) (tr : Trigger) (f0 : Filt) : Nat :=
  match tr.depth with
  | some d => d
  | none => if f0.maxDepth = noMaxDepth then cfg.depthOpt else f0.maxDepth

def trigEnabled (tr : Trigger) (en : Bool) : Bool :=
  if tr.traceOff then false else if tr.traceOn then true else en

/-- the TRACE_OFF update of mcount_entry_filter_check after the repair of finding F-C07-TRACEOFF-FLUSH:
    `if (mcount_enabled && mtdp->idx > 0) record_trace_data(mtdp, &mtdp->rstack[mtdp->idx - 1], NULL);`
    before `mcount_enabled = false`.  `s.frames` are the callers' frames (the new frame is not pushed
    yet; mcount_check_rstack returned 0, so no call is counted beyond the stack), `mcount_enabled` is
    `s.enabled` after the TRACE_ON update just above.  The ENTRY records of the open callers are
    written here because the function that switches tracing off may itself be rejected (depth, …) and
    then never reaches the flush in mcount_entry_filter_record.  `cfg.f7fixed = false`: the code
    before the repair. -/
def traceOffFlush (cfg : Cfg) (s : St) (tr : Trigger) : St :=
  if cfg.f7fixed && tr.traceOff && (tr.traceOn || s.enabled) then
    { s with frames := (recordTrace s.frames).1, out := s.out ++ (recordTrace s.frames).2 }
  else s

@[simp] theorem traceOffFlush_of_traceOff_false (cfg : Cfg) (s : St) (tr : Trigger) (h : tr.traceOff = false) :
    traceOffFlush cfg s tr = s := by simp [traceOffFlush, h]
@[simp] theorem traceOffFlush_of_f7_false (cfg : Cfg) (s : St) (tr : Trigger) (h : cfg.f7fixed = false) :
    traceOffFlush cfg s tr = s := by simp [traceOffFlush, h]
@[simp] theorem traceOffFlush_none (cfg : Cfg) (s : St) : traceOffFlush cfg s {} = s := by simp [traceOffFlush]
@[simp] theorem traceOffFlush_disabled (cfg : Cfg) (s : St) (tr : Trigger) (h1 : tr.traceOn = false)
    (h2 : s.enabled = false) : traceOffFlush cfg s tr = s := by simp [traceOffFlush, h1, h2]
@[simp] theorem traceOffFlush_over (cfg : Cfg) (s : St) (tr : Trigger) : (traceOffFlush cfg s tr).over = s.over := by
  unfold traceOffFlush; split <;> rfl
@[simp] theorem traceOffFlush_recordIdx (cfg : Cfg) (s : St) (tr : Trigger) :
    (traceOffFlush cfg s tr).recordIdx = s.recordIdx := by unfold traceOffFlush; split <;> rfl
@[simp] theorem traceOffFlush_warned (cfg : Cfg) (s : St) (tr : Trigger) :
    (traceOffFlush cfg s tr).warned = s.warned := by unfold traceOffFlush; split <;> rfl
@[simp] theorem traceOffFlush_filt (cfg : Cfg) (s : St) (tr : Trigger) : (traceOffFlush cfg s tr).filt = s.filt := by
  unfold traceOffFlush; split <;> rfl
@[simp] theorem traceOffFlush_enabled (cfg : Cfg) (s : St) (tr : Trigger) :
    (traceOffFlush cfg s tr).enabled = s.enabled := by unfold traceOffFlush; split <;> rfl
@[simp] theorem traceOffFlush_enableCached (cfg : Cfg) (s : St) (tr : Trigger) :
    (traceOffFlush cfg s tr).enableCached = s.enableCached := by unfold traceOffFlush; split <;> rfl
@[simp] theorem traceOffFlush_finished (cfg : Cfg) (s : St) (tr : Trigger) :
    (traceOffFlush cfg s tr).finished = s.finished := by unfold traceOffFlush; split <;> rfl
/-- the two fields the flush touches -/
theorem traceOffFlush_frames (cfg : Cfg) (s : St) (tr : Trigger) :
    (traceOffFlush cfg s tr).frames =
      if cfg.f7fixed && tr.traceOff && (tr.traceOn || s.enabled) then (recordTrace s.frames).1 else s.frames := by
  unfold traceOffFlush; split <;> rfl
theorem traceOffFlush_out (cfg : Cfg) (s : St) (tr : Trigger) :
    (traceOffFlush cfg s tr).out =
      if cfg.f7fixed && tr.traceOff && (tr.traceOn || s.enabled) then s.out ++ (recordTrace s.frames).2 else s.out := by
  unfold traceOffFlush; split <;> rfl

/-- mcount_entry_filter_check; also returns the trigger that was matched
    (`{}` when the function returned before matching). -/
def entryFilterCheck (cfg : Cfg) (s : St) (addr : Nat) : FR × St × Trigger :=
  let c := checkRstack cfg s
  if c.1 then (.rstack, c.2, {}) else
  let s := c.2
  if cfg.fast then
    if cfg.minSize > 0 && cfg.fsize addr < cfg.minSize then (.out, s, {}) else (.in_, s, {})
  else
  let f0 := saveFilt s.filt
  if f0.outCount > 0 then (.out, { s with filt := f0 }, {}) else
  let tr := cfg.trig addr
  let f1 := matchFilt tr f0
  if earlyOut cfg tr f0 then (.out, { s with filt := f1 }, tr) else
  let f3 := trigFilt tr f1
  let en := trigEnabled tr s.enabled
  -- TRACE_ON, then TRACE_OFF: the pending ENTRY records of the callers are written before tracing goes off
  let s := traceOffFlush cfg s tr
  if f3.depth ≥ depthLimit cfg tr f0 then (.out, { s with filt := f3, enabled := en }, tr)
  else (.in_, { s with filt := { f3 with depth := f3.depth + 1 }, enabled := en }, tr)

/-- mcount_entry_filter_record on the frame just pushed (head of `frames`) -/
def entryFilterRecord (cfg : Cfg) (s : St) (tr : Trigger) : St :=
  match s.frames with
  | [] => s
  | f :: rest =>
    if cfg.fast then { s with recordIdx := s.recordIdx + 1 } else
    let nr := f.norecord || s.filt.outCount > 0 || (s.filt.inCount = 0 && cfg.optIn) ||
              (s.filt.size > 0 && cfg.fsize f.addr < s.filt.size)
    let f1 : Frame := { f with
      norecord := nr,
      sDepth := s.filt.svDepth, sMaxDepth := s.filt.svMaxDepth, sTime := s.filt.svTime, sSize := s.filt.svSize,
      filtered := tr.filter == some true,
      notrace := tr.filter == some false,
      trace := tr.trace, caller := tr.caller }
    if tr.finish then
      let p := recordTrace (f1 :: rest)
      { s with frames := p.1, out := s.out ++ p.2, finished := true }
    else if nr then { s with frames := f1 :: rest } else
    -- record_idx++; a frame entered while tracing is off is tagged DISABLED, and the
    -- open frames are flushed if tracing was on until now (enable_cached)
    let dis := !s.enabled
    let f2 : Frame := { f1 with disabled := f1.disabled || dis }
    let p := if dis && s.enableCached then recordTrace (f2 :: rest) else (f2 :: rest, [])
    { s with recordIdx := s.recordIdx + 1, frames := p.1, out := s.out ++ p.2,
             enableCached := if tr.traceOn || tr.traceOff then s.enabled else s.enableCached }

/-- the time-filter test of the exit hooks: a call is kept when it ran at least as long as the
    threshold (`>=`, the documented "do not show functions which run under the threshold" and
    what the analysis commands do); before the repair of finding S4 it was `>` -/
def durOk (cfg : Cfg) (dur thr : Nat) : Bool :=
  if cfg.s4fixed then dur ≥ thr else dur > thr

/-- mcount_exit_filter_record on the top frame (its `endT` already set) -/
def exitFilterRecord (cfg : Cfg) (s : St) : St :=
  match s.frames with
  | [] => s
  | f :: rest =>
    if cfg.fast then
      let s1 := { s with recordIdx := s.recordIdx - 1 }
      if durOk cfg (f.endT - f.start) cfg.threshold || f.written then
        let p := recordTrace (f :: rest)
        { s1 with frames := p.1, out := s.out ++ p.2 }
      else s1
    else
    let timeFilter := if s.filt.time = noTime then cfg.threshold else s.filt.time
    let fl : Filt := { s.filt with
      inCount := if f.filtered then s.filt.inCount - 1 else s.filt.inCount,
      outCount := if !f.filtered && f.notrace then s.filt.outCount - 1 else s.filt.outCount,
      depth := f.sDepth, maxDepth := f.sMaxDepth, time := f.sTime, size := f.sSize }
    let s1 := { s with filt := fl }
    if f.norecord then s1 else
    let s2 := { s1 with recordIdx := s1.recordIdx - 1 }
    if !s.enabled then s2 else
    if (durOk cfg (f.endT - f.start) timeFilter && (!cfg.callerMode || f.caller)) || f.written || f.trace then
      let p := recordTrace (f :: rest)
      { s2 with frames := p.1, out := s.out ++ p.2 }
    else s2

inductive Kind where | pg | cyg
  deriving DecidableEq, Repr

/-- entry hook. Returns the new state and whether the hook took the call
    (for -pg: return address hijacked, an exit hook will follow). -/
def entry (cfg : Cfg) (k : Kind) (s : St) (addr now : Nat) : St × Bool :=
  let c := entryFilterCheck cfg s addr
  let s1 := c.2.1
  let tr := c.2.2
  match k with
  | .pg =>
    -- a call that is filtered out pushes no frame and its return address is not hijacked, unless
    -- its trigger changed the filter state: then it gets a NORECORD frame (repair of finding F4;
    -- `cfg.f4fixed = false` is the code before it, where nothing undid the change)
    if c.1 == .rstack || (c.1 != .in_ && !(cfg.f4fixed && tr.changesState)) then (s1, false) else
    let f : Frame := { addr := addr, start := now, depth := s1.recordIdx, norecord := c.1 != .in_ }
    (entryFilterRecord cfg { s1 with frames := f :: s1.frames } tr, true)
  | .cyg =>
    if c.1 == .rstack then ({ s1 with over := s1.over + 1 }, true) else
    let isIn := c.1 == .in_
    let f : Frame := { addr := addr, start := if isIn then now else 0, depth := s1.recordIdx,
                       cyg := true, norecord := !isIn }
    (entryFilterRecord cfg { s1 with frames := f :: s1.frames } tr, true)

/-- exit hook for the innermost frame -/
def exit (cfg : Cfg) (s : St) (now : Nat) : St :=
  if s.over > 0 then { s with over := s.over - 1 } else
  match s.frames with
  | [] => s
  | f :: rest =>
    let f1 := if f.cyg && f.norecord then f else { f with endT := now }
    let s1 := exitFilterRecord cfg { s with frames := f1 :: rest }
    { s1 with frames := s1.frames.tail }

/-- what mcount_rstack_restore + record_trace_data(top) do in the SIGSEGV handler -/
def flushTop (s : St) : St :=
  let p := recordTrace s.frames
  { s with frames := p.1, out := s.out ++ p.2 }

/-- atfork_child_handler: the child gets fresh buffers (its own data file) and
    every inherited frame is marked WRITTEN ("do not record parent's functions") -/
def forkChild (s : St) : St :=
  { s with frames := s.frames.map fun f => { f with written := true }, out := [] }

/-! ### Non-local exits (C05 × C11): a frame that holds filter state is left by something other than its return

Anchors: libmcount/wrap.c `mcount_rstack_rehook_exception` (the frames a C++ exception unwound),
libmcount/mcount.c `__mcount_entry` / libmcount/plthook.c `__plthook_entry` (the `in_exception` block: a
call made from a landing pad), libmcount/plthook.c `__plthook_entry` for library calls (a rejected call
still gets a NORECORD frame; `flush_syms`), `setup_jmpbuf_rstack` / `restore_jmpbuf_rstack` (longjmp).
Added for C05/C11; nothing above this line refers to it. -/

/-- which of the two findings on this path are repaired (`false` = the code as it was found) -/
structure NLFix where
  /-- C05-LONGJMP-FILTER-LEAK: restore_jmpbuf_rstack gives back the in/out counts of the abandoned frames -/
  ljCounts : Bool := true
  /-- C05-EXC-PAD-FILTER: the entry hooks drop the unwound frames BEFORE the filter check -/
  padOrder : Bool := true
  deriving DecidableEq, Repr

/-- one frame dropped by the loop of mcount_rstack_rehook_exception:
    `if (!(flags & NORECORD)) end_time = mcount_gettime(); mcount_exit_filter_record(mtdp, rstack, NULL);` -/
def unwindOne (cfg : Cfg) (s : St) (now : Nat) : St :=
  match s.frames with
  | [] => s
  | f :: rest =>
    let f1 := if f.norecord then f else { f with endT := now }
    let s1 := exitFilterRecord cfg { s with frames := f1 :: rest }
    { s1 with frames := s1.frames.tail }

/-- the whole loop: one frame per clock reading, innermost first -/
def unwindExc (cfg : Cfg) (s : St) : List Nat → St
  | [] => s
  | t :: ts => unwindExc cfg (unwindOne cfg s t) ts

/-- __plthook_entry after the filter check said `fr` (not FILTER_RSTACK): a rejected library call still
    gets a frame (NORECORD, start_time 0) because its return address must stay hooked;
    `flush`: the symbol is in flush_syms (record_trace_data right after mcount_entry_filter_record) -/
def pltPush (cfg : Cfg) (s1 : St) (fr : FR) (tr : Trigger) (addr now : Nat) (flush : Bool) : St :=
  let isIn := fr == .in_
  let f : Frame := { addr := addr, start := if isIn then now else 0, depth := s1.recordIdx, norecord := !isIn }
  let s2 := entryFilterRecord cfg { s1 with frames := f :: s1.frames } tr
  if flush then flushTop s2 else s2

/-- __plthook_entry for a library call outside a landing pad; `false`: the shadow stack is full, not hooked -/
def pltEntry (cfg : Cfg) (s : St) (addr now : Nat) (flush : Bool) : St × Bool :=
  let c := entryFilterCheck cfg s addr
  if c.1 == .rstack then (c.2.1, false) else (pltPush cfg c.2.1 c.1 c.2.2 addr now flush, true)

/-- __mcount_entry called from a landing pad (`in_exception` set) with the unwound frames still on the
    shadow stack (`ts`: one clock reading per unwound frame).  Returns (state, hooked?, unwound frames
    dropped?).  As found (`padOrder = false`) the filter check runs first — in the filter state of the
    dead callee — then the dead frames are dropped (which overwrites what the check did to depth / time /
    size), and mcount_entry_filter_record stores the values the check saved (the dead callee's) for this
    call's exit; a call the check rejects returns before the dead frames are dropped. -/
def padEntryPg (cfg : Cfg) (fx : NLFix) (s : St) (addr now : Nat) (ts : List Nat) : St × Bool × Bool :=
  if fx.padOrder then
    let r := entry cfg .pg (unwindExc cfg s ts) addr now
    (r.1, r.2, true)
  else
    let c := entryFilterCheck cfg s addr
    let s1 := c.2.1
    let tr := c.2.2
    if c.1 == .rstack || (c.1 != .in_ && !(cfg.f4fixed && tr.changesState)) then (s1, false, false) else
    let s2 := unwindExc cfg s1 ts
    let f : Frame := { addr := addr, start := now, depth := s2.recordIdx, norecord := c.1 != .in_ }
    (entryFilterRecord cfg { s2 with frames := f :: s2.frames } tr, true, true)

/-- __plthook_entry called from a landing pad -/
def padEntryPlt (cfg : Cfg) (fx : NLFix) (s : St) (addr now : Nat) (flush : Bool) (ts : List Nat) :
    St × Bool × Bool :=
  if fx.padOrder then
    let r := pltEntry cfg (unwindExc cfg s ts) addr now flush
    (r.1, r.2, true)
  else
    let c := entryFilterCheck cfg s addr
    if c.1 == .rstack then (c.2.1, false, false) else
    (pltPush cfg (unwindExc cfg c.2.1 ts) c.1 c.2.2 addr now flush, true, true)

/-- what setup_jmpbuf_rstack keeps: rstack[0..idx) (head = the setjmp entry itself) and record_idx -/
structure JmpSave where
  frames : List Frame
  recordIdx : Nat

def jmpSave (s : St) : JmpSave := { frames := s.frames, recordIdx := s.recordIdx }

/-- the counts part of mcount_exit_filter_record (mcount_filter_drop_counts of the repair) -/
def undoCount (fl : Filt) (f : Frame) : Filt :=
  { fl with inCount := if f.filtered then fl.inCount - 1 else fl.inCount,
            outCount := if !f.filtered && f.notrace then fl.outCount - 1 else fl.outCount }

def clearTag (f : Frame) : Frame := { f with filtered := false, notrace := false }

/-- restore_jmpbuf_rstack at the exit of the longjmp entry (the head of `s.frames`): idx and record_idx go
    back to the saved values, the saved entries come back marked WRITTEN.  As found the thread's filter
    state is not touched: the in/out counts held by the abandoned frames rstack[count-1 .. idx) stay.
    Repaired (`ljCounts`): those frames give their counts back, and the setjmp entry — which returned once
    already — comes back without its FILTERED/NOTRACE tag.  (depth / max-depth / time / size come back
    through the second exit of the setjmp entry in either variant.) -/
def jmpRestore (fx : NLFix) (s : St) (j : JmpSave) : St :=
  let dead := s.frames.take (s.frames.length + 1 - j.frames.length)
  let fr := j.frames.map fun f => { f with written := true }
  if fx.ljCounts then
    { s with frames := (match fr with | [] => [] | f :: r => clearTag f :: r), recordIdx := j.recordIdx,
             filt := dead.foldl undoCount s.filt }
  else { s with frames := fr, recordIdx := j.recordIdx }

end Uft.Mcount
