import Uft.Model.TextScan
/-
C12 — the `info` file: utils/data-file.c `open_info_file` (40-byte header, magic, version) and
cmds/info.c `read_uftrace_info` with its per-key readers (`read_exe_name` … `read_utc_offset`,
`copy_info_str`, `read_taskinfo` incl. the `tids=` array fill), as a total function on bytes.

`fixed = false`: the code as found.  `fixed = true`: with proposed_fixes/C12-F8.diff
(`copy_info_str` on an empty value reads `dst[-1]`) and C12-S2.diff (`tids[nr_tid++]` without a
bound) applied (both are in /repo by now).  `nl = true`: with proposed_fixes/C12-F18i.diff (every
`fgets`/`getline` of a read handler goes through `info_fgets`/`info_getline`: a line without its
newline is an incomplete record and counts as end of file, `TextScan.nlGate`); `nl = false`: the
code as it is.

Not modelled: byte-swapped (big-endian) data, the build-id reader (the generated directories
have no build-id bit), the numeric values parsed with `sscanf` into usage/load/cpu fields (they
cannot make a reader fail).  `sscanf(.., "lines=%d\n", &lines)` returning 0 leaves `lines`
uninitialised in C; the model returns the error enum "uninit-lines" there (not reachable by
cutting a valid file).  Core-only.
-/
namespace Uft.InfoFile
open Uft.TextScan

def PATH_MAX : Nat := 4096

structure Hdr where
  version : Nat
  feat : Nat
  infoMask : Nat
  maxStack : Nat
  elfClass : Nat
  deriving Repr, DecidableEq

structure Info where
  fields : List (String × Bytes) := []   -- strings stored with copy_info_str, newest first
  exitStatus : Int := 0
  nrTid : Int := 0
  tids : Option (List Int) := none
  autoArgs : Bool := false
  pattType : Bytes := []
  deriving Repr

def Info.set (i : Info) (k : String) (v : Bytes) : Info := { i with fields := (k, v) :: i.fields }

def Info.get (i : Info) (k : String) : Option Bytes := (i.fields.find? (·.1 == k)).map (·.2)

def leNat : Bytes → Nat
  | [] => 0
  | c :: r => c.toNat + 256 * leNat r

def magic : Bytes := b "Ftrace!" ++ [0]

/-- `fread(&handle->hdr, sizeof(handle->hdr), 1, fp)` and the checks behind it -/
def parseHdr (s : Bytes) : PR (Hdr × Bytes) :=
  if s.length < 40 then .err "cannot read header data" else
  let h := s.take 40
  if h.take 8 != magic then .err "invalid magic string found!" else
  if (h.drop 14).head? != some 1 then .err "byte-swapped data is not modelled" else
  let version := leNat ((h.drop 8).take 4)
  if version < 3 || version > 4 then .err "unsupported file version" else
  .ok ({ version := version, feat := leNat ((h.drop 16).take 8), infoMask := leNat ((h.drop 24).take 8),
         maxStack := leNat ((h.drop 32).take 2), elfClass := ((h.drop 15).head?.getD 0).toNat },
       s.drop 40)

/-- `copy_info_str`: strdup and strip one trailing newline; `dst[len - 1]` with `len == 0` reads
    the byte before the 1-byte allocation -/
def copyInfoStr (fixed : Bool) (s : Bytes) : PR Bytes :=
  if s.isEmpty then (if fixed then .ok [] else .oob "copy_info_str dst[-1]")
  else .ok (if s.getLast? == some NL then s.dropLast else s)

/-- `fgets(buf, sizeof(rha->buf), fp)` then use as a C string -/
def bufLine (nl : Bool) (s : Bytes) : PR (Bytes × Bytes) :=
  match nlGate nl (fgets PATH_MAX s) with
  | none => .err "eof"
  | some (l, r) => .ok (cstr l, r)

/-- `getline(&buf, &len, fp)` then use as a C string -/
def gLine (nl : Bool) (s : Bytes) : PR (Bytes × Bytes) :=
  match nlGate nl (getline s) with
  | none => .err "eof"
  | some (l, r) => .ok (cstr l, r)

/-- a one-line `key:value` reader -/
def readKV (fixed nl : Bool) (key : String) (i : Info) (s : Bytes) : PR (Info × Bytes) := do
  let (l, r) ← bufLine nl s
  if !hasPrefix (b key) l then .err ("no " ++ key) else
  let v ← copyInfoStr fixed (l.drop (b key).length)
  pure (i.set key v, r)

/-- `sscanf(&buf[n], "lines=%d\n", &lines)` and the `lines > MAX` test -/
def scanLines (max : Nat) (t : Bytes) : PR Nat :=
  match runFmt (lits "lines=" ++ [.dec, .ws]) t [] with
  | .ok x =>
    if x.ret == -1 then .err "lines: EOF" else
    match x.vals with
    | [.num n] => if n > max then .err "too many lines" else .ok n.toNat
    | _ => .err "uninit-lines"
  | .err e => .err e
  | .oob t => .oob t

/-- the `for (i = 0; i < lines; i++)` loop of cpuinfo/osinfo/usageinfo: every line must carry
    the section prefix; `keys` are the `key=` sub-fields stored with `copy_info_str` -/
def sectionLoop (fixed nl : Bool) (pre : String) (keys : List String) : Nat → Info → Bytes → PR (Info × Bytes)
  | 0, i, s => .ok (i, s)
  | n + 1, i, s => do
    let (l, r) ← bufLine nl s
    if !hasPrefix (b pre) l then .err ("no " ++ pre) else
    let t := l.drop (b pre).length
    match keys.find? (fun k => hasPrefix (b k) t) with
    | some k =>
      let v ← copyInfoStr fixed (t.drop (b k).length)
      sectionLoop fixed nl pre keys n (i.set (pre ++ k) v) r
    | none => sectionLoop fixed nl pre keys n i r

def readSection (fixed nl : Bool) (pre : String) (max : Nat) (keys : List String) (i : Info) (s : Bytes) :
    PR (Info × Bytes) := do
  let (l, r) ← bufLine nl s
  if !hasPrefix (b pre) l then .err ("no " ++ pre) else
  let n ← scanLines max (l.drop (b pre).length)
  sectionLoop fixed nl pre keys n i r

/-- the `tids=` loop of `read_taskinfo`; `cur` is the string at `endp`, `tstr` at `tids_str`,
    `cap` the number of ints allocated (`info->nr_tid`) -/
def tidsLoop (fixed : Bool) (cap : Nat) : Nat → Bytes → Bytes → List Int → PR (List Int)
  | 0, _, _, _ => .err "fuel"
  | n + 1, cur, tstr, acc =>
    if cur.head? == some NL then .ok acc.reverse else
    let x := strtol tstr
    if acc.length ≥ cap then
      (if fixed then .err "more tids than nr_tid" else .oob "tids[nr_tid]")
    else
      match x.2.head? with
      | some c => if c == 44 || c == NL then tidsLoop fixed cap n x.2 x.2.tail (x.1 :: acc)
                  else .err "bad tids"
      | none => .err "bad tids"

def taskLoop (fixed nl : Bool) : Nat → Info → Bytes → PR (Info × Bytes)
  | 0, i, s => .ok (i, s)
  | n + 1, i, s => do
    let (l, r) ← gLine nl s
    if !hasPrefix (b "taskinfo:") l then .err "no taskinfo:" else
    let t := l.drop 9
    if hasPrefix (b "nr_tid=") t then
      taskLoop fixed nl n { i with nrTid := (strtol (t.drop 7)).1 } r
    else if hasPrefix (b "tids=") t then
      if i.nrTid < 0 then .err "xcalloc" else
      let ts := t.drop 5
      let tids ← tidsLoop fixed i.nrTid.toNat (ts.length + 2) ts ts []
      if (tids.length : Int) != i.nrTid then .err "ASSERT(nr_tid == info->nr_tid)" else
      taskLoop fixed nl n { i with tids := some tids } r
    else .err "bad taskinfo"

def readTaskinfo (fixed nl : Bool) (i : Info) (s : Bytes) : PR (Info × Bytes) := do
  let (l, r) ← gLine nl s
  if !hasPrefix (b "taskinfo:") l then .err "no taskinfo:" else
  let n ← scanLines 2 (l.drop 9)
  taskLoop fixed nl n i r

def argSpecKeys : List String := ["argspec:", "retspec:", "argauto:", "retauto:", "enumauto:"]

def argLoop (fixed nl : Bool) : Nat → Info → Bytes → PR (Info × Bytes)
  | 0, i, s => .ok (i, s)
  | n + 1, i, s => do
    let (l, r) ← gLine nl s
    match argSpecKeys.find? (fun k => hasPrefix (b k) l) with
    | some k =>
      let v ← copyInfoStr fixed (l.drop (b k).length)
      argLoop fixed nl n (i.set k v) r
    | none =>
      if hasPrefix (b "auto-args:1") l then argLoop fixed nl n { i with autoArgs := true } r
      else .err "bad argspec"

def readArgSpec (fixed nl : Bool) (i : Info) (s : Bytes) : PR (Info × Bytes) := do
  let (l, r) ← gLine nl s
  if !hasPrefix (b "argspec:") l then .err "no argspec:" else
  let t := l.drop 8
  if !hasPrefix (b "lines") t then
    let v ← copyInfoStr fixed t
    pure (i.set "argspec:" v, r)
  else
    let n ← scanLines 6 t
    argLoop fixed nl n i r

def readPrefixOnly (nl : Bool) (key : String) (i : Info) (s : Bytes) : PR (Info × Bytes) := do
  let (l, r) ← bufLine nl s
  if !hasPrefix (b key) l then .err ("no " ++ key) else pure (i, r)

def readExitStatus (nl : Bool) (i : Info) (s : Bytes) : PR (Info × Bytes) := do
  let (l, r) ← bufLine nl s
  if !hasPrefix (b "exit_status:") l then .err "no exit_status:" else
  match runFmt [.dec] (l.drop 12) [] with
  | .ok ⟨[.num n], _⟩ => pure ({ i with exitStatus := n }, r)
  | _ => pure (i, r)

def readRecordDate (fixed nl : Bool) (i : Info) (s : Bytes) : PR (Info × Bytes) := do
  let (i1, r1) ← readKV fixed nl "record_date:" i s
  readKV fixed nl "elapsed_time:" i1 r1

def readPatternType (nl : Bool) (i : Info) (s : Bytes) : PR (Info × Bytes) := do
  let (l, r) ← bufLine nl s
  if !hasPrefix (b "pattern_type:") l then .err "no pattern_type:" else
  let v := l.drop 13
  -- `buf[13 + len - 1]` with len = 0 is the ':' of the key: in bounds
  pure ({ i with pattType := if v.getLast? == some NL then v.dropLast else v }, r)

/-- the handler of info bit `bit` (EXE_BUILD_ID is not modelled) -/
def handler (fixed nl : Bool) (bit : Nat) (i : Info) (s : Bytes) : PR (Info × Bytes) :=
  match bit with
  | 0 => readKV fixed nl "exename:" i s
  | 1 => .err "build-id reader is not modelled"
  | 2 => readExitStatus nl i s
  | 3 => readKV fixed nl "cmdline:" i s
  | 4 => readSection fixed nl "cpuinfo:" 2 ["desc="] i s
  | 5 => readKV fixed nl "meminfo:" i s
  | 6 => readSection fixed nl "osinfo:" 3 ["kernel=", "hostname=", "distro="] i s
  | 7 => readTaskinfo fixed nl i s
  | 8 => readSection fixed nl "usageinfo:" 6 [] i s
  | 9 => readPrefixOnly nl "loadinfo:" i s
  | 10 => readArgSpec fixed nl i s
  | 11 => readRecordDate fixed nl i s
  | 12 => readPatternType nl i s
  | 13 => readKV fixed nl "uftrace_version:" i s
  | 14 => readKV fixed nl "utc_offset:" i s
  | _ => .ok (i, s)

/-- `read_uftrace_info`: the handlers of the bits set in `info_mask`, in bit order; an error is
    reported with the failing bit ("error during read uftrace info (%x)") -/
def readHandlers (fixed nl : Bool) (mask : Nat) : List Nat → Info → Bytes → PR Info
  | [], i, _ => .ok i
  | bit :: rest, i, s =>
    if (mask / 2 ^ bit) % 2 = 0 then readHandlers fixed nl mask rest i s else
    match handler fixed nl bit i s with
    | .ok (i1, s1) => readHandlers fixed nl mask rest i1 s1
    | .err _ => .err ("info bit " ++ toString bit)
    | .oob t => .oob t

/-- `open_info_file` on the bytes of `info` -/
def parseInfo (fixed nl : Bool) (s : Bytes) : PR (Hdr × Info) :=
  match parseHdr s with
  | .ok (h, r) =>
    match readHandlers fixed nl h.infoMask (List.range 15) {} r with
    | .ok i => .ok (h, i)
    | .err e => .err e
    | .oob t => .oob t
  | .err e => .err e
  | .oob t => .oob t

/-- the `info` file cut at its last whole record: the 40-byte binary header, then whole lines
    (a file shorter than the header has no whole record: it is left as it is, `parseHdr` rejects it) -/
def infoWhole (s : Bytes) : Bytes :=
  if s.length < 40 then s else s.take 40 ++ wholeLines (s.drop 40)

end Uft.InfoFile
