import Uft.Base
/-
C10 — address → symbol resolution (utils/symbol.c).

Model of
  * `addrfind()`                       (symbol.c:67)   the range comparator
  * libc `bsearch()`                   (glibc stdlib/bsearch.h: l=0,u=n; idx=(l+u)/2; <0 → u=idx; >0 → l=idx+1)
  * `is_symbol_end()` / `find_sym()`   (symbol.c:211, :1541)
  * `find_map()` / `find_symtabs()`    (symbol.c:1466, :1496) incl. the kernel-address branch and
                                        `addr -= map->start`
  * `guess_kernel_base()`              (symbol.c:1643)
  * `read_session_map()`'s merging of consecutive lines with the same path (session.c:66)

Addresses are `uint64_t` in C: every arithmetic result is reduced mod 2^64 where the
C code can wrap (`sym->addr + sym->size`).  Names are `List Char` (no NUL inside).
Core-only: linked into `uvmodel`.
-/
namespace Uft.Symtab

def U64 : Nat := 18446744073709551616
def U32 : Nat := 4294967296

/-- `struct uftrace_symbol` -/
structure Sym where
  addr : Nat
  size : Nat
  type : Char
  name : List Char
deriving DecidableEq, Repr, Inhabited

/-- `sym->addr + sym->size` evaluated in `uint64_t`. -/
def Sym.stop (s : Sym) : Nat := (s.addr + s.size) % U64

/-- The test in `addrfind`: `sym->addr <= addr && addr < sym->addr + sym->size`. -/
def Sym.contains (s : Sym) (a : Nat) : Prop := s.addr ≤ a ∧ a < s.stop

instance (s : Sym) (a : Nat) : Decidable (s.contains a) := by unfold Sym.contains; infer_instance

/-- `addrfind(&addr, sym)` -/
def addrfind (a : Nat) (s : Sym) : Int :=
  if s.addr ≤ a ∧ a < s.stop then 0
  else if s.addr > a then -1
  else 1

/-- glibc `bsearch`: the midpoint loop; `fuel` bounds the iterations (`u - l ≤ fuel`). -/
def bsearchLoop {α : Type} (cmp : α → Int) (t : List α) : Nat → Nat → Nat → Option α
  | 0, _, _ => none
  | fuel + 1, l, u =>
    if l < u then
      let idx := (l + u) / 2
      match t[idx]? with
      | none => none
      | some p =>
        let c := cmp p
        if c < 0 then bsearchLoop cmp t fuel l idx
        else if c > 0 then bsearchLoop cmp t fuel (idx + 1) u
        else some p
    else none

def bsearch {α : Type} (cmp : α → Int) (t : List α) : Option α :=
  bsearchLoop cmp t t.length 0 t.length

def symEndNames : List (List Char) :=
  [['_','_','s','y','m','_','e','n','d'],
   ['_','_','d','y','n','s','y','m','_','e','n','d'],
   ['_','_','f','u','n','c','_','e','n','d']]

/-- `is_symbol_end()` -/
def isSymbolEnd (n : List Char) : Bool := symEndNames.contains n

/-- the `if (sym != NULL) { if (is_symbol_end(sym->name)) sym = NULL; }` tail -/
def dropSymEnd : Option Sym → Option Sym
  | some s => if isSymbolEnd s.name then none else some s
  | none => none

/-- `find_sym(symtab, addr)` -/
def findSym (t : List Sym) (a : Nat) : Option Sym :=
  dropSymEnd (bsearch (addrfind a) t)

/-! ### the table invariant under which the binary search is correct -/

/-- Relation between an earlier and a later entry of a well-formed table: ordered by
    start address, and either disjoint or covering the same range. -/
def Compat (x y : Sym) : Prop :=
  x.addr ≤ y.addr ∧ (x.stop ≤ y.addr ∨ (x.addr = y.addr ∧ x.stop = y.stop))

instance (x y : Sym) : Decidable (Compat x y) := by unfold Compat; infer_instance

/-- Sorted by address; any two entries are disjoint or have the same range. -/
def WellFormed (t : List Sym) : Prop := t.Pairwise Compat

instance (t : List Sym) : Decidable (WellFormed t) := by unfold WellFormed; infer_instance

/-- `struct uftrace_mmap` with its module's symbol table (relative addresses). -/
structure Map where
  start : Nat
  stop : Nat
  syms : List Sym
deriving Repr

/-- `struct uftrace_sym_info` as far as lookup is concerned. -/
structure SymInfo where
  kernelBase : Nat
  maps : List Map
  ktab : List Sym := []
deriving Repr

/-- `find_map()` for a non-kernel address: first map with `start <= addr < end`. -/
def findMap (si : SymInfo) (addr : Nat) : Option Map :=
  si.maps.find? (fun m => decide (m.start ≤ addr ∧ addr < m.stop))

/-- `find_symtabs(sinfo, addr)` -/
def findSymtabs (si : SymInfo) (addr : Nat) : Option Sym :=
  if addr ≥ si.kernelBase then
    -- MAP_KERNEL: bsearch over the kernel table with `addr | kernel_base`, returned as is
    bsearch (addrfind (addr ||| si.kernelBase)) si.ktab
  else
    match findMap si addr with
    | none => none
    | some m => dropSymEnd (bsearch (addrfind (addr - m.start)) m.syms)

/-- `guess_kernel_base()` applied to the start address of the `[stack]` line. -/
def guessKernelBase (addr : Nat) : Nat :=
  if addr < 0x40000000 then 0x40000000
  else if addr < 0x80000000 then 0x80000000
  else if addr < 0xB0000000 then 0xB0000000
  else if addr < 0xC0000000 then 0xC0000000
  else if addr < 0x8000000000 then 0xFFFFFF8000000000
  else if addr < 0x40000000000 then 0xFFFFFC0000000000
  else if addr < 0x800000000000 then 0xFFFF800000000000
  else 0xFFFF000000000000

/-- One line of a `sid-XXX.map` file that `read_session_map` keeps (non-anonymous,
    not starting with '['): start, end, path. -/
structure MapLine where
  start : Nat
  stop : Nat
  path : List Char
deriving Repr, DecidableEq

/-- `read_session_map`: a line whose path equals the previous kept line's path only
    extends that map's `end`; otherwise a new map is appended.  Returns (path, start, end). -/
def mergeMapLines : List MapLine → List MapLine → List MapLine
  | acc, [] => acc.reverse
  | [], l :: r => mergeMapLines [l] r
  | last :: acc, l :: r =>
    if last.path = l.path then mergeMapLines ({ last with stop := l.stop } :: acc) r
    else mergeMapLines (l :: last :: acc) r

end Uft.Symtab
