/-
C18 — model of the script drivers.

Part 1 (analysis time, `uftrace script`):
  cmds/script.c   : command_script (main loop), run_script_for_rstack
  utils/script.c  : script_match_filter (empty list = every function)
  utils/fstack.c  : fstack_account_time, fstack_update_stack_count (what read_rstack
                    does to the task when it hands out a record), fstack_entry,
                    fstack_exit, fstack_update, get_task_ustack (the -t look-ahead),
                    read_user_stack (merge of the tasks)
  cmds/replay.c   : print_graph_rstack with --no-merge (what replay shows)
for user ENTRY/EXIT records with -F / -N / -D / -t / --no-args and a UFTRACE_FUNCS list.

Per task (struct uftrace_task_reader): `fstack_set`, `stack_count`, `display_depth`,
`display_depth_set`, `filter.{in_count,out_count,depth}`, `args` (the payload of the
last record that had one: `task->args` is only replaced when `rstack->more`), and
`func_stack[]` with `addr`, `total_time` (start time while the call is open, duration
after its EXIT), `valid`, `flags` (NORECORD / FILTERED / NOTRACE) and `orig_depth`.

The exec / setjmp / longjmp / fork fix-ups of fstack_entry and fstack_update (by symbol name) are in
the `…X` functions of the section "fix-up records": `scriptRunX` / `replayShownX` are the two loops
with them; without fix-up symbols they are `scriptRun` / `replayShown`.
Not modelled: `func_stack` overflow beyond `hdr.max_stack`, LOST/EVENT records, location/size/caller filters and depth/time/trace_on/
trace_off/hide triggers, kernel and perf records.  Time differences are taken on uint64_t
(`sub64`).  Function names are function addresses (one
symbol per address), a UFTRACE_FUNCS entry is the address of the function it names;
argument payloads are opaque tokens.

Part 2 (record time, `uftrace record -S`): libmcount/mcount.c script_hook_entry /
script_hook_exit as called from mcount_entry_filter_record / mcount_exit_filter_record,
as a log on top of the hook model `Uft.Mcount` (which is not changed).

Core-only imports (linked into uvmodel).
-/
import Uft.Model.CallTree
import Uft.Gen.ScriptArgs
namespace Uft.Script

/-! ## Part 1: `uftrace script` -/

/-- one trace record; `payload = 0` means `more = 0`, otherwise `more = 1` and the
    number identifies the argument / return value bytes that follow the record -/
structure Rec where
  time : Nat
  exit : Bool
  depth : Nat
  addr : Nat
  payload : Nat := 0
deriving DecidableEq, Repr, Inhabited

def Rec.more (r : Rec) : Bool := r.payload != 0

/-- what `uftrace_match_filter(addr, &sess->fixups, tr)` finds for a function (`fixup_syms[]`, matched
    by symbol name): `exec*`, `*setjmp*`, `*longjmp*`, `fork` / `vfork` / `daemon` -/
inductive FixKind where
  | none | exec | setjmp | longjmp | fork
deriving DecidableEq, Repr, Inhabited

structure Cfg where
  /-- `uftrace_match_filter(addr, &sess->filters, &tr)`: `some true` = -F, `some false` = -N -/
  filt : Nat → Option Bool := fun _ => none
  /-- `fstack_get_filter_mode() == FILTER_MODE_IN` (a -F filter exists) -/
  modeIn : Bool := false
  /-- `handle->depth` (-D, default OPT_DEPTH_DEFAULT) -/
  depth : Nat := 1024
  /-- the script's filter list (UFTRACE_FUNCS); `[]` = no list -/
  funcs : List Nat := []
  /-- `opts->show_args` -/
  showArgs : Bool := true
  /-- TRIGGER_FL_ARGUMENT: the function has an argspec in the `info` file -/
  argTrig : Nat → Bool := fun _ => false
  /-- initial `display_depth_set` (false with a time range) -/
  dispSet0 : Bool := true
  /-- false: cmds/script.c before the repair of finding F-C18-ARGS (ENTRY arguments are
      taken when the *trigger* has an argspec instead of when the record has a payload) -/
  argsFixed : Bool := true
  /-- false: cmds/replay.c before the repair of finding F-C18-EXIT-ADDR (the `addr` field of an EXIT line
      is the address left in the frame's slot by the last ENTRY at that stack index — 0 for the first
      record of a forked child, another function after a longjmp — instead of the record's) -/
  exitAddrFixed : Bool := true
  /-- the fix-up kind of a function (by its symbol name) -/
  fix : Nat → FixKind := fun _ => .none
  /-- `task->t->ppid` as a task index: the task this one was forked from -/
  parent : Nat → Option Nat := fun _ => none

structure Frame where
  addr : Nat := 0
  total : Nat := 0
  valid : Bool := false
  norecord : Bool := false
  filtered : Bool := false
  notrace : Bool := false
  origDepth : Nat := 0
deriving DecidableEq, Repr, Inhabited

structure TaskSt where
  started : Bool
  stackCount : Nat
  disp : Nat
  dispSet : Bool
  inCount : Nat
  outCount : Nat
  fdepth : Nat
  args : Nat
  slots : Nat → Frame

/-- setup_task_handle -/
def TaskSt.fresh (cfg : Cfg) : TaskSt :=
  { started := false, stackCount := 0, disp := 0, dispSet := cfg.dispSet0, inCount := 0, outCount := 0,
    fdepth := cfg.depth, args := 0, slots := fun _ => { origDepth := cfg.depth } }

/-- (`noinline`: the compiled model must evaluate `f` once, when the slot is written, not at
    every later read of the array) -/
@[noinline] def setSlot (s : Nat → Frame) (i : Nat) (f : Frame) : Nat → Frame :=
  fun j => if j = i then f else s j

/-! ### read_rstack: __fstack_consume = args ; fstack_account_time ; fstack_update_stack_count -/

/-- `stack_count` taken from the first record (fstack.c:1890-1892) -/
def firstCount (r : Rec) : Nat := if r.exit then r.depth + 1 else r.depth

/-- `stack_count` after the `if (!task->fstack_set)` block -/
def startCount (s : TaskSt) (r : Rec) : Nat := if s.started then s.stackCount else firstCount r

/-- slots after the `if (!task->fstack_set)` block: the inherited frames start now -/
def startSlots (s : TaskSt) (r : Rec) : Nat → Frame :=
  fun i =>
    if s.started then s.slots i
    else if i < firstCount r then { (s.slots i) with total := r.time, valid := true }
    else s.slots i

/-- `a - b` on uint64_t (for time stamps below 2^64): an EXIT that is older than its ENTRY gives a
    duration near 2^64, as in the code (fstack.c `delta = rstack->time - fstack->total_time`) -/
def sub64 (a b : Nat) : Nat := if b ≤ a then a - b else a + 18446744073709551616 - b

/-- the ENTRY / EXIT branches of fstack_account_time; `c` and `sl` are the count and
    slots after the first-record block -/
def accountSlots (c : Nat) (sl : Nat → Frame) (r : Rec) : Nat → Frame :=
  if r.exit then
    if c = 0 then sl           -- idx = -1: fstack_get() == NULL
    else
      setSlot sl (c - 1)
        { (sl (c - 1)) with
          total := if (sl (c - 1)).valid then sub64 r.time (sl (c - 1)).total else 0
          valid := false }
  else setSlot sl c { (sl c) with addr := r.addr, total := r.time, valid := true }

/-- fstack_update_stack_count -/
def newCount (c : Nat) (r : Rec) : Nat := if r.exit then c - 1 else c + 1

/-- `lookupL (map f (range n)) f` is `f` (`lookupL_range`); it is written this way so that the
    compiled model keeps the first `n` slots as evaluated data (the list is an argument, so it
    is computed when the state is built): a function-valued field alone is a chain of
    suspended updates that every read re-evaluates — exponential in the nesting depth -/
@[noinline] def lookupL (l : List Frame) (f : Nat → Frame) : Nat → Frame :=
  fun j => match l[j]? with
    | some x => x
    | none => f j

theorem lookupL_range (n : Nat) (f : Nat → Frame) : lookupL ((List.range n).map f) f = f := by
  funext j
  simp only [lookupL]
  by_cases h : j < n
  · simp [h]
  · simp [h]

def consume (cfg : Cfg) (s : TaskSt) (r : Rec) : TaskSt :=
  { started := true
    stackCount := newCount (startCount s r) r
    disp := s.disp
    dispSet := s.dispSet
    inCount := s.inCount
    outCount := s.outCount
    fdepth := if s.started then s.fdepth else cfg.depth
    args := if r.more then r.payload else s.args
    slots := lookupL ((List.range (newCount (startCount s r) r + 2)).map
                        (accountSlots (startCount s r) (startSlots s r) r))
                      (accountSlots (startCount s r) (startSlots s r) r) }

/-! ### fstack_entry (on the task after `consume`; the frame is `slots (stack_count - 1)`) -/

/-- first test: inside a -N region -/
def eOut (s : TaskSt) : Bool := decide (s.outCount > 0)
/-- the function itself is a -N function -/
def eNotrace (cfg : Cfg) (s : TaskSt) (r : Rec) : Bool := !eOut s && cfg.filt r.addr == some false
/-- the function itself is a -F function -/
def eIn (cfg : Cfg) (s : TaskSt) (r : Rec) : Bool := !eOut s && cfg.filt r.addr == some true
/-- opt-in mode and no enclosing -F function -/
def eMode (cfg : Cfg) (s : TaskSt) (r : Rec) : Bool :=
  !eOut s && cfg.filt r.addr == none && cfg.modeIn && s.inCount == 0
/-- `task->filter.depth` when the depth test is reached ("restore default filter depth") -/
def fdepth1 (cfg : Cfg) (s : TaskSt) (r : Rec) : Nat := if eIn cfg s r then cfg.depth else s.fdepth
/-- fstack_entry returns 0 -/
def accepted (cfg : Cfg) (s : TaskSt) (r : Rec) : Bool :=
  !eOut s && !eNotrace cfg s r && !eMode cfg s r && fdepth1 cfg s r != 0

def fstackEntry (cfg : Cfg) (s : TaskSt) (r : Rec) : TaskSt :=
  { started := s.started
    stackCount := s.stackCount
    disp := if accepted cfg s r && !s.dispSet then s.stackCount - 1 else s.disp
    dispSet := s.dispSet || accepted cfg s r
    inCount := if eIn cfg s r then s.inCount + 1 else s.inCount
    outCount := if eNotrace cfg s r then s.outCount + 1 else s.outCount
    fdepth := if accepted cfg s r then fdepth1 cfg s r - 1 else fdepth1 cfg s r
    args := s.args
    slots := setSlot s.slots (s.stackCount - 1)
      { (s.slots (s.stackCount - 1)) with
        origDepth := s.fdepth
        norecord := !accepted cfg s r
        filtered := eIn cfg s r
        notrace := eNotrace cfg s r } }

/-! ### fstack_exit (on the task after `consume`; the frame is `slots stack_count`) -/

def fstackExit (s : TaskSt) : TaskSt :=
  { started := s.started
    stackCount := s.stackCount
    disp := s.disp
    dispSet := s.dispSet
    inCount := if (s.slots s.stackCount).filtered then s.inCount - 1 else s.inCount
    outCount := if !(s.slots s.stackCount).filtered && (s.slots s.stackCount).notrace
                then s.outCount - 1 else s.outCount
    fdepth := (s.slots s.stackCount).origDepth
    args := s.args
    slots := setSlot s.slots s.stackCount
      { (s.slots s.stackCount) with norecord := false, filtered := false, notrace := false } }

/-! ### fstack_update -/

/-- fstack_update(UFTRACE_ENTRY, …) without the exec/longjmp fixups -/
def updateEntry (s : TaskSt) : TaskSt := { s with disp := s.disp + 1 }

/-- `display_depth` after fstack_update(UFTRACE_EXIT, …) -/
def exitDisp (s : TaskSt) : Nat := (if s.dispSet then s.disp else s.stackCount + 1) - 1

def updateExit (s : TaskSt) : TaskSt := { s with disp := exitDisp s, dispSet := true }

/-! ### the callbacks -/

/-- struct script_context as the script sees it (`dur` only at exit; `args` = 0: no
    `args` / `retval` key) -/
structure Ctx where
  tid : Nat
  depth : Nat
  time : Nat
  dur : Nat
  addr : Nat
  args : Nat
deriving DecidableEq, Repr, Inhabited

inductive Cb where
  | begin
  | entry (c : Ctx)
  | exit (c : Ctx)
  | end_
deriving DecidableEq, Repr, Inhabited

/-- script_match_filter -/
def matchFuncs (cfg : Cfg) (addr : Nat) : Bool := cfg.funcs.isEmpty || cfg.funcs.contains addr

/-- the ENTRY test for passing arguments (cmds/script.c:70) -/
def entryHasArgs (cfg : Cfg) (r : Rec) : Bool :=
  cfg.showArgs && (if cfg.argsFixed then r.more else cfg.argTrig r.addr)

/-- the task after run_script_for_rstack handled an ENTRY (`s` = task after `consume`) -/
def scriptEntrySt (cfg : Cfg) (s : TaskSt) (r : Rec) : TaskSt :=
  if accepted cfg s r then updateEntry (fstackEntry cfg s r) else fstackEntry cfg s r

def scriptEntryCb (cfg : Cfg) (tid : Nat) (s : TaskSt) (r : Rec) : List Cb :=
  if accepted cfg s r && matchFuncs cfg r.addr then
    [.entry { tid := tid, depth := (fstackEntry cfg s r).disp, time := r.time, dur := 0, addr := r.addr,
              args := if entryHasArgs cfg r then s.args else 0 }]
  else []

/-- … an EXIT: the frame is looked at before fstack_exit clears its flags -/
def scriptExitSt (s : TaskSt) : TaskSt :=
  if (s.slots s.stackCount).norecord then fstackExit s else fstackExit (updateExit s)

def scriptExitCb (cfg : Cfg) (tid : Nat) (s : TaskSt) (r : Rec) : List Cb :=
  if !(s.slots s.stackCount).norecord && matchFuncs cfg r.addr then
    [.exit { tid := tid, depth := exitDisp s, time := r.time, dur := (s.slots s.stackCount).total,
             addr := r.addr, args := if r.more && cfg.showArgs then s.args else 0 }]
  else []

/-- read_rstack + run_script_for_rstack for one record of task `tid` -/
def scriptTask (cfg : Cfg) (tid : Nat) (s : TaskSt) (r : Rec) : TaskSt × List Cb :=
  if r.exit then (scriptExitSt (consume cfg s r), scriptExitCb cfg tid (consume cfg s r) r)
  else (scriptEntrySt cfg (consume cfg s r) r, scriptEntryCb cfg tid (consume cfg s r) r)

/-! ### what replay shows (--no-merge; default output folds `f() {` + `}` into `f();`) -/

structure Shown where
  exit : Bool
  tid : Nat
  depth : Nat
  time : Nat
  dur : Nat
  addr : Nat
  args : Nat
deriving DecidableEq, Repr, Inhabited

/-- print_graph_rstack, ENTRY: fstack_entry, print at `display_depth`, fstack_update -/
def replayEntrySt (cfg : Cfg) (s : TaskSt) (r : Rec) : TaskSt :=
  if accepted cfg s r then updateEntry (fstackEntry cfg s r) else fstackEntry cfg s r

def replayEntryLine (cfg : Cfg) (tid : Nat) (s : TaskSt) (r : Rec) : List Shown :=
  if accepted cfg s r then
    [{ exit := false, tid := tid, depth := (fstackEntry cfg s r).disp, time := r.time, dur := 0, addr := r.addr,
       args := if r.more && cfg.showArgs then s.args else 0 }]
  else []

/-- print_graph_rstack, EXIT -/
def replayExitSt (s : TaskSt) : TaskSt :=
  if (s.slots s.stackCount).norecord then fstackExit s else fstackExit (updateExit s)

def replayExitLine (cfg : Cfg) (tid : Nat) (s : TaskSt) (r : Rec) : List Shown :=
  if !(s.slots s.stackCount).norecord then
    [{ exit := true, tid := tid, depth := exitDisp s, time := r.time, dur := (s.slots s.stackCount).total,
       addr := if cfg.exitAddrFixed then r.addr else (s.slots s.stackCount).addr,
       args := if r.more && cfg.showArgs then s.args else 0 }]
  else []

def replayTask (cfg : Cfg) (tid : Nat) (s : TaskSt) (r : Rec) : TaskSt × List Shown :=
  if r.exit then (replayExitSt (consume cfg s r), replayExitLine cfg tid (consume cfg s r) r)
  else (replayEntrySt cfg (consume cfg s r) r, replayEntryLine cfg tid (consume cfg s r) r)

/-! ### the main loops over the merged stream -/

abbrev G := Nat → TaskSt

@[noinline] def upd (g : G) (i : Nat) (s : TaskSt) : G := fun j => if j = i then s else g j

def g0 (cfg : Cfg) : G := fun _ => TaskSt.fresh cfg

/-- `while (read_rstack(&handle, &task) == 0) step(task)` with the output collected -/
def runWith {α : Type} (step : Nat → TaskSt → Rec → TaskSt × List α) : G → List (Nat × Rec) → G × List α
  | g, [] => (g, [])
  | g, (i, r) :: rest =>
    let out := runWith step (upd g i (step i (g i) r).1) rest
    (out.1, (step i (g i) r).2 ++ out.2)

/-- command_script: script_init (uftrace_begin), the loop, script_uftrace_end -/
def scriptRun (cfg : Cfg) (s : List (Nat × Rec)) : G × List Cb :=
  ((runWith (scriptTask cfg) (g0 cfg) s).1, .begin :: (runWith (scriptTask cfg) (g0 cfg) s).2 ++ [.end_])

/-- command_replay --no-merge -/
def replayShown (cfg : Cfg) (s : List (Nat × Rec)) : G × List Shown :=
  runWith (replayTask cfg) (g0 cfg) s


/-! ### fix-up records: exec, setjmp / longjmp, fork (utils/fstack.c fstack_entry, fstack_update,
    fstack_account_time)

fstack_entry matches the function against `sess->fixups` before it looks at the filters (but after the
`out_count > 0` test): an `exec*` call flags its frame FSTACK_FL_EXEC, a `*longjmp*` call FSTACK_FL_LONGJMP,
a `*setjmp*` call stores `display_depth + 1` and `stack_count` into the two file-level statics
`setjmp_depth` / `setjmp_count` (one pair for all tasks: the most recently seen setjmp), a `fork` /
`vfork` / `daemon` call stores `display_depth + 1` into `task->fork_display_depth` and `stack_count` into
`task->fork_stack_count`.  The main loops
read the display depth (what is printed / passed to the script) *before* fstack_update(ENTRY), which
for a flagged frame does not increment the display depth but resets it — and `stack_count` — to 0
(exec) or to the setjmp values (longjmp).  A task whose parent (`ppid`) has a `fork_display_depth`
starts at that display depth (fstack_account_time, first record). -/

/-- the state of the main loops with the fix-ups: the tasks, `fork_display_depth` (0: none) and
    `fork_stack_count` of every task, and the two statics -/
structure XSt where
  g : G
  fork : Nat → Nat
  forkCount : Nat → Nat
  sjDepth : Nat
  sjCount : Nat

def x0 (cfg : Cfg) : XSt := { g := g0 cfg, fork := fun _ => 0, forkCount := fun _ => 0, sjDepth := 0, sjCount := 0 }

@[noinline] def updN (f : Nat → Nat) (i v : Nat) : Nat → Nat := fun j => if j = i then v else f j

/-- fstack_account_time, `if (!task->fork_handled)`: a task inherits its parent's fork display depth at
    its first record `r`, moved by the distance between its own stack count (taken from that record) and the
    parent's at the fork() it replayed last (`display_depth += stack_count - parent->fork_stack_count`,
    not below 0) -/
def inheritFork (cfg : Cfg) (x : XSt) (i : Nat) (s : TaskSt) (r : Rec) : TaskSt :=
  if s.started then s else
  match cfg.parent i with
  | some p =>
    if x.fork p != 0 then { s with disp := x.fork p + firstCount r - x.forkCount p, dispSet := true } else s
  | none => s

/-- read_rstack for task `i` with the fork inheritance -/
def consumeX (cfg : Cfg) (x : XSt) (i : Nat) (r : Rec) : TaskSt := consume cfg (inheritFork cfg x i (x.g i) r) r

/-- the fix-up found by fstack_entry (`s` = task after `consumeX`): none inside a -N region -/
def fixKind (cfg : Cfg) (s : TaskSt) (r : Rec) : FixKind := if eOut s then .none else cfg.fix r.addr

/-- the statics and `fork_display_depth` after fstack_entry: `display_depth` is the one before the
    `display_depth_set` initialisation at the end of fstack_entry -/
def fixGlobals (cfg : Cfg) (x : XSt) (i : Nat) (s : TaskSt) (r : Rec) : XSt :=
  match fixKind cfg s r with
  | .setjmp => { x with sjDepth := s.disp + 1, sjCount := s.stackCount }
  | .fork => { x with fork := updN x.fork i (s.disp + 1), forkCount := updN x.forkCount i s.stackCount }
  | _ => x

/-- fstack_update(UFTRACE_ENTRY, …) with the fix-ups -/
def updateEntryX (k : FixKind) (sjDepth sjCount : Nat) (s : TaskSt) : TaskSt :=
  match k with
  | .exec => { s with disp := 0, stackCount := 0 }
  | .longjmp => { s with disp := sjDepth, stackCount := sjCount }
  | _ => { s with disp := s.disp + 1 }

/-- the task after an ENTRY went through fstack_entry and — when accepted — fstack_update; the same
    statements in run_script_for_rstack and in print_graph_rstack -/
def entryStX (cfg : Cfg) (x : XSt) (i : Nat) (s : TaskSt) (r : Rec) : TaskSt :=
  if accepted cfg s r then
    updateEntryX (fixKind cfg s r) (fixGlobals cfg x i s r).sjDepth (fixGlobals cfg x i s r).sjCount (fstackEntry cfg s r)
  else fstackEntry cfg s r

def putTask (x : XSt) (i : Nat) (s : TaskSt) : XSt := { x with g := upd x.g i s }

/-- read_rstack + run_script_for_rstack for one record of task `i` -/
def scriptTaskX (cfg : Cfg) (i : Nat) (x : XSt) (r : Rec) : XSt × List Cb :=
  if r.exit then (putTask x i (scriptExitSt (consumeX cfg x i r)), scriptExitCb cfg i (consumeX cfg x i r) r)
  else (putTask (fixGlobals cfg x i (consumeX cfg x i r) r) i (entryStX cfg x i (consumeX cfg x i r) r),
        scriptEntryCb cfg i (consumeX cfg x i r) r)

/-- read_rstack + print_graph_rstack (--no-merge) for one record of task `i` -/
def replayTaskX (cfg : Cfg) (i : Nat) (x : XSt) (r : Rec) : XSt × List Shown :=
  if r.exit then (putTask x i (replayExitSt (consumeX cfg x i r)), replayExitLine cfg i (consumeX cfg x i r) r)
  else (putTask (fixGlobals cfg x i (consumeX cfg x i r) r) i (entryStX cfg x i (consumeX cfg x i r) r),
        replayEntryLine cfg i (consumeX cfg x i r) r)

def runX {α : Type} (step : Nat → XSt → Rec → XSt × List α) : XSt → List (Nat × Rec) → XSt × List α
  | x, [] => (x, [])
  | x, (i, r) :: rest =>
    let out := runX step (step i x r).1 rest
    (out.1, (step i x r).2 ++ out.2)

/-- command_script on data with fix-up records -/
def scriptRunX (cfg : Cfg) (s : List (Nat × Rec)) : XSt × List Cb :=
  ((runX (scriptTaskX cfg) (x0 cfg) s).1, .begin :: (runX (scriptTaskX cfg) (x0 cfg) s).2 ++ [.end_])

/-- command_replay --no-merge on data with fix-up records -/
def replayShownX (cfg : Cfg) (s : List (Nat × Rec)) : XSt × List Shown :=
  runX (replayTaskX cfg) (x0 cfg) s

/-- a shown line as the callback it corresponds to -/
def Shown.toCb (l : Shown) : Cb :=
  if l.exit then .exit { tid := l.tid, depth := l.depth, time := l.time, dur := l.dur, addr := l.addr, args := l.args }
  else .entry { tid := l.tid, depth := l.depth, time := l.time, dur := 0, addr := l.addr, args := l.args }

/-- the address a callback is about -/
def Cb.addr? : Cb → Option Nat
  | .entry c => some c.addr
  | .exit c => some c.addr
  | _ => none

def Cb.tid? : Cb → Option Nat
  | .entry c => some c.tid
  | .exit c => some c.tid
  | _ => none

/-! ### the reader in front of the loops (used by the correspondence harness only) -/

/-- get_task_ustack with `-t thr`: ENTRY records wait in the look-ahead list (`pend`,
    newest first) until an EXIT is accepted; an EXIT whose call took less than `thr`
    is dropped together with its ENTRY (the newest one in the list); an EXIT that finds
    no ENTRY in the list is delivered.  At end of file the list is delivered as it is. -/
def timeFilter (thr : Nat) : List Rec → List Rec → List Rec
  | [], pend => pend.reverse
  | r :: rs, pend =>
    if !r.exit then timeFilter thr rs (r :: pend)
    else
      match pend with
      | [] => r :: timeFilter thr rs []
      | e :: p =>
        if sub64 r.time e.time < thr then timeFilter thr rs p
        else pend.reverse ++ r :: timeFilter thr rs []

/-- read_user_stack: smallest head time, strict `<`, so the lowest task index wins ties -/
def pickLoop : List (List Rec) → Nat → Option (Nat × Nat) → Option (Nat × Nat)
  | [], _, best => best
  | [] :: ts, i, best => pickLoop ts (i + 1) best
  | (r :: _) :: ts, i, none => pickLoop ts (i + 1) (some (i, r.time))
  | (r :: _) :: ts, i, some (bi, bt) =>
    if r.time < bt then pickLoop ts (i + 1) (some (i, r.time))
    else pickLoop ts (i + 1) (some (bi, bt))

def mergeFuel : Nat → List (List Rec) → List (Nat × Rec)
  | 0, _ => []
  | n + 1, ts =>
    match pickLoop ts 0 none with
    | none => []
    | some (i, _) =>
      match ts.getD i [] with
      | [] => []
      | r :: rest => (i, r) :: mergeFuel n (ts.set i rest)

def merge (ts : List (List Rec)) : List (Nat × Rec) := mergeFuel ((ts.map List.length).sum) ts

/-- the stream the main loops see: per-task -t look-ahead, then the merge -/
def readAll (thr : Nat) (ts : List (List Rec)) : List (Nat × Rec) :=
  merge (ts.map fun t => timeFilter thr t [])

/-! ### pairing of callbacks (the checker the theorems and the monitor use) -/

/-- an EXIT callback closes the innermost open ENTRY callback of its task: same
    address, same depth, and its duration is the time between the two -/
def closes (o c : Ctx) : Bool :=
  o.tid == c.tid && o.addr == c.addr && o.depth == c.depth && sub64 c.time o.time == c.dur

def pairStep (opens : List Ctx) : Cb → Option (List Ctx)
  | .entry c => some (c :: opens)
  | .exit c =>
    match opens with
    | o :: rest => if closes o c then some rest else none
    | [] => none
  | _ => some opens

def pairRun : List Ctx → List Cb → Option (List Ctx)
  | opens, [] => some opens
  | opens, cb :: rest =>
    match pairStep opens cb with
    | some o => pairRun o rest
    | none => none

/-- the callbacks of one task -/
def ofTask (i : Nat) (cbs : List Cb) : List Cb := cbs.filter fun cb => cb.tid? == some i

/-- a task's record stream is a prefix of a properly nested one that starts at depth 0:
    `stk` holds (addr, entry time) of the open calls, innermost first -/
def wfStep (stk : List (Nat × Nat)) (r : Rec) : Option (List (Nat × Nat)) :=
  if !r.exit then
    if r.depth = stk.length then some ((r.addr, r.time) :: stk) else none
  else
    match stk with
    | (a, _) :: rest => if a = r.addr ∧ r.depth = rest.length then some rest else none
    | [] => none

def wfRun : List (Nat × Nat) → List Rec → Option (List (Nat × Nat))
  | stk, [] => some stk
  | stk, r :: rs =>
    match wfStep stk r with
    | some s => wfRun s rs
    | none => none

/-- the records of task `i` in a merged stream -/
def recsOf (i : Nat) (s : List (Nat × Rec)) : List Rec :=
  (s.filter fun p => p.1 == i).map (·.2)

/-! ## Part 2: record-time hooks -/

namespace Hook
open Uft.Mcount

/-- the fields of struct script_context filled by script_save_context -/
structure HCtx where
  addr : Nat
  depth : Nat
  start : Nat
  dur : Nat
deriving DecidableEq, Repr, Inhabited

inductive HookEv where
  | entry (c : HCtx)
  | exit (c : HCtx)
deriving DecidableEq, Repr, Inhabited

/-- `mcount_enabled` is a global: another thread's trace_on / trace_off trigger may
    have stored a new value since this thread's last hook -/
def setEnabled (b : Option Bool) (s : St) : St :=
  match b with
  | some b => { s with enabled := b }
  | none => s

/-- script_hook_entry runs inside mcount_entry_filter_record: a frame was pushed, it is
    not NORECORD, and the trigger has no `finish` action (that branch returns before the
    hook); the fast build has no script hooks.  `s` is the state before the entry hook. -/
def entryHook (cfg : Mcount.Cfg) (k : Kind) (s : St) (addr now : Nat) : Option HCtx :=
  match (entry cfg k s addr now).1.frames with
  | [] => none
  | f :: _ =>
    if (entry cfg k s addr now).1.frames.length = s.frames.length + 1 && !cfg.fast
       && !(entryFilterCheck cfg s addr).2.2.finish && !f.norecord then
      some { addr := f.addr, depth := f.depth, start := f.start, dur := 0 }
    else none

/-- script_hook_exit at the end of mcount_exit_filter_record: the frame is not NORECORD and
    — before the repair of finding F-C18-EXITHOOK (`fixed = false`) — tracing is enabled
    (`if (!mcount_enabled) return;` comes first).  `s` is the state before the exit hook. -/
def exitHook (fixed : Bool) (cfg : Mcount.Cfg) (s : St) (now : Nat) : Option HCtx :=
  if s.over > 0 then none else
  match s.frames with
  | [] => none
  | f :: _ =>
    if !cfg.fast && !f.norecord && (fixed || s.enabled) then
      some { addr := f.addr, depth := f.depth, start := f.start, dur := now - f.start }
    else none

/-- script_match_filter at record time (`funcs = []`: no list) -/
def hmatch (funcs : List Nat) (c : HCtx) : Bool := funcs.isEmpty || funcs.contains c.addr

def logEntry (funcs : List Nat) : Option HCtx → List HookEv
  | some c => if hmatch funcs c then [.entry c] else []
  | none => []

def logExit (funcs : List Nat) : Option HCtx → List HookEv
  | some c => if hmatch funcs c then [.exit c] else []
  | none => []

mutual
  /-- `Uft.Mcount.runCall` with the script hooks logged; `env t` is what another thread
      stored into `mcount_enabled` just before this thread's hook at time `t` -/
  def runCallH (fixed : Bool) (funcs : List Nat) (cfg : Mcount.Cfg) (k : Kind) (env : Nat → Option Bool) :
      St → Call → St × List HookEv
    | s, .node f t0 t1 kids =>
      let s0 := setEnabled (env t0) s
      let r := entry cfg k s0 f t0
      let p := runCallsH fixed funcs cfg k env r.1 kids
      if r.2 then
        (exit cfg (setEnabled (env t1) p.1) t1,
         logEntry funcs (entryHook cfg k s0 f t0) ++ p.2 ++
           logExit funcs (exitHook fixed cfg (setEnabled (env t1) p.1) t1))
      else (p.1, logEntry funcs (entryHook cfg k s0 f t0) ++ p.2)
  def runCallsH (fixed : Bool) (funcs : List Nat) (cfg : Mcount.Cfg) (k : Kind) (env : Nat → Option Bool) :
      St → Calls → St × List HookEv
    | s, .nil => (s, [])
    | s, .cons c rest =>
      let p := runCallH fixed funcs cfg k env s c
      let q := runCallsH fixed funcs cfg k env p.1 rest
      (q.1, p.2 ++ q.2)
end

/-- an exit hook closes the innermost open entry hook: the same frame -/
def hcloses (o c : HCtx) : Bool :=
  o.addr == c.addr && o.depth == c.depth && o.start == c.start

def hpStep (opens : List HCtx) : HookEv → Option (List HCtx)
  | .entry c => some (c :: opens)
  | .exit c =>
    match opens with
    | o :: rest => if hcloses o c then some rest else none
    | [] => none

def hpRun : List HCtx → List HookEv → Option (List HCtx)
  | opens, [] => some opens
  | opens, e :: rest =>
    match hpStep opens e with
    | some o => hpRun o rest
    | none => none

end Hook

/-! ## Part 2b: how a language binding's per-call hooks enter the interpreter (record time)

utils/script-python.c: `python_uftrace_entry / _exit / _event` take `python_interpreter_lock`
(pthread_mutex_lock) around everything they do with the interpreter.  utils/script-luajit.c has one
`lua_State` for the process and — before the repair of finding F-C18-LUA-NOLOCK — no lock.  At record
time the hooks run on every thread of the traced program. -/
namespace Bind

inductive Mode where
  | lock      -- pthread_mutex_lock: wait for the interpreter
  | trylock   -- take it if it is free, otherwise return without calling the script
  | nolock    -- call into the interpreter state at once
deriving DecidableEq, Repr

/-- what the threads of the traced program do, in real-time order -/
inductive Step where
  | hook (t : Nat) (c : Nat)   -- thread `t` reaches script_uftrace_entry / script_uftrace_exit with callback `c`
  | done (t : Nat)             -- the callback the interpreter runs for thread `t` returns
deriving DecidableEq, Repr

structure BSt where
  running : List (Nat × Nat) := []   -- (thread, callback) executing inside the interpreter state
  waiting : List (Nat × Nat) := []   -- threads blocked in pthread_mutex_lock, in arrival order
  log : List (Nat × Nat) := []       -- what the script has been called with, in order
  issued : List (Nat × Nat) := []    -- every hook that reached the binding, in order
  corrupt : Bool := false            -- two threads were inside the one interpreter state at the same time
deriving DecidableEq, Repr

def enter (s : BSt) (x : Nat × Nat) : BSt := { s with running := s.running ++ [x], log := s.log ++ [x] }

def step (m : Mode) (s : BSt) : Step → BSt
  | .hook t c =>
    let s1 := { s with issued := s.issued ++ [(t, c)] }
    match m with
    | .lock => if s.running.isEmpty then enter s1 (t, c) else { s1 with waiting := s.waiting ++ [(t, c)] }
    | .trylock => if s.running.isEmpty then enter s1 (t, c) else s1
    | .nolock => { enter s1 (t, c) with corrupt := s.corrupt || !s.running.isEmpty }
  | .done t =>
    let r := s.running.filter (fun x => x.1 != t)
    match m with
    | .lock =>
      if r.isEmpty then
        (match s.waiting with
         | w :: ws => { s with running := [w], waiting := ws, log := s.log ++ [w] }   -- the mutex goes to a waiter
         | [] => { s with running := [] })
      else { s with running := r }
    | _ => { s with running := r }

def run (m : Mode) : BSt → List Step → BSt
  | s, [] => s
  | s, x :: xs => run m (step m s x) xs

/-- the callbacks of one thread -/
def ofThread (t : Nat) (l : List (Nat × Nat)) : List Nat := (l.filter fun x => x.1 == t).map (·.2)

end Bind

/-! ## Part 3: the argument / return-value buffer as the writer lays it out and the three
    readers walk it (libmcount/record.c save_to_argbuf; cmds/replay.c get_argspec_string;
    utils/script-python.c and utils/script-luajit.c setup_argument_context).  The sizes and
    advances are the generated functions of `Uft.Gen.ScriptArgs` (translated from the C
    expressions on every run).  Bytes are natural numbers; values are the stored bytes. -/
namespace Args
open Uft.Gen.ScriptArgs

/-- struct uftrace_arg_spec: format and `size` -/
structure ASpec where
  fmt : Fmt
  size : Nat
deriving DecidableEq, Repr, Inhabited

/-- a value as stored: the `size` bytes of a scalar / struct, or the characters of a string -/
inductive AVal where
  | fixed (bytes : List Nat)
  | str (chars : List Nat)
deriving DecidableEq, Repr, Inhabited

def isStr (f : Fmt) : Bool := f == .str || f == .stdstr

/-- number of bytes read for a scalar: one for a char (`memcpy(…, data, 1)`), `spec->size` otherwise -/
def readLen (sp : ASpec) : Nat := if sp.fmt == .chr then 1 else sp.size

def padTo (n : Nat) (l : List Nat) : List Nat := l ++ List.replicate (n - l.length) 0

/-- save_to_argbuf for one value: the value (a string with its 2-byte length in front), zero
    padded to the size the writer advances by -/
def encOne (sp : ASpec) : AVal → List Nat
  | .str s => padTo (wrSize sp.fmt sp.size s.length) (s.length % 256 :: s.length / 256 :: s)
  | .fixed b => padTo (wrSize sp.fmt sp.size 0) b

def encode : List (ASpec × AVal) → List Nat
  | [] => []
  | (sp, v) :: rest => encOne sp v ++ encode rest

/-- one step of a reader whose advance function is `adv`: the value found at `data` and the rest;
    `none`: the reader has no case for the format -/
def decOne (adv : Fmt → Nat → Nat → Option Nat) (sp : ASpec) (data : List Nat) : Option (AVal × List Nat) :=
  if isStr sp.fmt then
    match adv sp.fmt sp.size (data.getD 0 0 + 256 * data.getD 1 0) with
    | some a => some (.str ((data.drop 2).take (data.getD 0 0 + 256 * data.getD 1 0)), data.drop a)
    | none => none
  else
    match adv sp.fmt sp.size 0 with
    | some a => some (.fixed (data.take (readLen sp)), data.drop a)
    | none => none

/-- the loop over the spec list; a format without a case contributes no value and no advance
    (`default: pr_warn("invalid argument format")`) -/
def decode (adv : Fmt → Nat → Nat → Option Nat) : List ASpec → List Nat → List AVal
  | [], _ => []
  | sp :: rest, data =>
    match decOne adv sp data with
    | some (v, d) => v :: decode adv rest d
    | none => decode adv rest data

/-- a value fits its spec: a string for /s and /S; `size` bytes otherwise, and a char spec has size 1
    (parse_argspec: `size = sizeof(char)`) -/
def fits (sp : ASpec) : AVal → Prop
  | .str _ => isStr sp.fmt = true
  | .fixed b => isStr sp.fmt = false ∧ b.length = sp.size ∧ (sp.fmt = .chr → sp.size = 1)

/-- the reader has a case for the format -/
def handles (adv : Fmt → Nat → Nat → Option Nat) (f : Fmt) : Bool := (adv f 0 0).isSome

end Args

end Uft.Script
