/-
C19 — the Python tracer end to end: what `uftrace_trace_python`
(python/trace-python.c:939) does with one profile event *before* and *after*
the per-event decision modelled in `Uft/Model/PyTrace.lean`:

 1. `skip_first_frame` / `first_frame` (:950-954): the frame object of the very
    first event is remembered **by address** and every event that carries that
    address is dropped before anything else happens.
 2. `convert_function_addr` (:846): the name is looked up in the rb-tree
    `code_tree` by the `strcmp` descent (:879-893); a name that is not found
    gets the next address from the header of the shared-memory symbol table
    (`get_new_sym_addr` :242, count and write offset updated by one CAS), its
    line is written into the shared text, and a node is linked at the slot the
    descent ended in (:930).  `write_symtab` (:289) copies the shared text into
    `<dir>/python.fake.sym` and adds the `__sym_end` line.
 3. the decision (`PyTrace.stepSt` / `PyTrace.stepOut`): `cygprof_enter(addr)`,
    `cygprof_exit()` or nothing.
 4. libmcount's side of these two hooks (`__cygprof_entry` / `__cygprof_exit`,
    libmcount/mcount.c:1643-1780): the shared hook model `Uft.Mcount` plus the
    one thing that model totalises — an exit hook that arrives when nothing is
    on the shadow stack (`idx == 0`).  As coded the function looks at
    `rstack[idx - 1].flags`, i.e. at the 4 bytes that lie 64 bytes *before* the
    `malloc`ed array, and drops the call only if bit 14 (MCOUNT_FL_CYGPROF) of
    that word happens to be clear (finding F-C19-UNPAIRED-OOB).  `guard = true`
    is the repaired code (`idx <= 0` → warn and return).

Event payload: the functions of `PyTrace` are polymorphic in the name type; here
a name is a `Node β`: the function name proper, the address of the frame object
passed with the event (for C events: the caller's frame), and the two clock
readings libmcount would take in the entry / exit hook.

Core-only imports (linked into `uvmodel`).
-/
import Uft.Model.PyTrace
import Uft.Model.CallTree
namespace Uft.PyHook
open Uft.PyTrace

/-! ## 1. names with frame address and clock readings -/

structure Node (β : Type) where
  name : β
  /-- address of the `frame` argument of the callback -/
  frame : Nat
  /-- `mcount_gettime()` in `__cygprof_entry`, should the event get that far -/
  t0 : Nat
  /-- `mcount_gettime()` in `__cygprof_exit` -/
  t1 : Nat

variable {β : Type}

/-- the configuration of `PyTrace` read through `Node.name` -/
def liftCfg (c : Cfg β) : Cfg (Node β) :=
  { fixed := c.fixed
    filters := c.filters.map fun fs => fs.map fun f => { hit := fun n => f.hit n.name, mode := f.mode }
    lmode := c.lmode
    isLib := fun n => c.isLib n.name }

/-- the clock reading that belongs to an event -/
def evTime (e : Ev (Node β)) : Nat := if e.kind.isEntry then e.name.t0 else e.name.t1

/-! ## 2. the symbol table: rb-tree + shared memory -/

/-- `struct uftrace_python_symbol` -/
structure Sym (β : Type) where
  name : β
  addr : Nat
  lib : Bool

/-- `code_tree`.  Colours and rotations of lib rbtree are not modelled: they keep
    the in-order sequence, and the lookup below never compares two stored
    names with each other — only the searched name with the stored ones. -/
inductive Tree (β : Type) where
  | leaf
  | node (l : Tree β) (s : Sym β) (r : Tree β)

/-- the `while (*p)` loop of `convert_function_addr`; `cmp a b` is the sign of
    `strcmp(a, b)` with `a = iter->name`, `b = func_name`; `cmp < 0` goes
    *left* (sic) -/
def Tree.find (cmp : β → β → Ordering) : Tree β → β → Option (Sym β)
  | .leaf, _ => none
  | .node l s r, n =>
    match cmp s.name n with
    | .eq => some s
    | .lt => l.find cmp n
    | .gt => r.find cmp n

/-- `rb_link_node(&new_sym->node, parent, p)` at the slot where the same descent
    ended (only reached after `find` returned `none`; an equal name on the path
    is therefore impossible and leaves the tree as it is) -/
def Tree.link (cmp : β → β → Ordering) : Tree β → Sym β → Tree β
  | .leaf, x => .node .leaf x .leaf
  | .node l s r, x =>
    match cmp s.name x.name with
    | .eq => .node l s r
    | .lt => .node (l.link cmp x) s r
    | .gt => .node l s (r.link cmp x)

/-- one entry of the shared text: `"%016x %c %s\n"` -/
structure Line (β : Type) where
  addr : Nat
  lib : Bool
  name : β

/-- the shared-memory region `/uftrace-python-<pid>`: header `count` and the
    entries between byte 48 and header `offset`, in reservation order.  (Both
    header fields are `uint32_t`; an entry takes at least 21 bytes, so `offset`
    would wrap long before `count` — neither is modelled: a table of 4 GiB.) -/
structure Shm (β : Type) where
  count : Nat
  lines : List (Line β)

def Shm.empty : Shm β := { count := 0, lines := [] }

/-- `get_new_sym_addr`: the CAS reserves (count + 1, the slot); the line is
    written into the reserved slot -/
def newSym (shm : Shm β) (n : β) (lib : Bool) : Shm β × Nat :=
  ({ count := shm.count + 1, lines := shm.lines ++ [{ addr := shm.count + 1, lib := lib, name := n }] },
   shm.count + 1)

/-- `convert_function_addr` for a name (the C code computes the name first;
    `isLib` is `!is_main`, evaluated only for a new symbol) -/
def convert (cmp : β → β → Ordering) (isLib : β → Bool) (t : Tree β) (shm : Shm β) (n : β) :
    Tree β × Shm β × Sym β :=
  match t.find cmp n with
  | some s => (t, shm, s)
  | none =>
    let r := newSym shm n (isLib n)
    let s : Sym β := { name := n, addr := r.2, lib := isLib n }
    (t.link cmp s, r.1, s)

/-- a line of `python.fake.sym`; `name = none` is the `__sym_end` marker -/
structure SymLine (β : Type) where
  addr : Nat
  type : Char
  name : Option β

/-- `write_symtab`: the shared text, then `"%016x ? __sym_end"` with `count + 1` -/
def symFile (shm : Shm β) : List (SymLine β) :=
  shm.lines.map (fun l => { addr := l.addr, type := if l.lib then 'P' else 'T', name := some l.name }) ++
    [{ addr := shm.count + 1, type := '?', name := none }]

/-- what the reader makes of such a file (`load_module_symbol_file`: every
    symbol's size is back-filled from the address of the next line, `?` only
    ends the last one; then `find_sym`): the first line whose range
    `[addr, next addr)` holds `a` -/
def resolve : List (SymLine β) → Nat → Option β
  | x :: y :: rest, a => if x.addr ≤ a ∧ a < y.addr then x.name else resolve (y :: rest) a
  | _, _ => none

/-! ### several processes (multiprocessing: `fork`)

The tree is private to a process (copied by `fork`), the region is shared. -/
inductive Op (β : Type) where
  /-- process `pid` sees an event of function `n` -/
  | lookup (pid : Nat) (n : β)
  /-- `fork()` in `parent`; `child` is a fresh pid -/
  | fork (parent child : Nat)

structure World (β : Type) where
  shm : Shm β
  trees : Nat → Tree β

def World.init : World β := { shm := Shm.empty, trees := fun _ => .leaf }

def World.step (cmp : β → β → Ordering) (isLib : β → Bool) (w : World β) : Op β → World β
  | .lookup p n =>
    let r := convert cmp isLib (w.trees p) w.shm n
    { shm := r.2.1, trees := fun q => if q = p then r.1 else w.trees q }
  | .fork p c => { w with trees := fun q => if q = c then w.trees p else w.trees q }

def World.run (cmp : β → β → Ordering) (isLib : β → Bool) (w : World β) (ops : List (Op β)) : World β :=
  ops.foldl (World.step cmp isLib) w

/-! ## 3. libmcount's side of `cygprof_enter` / `cygprof_exit` -/

structure HookCfg where
  m : Uft.Mcount.Cfg
  /-- `true`: with the repair of F-C19-UNPAIRED-OOB -/
  guard : Bool
  /-- the 32-bit word at `&rstack[-1].flags` (whatever the heap holds 64 bytes
      before the array) -/
  below : Nat

structure HSt where
  m : Uft.Mcount.St
  /-- `mtdp->rstack != NULL`: `mcount_prepare` ran on this thread (first entry hook) -/
  prepared : Bool
  /-- libmcount has treated memory outside `rstack` as a frame: from here on
      the C code's behaviour is not defined by this model -/
  oob : Bool

def HSt.init (h : HookCfg) : HSt := { m := Uft.Mcount.St.init h.m, prepared := false, oob := false }

/-- MCOUNT_FL_CYGPROF = 1 << 14 -/
def cygFlag (w : Nat) : Bool := w / 16384 % 2 == 1

/-- `__cyg_profile_func_enter(addr, 0)` -/
def cygEnter (h : HookCfg) (s : HSt) (addr now : Nat) : HSt :=
  { s with m := (Uft.Mcount.entry h.m .cyg s.m addr now).1, prepared := true }

/-- `__cyg_profile_func_exit(0, 0)` -/
def cygExit (h : HookCfg) (s : HSt) (now : Nat) : HSt :=
  if !s.prepared then s                                    -- check_thread_data: return
  else if s.m.idx = 0 then
    (if h.guard then s                                     -- repaired: warn once, return
     else if !cygFlag h.below then s                       -- "unpaired cygprof exit: dropping"
     else { s with oob := true })                          -- rstack[-1] taken for a frame
  else { s with m := Uft.Mcount.exit h.m s.m now }

/-- the hook call (at most one) an event ends in -/
def hookOut (h : HookCfg) (addr now : Nat) (s : HSt) : Out (Node β) → HSt
  | .enter _ => cygEnter h s addr now
  | .exit => cygExit h s now

/-! ## 4. one call of `uftrace_trace_python`, end to end -/

structure PCfg (β : Type) where
  py : Cfg β
  /-- `skip_first_frame` (set by the python3 module init) -/
  skipFirst : Bool
  cmp : β → β → Ordering
  hk : HookCfg

structure PSt (β : Type) where
  /-- `first_frame` (function static) -/
  first : Option Nat
  tree : Tree β
  shm : Shm β
  py : St
  hk : HSt

def PSt.init (c : PCfg β) : PSt β :=
  { first := none, tree := .leaf, shm := Shm.empty, py := St.init, hk := HSt.init c.hk }

/-- `first_frame` after `if (first_frame == NULL) first_frame = frame;` -/
def firstOf (first : Option Nat) (frame : Nat) : Nat :=
  match first with
  | none => frame
  | some f => f

/-- `skip_first_frame && frame == first_frame` -/
def skips (c : PCfg β) (first : Option Nat) (frame : Nat) : Bool :=
  c.skipFirst && firstOf first frame == frame

def pstep (c : PCfg β) (s : PSt β) (e : Ev (Node β)) : PSt β :=
  let ff := firstOf s.first e.name.frame
  if skips c s.first e.name.frame then { s with first := some ff } else
  let cv := convert c.cmp c.py.isLib s.tree s.shm e.name.name
  { first := some ff
    tree := cv.1
    shm := cv.2.1
    py := stepSt (liftCfg c.py) s.py e
    hk := (stepOut (liftCfg c.py) s.py e).foldl (hookOut c.hk cv.2.2.addr (evTime e)) s.hk }

def prun (c : PCfg β) (s : PSt β) (evs : List (Ev (Node β))) : PSt β := evs.foldl (pstep c) s

/-- the same without the tables: addresses come from a given function -/
def pstepA (c : PCfg β) (addr : β → Nat) (s : St × HSt) (e : Ev (Node β)) : St × HSt :=
  (stepSt (liftCfg c.py) s.1 e,
   (stepOut (liftCfg c.py) s.1 e).foldl (hookOut c.hk (addr e.name.name) (evTime e)) s.2)

def prunA (c : PCfg β) (addr : β → Nat) (s : St × HSt) (evs : List (Ev (Node β))) : St × HSt :=
  evs.foldl (pstepA c addr) s

/-- the address a tree gives a name (0: not in the table — never recorded) -/
def addrIn (cmp : β → β → Ordering) (t : Tree β) (n : β) : Nat :=
  match t.find cmp n with
  | some s => s.addr
  | none => 0

/-! ## 5. the event streams the interpreter delivers

`sys.setprofile` is called while some frames are already running
(python/uftrace.py's module frame, `runpy._run_code`, `runpy._run_module_as_main`,
and the C call `exec`).  From then on the tracer sees complete calls
(`PyTrace.events`: `call … return` also when the frame is left by an exception
or `sys.exit`, and once per resumption of a generator / coroutine;
`c_call … c_return | c_exception`) — and, when the script ends by `sys.exit()`
or an uncaught exception, the lone exit events of the frames that were already
running, each followed by whatever still runs at that level (atexit callbacks,
`threading._shutdown`).  `os._exit` or a signal cuts the stream anywhere. -/
def tailEvents {α : Type} : List (CKind × α × Calls α) → List (Ev α)
  | [] => []
  | (k, n, f) :: r => ⟨k.exit, n⟩ :: (eventsL f ++ tailEvents r)

def progEvents {α : Type} (f0 : Calls α) (tl : List (CKind × α × Calls α)) : List (Ev α) :=
  eventsL f0 ++ tailEvents tl

/-- the hook call a lone exit event of function `n` ends in at program level
    (all counters 0, `n` named by no filter) -/
def strayOut {α : Type} (c : Cfg α) (n : α) : List (Out α) :=
  if c.gmode = .fin then [] else if c.isLib n && c.lmode == .none then [] else [.exit]

/-! ### what is dropped by the first-frame test, on call trees -/
mutual
  /-- remove the calls whose events carry frame address `F`; their callees move
      up to the caller -/
  def pruneCall (F : Nat) : Call (Node β) → Calls (Node β) → Calls (Node β)
    | .node n k kids, rest =>
      if n.frame == F then pruneCalls F kids rest
      else .cons (.node n k (pruneCalls F kids .nil)) rest
  /-- `pruneCalls F f rest` = pruned `f` followed by `rest` -/
  def pruneCalls (F : Nat) : Calls (Node β) → Calls (Node β) → Calls (Node β)
    | .nil, rest => rest
    | .cons c r, rest => pruneCall F c (pruneCalls F r rest)
end

/-! ### the recorded calls as a libmcount call history -/

def appendCalls : Uft.Mcount.Calls → Uft.Mcount.Calls → Uft.Mcount.Calls
  | .nil, b => b
  | .cons c r, b => .cons c (appendCalls r b)

mutual
  /-- the documented selection (`PyTrace.specCall`) as a forest of
      `(address, entry time, exit time)` calls, followed by `rest` -/
  def selCall (c : Cfg (Node β)) (addr : β → Nat) (active blocked : Bool) (ld : Nat) :
      Call (Node β) → Uft.Mcount.Calls → Uft.Mcount.Calls
    | .node n _ kids, rest =>
      let active' := active || (firstMatch c.flist n == some .fin)
      let blocked' := blocked || (firstMatch c.flist n == some .fout)
      let sel := selected c active' blocked'
      if traced c sel n ld then
        .cons (.node (addr n.name) n.t0 n.t1 (selCalls c addr active' blocked' (ldNext c sel n ld) kids .nil)) rest
      else selCalls c addr active' blocked' (ldNext c sel n ld) kids rest
  def selCalls (c : Cfg (Node β)) (addr : β → Nat) (active blocked : Bool) (ld : Nat) :
      Calls (Node β) → Uft.Mcount.Calls → Uft.Mcount.Calls
    | .nil, rest => rest
    | .cons x r, rest => selCall c addr active blocked ld x (selCalls c addr active blocked ld r rest)
end

/-- the recorded calls of a whole run: program forest, then the forests that
    ran after each lone exit -/
def selProg (c : Cfg (Node β)) (addr : β → Nat) (f0 : Calls (Node β))
    (tl : List (CKind × Node β × Calls (Node β))) : Uft.Mcount.Calls :=
  selCalls c addr false false 0 f0
    (tl.foldr (fun x acc => selCalls c addr false false 0 x.2.2 acc) .nil)

/-- address of a frame object that is created after the last reference to the
    first frame was dropped: as coded the allocator may hand out the first
    frame's address again; with the repair of F-C19-FIRSTFRAME-ALIAS
    (`Py_INCREF(first_frame)`) the first frame stays allocated and it cannot -/
def laterFrameAddr (pin : Bool) (first fresh : Nat) : Nat := if pin then fresh else first

/-! ## 6. code objects: where the name of a Python function comes from

`convert_function_addr` (:846) takes the frame of the event, reads `frame.f_code` **at the time
of the event** and builds the name from that object (`co_qualname`, the `__name__` of the frame's
globals: `get_python_funcname` :778); the object is released again before the function returns
(:874, "code is not used anymore").  Only then the name is looked up in `code_tree`.  Code objects
are ordinary heap objects: the ones of functions made by `exec()`/`eval()`/`compile()`, of class
bodies and of the top-level code of imported modules die while the program goes on, and the
allocator hands their addresses out again.  In this section an event carries the *address* of its
code object and the heap as it is at that moment; nothing else about code objects is kept from
one event to the next — which is what `c19_name_is_current_code_object` says. -/

/-- the code objects alive at some moment: address ↦ the name `get_python_funcname` builds from
    the object living there (`none`: `PyObject_GetAttrString(frame, "f_code")` fails) -/
abbrev CodeHeap (β : Type) := Nat → Option β

/-- a `call`/`return` event as `convert_function_addr` sees it -/
structure CEv (β : Type) where
  /-- address of `frame.f_code` -/
  code : Nat
  /-- the heap when the event is delivered -/
  heap : CodeHeap β

/-- `convert_function_addr(frame, args, is_pyfunc = true)`: the name of the code object that
    lives at the address now, then the lookup by name (`convert`) -/
def convertCode (cmp : β → β → Ordering) (isLib : β → Bool) (t : Tree β) (shm : Shm β) (e : CEv β) :
    Tree β × Shm β × Option (Sym β) :=
  match e.heap e.code with
  | none => (t, shm, none)
  | some n => let r := convert cmp isLib t shm n; (r.1, r.2.1, some r.2.2)

/-- the symbols handed back for a sequence of events (tables threaded through) -/
def runCode (cmp : β → β → Ordering) (isLib : β → Bool) : Tree β → Shm β → List (CEv β) → List (Option (Sym β))
  | _, _, [] => []
  | t, shm, e :: es =>
    let r := convertCode cmp isLib t shm e
    r.2.2 :: runCode cmp isLib r.1 r.2.1 es

/-! ## 7. the launcher: which directory is "the program"

python/uftrace.py makes the script's name absolute (`os.getcwd() + '/' + filename`, or the PATH
directory it was found in), puts the directory of *that* name in front of `sys.path` and exports
`UFTRACE_PYMAIN`; `init_uftrace` (:621-633) takes the directory of UFTRACE_PYMAIN for `main_dir`,
through `realpath()` only when the name is relative; `convert_function_addr` (:903) calls a
function program code when its `co_filename` starts with `main_dir` + "/".  Paths are lists of
components; `real` is realpath(3) (an assumption of the environment; nothing is required of it).
`fixed = true` is the launcher with the repair proposed for F-C19-SCRIPTDIR: one name, the resolved
one, for both. -/
abbrev Path := List String

structure Launch where
  /-- the script as typed (or as found in PATH) -/
  arg : Path
  isAbs : Bool
  cwd : Path
  real : Path → Path

def Launch.abs (l : Launch) : Path := if l.isAbs then l.arg else l.cwd ++ l.arg

/-- `sys.path.insert(0, os.path.dirname(...))` -/
def sysPath0 (fixed : Bool) (l : Launch) : Path :=
  (if fixed then l.real l.abs else l.abs).dropLast

/-- `main_dir` -/
def mainDir (fixed : Bool) (l : Launch) : Path :=
  (if fixed then l.real l.abs else if l.isAbs then l.arg else l.real l.abs).dropLast

/-- `!strncmp(file_name, main_dir, main_dir_len) && file_name[main_dir_len] == '/'` -/
def underDir (dir file : Path) : Bool := dir.isPrefixOf file && decide (dir.length < file.length)

/-- is a function whose code was loaded from `file` program code? -/
def isProgramFile (fixed : Bool) (l : Launch) (file : Path) : Bool := underDir (mainDir fixed l) file

end Uft.PyHook
