/- C06 model, part 2: what `uftrace replay` does with the merged record stream
   (cmds/replay.c `command_replay` / `print_graph_rstack`, utils/fstack.c
   `fstack_account_time`, `fstack_update_stack_count`, `fstack_entry`,
   `fstack_exit`, `fstack_update`, `fstack_skip`), for user ENTRY/EXIT records
   and no filter/trigger/time-range option (so `fstack_entry` never rejects,
   `display_depth_set` stays true, `fstack_skip` only peeks).

   Per task (struct uftrace_task_reader): `fstack_set`, `stack_count`,
   `display_depth`, `fork_display_depth`, `func_stack[]` with `addr`,
   `total_time` (start time while the call is open, duration after its EXIT)
   and `valid`.

   First half (`replay`): the stream without exec/setjmp/longjmp records, fork-like
   functions given as a set of addresses.  Second half (`replayX`): the replay-time
   fix-ups of fstack_entry/fstack_update as coded -- the symbol-name classification
   (`fixup_syms`, whole-name match, then the strncmp/strstr cascade), exec (stack and
   display depth reset to 0), setjmp/longjmp (ONE global `setjmp_depth`/`setjmp_count`
   pair shared by all tasks), fork/vfork/daemon (`fork_display_depth`), no folding of
   an exec/longjmp entry (fstack_skip returns NULL) -- plus three repair flags for the
   findings C06-FORK-LATEST, C06-TID-ORPHAN and C06-EXEC-FAILED (`Fixes`).

   Not modelled: `func_stack` overflow beyond `max_stack`, LOST/EVENT records,
   64-bit wrap of time differences (`Nat` subtraction truncates instead).  Core-only. -/
import Uft.Model.Merge
namespace Uft.Replay
open Uft.Merge

structure Frame where
  addr : Nat := 0
  total : Nat := 0
  valid : Bool := false
deriving DecidableEq, Repr, Inhabited

structure TaskSt where
  /-- index of the task whose tid is this task's ppid (`get_task_handle(h, t->ppid)`) -/
  parent : Option Nat
  /-- `fstack_set` (and `fork_handled`, which is set at the same moment) -/
  started : Bool
  stackCount : Nat
  disp : Nat
  forkDisp : Nat
  slots : Nat → Frame

def TaskSt.fresh (parent : Option Nat) : TaskSt :=
  { parent := parent, started := false, stackCount := 0, disp := 0, forkDisp := 0, slots := fun _ => {} }

def setSlot (s : Nat → Frame) (i : Nat) (f : Frame) : Nat → Frame :=
  fun j => if j = i then f else s j

/-! ### fstack_consume = fstack_account_time ; fstack_update_stack_count -/

/-- `stack_count` taken from the first record (fstack.c:1890-1892) -/
def firstCount (r : Rec) : Nat := if r.exit then r.depth + 1 else r.depth

/-- `if (!task->fstack_set) { … }` (fstack.c:1888-1935); `inh` is the parent's
    `fork_display_depth` (0 when there is no parent task) -/
def startTask (inh : Nat) (st : TaskSt) (r : Rec) : TaskSt :=
  { parent := st.parent
    started := true
    stackCount := if st.started then st.stackCount else firstCount r
    disp := if st.started then st.disp else if inh = 0 then st.disp else inh
    forkDisp := st.forkDisp
    slots := fun i =>
      if st.started then st.slots i
      else if i < firstCount r then { addr := (st.slots i).addr, total := r.time, valid := true }
      else st.slots i }

/-- the ENTRY / EXIT branches of fstack_account_time (fstack.c:1977-2015) -/
def accountSlots (st : TaskSt) (r : Rec) : Nat → Frame :=
  if r.exit then
    if st.stackCount = 0 then st.slots          -- idx = -1: fstack_get() == NULL
    else
      setSlot st.slots (st.stackCount - 1)
        { addr := (st.slots (st.stackCount - 1)).addr
          total := if (st.slots (st.stackCount - 1)).valid
                   then r.time - (st.slots (st.stackCount - 1)).total else 0
          valid := false }
  else setSlot st.slots st.stackCount { addr := r.addr, total := r.time, valid := true }

/-- fstack_update_stack_count (fstack.c:2063-2066) -/
def newCount (st : TaskSt) (r : Rec) : Nat :=
  if r.exit then st.stackCount - 1 else st.stackCount + 1

def consume (inh : Nat) (st : TaskSt) (r : Rec) : TaskSt :=
  { parent := st.parent
    started := true
    stackCount := newCount (startTask inh st r) r
    disp := (startTask inh st r).disp
    forkDisp := st.forkDisp
    slots := accountSlots (startTask inh st r) r }

/-! ### what is printed -/

inductive Kind where
  | entry | exit | leaf
deriving DecidableEq, Repr, Inhabited

/-- one printed line of the call graph, canonical:
    `fn` is the record's address (prints as the symbol name), `addr` is what the
    `addr` field shows (`fstack->addr`), `dur` what the duration field shows (0 = blank),
    `time` what the `time` field shows -/
structure Ev where
  kind : Kind
  task : Nat
  indent : Nat
  fn : Nat
  addr : Nat
  dur : Nat
  time : Nat
deriving DecidableEq, Repr, Inhabited

/-- ENTRY shown as `name() {`: `s` is the task after `consume`.
    fstack_entry: the fixup of fork-like functions remembers `display_depth + 1`;
    fstack_update(ENTRY): `display_depth++`. -/
def entryState (isFork : Nat → Bool) (s : TaskSt) (r : Rec) : TaskSt :=
  { s with forkDisp := if isFork r.addr then s.disp + 1 else s.forkDisp, disp := s.disp + 1 }

def entryEv (i : Nat) (s : TaskSt) (r : Rec) : Ev :=
  { kind := .entry, task := i, indent := s.disp, fn := r.addr,
    addr := (s.slots (s.stackCount - 1)).addr, dur := 0, time := r.time }

/-- EXIT shown as `}`: `s` is the task after `consume`;
    `fstack = fstack_get(task, task->stack_count)`, fstack_update(EXIT) lowers
    `display_depth` unless it is 0 -/
def exitState (s : TaskSt) : TaskSt := { s with disp := s.disp - 1 }

def exitEv (i : Nat) (s : TaskSt) (r : Rec) : Ev :=
  { kind := .exit, task := i, indent := s.disp - 1, fn := r.addr,
    addr := (s.slots s.stackCount).addr, dur := (s.slots s.stackCount).total, time := r.time }

/-- ENTRY folded with the EXIT that follows (`name();`): `s` after consuming the
    ENTRY, `s2` after also consuming the EXIT; `display_depth` is left alone -/
def leafState (isFork : Nat → Bool) (s s2 : TaskSt) (r : Rec) : TaskSt :=
  { s2 with forkDisp := if isFork r.addr then s.disp + 1 else s2.forkDisp }

def leafEv (i : Nat) (s s2 : TaskSt) (r : Rec) : Ev :=
  { kind := .leaf, task := i, indent := s.disp, fn := r.addr,
    addr := (s2.slots (s.stackCount - 1)).addr, dur := (s2.slots (s.stackCount - 1)).total,
    time := r.time }

abbrev G := Nat → TaskSt

def upd (g : G) (i : Nat) (s : TaskSt) : G := fun j => if j = i then s else g j

/-- the parent's `fork_display_depth` as seen by task `i` -/
def inhOf (g : G) (i : Nat) : Nat :=
  match (g i).parent with
  | some p => (g p).forkDisp
  | none => 0

/-- leaf test of print_graph_rstack (replay.c:833): the record that `peek_rstack`
    returns next belongs to the same task, has the same depth field and is an EXIT -/
def foldsWith (i : Nat) (r : Rec) (j : Nat) (x : Rec) : Bool :=
  j == i && x.depth == r.depth && x.exit

/-- the main loop of command_replay over the merged stream.  `mergeOn = false` is `--no-merge`. -/
def replay (mergeOn : Bool) (isFork : Nat → Bool) : G → List (Nat × Rec) → G × List Ev
  | g, [] => (g, [])
  | g, [(i, r)] =>
    if r.exit then
      (upd g i (exitState (consume (inhOf g i) (g i) r)), [exitEv i (consume (inhOf g i) (g i) r) r])
    else
      (upd g i (entryState isFork (consume (inhOf g i) (g i) r) r),
       [entryEv i (consume (inhOf g i) (g i) r) r])
  | g, (i, r) :: (j, x) :: rest =>
    if r.exit then
      let s := consume (inhOf g i) (g i) r
      let out := replay mergeOn isFork (upd g i (exitState s)) ((j, x) :: rest)
      (out.1, exitEv i s r :: out.2)
    else if mergeOn && foldsWith i r j x then
      let s := consume (inhOf g i) (g i) r
      let s2 := consume 0 s x
      let out := replay mergeOn isFork (upd g i (leafState isFork s s2 r)) rest
      (out.1, leafEv i s s2 r :: out.2)
    else
      let s := consume (inhOf g i) (g i) r
      let out := replay mergeOn isFork (upd g i (entryState isFork s r)) ((j, x) :: rest)
      (out.1, entryEv i s r :: out.2)

def g0 (parents : List (Option Nat)) : G := fun i => TaskSt.fresh (parents.getD i none)

/-! ### presentation layers -/

/-- the `name() {` line a folded `name();` line stands for -/
def Ev.asEntry (e : Ev) : Ev := { e with kind := .entry, dur := 0 }
/-- the `}` line a folded `name();` line stands for (it ends `dur` after the entry) -/
def Ev.asExit (e : Ev) : Ev := { e with kind := .exit, time := e.time + e.dur }

/-- undo leaf folding: `name();` stands for `name() {` followed by `}` -/
def unfold : List Ev → List Ev
  | [] => []
  | e :: es =>
    match e.kind with
    | .leaf => e.asEntry :: e.asExit :: unfold es
    | _ => e :: unfold es

/-- `--column-view`: task_column_depth() hands out columns in order of first
    printed line; `a` is the list of (task, column) pairs assigned so far -/
def columnize (off : Nat) : List (Nat × Nat) → List Ev → List Ev
  | _, [] => []
  | a, e :: es =>
    match a.lookup e.task with
    | some c => { e with indent := e.indent + c * off } :: columnize off a es
    | none => { e with indent := e.indent + a.length * off } :: columnize off (a ++ [(e.task, a.length)]) es

/-- a line with the time-derived fields of `-f time,delta,elapsed` -/
structure Line where
  ev : Ev
  delta : Nat
  elapsed : Nat
deriving DecidableEq, Repr, Inhabited

/-- update_first_timestamp (fstack.c:146-147) -/
def updFirst (first t : Nat) : Nat := if first = 0 ∨ first > t then t else first

/-- `delta` = time since the previous printed line of the same task (`timestamp_last`,
    0 → blank), `elapsed` = time since `time_range.first`.  `last` maps a task to the
    timestamp of its last line (newest first). -/
def annotate : Nat → List (Nat × Nat) → List Ev → List Line
  | _, _, [] => []
  | first, last, e :: es =>
    let prev := (last.lookup e.task).getD 0
    { ev := e, delta := if prev = 0 then 0 else e.time - prev, elapsed := e.time - updFirst first e.time }
      :: annotate (updFirst first e.time) ((e.task, e.time) :: last) es

/-- fstack_setup_task: a task that `--tid` leaves out still contributes its first
    timestamp to `time_range.first` -/
def firstOfUnselected (sel : Nat → Bool) : Nat → Nat → List (List Rec) → Nat
  | first, _, [] => first
  | first, i, t :: ts =>
    match t with
    | r :: _ => firstOfUnselected sel (if sel i then first else updFirst first r.time) (i + 1) ts
    | [] => firstOfUnselected sel first (i + 1) ts

/-! ### print_remaining_stack -/

def openAddrs (s : TaskSt) : List Nat := (List.range s.stackCount).map (fun k => (s.slots k).addr)

def zeroCount (s : TaskSt) : Nat := ((openAddrs s).takeWhile (· == 0)).length

/-- the lines `[k] name` of one task, innermost first: (k, addr) -/
def remainingOf (s : TaskSt) : List (Nat × Nat) :=
  ((openAddrs s).drop (zeroCount s)).zipIdx.reverse.map (fun p => (p.2, p.1))

/-- (task index, its lines) for the tasks that are listed -/
def remaining (n : Nat) (g : G) : List (Nat × List (Nat × Nat)) :=
  (List.range n).filterMap (fun i =>
    if zeroCount (g i) = (g i).stackCount then none else some (i, remainingOf (g i)))

/-! ## replay-time fix-ups (fstack_entry / fstack_update / fstack_skip) -/

/-- how fstack_entry treats a function found in `sess->fixups` -/
inductive Fix where
  | none | exec | setjmp | longjmp | fork
deriving DecidableEq, Repr, Inhabited

/-- `strstr(hay, needle) != NULL` for strings without NUL -/
def strstr : List Char → List Char → Bool
  | [], n => n.isEmpty
  | c :: cs, n => n.isPrefixOf (c :: cs) || strstr cs n

/-- `fixup_syms[]` (fstack.c:398): build_fixup_filter registers each of them with
    PATT_SIMPLE, i.e. `match_filter_pattern` is `!strcmp(patt, sym->name)`: only a symbol
    whose whole name is in this table gets an entry in `sess->fixups`. -/
def fixupSyms : List String :=
  ["execl", "execlp", "execle", "execv", "execve", "execvp", "execvpe",
   "setjmp", "_setjmp", "sigsetjmp", "__sigsetjmp",
   "longjmp", "siglongjmp", "__longjmp_chk",
   "fork", "vfork", "daemon", "posix.fork", "_longjmp"]

/-- the `if … else if …` cascade of fstack_entry (fstack.c:642-654) on `fixup->name` -/
def cascade (name : String) : Fix :=
  if "exec".toList.isPrefixOf name.toList then .exec            -- !strncmp(name, "exec", 4)
  else if strstr name.toList "setjmp".toList then .setjmp
  else if strstr name.toList "longjmp".toList then .longjmp
  else if strstr name.toList "fork".toList || name == "daemon" || name == "posix.fork" then .fork
  else .none

/-- what replay does with a function called `name` -/
def classifyName (name : String) : Fix :=
  if fixupSyms.contains name then cascade name else .none

/-- the repairs proposed for /repo; `false` = the code as it is without the patch -/
structure Fixes where
  /-- C06-FORK-LATEST: fstack_entry also remembers `fork_stack_count`; a child corrects the
      inherited depth by its own first `stack_count` -/
  forkLatest : Bool := false
  /-- C06-TID-ORPHAN: a forked task that inherits nothing starts at `display_depth = stack_count` -/
  orphan : Bool := false
  /-- C06-EXEC-FAILED: fstack_update saves depth and stack count at an exec*() entry; an EXIT that
      arrives with nothing on the stack (exec returned, i.e. failed) takes them up again -/
  execFail : Bool := false
deriving DecidableEq, Repr, Inhabited

/-- the reader's whole state: the tasks, `fork_stack_count` per task (only read when
    `forkLatest`), `task->t->ppid != 0` per task, the `exec_pending` state per task
    (`exec_display_depth`, `exec_stack_count`; only read when `execFail`) and the two
    file-level statics -/
structure W where
  g : G
  fc : Nat → Nat
  forked : Nat → Bool
  xp : Nat → Option (Nat × Nat)
  sjDepth : Nat
  sjCount : Nat

def updN (f : Nat → Nat) (i v : Nat) : Nat → Nat := fun j => if j = i then v else f j
def updO (f : Nat → Option (Nat × Nat)) (i : Nat) (v : Option (Nat × Nat)) : Nat → Option (Nat × Nat) :=
  fun j => if j = i then v else f j

def isForkOf (cls : Nat → Fix) : Nat → Bool := fun a => cls a == .fork
/-- FSTACK_FL_EXEC or FSTACK_FL_LONGJMP gets set -/
def jumps (cls : Nat → Fix) (a : Nat) : Bool := cls a == .exec || cls a == .longjmp

/-- the display depth a task gets at its first record (0 = none), fstack.c:1918-1940 -/
def inhX (fx : Fixes) (w : W) (i : Nat) (r : Rec) : Nat :=
  match (w.g i).parent with
  | some p =>
    if (w.g p).forkDisp = 0 then (if fx.orphan && w.forked i then firstCount r else 0)
    else if fx.forkLatest then (w.g p).forkDisp + firstCount r - w.fc p
    else (w.g p).forkDisp
  | none => if fx.orphan && w.forked i then firstCount r else 0

/-- the task as fstack_account_time sees it: with `execFail`, an EXIT that finds the stack empty
    while an exec is pending is that exec's return -/
def restoreX (fx : Fixes) (w : W) (i : Nat) (r : Rec) : TaskSt :=
  match w.xp i with
  | some (d, c) =>
    if fx.execFail && r.exit && (w.g i).stackCount == 0 then { w.g i with disp := d, stackCount := c } else w.g i
  | none => w.g i

/-- fstack_consume of the record `r` of task `i` -/
def consumeX (fx : Fixes) (w : W) (i : Nat) (r : Rec) : TaskSt :=
  consume (inhX fx w i r) (restoreX fx w i r) r

/-- fstack_entry's fix-up branch for the statics and `fork_stack_count`, fstack_update's for
    `exec_pending`; `s` = the task after `consume` -/
def noteW (cls : Nat → Fix) (w : W) (i : Nat) (s : TaskSt) (r : Rec) : W :=
  match cls r.addr with
  | .setjmp => { w with sjDepth := s.disp + 1, sjCount := s.stackCount, xp := updO w.xp i none }
  | .fork => { w with fc := updN w.fc i s.stackCount, xp := updO w.xp i none }
  | .exec => { w with xp := updO w.xp i (some (s.disp + 1, s.stackCount)) }
  | _ => { w with xp := updO w.xp i none }

/-- fstack_update(ENTRY) -/
def entryStateX (cls : Nat → Fix) (w : W) (s : TaskSt) (r : Rec) : TaskSt :=
  match cls r.addr with
  | .exec => { s with disp := 0, stackCount := 0 }
  | .longjmp => { s with disp := w.sjDepth, stackCount := w.sjCount }
  | _ => entryState (isForkOf cls) s r

/-- an ENTRY shown as `name() {` -/
def entryW (cls : Nat → Fix) (w : W) (i : Nat) (s : TaskSt) (r : Rec) : W :=
  { noteW cls w i s r with g := upd w.g i (entryStateX cls w s r) }

def exitW (w : W) (i : Nat) (s : TaskSt) : W := { w with g := upd w.g i (exitState s), xp := updO w.xp i none }

/-- an ENTRY folded with its EXIT -/
def leafW (cls : Nat → Fix) (w : W) (i : Nat) (s s2 : TaskSt) (r : Rec) : W :=
  { noteW cls w i s r with g := upd w.g i (leafState (isForkOf cls) s s2 r) }

/-- command_replay's main loop with the fix-ups -/
def replayX (fx : Fixes) (cls : Nat → Fix) (mergeOn : Bool) : W → List (Nat × Rec) → W × List Ev
  | w, [] => (w, [])
  | w, [(i, r)] =>
    let s := consumeX fx w i r
    if r.exit then (exitW w i s, [exitEv i s r]) else (entryW cls w i s r, [entryEv i s r])
  | w, (i, r) :: (j, x) :: rest =>
    let s := consumeX fx w i r
    if r.exit then
      let out := replayX fx cls mergeOn (exitW w i s) ((j, x) :: rest)
      (out.1, exitEv i s r :: out.2)
    else if mergeOn && !jumps cls r.addr && foldsWith i r j x then
      let s2 := consume 0 s x
      let out := replayX fx cls mergeOn (leafW cls w i s s2 r) rest
      (out.1, leafEv i s s2 r :: out.2)
    else
      let out := replayX fx cls mergeOn (entryW cls w i s r) ((j, x) :: rest)
      (out.1, entryEv i s r :: out.2)

def w0 (parents : List (Option Nat)) (forked : List Bool) : W :=
  { g := g0 parents, fc := fun _ => 0, forked := fun i => forked.getD i false, xp := fun _ => none,
    sjDepth := 0, sjCount := 0 }

end Uft.Replay
