/-
C07 — model of the analysis-time filters of utils/fstack.c and of the command loops
that use them:
  get_task_ustack      : the look-ahead time (-t, time= trigger) / caller (-C) filter on
                         one task's records (list with delete-last, per-task override stack)
  check_time_range     : -r (absolute timestamps)
  fstack_account_time / fstack_update_stack_count : stack_count
  fstack_entry / fstack_exit / fstack_update      : the entry/exit filter automaton
  fstack_check_filter / fstack_check_filter_done  : loop of report, graph, dump, tui  (`stepA`)
  cmds/script.c run_script_for_rstack             : loop of script                    (`stepC`)
  cmds/replay.c print_graph_rstack + fstack_skip + fstack_check_skip : loop of replay (`stepB`)
  cmds/dump.c do_dump_file                        : raw dump (no look-ahead)          (`outDumpRaw`)
and the documented selection as a structurally recursive function on call trees
(`pruneCalls`, `specCalls`).  One task, user records only (no kernel/perf/extern data).
The trigger table is `Uft.Mcount.Trigger`, so record time and replay time can be run on
one configuration (`RCfg.ofRecord`).  Not modelled: size filter (-Z, size=), LOST
records in the automaton, exec/setjmp/fork fix-ups, streams deeper than max_stack.
Core-only imports (linked into uvmodel).
-/
import Uft.Model.CallTree
namespace Uft.Fstack
open Uft.Mcount (Rec Trigger Call Calls evCall evCalls)

/-- EVENT_ID_USER -/
def eventIdUser : Nat := 1000000

structure RCfg where
  depthOpt : Nat := 1024       -- handle->depth = opts->depth (-D; OPT_DEPTH_DEFAULT)
  threshold : Nat := 0         -- handle->time_filter (-t)
  optIn : Bool := false        -- fstack_triggers.filter_count > 0
  locIn : Bool := false        -- fstack_triggers.loc_count > 0
  callerMode : Bool := false   -- handle->caller_filter (-C)
  enabled0 : Bool := true      -- !(--trace=off)
  rangeStart : Nat := 0        -- -r START~STOP, absolute time stamps; 0 = not given
  rangeStop : Nat := 0
  noLibcall : Bool := false    -- --no-libcall
  noMerge : Bool := false      -- replay --no-merge
  pltFixed : Bool := true      -- replay and script filter a --no-libcall PLT record like the other commands and
                               -- only hide it; false = the code before the repair of finding F-C07-NOLIBCALL,
                               -- which dropped the record before fstack_entry / fstack_exit
  trig : Nat → Trigger := fun _ => {}
  hide : Nat → Bool := fun _ => false   -- TRIGGER_FL_HIDE (-H, hide action)
  plt : Nat → Bool := fun _ => false    -- sym->type == ST_PLT_FUNC

/-- the replay-time configuration that corresponds to a record-time one (same option
    values, same trigger table) -/
def RCfg.ofRecord (cfg : Uft.Mcount.Cfg) : RCfg :=
  { depthOpt := cfg.depthOpt, threshold := cfg.threshold, optIn := cfg.optIn, locIn := cfg.locIn,
    callerMode := cfg.callerMode, enabled0 := cfg.enabled0, trig := cfg.trig }

/-! ## 1. the look-ahead of get_task_ustack -/

/-- struct uftrace_task_filter_stack (threshold override of a time= trigger) -/
structure TF where
  depth : Nat
  thr : Nat
  deriving DecidableEq, Repr

structure LA where
  held : List Rec := []     -- rstack_list.read, NEWEST FIRST
  stack : List TF := []     -- task->filter.stack, top first
  out : List Rec := []      -- records handed to the reader so far, oldest first

/-- check_time_range with absolute time stamps -/
def inRange (c : RCfg) (t : Nat) : Bool :=
  !(c.rangeStart != 0 && decide (c.rangeStart > t)) && !(c.rangeStop != 0 && decide (c.rangeStop < t))

def curThr (c : RCfg) : List TF → Nat
  | [] => c.threshold
  | t :: _ => t.thr

/-- "discard stale filter": pop the override pushed by the ENTRY at this depth -/
def popTF (d : Nat) : List TF → List TF
  | [] => []
  | t :: rest => if t.depth = d then rest else t :: rest

/-- delete_last_rstack_list until an ENTRY has been deleted -/
def dropToEntry : List Rec → List Rec
  | [] => []
  | r :: rest => if r.type = 0 then rest else dropToEntry rest

/-- the last ENTRY in the list (list_for_each_entry_reverse) -/
def lastEntry : List Rec → Option Rec
  | [] => none
  | r :: rest => if r.type = 0 then some r else lastEntry rest

/-- `curr->time - last->rstack.time` on uint64_t -/
def delta (x e : Rec) : Nat :=
  if e.time ≤ x.time then x.time - e.time else x.time + 18446744073709551616 - e.time

/-- add the record and `break`: the whole list is handed over -/
def LA.flush (s : LA) (r : Rec) (stk : List TF) : LA :=
  { held := [], stack := stk, out := s.out ++ (r :: s.held).reverse }

/-- one iteration of the `while (read_task_ustack(...) == 0)` loop -/
def laStep (c : RCfg) (s : LA) (r : Rec) : LA :=
  if !inRange c r.time then s else
  let tr : Trigger := if r.type = 0 ∨ r.type = 1 then c.trig r.addr else {}
  let thr := tr.time.getD (curThr c s.stack)
  if r.type = 0 then
    { s with held := r :: s.held,
             stack := if tr.time.isSome then { depth := r.depth, thr := thr } :: s.stack else s.stack }
  else if r.type = 1 then
    let stk := popTF r.depth s.stack
    match lastEntry s.held with
    | none => s.flush r stk                       -- "it's already exceeded time filter"
    | some e =>
      let filtered := decide (delta r e < thr) || (c.callerMode && !tr.caller)
      if filtered then
        if tr.trace then s.flush r stk
        else { s with held := dropToEntry s.held, stack := stk }
      else s.flush r stk
  else if r.type = 2 then
    if r.addr ≥ eventIdUser then s.flush r s.stack else { s with held := r :: s.held }
  else s.flush r s.stack                           -- LOST

/-- records as the command loops receive them from read_rstack (one task) -/
def lookahead (c : RCfg) (rs : List Rec) : List Rec :=
  let s := rs.foldl (laStep c) {}
  s.out ++ s.held.reverse

/-! ## 2. the entry/exit automaton -/

/-- struct uftrace_fstack (filter part) -/
structure Fr where
  origDepth : Nat
  filtered : Bool := false     -- FSTACK_FL_FILTERED
  notrace : Bool := false      -- FSTACK_FL_NOTRACE
  norecord : Bool := false     -- FSTACK_FL_NORECORD
  deriving DecidableEq, Repr

structure FS where
  inCount : Nat := 0           -- task->filter.in_count
  outCount : Nat := 0          -- task->filter.out_count
  depth : Nat                  -- task->filter.depth
  stack : List Fr := []        -- func_stack entries of the calls entered by this reader, innermost first
  sc : Nat := 0                -- task->stack_count
  scSet : Bool := false        -- task->fstack_set
  enabled : Bool := true       -- fstack_enabled
  dispDepth : Nat := 0         -- task->display_depth
  dispSet : Bool := true       -- task->display_depth_set
  deriving DecidableEq, Repr

/-- setup_task_handle -/
def FS.init (c : RCfg) : FS :=
  { depth := c.depthOpt, enabled := c.enabled0, dispSet := c.enabled0 && c.rangeStart == 0 }

/-- the func_stack slot an EXIT looks at: the innermost entered call, or a never used
    slot (flags 0, orig_depth = handle->depth) when the ENTRY was not seen -/
def topFr (c : RCfg) (s : FS) : Fr := s.stack.head?.getD { origDepth := c.depthOpt }

/-- fstack_account_time (stack_count part) + fstack_update_stack_count, for a consumed
    ENTRY/EXIT record; user events do not touch the count.  (The first record also
    re-assigns filter.depth = handle->depth, the value it still has.) -/
def account (s : FS) (r : Rec) : FS :=
  if r.type ≥ 2 then s else
  let sc0 := if s.scSet then s.sc else (if r.type = 1 then r.depth + 1 else r.depth)
  { s with sc := if r.type = 0 then sc0 + 1 else sc0 - 1, scSet := true }

def locReject (c : RCfg) (tr : Trigger) : Bool :=
  match tr.loc with
  | some m => !m
  | none => c.locIn

/-- where fstack_entry returns: the `return -1`s in source order, or the final `return 0` -/
inductive Verdict where
  | outRegion     -- filter.out_count > 0
  | notrace       -- TRIGGER_FL_FILTER with FILTER_MODE_OUT
  | optOut        -- opt-in mode and no enclosing -F match
  | locOut        -- location filter
  | traceOff      -- !fstack_enabled (no NORECORD flag)
  | depthOut      -- filter.depth <= 0, or TRIGGER_FL_HIDE
  | accept
  deriving DecidableEq, Repr

def isIn (tr : Trigger) : Bool := tr.filter == some true

/-- filter.depth after the FILTER (-F: "restore default filter depth") and DEPTH trigger updates -/
def depthAfter (c : RCfg) (s : FS) (tr : Trigger) : Nat :=
  tr.depth.getD (if isIn tr then c.depthOpt else s.depth)

/-- fstack_enabled after the TRACE_ON / TRACE_OFF updates -/
def enAfter (tr : Trigger) (en : Bool) : Bool :=
  if tr.traceOff then false else if tr.traceOn then true else en

def verdict (c : RCfg) (s : FS) (addr : Nat) : Verdict :=
  if s.outCount > 0 then .outRegion else
  if (c.trig addr).filter = some false then .notrace else
  if !isIn (c.trig addr) && c.optIn && s.inCount = 0 then .optOut else
  if locReject c (c.trig addr) then .locOut else
  if !enAfter (c.trig addr) s.enabled then .traceOff else
  if depthAfter c s (c.trig addr) = 0 || c.hide addr then .depthOut else .accept

/-- the FILTER_MODE_IN update was reached -/
def Verdict.matched : Verdict → Bool
  | .outRegion | .notrace | .optOut => false
  | _ => true

/-- the location check was passed (DEPTH / TRACE_ON / TRACE_OFF updates were made) -/
def Verdict.late : Verdict → Bool
  | .traceOff | .depthOut | .accept => true
  | _ => false

def Verdict.norecord : Verdict → Bool
  | .traceOff | .accept => false
  | _ => true

/-- fstack_entry (stack_count already increased); the Bool is `ret == 0`.
    Written field by field; `verdict` follows the source order of the returns. -/
def fsEntry (c : RCfg) (s : FS) (addr : Nat) : FS × Bool :=
  let v := verdict c s addr
  let tr := c.trig addr
  let ds := if v.late && tr.traceOff then false else s.dispSet
  ({ s with
      inCount := if v.matched && isIn tr then s.inCount + 1 else s.inCount,
      outCount := if v = .notrace then s.outCount + 1 else s.outCount,
      depth := if v.late then (if v = .accept then depthAfter c s tr - 1 else depthAfter c s tr)
               else if v.matched && isIn tr then c.depthOpt else s.depth,
      enabled := if v.late then enAfter tr s.enabled else s.enabled,
      dispSet := if v = .accept then true else ds,
      dispDepth := if v = .accept && !ds then s.sc - 1 else s.dispDepth,
      stack := { origDepth := s.depth, filtered := v.matched && isIn tr, notrace := v == .notrace,
                 norecord := v.norecord } :: s.stack },
   v == .accept)

/-- fstack_exit (stack_count already decreased) -/
def fsExit (c : RCfg) (s : FS) : FS :=
  let fr := topFr c s
  { s with inCount := if fr.filtered then s.inCount - 1 else s.inCount,
           outCount := if !fr.filtered && fr.notrace then s.outCount - 1 else s.outCount,
           depth := fr.origDepth, stack := s.stack.tail }

/-- fstack_update(UFTRACE_ENTRY) -/
def updEntry (s : FS) : FS := { s with dispDepth := s.dispDepth + 1 }

/-- fstack_update(UFTRACE_EXIT) -/
def updExit (s : FS) : FS :=
  { s with dispDepth := (if s.dispSet then s.dispDepth else s.sc + 1) - 1, dispSet := true }

/-- a shown record: time, type and address of the record, at the display depth -/
def shown (r : Rec) (d : Nat) : Rec := { r with depth := d }

def isPlt (c : RCfg) (r : Rec) : Bool := c.noLibcall && c.plt r.addr

/-- what an EXIT record does in every loop: shown iff tracing is on and the slot is not NORECORD -/
def exitStep (c : RCfg) (s : FS) (r : Rec) (quiet : Bool) : FS × List Rec :=
  if (topFr c s).norecord || !s.enabled then (fsExit c s, []) else
  let s1 := updExit s
  (fsExit c s1, if quiet then [] else [shown r s1.dispDepth])

/-- report / graph / dump (--chrome, --flame-graph, …) / tui: fstack_check_filter, the
    command's own work, fstack_check_filter_done. With --no-libcall the PLT function is
    filtered like any other and only its output is suppressed. -/
def stepA (c : RCfg) (s0 : FS) (r : Rec) : FS × List Rec :=
  let s := account s0 r
  if r.type = 0 then
    let p := fsEntry c s r.addr
    if p.2 then (updEntry p.1, if isPlt c r then [] else [shown r p.1.dispDepth]) else (p.1, [])
  else if r.type = 1 then exitStep c s r (isPlt c r)
  else (s, [])

/-- a hidden --no-libcall PLT record after the repair (`pltFixed`): fstack_entry / fstack_exit
    run, nothing is shown and the display depth is left alone -/
def stepHidden (c : RCfg) (s : FS) (r : Rec) : FS :=
  if r.type = 0 then (fsEntry c s r.addr).1 else if r.type = 1 then fsExit c s else s

/-- script: with --no-libcall a PLT record is dropped before fstack_entry/fstack_exit
    (`pltFixed`: it is filtered like any other record and only not passed to the script) -/
def stepC (c : RCfg) (s0 : FS) (r : Rec) : FS × List Rec :=
  let s := account s0 r
  if isPlt c r then (if c.pltFixed then stepHidden c s r else s, []) else
  if r.type = 0 then
    let p := fsEntry c s r.addr
    if p.2 then (updEntry p.1, [shown r p.1.dispDepth]) else (p.1, [])
  else if r.type = 1 then exitStep c s r false
  else (s, [])

def runSteps (step : FS → Rec → FS × List Rec) : FS → List Rec → List Rec
  | _, [] => []
  | s, r :: rest => (step s r).2 ++ runSteps step (step s r).1 rest

/-- fstack_check_skip == -1 (called before the record is consumed) -/
def checkSkip (c : RCfg) (s : FS) (r : Rec) : Bool :=
  if s.outCount > 0 then true else
  if r.type = 1 then (if s.sc < 1 then false else (topFr c s).norecord) else
  let tr : Trigger := if r.type = 0 then c.trig r.addr else {}
  if tr.filter = some false then true else
  let isIn : Bool := tr.filter == some true
  let depth := if isIn then c.depthOpt else s.depth
  if !isIn && tr.loc.isNone && (c.optIn || c.locIn) && s.inCount = 0 then true else
  if tr.depth.isSome || tr.traceOn then false else
  tr.traceOff || (r.type = 0 && c.hide r.addr) || depth = 0

/-- replay: state of print_graph_rstack; `pend` is an accepted ENTRY (with the depth to
    print it at) for which fstack_skip is still looking for the next unfiltered record -/
structure RS where
  fs : FS
  pend : Option (Rec × Nat) := none

/-- the main-loop part of print_graph_rstack for one record -/
def stepBmain (c : RCfg) (s0 : FS) (r : Rec) : RS × List Rec :=
  let s := account s0 r
  if isPlt c r then ({ fs := if c.pltFixed then stepHidden c s r else s }, []) else
  if r.type = 0 then
    let p := fsEntry c s r.addr
    if !p.2 then ({ fs := p.1 }, []) else
    if c.noMerge then ({ fs := updEntry p.1 }, [shown r p.1.dispDepth])
    else ({ fs := p.1, pend := some (r, p.1.dispDepth) }, [])
  else if r.type = 1 then
    let q := exitStep c s r false
    ({ fs := q.1 }, q.2)
  else ({ fs := s }, [])

def stepB (c : RCfg) (s : RS) (r : Rec) : RS × List Rec :=
  match s.pend with
  | none => stepBmain c s.fs r
  | some (e, d) =>
    if r.depth ≤ e.depth then
      -- fstack_skip stops at a record that is not below the ENTRY
      if r.type = 1 && r.depth == e.depth then
        -- leaf: the EXIT is consumed here, "fstack_update() is not needed"
        ({ fs := fsExit c (account s.fs r) }, [shown e d, shown r d])
      else
        let q := stepBmain c (updEntry s.fs) r
        (q.1, shown e d :: q.2)
    else if r.type = 3 then
      let q := stepBmain c (updEntry s.fs) r
      (q.1, shown e d :: q.2)
    else if (isPlt c r && r.type ≤ 1) || checkSkip c s.fs r then
      -- "consume the filtered rstack", then fstack_entry/fstack_exit with the result ignored
      let s1 := account s.fs r
      let s2 := if r.type = 0 then (fsEntry c s1 r.addr).1 else if r.type = 1 then fsExit c s1 else s1
      if !s2.enabled then ({ fs := updEntry s2 }, [shown e d]) else ({ fs := s2, pend := some (e, d) }, [])
    else
      let q := stepBmain c (updEntry s.fs) r
      (q.1, shown e d :: q.2)

def runB (c : RCfg) : RS → List Rec → List Rec
  | s, [] => match s.pend with | some (e, d) => [shown e d] | none => []
  | s, r :: rest => (stepB c s r).2 ++ runB c (stepB c s r).1 rest

inductive Cmd where | replay | report | graph | dump | script
  deriving DecidableEq, Repr

/-- the calls a command shows for one task's record file -/
def cmdOut (c : RCfg) : Cmd → List Rec → List Rec
  | .replay, rs => runB c { fs := FS.init c } (lookahead c rs)
  | .script, rs => runSteps (stepC c) (FS.init c) (lookahead c rs)
  | _, rs => runSteps (stepA c) (FS.init c) (lookahead c rs)

/-- raw `uftrace dump` (do_dump_file): reads the task file directly, so only the time
    range and the entry/exit automaton apply — not the look-ahead (-t, -C) -/
def outDumpRaw (c : RCfg) (rs : List Rec) : List Rec :=
  runSteps (stepA c) (FS.init c) (rs.filter fun r => inRange c r.time)

/-! ## 4. several tasks (threads) in one data directory

`fstack_enabled` is one global switch; everything else is per task.  read_user_stack hands out
the record with the smallest time stamp among the heads of the per-task look-ahead lists
(lowest task index on ties).  No theorems here: validated by the correspondence run only. -/

/-- index of the stream whose head has the smallest time stamp (strict `<`: lowest index on ties) -/
def pickMin : List (List Rec) → Nat → Option (Nat × Nat) → Option Nat
  | [], _, best => best.map (·.1)
  | [] :: rest, i, best => pickMin rest (i + 1) best
  | (r :: _) :: rest, i, best =>
    match best with
    | none => pickMin rest (i + 1) (some (i, r.time))
    | some (j, t) => if r.time < t then pickMin rest (i + 1) (some (i, r.time)) else pickMin rest (i + 1) (some (j, t))

def popAt : List (List Rec) → Nat → Option (Rec × List (List Rec))
  | [], _ => none
  | l :: rest, 0 => match l with | [] => none | r :: l' => some (r, l' :: rest)
  | l :: rest, i + 1 => (popAt rest i).map fun p => (p.1, l :: p.2)

def mergeFuel : Nat → List (List Rec) → List (Nat × Rec)
  | 0, _ => []
  | n + 1, ss =>
    match pickMin ss 0 none with
    | none => []
    | some i =>
      match popAt ss i with
      | none => []
      | some (r, ss') => (i, r) :: mergeFuel n ss'

def mergeStreams (ss : List (List Rec)) : List (Nat × Rec) :=
  mergeFuel (ss.foldl (fun n l => n + l.length) 0) ss

/-- write the global switch into every task's copy -/
def syncEn (en : Bool) (ts : List FS) : List FS := ts.map fun s => { s with enabled := en }

def tagged (i : Nat) (rs : List Rec) : List (Nat × Rec) := rs.map fun r => (i, r)

/-- a per-record loop (report/graph/dump, script) over the merged stream -/
def stepM (step : FS → Rec → FS × List Rec) (ts : List FS) (i : Nat) (r : Rec) : List FS × List (Nat × Rec) :=
  match ts[i]? with
  | none => (ts, [])
  | some s => let p := step s r; (syncEn p.1.enabled (ts.set i p.1), tagged i p.2)

def runM (step : FS → Rec → FS × List Rec) : List FS → List (Nat × Rec) → List (Nat × Rec)
  | _, [] => []
  | ts, (i, r) :: rest => (stepM step ts i r).2 ++ runM step (stepM step ts i r).1 rest

/-- replay over several tasks: the pending ENTRY belongs to task `j`; fstack_skip also looks at, and
    consumes, filtered records of the other tasks -/
structure RSM where
  ts : List FS
  pend : Option (Nat × Rec × Nat) := none

def mainBM (c : RCfg) (ts : List FS) (i : Nat) (r : Rec) : RSM × List (Nat × Rec) :=
  match ts[i]? with
  | none => ({ ts := ts }, [])
  | some s =>
    let q := stepBmain c s r
    ({ ts := syncEn q.1.fs.enabled (ts.set i q.1.fs), pend := q.1.pend.map fun p => (i, p.1, p.2) }, tagged i q.2)

/-- print the pending line of task `j` and do its fstack_update(ENTRY) -/
def flushBM (ts : List FS) (j : Nat) : List FS :=
  match ts[j]? with
  | none => ts
  | some s => ts.set j (updEntry s)

def stepBM (c : RCfg) (s : RSM) (i : Nat) (r : Rec) : RSM × List (Nat × Rec) :=
  match s.pend with
  | none => mainBM c s.ts i r
  | some (j, e, d) =>
    match s.ts[i]? with
    | none => (s, [])
    | some fi =>
      let brk : Bool := i == j && decide (r.depth ≤ e.depth)
      if brk && r.type = 1 && r.depth == e.depth then
        ({ ts := s.ts.set i (fsExit c (account fi r)) }, [(j, shown e d), (i, shown r d)])
      else if brk || r.type = 3 || !((isPlt c r && r.type ≤ 1) || checkSkip c fi r) then
        let q := mainBM c (flushBM s.ts j) i r
        (q.1, (j, shown e d) :: q.2)
      else
        let s1 := account fi r
        let s2 := if r.type = 0 then (fsEntry c s1 r.addr).1 else if r.type = 1 then fsExit c s1 else s1
        let ts2 := syncEn s2.enabled (s.ts.set i s2)
        if !s2.enabled then ({ ts := flushBM ts2 j }, [(j, shown e d)]) else ({ ts := ts2, pend := some (j, e, d) }, [])

def runBM (c : RCfg) : RSM → List (Nat × Rec) → List (Nat × Rec)
  | s, [] => match s.pend with | some (j, e, d) => [(j, shown e d)] | none => []
  | s, (i, r) :: rest => (stepBM c s i r).2 ++ runBM c (stepBM c s i r).1 rest

/-- the calls a command shows for a data directory with several task files -/
def cmdOutM (c : RCfg) (cmd : Cmd) (files : List (List Rec)) : List (Nat × Rec) :=
  let merged := mergeStreams (files.map (lookahead c))
  let ts := files.map fun _ => FS.init c
  match cmd with
  | .replay => runBM c { ts := ts } merged
  | .script => runM (stepC c) ts merged
  | _ => runM (stepA c) ts merged

/-- raw dump walks the task files one after the other; the global switch carries over -/
def dumpRawM (c : RCfg) : Bool → Nat → List (List Rec) → List (Nat × Rec)
  | _, _, [] => []
  | en, i, f :: rest =>
    let p := run0 c { FS.init c with enabled := en } (f.filter fun r => inRange c r.time)
    tagged i p.2 ++ dumpRawM c p.1 (i + 1) rest
where
  run0 (c : RCfg) : FS → List Rec → Bool × List Rec
    | s, [] => (s.enabled, [])
    | s, r :: rs => let q := stepA c s r; let t := run0 c q.1 rs; (t.1, q.2 ++ t.2)

/-! ## 3. the documented selection, on call trees -/

/-- -t / time= / trace / -C on call trees: a call stays iff it ran at least the active
    threshold (and is a -C function, when -C is given), or has the trace trigger, or a
    call below it stays.  `strict` = the record-time comparison (`>`). -/
def keepDur (strict : Bool) (dur thr : Nat) : Bool := if strict then decide (dur > thr) else decide (dur ≥ thr)

def Calls.isNil : Calls → Bool
  | .nil => true
  | .cons _ _ => false

mutual
  def pruneCall (c : RCfg) (strict : Bool) (thr : Nat) : Call → Option Call
    | .node f t0 t1 kids =>
      let tr := c.trig f
      let thr' := tr.time.getD thr
      let ks := pruneCalls c strict thr' kids
      if (keepDur strict (t1 - t0) thr' && (!c.callerMode || tr.caller)) || tr.trace || !Calls.isNil ks
      then some (.node f t0 t1 ks) else none
  def pruneCalls (c : RCfg) (strict : Bool) (thr : Nat) : Calls → Calls
    | .nil => .nil
    | .cons x rest =>
      match pruneCall c strict thr x with
      | some x' => .cons x' (pruneCalls c strict thr rest)
      | none => pruneCalls c strict thr rest
end

/-- the lexically scoped filter environment: what a call's callees inherit -/
structure Env where
  inC : Nat := 0        -- enclosing -F hits
  outC : Nat := 0       -- enclosing -N hits
  budget : Nat          -- remaining depth
  deriving DecidableEq, Repr

/-- is the call shown, and the environment of its callees (tracing on; no trace_on/off) -/
def visit (c : RCfg) (E : Env) (f : Nat) : Bool × Env :=
  if E.outC > 0 then (false, E) else
  let tr := c.trig f
  if tr.filter = some false then (false, { E with outC := E.outC + 1 }) else
  let isIn : Bool := tr.filter == some true
  if !isIn && c.optIn && E.inC = 0 then (false, E) else
  let E1 : Env := if isIn then { E with inC := E.inC + 1, budget := c.depthOpt } else E
  if locReject c tr then (false, E1) else
  let b2 := tr.depth.getD E1.budget
  if b2 = 0 || c.hide f then (false, { E1 with budget := b2 }) else (true, { E1 with budget := b2 - 1 })

mutual
  /-- shown records of a call whose nearest shown ancestors number `d` -/
  def specCall (c : RCfg) (E : Env) (d : Nat) : Call → List Rec
    | .node f t0 t1 kids =>
      let v := visit c E f
      if v.1 then
        [{ time := t0, type := 0, depth := d, addr := f }] ++ specCalls c v.2 (d + 1) kids ++
        [{ time := t1, type := 1, depth := d, addr := f }]
      else specCalls c v.2 d kids
  def specCalls (c : RCfg) (E : Env) (d : Nat) : Calls → List Rec
    | .nil => []
    | .cons x rest => specCall c E d x ++ specCalls c E d rest
end

def Env.init (c : RCfg) : Env := { budget := c.depthOpt }

/-- the documented result of an analysis command with the options of `c` on a forest -/
def spec (c : RCfg) (strict : Bool) (cs : Calls) : List Rec :=
  specCalls c (Env.init c) 0 (pruneCalls c strict c.threshold cs)

end Uft.Fstack
