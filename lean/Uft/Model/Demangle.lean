import Uft.Gen.DemangleTables
/-!
# C13 — executable model of the "simple" demangler of `utils/demangle.c`

A line-by-line port of `demangle_simple()` and the `dd_*` grammar functions.

* The input is a C string: a byte array `s` without NUL; index `s.size` is the
  terminating NUL and is a *legal* read, every index beyond is out of bounds.
  All reads of the input go through `Env.rd`, which yields `none` beyond the NUL;
  `none` is turned into the distinguished result `Res.crash .oob`.
* `dd->pos`, `dd->len` are `Nat`s.  The two places that decrement `pos`
  (`DD_DEBUG(.., -k)` and the `pos--` of `DD_DEBUG_CONSUME`) report
  `Res.crash .negPos` if the C `int` would become negative (the next read
  would be `old[-1]`).
* `dd->new` is `Option (List UInt8)`: `none` is the NULL pointer before the first
  append; the realloc growth is abstracted.
* `dd->level/type/templates` are `Int`s, `type_info/first_name/ignore_disc` `Bool`s,
  `dd->expected` is only observed as NULL/non-NULL (`expected : Bool`).
  `dd->func/line/debug[]/nr_dbg` only feed the debug print and are not modelled.
* The grammar functions are mutually recursive in C.  Here every grammar
  function and every `while` loop that calls a grammar function is a constructor
  of `Fn`; `body rec f` is the (non-recursive) body of `f` with the recursive
  calls going through `rec`; `run fuel f` ties the knot by structural recursion
  on `fuel` (= bound on the depth of the call/iteration chain).
* `Fixes` selects, per finding, the code as it is in the tree (`false`) or the
  minimal repair (`true`): F10, F10b, F10c, F10d, F10e, F10g (see `Props/C13.lean`).
  `Fixes.none` = the unchanged tree, `Fixes.all` = all repairs applied.
-/
namespace Uft.Demangle
open Uft.Gen.DemangleTables

open Lean in
/-- `ch%'x'`: the byte value of an ASCII character literal, as a numeral -/
macro:max "ch%" c:char : term => do
  let n := c.getChar.toNat
  if n ≥ 128 then Macro.throwUnsupported
  `(($(Syntax.mkNumLit (toString n)) : UInt8))

open Lean in
/-- `bs%"text"`: the bytes of an ASCII string literal, as a list of numerals -/
macro:max "bs%" s:str : term => do
  let elems := s.getString.toList.toArray.map fun ch => Syntax.mkNumLit (toString ch.toNat)
  `(([$elems,*] : List UInt8))

/-- Distinguished abnormal terminations of the C code. -/
inductive Crash
  | oob          -- read of `old[i]` with `i` beyond the terminating NUL
  | negPos       -- `dd->pos` would become negative
  | nullDeref    -- F10: `strrchr(dd->new, ':')` with `dd->new == NULL`
  | tableOob     -- F10b: `T_type_name[6]`
  | intOverflow  -- F10d: signed overflow of `dd->pos + num` / `n + 1`
  | negSize      -- F10e: `dd_append_len` with a negative size (strncpy of ~SIZE_MAX bytes)
  deriving DecidableEq, Repr

/-- Which of the repairs are applied (one flag per finding). -/
structure Fixes where
  ctorNull : Bool   -- F10 : dd_ctor_dtor_name fails when nothing was appended yet (dd->new == NULL)
  tTypeNul : Bool   -- F10b: dd_special_name: `c1 && strchr(T_type, c1)`
  dTypeNul : Bool   -- F10c: dd_type: `c && strchr(D_types, c)`
  intOvf : Bool     -- F10d: dd_source_name: `num > dd->len - dd->pos`; lambda number printed unsigned
  rustSpan : Bool   -- F10e: dd_source_name: a `$code$` must lie inside the name
  nullRet : Bool    -- F10g: demangle_simple falls back to the input when dd.new == NULL
  discDigit : Bool  -- F10i: dd_discriminator: "_ <digit>" is exactly one digit
  floatLit : Bool   -- F10k: dd_expr_primary: skip the lowercase hex digits of a floating-point literal
  exprOps : Bool    -- F10j: dd_expression: `dv`, `cm` are binary, `co` is unary, `nw`/`na` are new-expressions
  deriving DecidableEq, Repr

def Fixes.all : Fixes := ⟨true, true, true, true, true, true, true, true, true⟩
def Fixes.none : Fixes := ⟨false, false, false, false, false, false, false, false, false⟩

structure Env where
  s : Array UInt8
  fx : Fixes

/-- strlen of the input -/
def Env.n (e : Env) : Nat := e.s.size

/-- `old[i]`: the byte, the NUL at index `n`, or `none` (out of bounds). -/
def Env.rd (e : Env) (i : Nat) : Option UInt8 :=
  if h : i < e.s.size then some e.s[i] else if i = e.s.size then some 0 else none

structure St where
  pos : Nat
  len : Nat
  out : Option (List UInt8) := none
  level : Int := 0
  type : Int := 0
  templates : Int := 0
  typeInfo : Bool := false
  firstName : Bool := true
  ignoreDisc : Bool := false
  expected : Bool := false
  deriving Repr

inductive Res (α : Type)
  | ok (a : α) (st : St)
  | crash (k : Crash)
  | fuel

abbrev M (α : Type) := Env → St → Res α

@[inline] def M.pure {α} (a : α) : M α := fun _ st => .ok a st
@[inline] def M.bind {α β} (m : M α) (f : α → M β) : M β := fun e st =>
  match m e st with
  | .ok a st' => f a e st'
  | .crash k => .crash k
  | .fuel => .fuel

instance : Monad M where
  pure := M.pure
  bind := M.bind

/-! ## primitives -/

def getSt : M St := fun _ st => .ok st st
def modifySt (f : St → St) : M Unit := fun _ st => .ok () (f st)
def getEnv : M Env := fun e st => .ok e st
def crash {α} (k : Crash) : M α := fun _ _ => .crash k
def getFixes : M Fixes := fun e st => .ok e.fx st

/-- direct read `dd->old[i]` -/
def rdAt (i : Nat) : M UInt8 := fun e st =>
  match e.rd i with
  | some b => .ok b st
  | none => .crash .oob

/-- `dd_eof` -/
def eof : M Bool := fun _ st => .ok (decide (st.pos ≥ st.len)) st

/-- `dd_peek(dd, k)` -/
def peek (k : Nat) : M UInt8 := fun e st =>
  if st.pos + k > st.len then .ok 0 st
  else match e.rd (st.pos + k) with
    | some b => .ok b st
    | none => .crash .oob

/-- `dd_curr` -/
def curr : M UInt8 := peek 0

/-- `__dd_consume_n(dd, k)`: returns the current char and advances, or returns 0
    without advancing when fewer than `k` chars are left. -/
def consumeN (k : Nat) : M UInt8 := do
  let c ← curr
  let st ← getSt
  if st.pos + k > st.len then return 0
  modifySt fun st => { st with pos := st.pos + k }
  return c

def consume : M UInt8 := consumeN 1

/-- `dd->pos -= k` (part of DD_DEBUG / DD_DEBUG_CONSUME) -/
def posBack (k : Nat) : M Unit := fun _ st =>
  if st.pos < k then .crash .negPos else .ok () { st with pos := st.pos - k }

/-- `DD_DEBUG(dd, exp, -k)`: `pos -= k; expected = exp;` (the caller returns -1) -/
def ddDebug (k : Nat) : M Unit := do
  posBack k
  modifySt fun st => { st with expected := true }

/-- `DD_DEBUG_CONSUME(dd, c)` / `__DD_DEBUG_CONSUME(dd, c)`: `true` = matched;
    `false` = the macro executed `return -1`. -/
def debugConsume (c : UInt8) : M Bool := do
  let x ← consume
  if x == c then return true
  let st ← getSt
  if !st.expected then
    posBack 1
    modifySt fun st => { st with expected := true }
  return false

/-- `dd_append_len(dd, str, size)` for a source that has `size` non-NUL bytes -/
def appendBytes (bs : List UInt8) : M Unit :=
  modifySt fun st => { st with out := some (st.out.getD [] ++ bs) }

/-- bytes `old[i .. i+k)` read one by one -/
def readRange : Nat → Nat → M (List UInt8)
  | _, 0 => pure []
  | i, k + 1 => do
    let b ← rdAt i
    let r ← readRange (i + 1) k
    return b :: r

/-- `dd_append_len(dd, &dd->old[i], k)` -/
def appendFrom (i k : Nat) : M Unit := do
  let bs ← readRange i k
  appendBytes bs

/-- `dd_append_separator` -/
def appendSeparator (bs : List UInt8) : M Unit := do
  let st ← getSt
  if !st.firstName then appendBytes bs
  modifySt fun st => { st with firstName := false }

def incLevel : M Unit := modifySt fun st => { st with level := st.level + 1 }
def decLevel : M Unit := modifySt fun st => { st with level := st.level - 1 }
def incType : M Unit := modifySt fun st => { st with type := st.type + 1 }
def decType : M Unit := modifySt fun st => { st with type := st.type - 1 }

/-! ## C library helpers on `char` values -/


def isDigit (c : UInt8) : Bool := 48 ≤ c && c ≤ 57
def isUpper (c : UInt8) : Bool := 65 ≤ c && c ≤ 90
def isLower (c : UInt8) : Bool := 97 ≤ c && c ≤ 122
def isXDigit (c : UInt8) : Bool := isDigit c || (65 ≤ c && c ≤ 70) || (97 ≤ c && c ≤ 102)

/-- `strchr(set, c) != NULL`: note that `c == '\0'` finds the terminator. -/
def strchrB (set : List UInt8) (c : UInt8) : Bool := c == 0 || set.contains c

def colon2 : List UInt8 := [58, 58]

/-- value of a digit in base ≤ 16 (strtoul) -/
def digitVal (c : UInt8) : Option Nat :=
  if isDigit c then some (c.toNat - 48)
  else if 97 ≤ c && c ≤ 102 then some (c.toNat - 87)
  else if 65 ≤ c && c ≤ 70 then some (c.toNat - 55)
  else none

/-- scan digits of `base` from index `i`: (value, index after the last digit).
    `k` bounds the scan (number of bytes up to the NUL). -/
def scanDigits (e : Env) (base : Nat) : Nat → Nat → Nat → Nat × Nat
  | 0, i, acc => (acc, i)
  | k + 1, i, acc =>
    match e.rd i with
    | some c =>
      match digitVal c with
      | some d => if d < base then scanDigits e base k (i + 1) (acc * base + d) else (acc, i)
      | none => (acc, i)
    | none => (acc, i)

/-- `(int)strtoul(&old[i], &end, 0)` (glibc 2.36, 64-bit unsigned long) where `old[i]`
    is a decimal digit: returns (value as C int, index of `end`). -/
def strtoul0 (e : Env) (i : Nat) : Int × Nat :=
  let c0 := (e.rd i).getD 0
  let c1 := (e.rd (i + 1)).getD 0
  let c2 := if c1 == 0 then 0 else (e.rd (i + 2)).getD 0
  let (v, j) :=
    if c0 == 48 && (c1 == 120 || c1 == 88) then
      (match digitVal c2 with
       | some _ => scanDigits e 16 (e.n + 1 - i) (i + 2) 0
       | none => (0, i + 1))
    else if c0 == 48 then scanDigits e 8 (e.n + 1 - i) i 0
    else scanDigits e 10 (e.n + 1 - i) i 0
  let v : Nat := if v ≥ 2 ^ 64 then 2 ^ 64 - 1 else v
  let w : Nat := v % 2 ^ 32
  ((if w ≥ 2 ^ 31 then (w : Int) - 2 ^ 32 else (w : Int)), j)

/-- `snprintf("%d")` -/
def decimal (n : Nat) : List UInt8 := (Nat.toDigits 10 n).map fun c => c.toNat.toUInt8

def showInt (i : Int) : List UInt8 :=
  if i < 0 then 45 :: decimal i.natAbs else decimal i.toNat

/-! ## leaf grammar functions (no recursion into the grammar) -/

/-- `dd_number`: returns the C int (may be negative after truncation), -1 on error -/
def number : M Int := do
  if (← eof) then return -1
  let st ← getSt
  let mut i := st.pos
  let c ← rdAt i
  if c == ch%'n' then
    i := i + 1
    modifySt fun st => { st with pos := st.pos + 1 }
  let d ← rdAt i
  if !isDigit d then
    ddDebug 0
    return -1
  let e ← getEnv
  let (num, j) := strtoul0 e i
  modifySt fun st => { st with pos := st.pos + (j - i) }
  return num

/-- the scan loop of `dd_seq_id`: `while (isdigit(c) || isupper(c)) c = old[++pos]` -/
def seqScan : Nat → UInt8 → M Unit
  | 0, _ => pure ()
  | k + 1, c => do
    if isDigit c || isUpper c then
      modifySt fun st => { st with pos := st.pos + 1 }
      let st ← getSt
      let c ← rdAt st.pos
      seqScan k c
    else pure ()

/-- `dd_seq_id` -/
def seqId : M Int := do
  let c ← curr
  if (← eof) then return -1
  let e ← getEnv
  seqScan (e.n + 1) c
  return 0

/-- `dd_call_offset` -/
def callOffset : M Int := do
  let c ← curr
  if (← eof) then return -1
  if c == ch%'h' then
    let _ ← consume
    if (← number) < 0 then return -1
    if !(← debugConsume ch%'_') then return -1
    return 0
  if c == ch%'v' then
    let _ ← consume
    if (← number) < 0 then return -1
    if !(← debugConsume ch%'_') then return -1
    if (← number) < 0 then return -1
    if !(← debugConsume ch%'_') then return -1
    return 0
  return -1

/-- `dd_qualifier` -/
def qualifier : M Int := do
  let c ← curr
  if (← eof) then return -1
  if strchrB qualQualifier c then
    let _ ← consume
  return 0

/-- index of the first `c` at or after `i` (`strchr(&old[i], c)`), `none` = NULL -/
def findByte (c : UInt8) : Nat → Nat → M (Option Nat)
  | 0, _ => pure none
  | k + 1, i => do
    let b ← rdAt i
    if b == c then return some i
    if b == 0 then return none
    findByte c k (i + 1)

/-- index of the first ".." at or after `i` (`strstr(&old[i], "..")`) -/
def findDotDot : Nat → Nat → M (Option Nat)
  | 0, _ => pure none
  | k + 1, i => do
    let b ← rdAt i
    if b == 0 then return none
    if b == 46 then
      let b1 ← rdAt (i + 1)
      if b1 == 46 then return some i
    findDotDot k (i + 1)

/-- `strncmp(code, &old[i], strlen(code)) == 0` (stops at the first mismatch, so the
    NUL is never passed) -/
def matchAt : List UInt8 → Nat → M Bool
  | [], _ => pure true
  | c :: cs, i => do
    let b ← rdAt i
    if b != c then return false
    matchAt cs (i + 1)

/-- `strncmp(code, &old[i], strlen(code)) == 0` for a *pointer that may already be
    past the NUL* is not needed: all callers start at an index ≤ n. -/
def asTrait : List UInt8 := [36, 117, 50, 48, 36, 97, 115, 36, 117, 50, 48, 36] -- "$u20$as$u20$"

/-- `dd_append_len(dd, &old[p], num)` with a possibly negative C `int num` (pre-fix
    code only: F10e).  size ≤ -2: strncpy with a huge count; size = -1: `newpos--`. -/
def appendFromInt (p : Nat) (num : Int) : M Unit := do
  if num ≥ 0 then appendFrom p num.toNat
  else if num ≤ -2 then crash .negSize
  else
    let st ← getSt
    match st.out with
    | none => crash .negSize
    | some o => if o.isEmpty then crash .negSize else modifySt fun st => { st with out := some o.dropLast }

/-- `__dd_consume_n(dd, num, NULL)` with a C int that may be negative (pre-fix only) -/
def consumeInt (num : Int) : M Unit := do
  if num ≥ 0 then
    let _ ← consumeN num.toNat
  else
    let st ← getSt
    -- pos + num > len is false for negative num: pos += num
    if st.pos < num.natAbs then crash .negPos
    else modifySt fun st => { st with pos := st.pos - num.natAbs }

/-- the inner `while (true)` of dd_source_name: split at ".." up to `dollar` -/
def dotLoop (dollar : Nat) : Nat → Nat → M Nat
  | 0, sep => pure sep
  | k + 1, sep => do
    let e ← getEnv
    match (← findDotDot (e.n + 1) sep) with
    | none => return sep
    | some upd =>
      if upd > dollar then return sep
      appendFrom sep (upd - sep)
      appendSeparator colon2
      dotLoop dollar k (upd + 2)

/-- try the rust mappings in order at `dollar`; returns the mapping that matches
    (`strncmp(code, dollar + 1, strlen(code)) == 0`). `fixed`: the whole `$code$`
    must lie inside the name (`dollar + strlen(code) + 2 <= end`). -/
def findMapping (fixed : Bool) (dollar endp : Nat) : List (List UInt8 × List UInt8) → M (Option (List UInt8 × List UInt8))
  | [] => pure none
  | (code, punc) :: rest => do
    if fixed && dollar + code.length + 2 > endp then findMapping fixed dollar endp rest
    else if (← matchAt code (dollar + 1)) then return some (code, punc)
    else findMapping fixed dollar endp rest

/-- the `while (dollar != NULL && dollar < end)` loop of dd_source_name.
    `p` is the C pointer `p` as an index (it runs ahead of `pos` only in the
    pre-fix code, when a consume fails). Returns the final `p`. -/
def dollarLoop (endp : Nat) : Nat → Nat → Option Nat → M Nat
  | 0, p, _ => pure p
  | k + 1, p, dollar? => do
    match dollar? with
    | none => return p
    | some dollar =>
      if !(dollar < endp) then return p
      let e ← getEnv
      let sep ← dotLoop dollar (e.n + 1) p
      appendFrom sep (dollar - sep)
      match (← findMapping e.fx.rustSpan dollar endp rustMappings) with
      | none => return p
      | some (code, punc) =>
        let num0 : Nat := dollar - p
        let num : Nat ←
          (do if (← matchAt asTrait dollar) then
                appendBytes [62]
                pure (num0 + (endp - dollar))
              else
                appendBytes punc
                pure (num0 + code.length + 2))
        let _ ← consumeN num
        let p' := p + num
        -- `dollar = strchr(p, '$')`: p may be past the NUL in the pre-fix code
        let d ← findByte 36 (e.n + 1) p'
        dollarLoop endp k p' d

/-- `dd_source_name` -/
def sourceName : M Int := do
  let num ← number
  if num < 0 then return -1
  let e ← getEnv
  let st ← getSt
  if (← eof) then
    ddDebug 0
    return -1
  if !e.fx.intOvf && st.pos + num.toNat > 2147483647 then crash .intOverflow
  if st.pos + num.toNat > st.len then
    ddDebug 0
    return -1
  let n := num.toNat
  let plain : M Int := do   -- `out:` with add_name == false
    let _ ← consumeN n
    return 0
  if st.type != 0 && !st.typeInfo then plain
  else if st.templates != 0 then plain
  else
    -- Rust hash "17h<16 hex digits>"
    let isHash : Bool ←
      (do if n == 17 && (← rdAt st.pos) == ch%'h' then
            let bs ← readRange (st.pos + 1) 16
            pure (bs.all isXDigit)
          else pure false)
    if isHash then plain
    else
      appendSeparator colon2
      let p := st.pos
      match (← findByte 36 (e.n + 1) p) with
      | none =>
        appendFrom p n
        let _ ← consumeN n
        return 0
      | some dollar =>
        let endp := p + n
        if dollar > endp then
          appendFrom p n
          let _ ← consumeN n
          return 0
        let p' ← dollarLoop endp (e.n + 1) p (some dollar)
        let num' : Int := (endp : Int) - (p' : Int)
        appendFromInt p' num'
        consumeInt num'
        return 0

/-- `dd_abi_tag` -/
def abiTag : M Int := do
  if (← eof) then return -1
  if !(← debugConsume ch%'B') then return -1
  if (← sourceName) < 0 then return -1
  return 0

/-- `dd_substitution` -/
def substitution : M Int := do
  if (← eof) then return -1
  if !(← debugConsume ch%'S') then return -1
  let c ← curr
  match stdAbbrevs.find? (fun p => p.1 == c) with
  | some (_, name) =>
    let _ ← consume
    let st ← getSt
    if st.type == 0 || st.typeInfo then
      appendSeparator colon2
      appendBytes name
    if (← curr) == ch%'B' then
      let _ ← abiTag
    return 0
  | none =>
    let _ ← seqId
    if !(← debugConsume ch%'_') then return -1
    return 0

/-- `dd_function_param` -/
def functionParam : M Int := do
  let c0 ← consume
  let c1 ← consume
  if (← eof) then return -1
  if c0 != ch%'f' || (c1 != ch%'p' && c1 != ch%'L') then
    ddDebug 2
    return -1
  if isDigit (← curr) then
    let _ ← number
    if c1 == ch%'L' then
      if !(← debugConsume ch%'p') then return -1
  let _ ← qualifier
  if isDigit (← curr) then
    let _ ← number
  if !(← debugConsume ch%'_') then return -1
  return 0

/-- `dd_template_param` -/
def templateParam : M Int := do
  if (← eof) then return -1
  if !(← debugConsume ch%'T') then return -1
  let _ ← number
  if !(← debugConsume ch%'_') then return -1
  return 0

/-- `isxdigit(c) && !isupper(c)` -/
def isLowHex (c : UInt8) : Bool := isXDigit c && !isUpper c

/-- F10k repair in dd_expr_primary: `while (isxdigit(dd_curr(dd)) && !isupper(dd_curr(dd)))
    __dd_consume(dd, NULL);`.  `__dd_consume` does not advance at `pos == len`; the C loop would then
    spin forever, which is what running out of the fuel `n + 1` means here (`Res.fuel` = hang). -/
def hexSkip : Nat → M Unit
  | 0 => fun _ _ => .fuel
  | k + 1 => do
    if isLowHex (← curr) then
      let _ ← consume
      hexSkip k
    else pure ()

/-- `dd_discriminator` -/
def discriminator : M Int := do
  if (← eof) then return -1
  if !(← debugConsume ch%'_') then return -1
  let c ← curr
  if isDigit c then
    if (← getFixes).discDigit then
      -- F10i repaired: `__dd_consume(dd, NULL); return 0;`
      let _ ← consume
      return 0
    else
      return (if (← number) > 0 then 0 else -1)
  else if c == ch%'_' then
    let _ ← consume
    if (← number) < 0 then return -1
    if !(← debugConsume ch%'_') then return -1
  return 0

/-! ## the recursive grammar -/

inductive Fn
  | encoding | encLoop
  | name | localName
  | nestedName | nestedLoop
  | unqualifiedName | ulLoop
  | operatorName | ctorDtorName
  | type | typeLoop (ret : Int)
  | functionType | ftLoop (c : UInt8)
  | arrayType | ptrToMember | decltype | vectorType
  | templateArgs | argLoop | templateArg
  | expression | exprPrimary | exprList | exprListLoop | initializer | exprLoop
  | unresolvedName | unresLoop | baseUnresolvedName | destructorName | unresolvedType | simpleId
  | specialName
  deriving Repr

section body
variable (rec : Fn → M Int)

/-- `dd_initializer` -/
def bInitializer : M Int := do
  let c0 ← consume
  let c1 ← consume
  if (← eof) then return -1
  if c0 != ch%'p' || c1 != ch%'i' then
    ddDebug 2
    return -1
  incLevel
  if (← rec .exprLoop) < 0 then return -1
  if !(← debugConsume ch%'E') then return -1
  decLevel
  return 0

/-- `while (dd_curr(dd) != 'E') if (dd_expression(dd) < 0) return -1;` -/
def bExprLoop : M Int := do
  if (← curr) == ch%'E' then return 0
  if (← rec .expression) < 0 then return -1
  rec .exprLoop

/-- `while (dd_curr(dd) != 'E') if (dd_template_arg(dd) < 0) return -1;` -/
def bArgLoop : M Int := do
  if (← curr) == ch%'E' then return 0
  if (← rec .templateArg) < 0 then return -1
  rec .argLoop

/-- `dd_template_arg` -/
def bTemplateArg : M Int := do
  let c ← curr
  if (← eof) then return -1
  if c == ch%'X' then
    let _ ← consume
    incLevel
    let _ ← rec .expression
    if !(← debugConsume ch%'E') then return -1
    decLevel
  else if c == ch%'L' then
    if (← rec .exprPrimary) < 0 then return -1
  else if c == ch%'J' then
    let _ ← consume
    incLevel
    if (← rec .argLoop) < 0 then return -1
    if !(← debugConsume ch%'E') then return -1
    decLevel
  else
    if (← rec .type) < 0 then return -1
  return 0

/-- `dd_template_args` -/
def bTemplateArgs : M Int := do
  if (← eof) then return -1
  if !(← debugConsume ch%'I') then return -1
  modifySt fun st => { st with templates := st.templates + 1 }
  incLevel
  if (← rec .argLoop) < 0 then return -1
  if !(← debugConsume ch%'E') then return -1
  decLevel
  modifySt fun st => { st with templates := st.templates - 1 }
  return 0

/-- `dd_simple_id` -/
def bSimpleId : M Int := do
  if (← eof) then return -1
  if !isDigit (← curr) then
    ddDebug 1
    return -1
  if (← sourceName) < 0 then return -1
  if (← curr) == ch%'I' then return (← rec .templateArgs)
  return 0

/-- `dd_unresolved_type` -/
def bUnresolvedType : M Int := do
  let c ← curr
  if (← eof) then return -1
  if c == ch%'T' then return (← templateParam)
  if c == ch%'D' then return (← rec .decltype)
  if c == ch%'S' then
    if (← substitution) < 0 then return -1
    if (← curr) == ch%'I' then return (← rec .templateArgs)
    if isDigit (← curr) then return (← rec .unqualifiedName)
    return 0
  return -1

/-- `dd_destructor_name` -/
def bDestructorName : M Int := do
  let c ← curr
  if (← eof) then return -1
  if isDigit c then return (← sourceName)
  rec .unresolvedType

/-- `dd_base_unresolved_name` -/
def bBaseUnresolvedName : M Int := do
  let c0 ← curr
  let c1 ← peek 1
  if (← eof) then return -1
  if c0 == ch%'o' && c1 == ch%'n' then
    let _ ← consumeN 2
    if (← rec .operatorName) < 0 then return -1
    if (← curr) == ch%'I' then return (← rec .templateArgs)
    return 0
  if c0 == ch%'d' && c1 == ch%'n' then
    let _ ← consumeN 2
    return (← rec .destructorName)
  rec .simpleId

/-- the `while (c0 != 'E')` loop of dd_unresolved_name: 1 = the function returned 0
    from inside the loop (dd_simple_id failed), 0 = loop finished -/
def bUnresLoop : M Int := do
  if (← curr) == ch%'E' then return 0
  if (← rec .simpleId) < 0 then return 1
  rec .unresLoop

/-- dd_unresolved_name, the tail of the "sr" case (after the optional `N <type>`):
    the `while` over dd_simple_id, the closing 'E' and the base name -/
def bUnresSrTail : M Int := do
  if (← rec .unresLoop) != 0 then return 0
  if !(← debugConsume ch%'E') then return -1
  rec .baseUnresolvedName

/-- dd_unresolved_name after the optional "gs" (c0, c1 = the two current chars) -/
def bUnresAfterGs (c0 c1 : UInt8) : M Int := do
  if c0 == ch%'s' && c1 == ch%'r' then
    let _ ← consumeN 2
    let c0 ← curr
    if c0 == ch%'T' || c0 == ch%'D' || c0 == ch%'S' then
      if (← rec .type) < 0 then return -1
      if (← rec .baseUnresolvedName) < 0 then return -1
      if (← curr) == ch%'I' then
        let _ ← rec .templateArgs
      return 0
    if c0 == ch%'N' then
      let _ ← consume
      if (← rec .type) < 0 then return -1
      bUnresSrTail rec
    else bUnresSrTail rec
  else rec .baseUnresolvedName

/-- `dd_unresolved_name` -/
def bUnresolvedName : M Int := do
  let c0 ← curr
  let c1 ← peek 1
  if (← eof) then return -1
  if c0 == ch%'g' && c1 == ch%'s' then
    let _ ← consumeN 2
    let c0 ← curr
    let c1 ← peek 1
    bUnresAfterGs rec c0 c1
  else bUnresAfterGs rec c0 c1

/-- `dd_expr_primary` -/
def bExprPrimary : M Int := do
  if (← eof) then return -1
  if !(← debugConsume ch%'L') then return -1
  incType
  incLevel
  if (← curr) == ch%'_' && (← peek 1) == ch%'Z' then
    let _ ← consumeN 2
    if (← rec .encoding) < 0 then return -1
    if !(← debugConsume ch%'E') then return -1
    decLevel
    decType
    return 0
  let _ ← rec .type
  let _ ← number
  if (← getFixes).floatLit then
    hexSkip ((← getEnv).n + 1)
  if (← curr) == ch%'_' then
    let _ ← consume
    let _ ← number
  if !(← debugConsume ch%'E') then return -1
  decLevel
  decType
  return 0

/-- the `while (c != 'E' && c != '_')` loop of dd_expr_list -/
def bExprListLoop : M Int := do
  let c ← curr
  if c == ch%'E' || c == ch%'_' then return 0
  if (← rec .expression) < 0 then return -1
  rec .exprListLoop

/-- `dd_expr_list` -/
def bExprList : M Int := do
  let _ ← curr
  if (← eof) then return -1
  incLevel
  if (← rec .exprListLoop) < 0 then return -1
  let _ ← consumeN 1
  decLevel
  return 0

/-- the `for` loop over unary_ops[]: `strncmp(unary_ops[i], exp, strlen) == 0` where
    `exp = &old[pos]` (fixed at function entry, *before* an optional "gs" is consumed) -/
def findUnary (exp : Nat) : List (List UInt8) → M (Option Nat)
  | [] => pure none
  | u :: us => do
    if (← matchAt u exp) then return some u.length
    findUnary exp us

/-- dd_expression, third part of the chain of `if`s -/
def bExprC (c0 c1 : UInt8) : M Int := do
  if c0 == ch%'T' && (c1 == ch%'_' || isDigit c1) then
    return (← templateParam)
  if c0 == ch%'f' && (c1 == ch%'p' || c1 == ch%'L') then
    return (← functionParam)
  if (c0 == ch%'d' || c0 == ch%'p') && c1 == ch%'t' then
    let _ ← consumeN 2
    if (← rec .expression) < 0 then return -1
    return (← rec .unresolvedName)
  if c0 == ch%'d' && c1 == ch%'s' then
    let _ ← consumeN 2
    if (← rec .expression) < 0 then return -1
    return (← rec .expression)
  if c0 == ch%'s' && c1 == ch%'Z' then
    let _ ← consumeN 2
    let c0 ← curr
    if c0 == ch%'T' then return (← templateParam)
    if c0 == ch%'f' then return (← functionParam)
    return -1
  if c0 == ch%'s' && c1 == ch%'P' then
    let _ ← consumeN 2
    incLevel
    if (← rec .argLoop) < 0 then return -1
    if !(← debugConsume ch%'E') then return -1
    decLevel
    return 0
  if c0 == ch%'t' && c1 == ch%'r' then
    let _ ← consumeN 2
    return 0
  rec .unresolvedName

/-- dd_expression, second part of the chain of `if`s -/
def bExprB (c0 c1 : UInt8) : M Int := do
  if c0 == ch%'c' && c1 == ch%'l' then
    let _ ← consumeN 2
    return (← rec .exprList)
  if c0 == ch%'c' && c1 == ch%'v' then
    let _ ← consumeN 2
    if (← rec .type) < 0 then return -1
    if (← curr) == ch%'_' then
      let _ ← consume
      return (← rec .exprList)
    return (← rec .expression)
  if c0 == ch%'t' && c1 == ch%'l' then
    let _ ← consumeN 2
    if (← rec .type) < 0 then return -1
    return (← rec .exprList)
  if c0 == ch%'i' && c1 == ch%'l' then
    let _ ← consumeN 2
    return (← rec .exprList)
  if c0 == ch%'n' && (c1 == ch%'w' || c1 == ch%'a') then
    -- as coded this branch is dead ("nw"/"na" are in ops[]); F10j repaired: reachable, consumes the code
    if (← getFixes).exprOps then
      let _ ← consumeN 2
    if (← rec .exprList) < 0 then return -1
    if (← rec .type) < 0 then return -1
    if (← curr) == ch%'E' then
      let _ ← consume
      return 0
    return (← rec .initializer)
  if strchrB castSet c0 && c1 == ch%'c' then
    let _ ← consumeN 2
    if (← rec .type) < 0 then return -1
    return (← rec .expression)
  if (c0 == ch%'t' && c1 == ch%'i') || ((c0 == ch%'s' || c0 == ch%'a') && c1 == ch%'t') then
    let _ ← consumeN 2
    return (← rec .type)
  bExprC rec c0 c1

/-- `unary_ops[]` of dd_expression; the F10j repair appends "co" -/
def unaryOpsFx (fx : Fixes) : List (List UInt8) :=
  if fx.exprOps then unaryOps ++ [bs%"co"] else unaryOps

/-- codes of ops[] that the binary-operator loop of dd_expression skips -/
def binSkip (fx : Fixes) (c0 c1 : UInt8) : Bool :=
  if fx.exprOps then
    (c0 == ch%'c' && (c1 == ch%'l' || c1 == ch%'v')) || (c0 == ch%'n' && (c1 == ch%'w' || c1 == ch%'a'))
  else c0 == ch%'c' || c1 == ch%'v'

/-- dd_expression after the optional "gs": `exp` = position at function entry,
    c0, c1 = the two current chars -/
def bExprA (exp : Nat) (c0 c1 : UInt8) : M Int := do
  if c0 == ch%'L' then return (← rec .exprPrimary)
  let fx ← getFixes
  match (← findUnary exp (unaryOpsFx fx)) with
  | some k =>
    let _ ← consumeN k
    return (← rec .expression)
  | none => pure ()
  if c0 == ch%'q' && c1 == ch%'u' then
    let _ ← consumeN 2
    if (← rec .expression) < 0 then return -1
    if (← rec .expression) < 0 then return -1
    return (← rec .expression)
  -- binary operators: first entry of ops[] with that code, unless c0 == 'c' or c1 == 'v'
  -- (F10j repaired: unless it is "cl", "cv", "nw" or "na")
  if (ops.any fun o => o.1 == c0 && o.2.1 == c1) && !binSkip fx c0 c1 then
    let _ ← consumeN 2
    if (← rec .expression) < 0 then return -1
    return (← rec .expression)
  bExprB rec c0 c1

/-- `dd_expression` -/
def bExpression : M Int := do
  let c0 ← peek 0
  let c1 ← peek 1
  let exp := (← getSt).pos
  if (← eof) then return -1
  if c0 == ch%'g' && c1 == ch%'s' then
    let _ ← consumeN 2
    let c0 ← curr
    let c1 ← peek 1
    bExprA rec exp c0 c1
  else bExprA rec exp c0 c1

/-- the `while (c != 'E')` loop of dd_function_type; the result is the final `c` -/
def bFtLoop (c : UInt8) : M Int := do
  if c == ch%'E' then return c.toNat
  let oldPos := (← getSt).pos
  if (← rec .type) < 0 then
    modifySt fun st => { st with pos := oldPos }
    return c.toNat
  let c ← curr
  rec (.ftLoop c)

/-- `dd_function_type` -/
def bFunctionType : M Int := do
  if (← eof) then return -1
  if !(← debugConsume ch%'F') then return -1
  if (← curr) == ch%'Y' then
    let _ ← consume
  incType
  incLevel
  let c ← curr
  let c ← rec (.ftLoop c)
  if c == ch%'R'.toNat || c == ch%'O'.toNat then
    let _ ← qualifier
  if !(← debugConsume ch%'E') then return -1
  decLevel
  decType
  return 0

/-- `dd_array_type` -/
def bArrayType : M Int := do
  if (← eof) then return -1
  if !(← debugConsume ch%'A') then return -1
  let c ← curr
  if isDigit c then
    let _ ← number
  else if c != ch%'_' then
    let _ ← rec .expression
  if !(← debugConsume ch%'_') then return -1
  rec .type

/-- `dd_ptr_to_member_type` -/
def bPtrToMember : M Int := do
  if (← eof) then return -1
  if !(← debugConsume ch%'M') then return -1
  if (← rec .type) < 0 then return -1
  rec .type

/-- `dd_decltype` -/
def bDecltype : M Int := do
  let c0 ← consume
  let c1 ← consume
  if (← eof) then return -1
  if c0 != ch%'D' || (c1 != ch%'T' && c1 != ch%'t') then
    ddDebug 2
    return -1
  incType
  incLevel
  let _ ← rec .expression
  if !(← debugConsume ch%'E') then return -1
  decLevel
  decType
  return 0

/-- `dd_vector_type` -/
def bVectorType : M Int := do
  let c0 ← consume
  let c1 ← consume
  if (← eof) then return -1
  if c0 != ch%'D' || c1 != ch%'v' then
    ddDebug 2
    return -1
  incType
  if (← curr) == ch%'_' then
    let _ ← consume
    let _ ← rec .expression
  else if (← number) < 0 then return -1
  if !(← debugConsume ch%'_') then return -1
  decType
  return 0

/-- dd_type, `c == 'T'` -/
def bTypeT (ret : Int) : M Int := do
  let c ← peek 1
  if strchrB scue c then
    let _ ← consumeN 2
    rec .name
  else if c == ch%'_' || isDigit c then
    let r ← templateParam
    if (← curr) == ch%'I' then rec .templateArgs else return r
  else return ret

/-- dd_type, `c == 'D'` -/
def bTypeD (ret : Int) : M Int := do
  let fx ← getFixes
  let c ← peek 1
  -- F10c: `strchr(D_types, c)` is true for c == '\0'
  if (if fx.dTypeNul then c != 0 && dTypes.contains c else strchrB dTypes c) then
    let _ ← consumeN 2
    return 0
  else if c == ch%'p' then
    let _ ← consumeN 2
    rec (.typeLoop ret)
  else if c == ch%'v' then
    let _ ← rec .vectorType
    rec (.typeLoop ret)
  else if c == ch%'t' || c == ch%'T' then rec .decltype
  else return ret

/-- dd_type, `c == 'S'` -/
def bTypeS : M Int := do
  let c ← peek 1
  let mut r ← substitution
  if r == 0 && c == ch%'t' && isDigit (← curr) then
    r ← rec .unqualifiedName
  if (← curr) == ch%'I' then
    r ← rec .templateArgs
  return r

/-- dd_type, `c == 'U'` -/
def bTypeU : M Int := do
  let _ ← consume
  let mut r ← sourceName
  if r < 0 then return r
  if r == 0 && (← curr) == ch%'I' then
    r ← rec .templateArgs
  if r < 0 then return r
  rec (.typeLoop r)

/-- one iteration of the `while (!done && !dd_eof(dd))` loop of dd_type; `ret` is the
    loop-carried variable, the result is the final `ret` -/
def bTypeLoop (ret : Int) : M Int := do
  if (← eof) then return ret
  let c ← curr
  if strchrB cvQual c then
    let _ ← qualifier
    rec (.typeLoop ret)
  else if strchrB typePrefix c then
    let _ ← consume
    rec (.typeLoop ret)
  else if c == ch%'F' then
    rec .functionType
  else if c == ch%'T' then bTypeT rec ret
  else if c == ch%'A' then rec .arrayType
  else if c == ch%'M' then rec .ptrToMember
  else if c == ch%'D' then bTypeD rec ret
  else if c == ch%'S' then bTypeS rec
  else if c == ch%'u' then
    let _ ← consume
    sourceName
  else if c == ch%'U' then bTypeU rec
  else if c == ch%'I' then rec .templateArgs
  else if isDigit c || c == ch%'N' || c == ch%'Z' then rec .name
  else
    if types.any (fun t => t.1 == c) then
      let _ ← consume
      return 0
    else return ret

/-- `dd_type` -/
def bType : M Int := do
  if (← eof) then return -1
  incType
  incLevel
  let ret ← rec (.typeLoop (-1))
  decLevel
  decType
  return ret

/-- dd_special_name, `c0 == 'T'` (falls through to the `c0 == 'G'` test, which fails) -/
def bSpecialT (c1 : UInt8) : M Int := do
  let fx ← getFixes
  -- F10b: `strchr(T_type, c1)` is true for c1 == '\0' and the index is 6
  if (if fx.tTypeNul then c1 != 0 && tType.contains c1 else strchrB tType c1) then
    let _ ← consumeN 2
    modifySt fun st => { st with typeInfo := true }
    let idx := (tType.findIdx? (· == c1)).getD tType.length
    match tTypeName[idx]? with
    | none => crash .tableOob
    | some nm =>
      appendBytes [95, 95]
      appendBytes nm
      appendBytes [95, 95]
      return (← rec .type)
  if c1 == ch%'h' || c1 == ch%'v' then
    let _ ← consume
    if (← callOffset) < 0 then return -1
    return (← rec .encoding)
  if c1 == ch%'c' then
    let _ ← consumeN 2
    if (← callOffset) < 0 then return -1
    if (← callOffset) < 0 then return -1
    return (← rec .encoding)
  if c1 == ch%'C' then
    let _ ← consumeN 2
    appendBytes bs%"__construction_vtable__"
    modifySt fun st => { st with typeInfo := true }
    if (← rec .type) < 0 then return -1
    if (← number) < 0 then return -1
    if (← eof) then return 0
    if !(← debugConsume ch%'_') then return -1
    modifySt fun st => { st with typeInfo := false }
    return (← rec .type)
  if c1 == ch%'H' || c1 == ch%'W' then
    let _ ← consumeN 2
    appendSeparator colon2
    appendBytes bs%"TLS_"
    appendBytes (if c1 == ch%'H' then bs%"init" else bs%"wrap")
    return (← rec .name)
  ddDebug 0
  return -1

/-- dd_special_name, `c0 == 'G'` -/
def bSpecialG (c1 : UInt8) : M Int := do
  if c1 == ch%'V' then
    let _ ← consumeN 2
    appendBytes bs%"__guard_variable__"
    return (← rec .name)
  if c1 == ch%'R' then
    let _ ← consumeN 2
    appendBytes bs%"__ref_temp__"
    modifySt fun st => { st with ignoreDisc := true }
    if (← rec .name) < 0 then return -1
    if (← curr) != ch%'_' then
      let _ ← seqId
    if !(← debugConsume ch%'_') then return -1
    return 0
  if c1 == ch%'A' then
    let _ ← consumeN 2
    return (← rec .encoding)
  if c1 == ch%'T' then
    let _ ← consumeN 2
    let c0 ← curr
    if c0 == ch%'t' || c0 == ch%'n' then
      let _ ← consume
      return (← rec .encoding)
    return -1
  ddDebug 0
  return -1

/-- `dd_special_name` -/
def bSpecialName : M Int := do
  let c0 ← curr
  let c1 ← peek 1
  if (← eof) then return -1
  if c0 == ch%'T' then bSpecialT rec c1
  else if c0 == ch%'G' then bSpecialG rec c1
  else
    ddDebug 0
    return -1

/-- `strrchr(new, ':')`: the part of the output after the last ':' -/
def lastComponent (o : List UInt8) : List UInt8 :=
  (o.reverse.takeWhile (· != 58)).reverse

/-- `dd_ctor_dtor_name` -/
def bCtorDtorName : M Int := do
  let c0 ← consume
  let mut c1 ← consume
  let mut ret : Int := 0
  let mut needsType := false
  if (← eof) then return -1
  if c0 != ch%'C' && c0 != ch%'D' then
    ddDebug 2
    return -1
  if c1 == ch%'I' then
    c1 ← consume
    needsType := true
  if !isDigit c1 then
    ddDebug (if needsType then 3 else 2)
    return -1
  if needsType then
    ret ← rec .type
  let st ← getSt
  if st.type != 0 then return ret
  match st.out with
  | none =>
    -- F10: strrchr(NULL, ':')
    if (← getFixes).ctorNull then return -1 else crash .nullDeref
  | some o =>
    let last := lastComponent o
    appendBytes (if c0 == ch%'C' then [58, 58] else [58, 58, 126])
    appendBytes last
    return ret

/-- `dd_operator_name` -/
def bOperatorName : M Int := do
  let c0 ← consume
  let c1 ← consume
  if (← eof) then return -1
  let st ← getSt
  if st.type != 0 then
    if c0 == ch%'c' && c1 == ch%'v' then
      let _ ← rec .type
    if c0 == ch%'l' && c1 == ch%'i' then
      let _ ← sourceName
    return 0
  match ops.find? (fun o => o.1 == c0 && o.2.1 == c1) with
  | some (_, _, name) =>
    appendSeparator colon2
    appendBytes bs%"operator"
    appendBytes name
    incType
    if c0 == ch%'c' && c1 == ch%'v' then
      let _ ← rec .type
    if c0 == ch%'l' && c1 == ch%'i' then
      let _ ← sourceName
    decType
    return 0
  | none =>
    if c0 == ch%'v' && isDigit c1 then
      incType
      let _ ← sourceName
      decType
    ddDebug 2
    return -1

/-- the `while (dd_curr(dd) != 'E') if (dd_type(dd) < 0) break;` loop of the closure type -/
def bUlLoop : M Int := do
  if (← curr) == ch%'E' then return 0
  if (← rec .type) < 0 then return 0
  rec .ulLoop

/-- `dd_unqualified_name` -/
def bUnqualifiedName : M Int := do
  let c0 ← curr
  let c1 ← peek 1
  let mut ret : Int := 0
  if (← eof) then return -1
  if c0 == ch%'C' || c0 == ch%'D' then
    ret ← rec .ctorDtorName
  else if c0 == ch%'U' then
    if c1 == ch%'t' then
      incType
      let _ ← consumeN 2
      let _ ← number
      if !(← debugConsume ch%'_') then return -1
      decType
    else if c1 == ch%'l' then
      let mut n : Int := -1
      let _ ← consumeN 2
      incLevel
      let _ ← rec .ulLoop
      if !(← debugConsume ch%'E') then return -1
      decLevel
      if (← curr) != ch%'_' then
        n ← number
        if n < 0 then return -1
      if !(← debugConsume ch%'_') then return -1
      if (← getSt).type != 0 then return 0
      appendSeparator colon2
      -- F10d: `n + 1` overflows for n == INT_MAX; fixed: printed as unsigned
      if n == 2147483647 && !(← getFixes).intOvf then crash .intOverflow
      appendBytes ([36, 95] ++ showInt (n + 1))
    else
      ret := -1
  else if isLower c0 then
    ret ← rec .operatorName
  else
    if c0 == ch%'L' then
      let _ ← consume
    ret ← sourceName
  if (← curr) == ch%'B' then
    ret ← abiTag
  return ret

/-- one iteration of `while (dd_curr(dd) != 'E' && !dd_eof(dd) && !ret)` of
    dd_nested_name (entered with ret == 0); the result is the final `ret` -/
def bNestedLoop : M Int := do
  let c0 ← curr
  if c0 == ch%'E' then return 0
  if (← eof) then return 0
  let c1 ← peek 1
  let mut ret : Int := 0
  if c0 == ch%'D' && (c1 == ch%'T' || c1 == ch%'t') then
    ret ← rec .decltype
  else if c0 == ch%'C' || c0 == ch%'D' then
    ret ← rec .ctorDtorName
  else if c0 == ch%'U' || isLower c0 || isDigit c0 then
    ret ← rec .unqualifiedName
  else if c0 == ch%'T' then
    ret ← templateParam
  else if c0 == ch%'I' then
    ret ← rec .templateArgs
  else if c0 == ch%'S' then
    ret ← substitution
  else if c0 == ch%'M' then
    let _ ← consume
  else if c0 == ch%'L' then
    let _ ← consume
  else if strchrB qualNested c0 then
    let _ ← qualifier
  else
    return 0
  if ret != 0 then return ret
  rec .nestedLoop

/-- `dd_nested_name` -/
def bNestedName : M Int := do
  if (← eof) then return -1
  if !(← debugConsume ch%'N') then return -1
  incLevel
  let ret ← rec .nestedLoop
  if !(← debugConsume ch%'E') then return -1
  decLevel
  return ret

/-- `dd_local_name` -/
def bLocalName : M Int := do
  if (← eof) then return -1
  if !(← debugConsume ch%'Z') then return -1
  incLevel
  let _ ← rec .encoding
  if !(← debugConsume ch%'E') then return -1
  decLevel
  let c ← curr
  if c == ch%'d' then
    let _ ← consume
    if (← curr) != ch%'_' then
      if (← number) < 0 then return -1
    if !(← debugConsume ch%'_') then return -1
    if (← rec .name) < 0 then return -1
    return 0
  if c == ch%'s' then
    let _ ← consume
  else
    let _ ← rec .name
  if (← curr) == ch%'_' && !(← getSt).ignoreDisc then
    let _ ← discriminator
  return 0

/-- `dd_name` -/
def bName : M Int := do
  let c ← curr
  if (← eof) then return -1
  if c == ch%'N' then return (← rec .nestedName)
  if c == ch%'Z' then return (← rec .localName)
  if c == ch%'S' then
    if (← substitution) < 0 then return -1
    if (← curr) == ch%'I' then return (← rec .templateArgs)
  if (← rec .unqualifiedName) < 0 then return -1
  if (← curr) == ch%'I' then return (← rec .templateArgs)
  return 0

/-- `while (!dd_eof(dd) && !strchr(end, dd_curr(dd))) if (dd_type(dd) < 0) break;` -/
def bEncLoop : M Int := do
  if (← eof) then return 0
  if strchrB encEnd (← curr) then return 0
  if (← rec .type) < 0 then return 0
  rec .encLoop

/-- `dd_encoding` -/
def bEncoding : M Int := do
  if (← eof) then return -1
  if (← getSt).pos == 0 then
    let _ ← consumeN 2
  incLevel
  let c ← curr
  if c == ch%'T' || c == ch%'G' then
    let ret ← rec .specialName
    decLevel
    return ret
  let ret ← rec .name
  if ret < 0 then return ret
  let _ ← rec .encLoop
  if (← curr) == ch%'.' then
    modifySt fun st => { st with len := st.pos }
  if (← curr) == ch%'@' then
    modifySt fun st => { st with len := st.pos }
  decLevel
  return 0

def body : Fn → M Int
  | .encoding => bEncoding rec
  | .encLoop => bEncLoop rec
  | .name => bName rec
  | .localName => bLocalName rec
  | .nestedName => bNestedName rec
  | .nestedLoop => bNestedLoop rec
  | .unqualifiedName => bUnqualifiedName rec
  | .ulLoop => bUlLoop rec
  | .operatorName => bOperatorName rec
  | .ctorDtorName => bCtorDtorName rec
  | .type => bType rec
  | .typeLoop r => bTypeLoop rec r
  | .functionType => bFunctionType rec
  | .ftLoop c => bFtLoop rec c
  | .arrayType => bArrayType rec
  | .ptrToMember => bPtrToMember rec
  | .decltype => bDecltype rec
  | .vectorType => bVectorType rec
  | .templateArgs => bTemplateArgs rec
  | .argLoop => bArgLoop rec
  | .templateArg => bTemplateArg rec
  | .expression => bExpression rec
  | .exprPrimary => bExprPrimary rec
  | .exprList => bExprList rec
  | .exprListLoop => bExprListLoop rec
  | .initializer => bInitializer rec
  | .exprLoop => bExprLoop rec
  | .unresolvedName => bUnresolvedName rec
  | .unresLoop => bUnresLoop rec
  | .baseUnresolvedName => bBaseUnresolvedName rec
  | .destructorName => bDestructorName rec
  | .unresolvedType => bUnresolvedType rec
  | .simpleId => bSimpleId rec
  | .specialName => bSpecialName rec

end body

/-- The grammar with `fuel` bounding the depth of the call / loop-iteration chain. -/
def run : Nat → Fn → M Int
  | 0, _ => fun _ _ => .fuel
  | n + 1, f => body (run n) f

/-! ## `demangle_simple` -/

/-- Result of `demangle()`. -/
inductive Result
  | str (bs : List UInt8)     -- the returned (malloc'ed) string
  | null                      -- F10g: NULL is returned (`dd.new` was never allocated)
  | crash (k : Crash)
  | outOfFuel
  deriving DecidableEq, Repr

def globalPrefix : List UInt8 := bs%"_GLOBAL__sub_I_"

/-- the parser part of `demangle_simple`: `orig` = the whole input (returned on any failure),
    `body` = the input after the optional `_GLOBAL__sub_I_` -/
def demangleCore (fx : Fixes) (fuel : Nat) (orig : List UInt8) (hasPrefix : Bool) (body : Array UInt8) : Result :=
  -- `dd.old[0] != '_' || dd.old[1] != 'Z'`: index 1 is only read when old[0] == '_'
  if !(body.getD 0 0 == ch%'_' && body.getD 1 0 == ch%'Z') then .str orig
  else
    let env : Env := { s := body, fx := fx }
    let st0 : St := { pos := 0, len := body.size }
    let fallback := Result.str orig
    match run fuel .encoding env st0 with
    | .fuel => .outOfFuel
    | .crash k => .crash k
    | .ok r st =>
      if r < 0 || st.level != 0 then fallback
      else
        let fin (st : St) : Result :=
          -- F10g: a parse that succeeds without appending anything returns `dd.new == NULL`
          -- (callers dereference it); fixed: fall back to the input
          match st.out with
          | none => if fx.nullRet then fallback else .null
          | some o => .str (if hasPrefix then globalPrefix ++ o else o)
        if st.pos ≥ st.len then fin st
        else if !st.typeInfo then fallback
        else
          match run fuel .name env st with
          | .fuel => .outOfFuel
          | .crash k => .crash k
          | .ok r2 st2 => if r2 < 0 then fallback else fin st2

/-- `demangle_simple(str)` (DEMANGLE_SIMPLE mode of `demangle()`), `s` = the bytes of
    `str` up to (not including) the NUL. -/
def demangleWith (fx : Fixes) (fuel : Nat) (s : Array UInt8) : Result :=
  let l := s.toList
  let hasPrefix := globalPrefix.isPrefixOf l
  demangleCore fx fuel l hasPrefix (if hasPrefix then s.extract 15 s.size else s)

/-- fuel that is always enough (see `c13_fuel_suffices`) -/
def fuelFor (s : Array UInt8) : Nat := 8 * (s.size + 2)

def demangle (fx : Fixes) (s : Array UInt8) : Result := demangleWith fx (fuelFor s) s

end Uft.Demangle
