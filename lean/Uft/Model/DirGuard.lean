/-
C20 — model of utils/utils.c: remove_directory, is_uftrace_directory,
is_empty_directory, can_remove_directory, create_default_opts,
create_directory, and of live mode's cleanup (cmds/live.c).

The file system is the *parent directory* of DIR: an association list from
entry names to nodes.  DIR and DIR.old are two names in it; everything else in
the list is "the rest of the world".  Mutating system calls can be made to fail
by a fault oracle (k-th call of a given kind fails), which is how the
correspondence harness injects EACCES/EIO through libc interposition.

Core-only imports: this file is linked into the `uvmodel` driver.
-/
namespace Uft.DirGuard

mutual
  inductive Node where
    | file (data : List UInt8)
    | dir (es : Ents)
    /-- a symbolic link.  What it points to lies outside the modelled directory (a sibling, a
        foreign tree) or nowhere; the repaired remove_directory never follows it (lstat), and the
        probes that do follow links (open(DIR/info), access(DIR/default.opts), access(DIR),
        opendir(DIR)) are modelled for a link that does not resolve (assumption, see DESIGN C20) -/
    | link (target : String)
  inductive Ents where
    | nil
    | cons (name : String) (n : Node) (rest : Ents)
end

mutual
  def Node.beq : Node → Node → Bool
    | .file a, .file b => a == b
    | .dir a, .dir b => Ents.beq a b
    | .link a, .link b => a == b
    | _, _ => false
  def Ents.beq : Ents → Ents → Bool
    | .nil, .nil => true
    | .cons n x r, .cons m y s => n == m && Node.beq x y && Ents.beq r s
    | _, _ => false
end

def Ents.isNil : Ents → Bool
  | .nil => true
  | _ => false

def Ents.get (name : String) : Ents → Option Node
  | .nil => none
  | .cons n x r => if n = name then some x else r.get name

def Ents.erase (name : String) : Ents → Ents
  | .nil => .nil
  | .cons n x r => if n = name then r.erase name else .cons n x (r.erase name)

/-- replace-or-insert; new entries go to the front (order is not observable:
    the harness canonicalises by sorting). -/
def Ents.set (name : String) (v : Node) (es : Ents) : Ents :=
  .cons name v (es.erase name)

/-- The mutating / fallible system calls that the harness can make fail. -/
inductive Sys where
  | stat | unlink | rmdir | rename | mkdir | fopen
  deriving DecidableEq, Repr

/-- Fault oracle and per-kind call counters. -/
structure Env where
  faults : List (Sys × Nat)      -- (kind, k): the k-th call (0-based) of that kind fails
  cnt : Sys → Nat := fun _ => 0

def Env.tick (e : Env) (s : Sys) : Env × Bool :=
  let k := e.cnt s
  ({ e with cnt := fun t => if t = s then k + 1 else e.cnt t }, e.faults.contains (s, k))

instance : BEq (Sys × Nat) := ⟨fun a b => a.1 = b.1 && a.2 == b.2⟩

/-- "Ftrace!\0" -/
def magic : List UInt8 := [0x46, 0x74, 0x72, 0x61, 0x63, 0x65, 0x21, 0x00]

/-- is_uftrace_directory: `open(path/info)` succeeds for any kind of node; the
    8-byte signature test can only succeed for a regular file.  If there is no
    `info`, the presence of `default.opts` decides.  A path that is not a
    directory has no entries (ENOTDIR on both probes). -/
def isUftraceDir : Node → Bool
  | .file _ => false
  | .link _ => false
  | .dir es =>
    match es.get "info" with
    | some (.file d) => d.take 8 == magic
    | some (.dir _) => false
    | some (.link _) | none =>                       -- open() fails on an unresolved link
      match es.get "default.opts" with
      | some (.link _) | none => false               -- access() fails on an unresolved link
      | some _ => true

/-- is_empty_directory: opendir fails on a non-directory. -/
def isEmptyDir : Node → Bool
  | .file _ => false
  | .link _ => false
  | .dir es => es.isNil

/-- can_remove_directory on an optional node (access(F_OK) first). -/
def canRemove : Option Node → Bool
  | none => false
  | some n => isUftraceDir n || isEmptyDir n          -- (access(F_OK) fails on an unresolved link)

/-
remove_directory: walks the entries in readdir order; lstat, then recursive
removal or unlink; stops at the first failure; finally rmdir (which fails on a
non-empty directory).  Returns the environment, what is left of the node
(`none` = removed) and the C return value (`true` = 0, `false` = -1).
-/
mutual
  def rmNode : Env → Node → Env × Option Node × Bool
    | e, .file d => (e, some (.file d), false)           -- opendir fails: ENOTDIR
    | e, .link t => (e, some (.link t), false)           -- opendir fails: ENOENT
    | e, .dir es =>
      let (e1, left, ok) := rmEnts e es
      let (e2, f) := e1.tick .rmdir
      if left.isNil && !f then (e2, none, ok)             -- rmdir ok: ret unchanged
      else (e2, some (.dir left), false)
  def rmEnts : Env → Ents → Env × Ents × Bool
    | e, .nil => (e, .nil, true)
    | e, .cons n x r =>
      let (e1, f) := e.tick .stat
      if f then (e1, .cons n x r, false) else
      match x with
      | .dir es =>
        let (e2, left, ok) := rmNode e1 (.dir es)
        match left with
        | none => if ok then rmEnts e2 r else (e2, r, false)
        | some l => (e2, .cons n l r, false)
      | .file d =>
        let (e2, f2) := e1.tick .unlink
        if f2 then (e2, .cons n (.file d) r, false) else rmEnts e2 r
      | .link t =>                                       -- lstat: not a directory; the link itself goes
        let (e2, f2) := e1.tick .unlink
        if f2 then (e2, .cons n (.link t) r, false) else rmEnts e2 r
end

/-- the content record writes: the joined default options and a newline (the
    harness leaves `default_opts` empty, so the file is empty) -/
def defaultOpts : Node := .file []

structure Result where
  fs : Ents
  ok : Bool           -- C return value 0
  env : Env

/-- rename(DIR, DIR.old) for a directory source: replaces an empty directory,
    fails on a non-empty one (ENOTEMPTY) or on a non-directory (ENOTDIR). -/
def renameOk (dst : Option Node) : Bool :=
  match dst with
  | none => true
  | some (.dir es) => es.isNil
  | some (.file _) => false
  | some (.link _) => false

/-- second half of create_directory: mkdir, then create_default_opts.
`fixed = false` is the code before the repair of finding F1
(create_default_opts also after a failed mkdir); it is kept so that a
regression to it is recognised and has a proved witness. -/
def mkdirPhase (fixed : Bool) (e : Env) (fs : Ents) (d : String) : Result :=
  let (e2, f) := e.tick .mkdir
  let mkOk := !f && (fs.get d).isNone
  let fs2 := if mkOk then fs.set d (.dir .nil) else fs
  if !mkOk && fixed then { fs := fs2, ok := false, env := e2 } else
  -- create_default_opts: fopen(DIR/default.opts, "w"); its result is ignored
  let (e3, f3) := e2.tick .fopen
  let fs3 :=
    match fs2.get d with
    | some (.dir es) =>
      if f3 then fs2 else
      match es.get "default.opts" with
      | some (.dir _) => fs2                                        -- EISDIR
      | _ => fs2.set d (.dir (es.set "default.opts" defaultOpts))   -- create or truncate
    | _ => fs2                                                      -- ENOTDIR / ENOENT
  { fs := fs3, ok := mkOk, env := e3 }

/-- first step of the rotation: a removable DIR.old is removed (possibly only
    partly, when something fails). Result: env, new fs, C-level success. -/
def removeOld (e : Env) (fs : Ents) (old : String) : Env × Ents × Bool :=
  if canRemove (fs.get old) then
    match fs.get old with
    | some o =>
      let r := rmNode e o
      (r.1, (match r.2.1 with | none => fs.erase old | some l => fs.set old l), r.2.2)
    | none => (e, fs, true)
  else (e, fs, true)

/-- rename(DIR, DIR.old); `none` = failed, nothing changed. -/
def renamePhase (e : Env) (fs : Ents) (d old : String) : Env × Option Ents :=
  let t := e.tick .rename
  if t.2 || !renameOk (fs.get old) then (t.1, none) else
  match fs.get d with
  | none => (t.1, none)                       -- unreachable: canRemove implies present
  | some n => (t.1, some ((fs.erase d).set old n))

/-- create_directory(dirname) with oldname = dirname ++ ".old". -/
def createDirectoryG (fixed : Bool) (e : Env) (fs : Ents) (d old : String) : Result :=
  if canRemove (fs.get d) then
    let r1 := removeOld e fs old
    if !r1.2.2 then { fs := r1.2.1, ok := false, env := r1.1 } else
    match renamePhase r1.1 r1.2.1 d old with
    | (e2, none) => { fs := r1.2.1, ok := false, env := e2 }
    | (e2, some fs2) => mkdirPhase fixed e2 fs2 d
  else mkdirPhase fixed e fs d

def createDirectory := createDirectoryG true
def createDirectoryPreFix := createDirectoryG false

/-- live mode: mkstemp picks a fresh name, create_directory makes it, the run
    fills it with arbitrary files, cleanup_tempdir removes it. -/
def liveRun (e : Env) (fs : Ents) (tmp : String) (filled : Ents) : Ents :=
  let r := createDirectory e fs tmp (tmp ++ ".old")
  if !r.ok then r.fs else
  let fs1 := r.fs.set tmp (.dir filled)
  match rmNode r.env (.dir filled) with
  | (_, none, _) => fs1.erase tmp
  | (_, some l, _) => fs1.set tmp l

/-- `uftrace record [-d DIR] [--host H]` as far as the directory is concerned
    (cmds/record.c command_record + write_symbol_files): the directory is made
    by create_directory; recording then fills it with `filled`; with --host the
    local directory is only a staging area and is removed after sending. A
    failed create_directory ends the run. -/
def recordRun (host : Bool) (e : Env) (fs : Ents) (d : String) (filled : Ents) : Ents × Bool :=
  let r := createDirectory e fs d (d ++ ".old")
  if !r.ok then (r.fs, false) else
  let fs1 := r.fs.set d (.dir filled)
  if !host then (fs1, true) else
  match rmNode r.env (.dir filled) with
  | (_, none, _) => (fs1.erase d, true)
  | (_, some l, _) => (fs1.set d l, true)

/-! ## Entry points: every command that creates or removes a data directory

`translators/c20_dircallers.py` walks cmds/*.c and lists, for every `command_*` function from which
`create_directory`, `remove_directory` or `mkstemp` can be reached, the directory events of every
execution path (`Uft/Gen/DirCallers.lean`, regenerated on every run).  The path names are the
source text of the argument (a buffer that is written again gets a new version): two different
texts may well name the same directory, which is why the semantics below takes an arbitrary
interpretation `ρ` of the texts. -/

/-- a directory event of an execution path -/
inductive DEv where
  /-- `mkstemp(p)` succeeded and the file was unlinked again: the name does not exist -/
  | fresh (p : String)
  /-- `create_directory(p)` returned 0 -/
  | createOk (p : String)
  /-- `create_directory(p)` returned -1 -/
  | createFail (p : String)
  /-- `remove_directory(p)` -/
  | remove (p : String)
  deriving DecidableEq, Repr

structure EntryPoint where
  name : String
  traces : List (List DEv)

/-- the guard: `remove p` only for a path this run owns — made by a successful
    `create_directory(p)`, or known not to exist (`fresh p`).  Ownership is never lost: a failed
    `create_directory` of an owned path leaves it owned (it is ours or absent), a removed one is gone. -/
def guardedFrom (owned : List String) : List DEv → Bool
  | [] => true
  | .fresh p :: r => guardedFrom (p :: owned) r
  | .createOk p :: r => guardedFrom (p :: owned) r
  | .createFail _ :: r => guardedFrom owned r
  | .remove p :: r => owned.contains p && guardedFrom owned r

def guarded (tr : List DEv) : Bool := guardedFrom [] tr

def EntryPoint.guards (ep : EntryPoint) : Bool := ep.traces.all guarded

/-- `remove_directory(name)` on the parent directory `fs`: `opendir` fails on anything but a
    directory (nothing happens); otherwise `rmNode` -/
def removeDir (e : Env) (fs : Ents) (n : String) : Env × Ents :=
  match fs.get n with
  | some (.dir es) =>
    match rmNode e (.dir es) with
    | (e2, none, _) => (e2, fs.erase n)
    | (e2, some l, _) => (e2, fs.set n l)
  | _ => (e, fs)

/-- one event on the file system; `none`: the event cannot happen in this state (`fresh` of a name
    that exists, `createOk` where create_directory fails, …).  After a successful
    `create_directory` the run fills the directory with whatever it records (`filled`). -/
def stepEv (ρ : String → String) (filled : String → Ents) (st : Env × Ents) : DEv → Option (Env × Ents)
  | .fresh p => if (st.2.get (ρ p)).isNone then some st else none
  | .createOk p =>
    let r := createDirectory st.1 st.2 (ρ p) (ρ p ++ ".old")
    if r.ok then some (r.env, r.fs.set (ρ p) (.dir (filled p))) else none
  | .createFail p =>
    let r := createDirectory st.1 st.2 (ρ p) (ρ p ++ ".old")
    if r.ok then none else some (r.env, r.fs)
  | .remove p => some (removeDir st.1 st.2 (ρ p))

def execTrace (ρ : String → String) (filled : String → Ents) : Env × Ents → List DEv → Option (Env × Ents)
  | st, [] => some st
  | st, ev :: r =>
    match stepEv ρ filled st ev with
    | none => none
    | some st2 => execTrace ρ filled st2 r

end Uft.DirGuard
