/-
C09 — "an unreadable string pointer is shown as an address instead of faulting the traced
program": check_mem_region, its cache of readable ranges and the loads of the string copy
loop, against an address space that changes between calls.

  libmcount/record.c   add_mem_region, update_mem_regions, find_mem_region, check_mem_region,
                       the copy loop and the std::string prologue of save_to_argbuf

The address space is what /proc/self/maps lists at one instant (`Space`); between two traced
calls it may become any other space (mmap, munmap, mprotect, brk, free of an mmap()ed chunk,
other threads: event `Ev.space`).  A load from an address that is not readable *now* is a
fault (SIGSEGV in the traced program).

`fixed = false` is the code as it is:
  * the verdict comes from a per-thread cache (`Cache`) that is filled from /proc/self/maps
    on a miss and never invalidated: an entry stays after munmap / mprotect(PROT_NONE);
  * the `[heap]` line is entered with its end rounded up to 128 MB and every address in
    `[heap start, rounded end)` is accepted without a lookup; the `[stack]` line is entered
    with its start rounded down by 8 MB (finding C09-S3);
  * only the first byte of the string (of the std::string object) is checked: the copy loop
    then loads up to 99 bytes, the std::string prologue 16.
`fixed = true` is the repaired design (proposed_fixes/C09-MEMPROBE.diff): nothing is cached,
the kernel is asked about the page of the first byte (`rt_sigprocmask` with an invalid `how`:
EFAULT iff the page cannot be read) and again whenever the copy reaches the first byte of
another page; the std::string object is checked at its first and last byte.

The rb-tree is modelled as a list (insertion order); `find_mem_region`'s descent can miss an
entry when stale entries overlap newer ones, so the list lookup is an upper bound of the real
verdict in that case (`Cache.tidy`); on pairwise disjoint entries they agree.
Core-only imports (linked into uvmodel).
-/
import Uft.Base
namespace Uft.MemRegion

abbrev MByte := UInt8

def PAGE : Nat := 4096
def HEAP_UNIT : Nat := 134217728      -- HEAP_REGION_UNIT  128 * MB
def STACK_UNIT : Nat := 8388608       -- STACK_REGION_UNIT 8 * MB
def STR_MAX : Nat := 98                -- ARG_STR_MAX

def roundUp (v r : Nat) : Nat := (v + r - 1) / r * r
def roundDown (v r : Nat) : Nat := v / r * r
def pageOf (a : Nat) : Nat := a / PAGE * PAGE

inductive Kind | plain | heap | stack
  deriving DecidableEq, Repr, Inhabited

/-- one line of /proc/self/maps -/
structure Mapping where
  start : Nat
  stop : Nat
  r : Bool := true
  kind : Kind := .plain
  deriving DecidableEq, Repr, Inhabited

/-- the address space at one instant -/
abbrev Space := List Mapping

def Mapping.has (m : Mapping) (a : Nat) : Bool := m.r && (decide (m.start ≤ a) && decide (a < m.stop))

/-- a load from `a` succeeds -/
def readable (sp : Space) (a : Nat) : Bool := sp.any (fun m => m.has a)

/-- what the kernel guarantees: mappings begin and end on page boundaries -/
def Aligned (sp : Space) : Prop := ∀ m ∈ sp, m.start % PAGE = 0 ∧ m.stop % PAGE = 0

instance (sp : Space) : Decidable (Aligned sp) := by unfold Aligned; infer_instance

/-! ## the cache (struct mcount_mem_regions) -/

structure Cache where
  heap : Nat := 0
  brk : Nat := 0
  regions : List (Nat × Nat) := []
  deriving DecidableEq, Repr, Inhabited

/-- add_mem_region: the entry with the same start (update_end) / the same end (stack) is
    overwritten, otherwise a new entry is linked -/
def addRegion (rs : List (Nat × Nat)) (s e : Nat) (updateEnd : Bool) : List (Nat × Nat) :=
  match rs with
  | [] => [(s, e)]
  | r :: rest =>
    if (if updateEnd then r.1 = s else r.2 = e) then (s, e) :: rest
    else r :: addRegion rest s e updateEnd

/-- one line of update_mem_regions (`if (p[0] != 'r') continue;`) -/
def updateLine (c : Cache) (m : Mapping) : Cache :=
  if m.r = false then c else
  match m.kind with
  | .heap =>
    let e := roundUp m.stop HEAP_UNIT
    { heap := m.start, brk := if e > c.brk then e else c.brk, regions := addRegion c.regions m.start e true }
  | .stack => { c with regions := addRegion c.regions (roundDown m.start STACK_UNIT) m.stop false }
  | .plain => { c with regions := addRegion c.regions m.start m.stop true }

def update (c : Cache) (sp : Space) : Cache := sp.foldl updateLine c

def inRegions (rs : List (Nat × Nat)) (a : Nat) : Bool := rs.any (fun r => decide (r.1 ≤ a) && decide (a < r.2))

/-- `regions->heap <= addr && addr < regions->brk || find_mem_region(..)` -/
def inCache (c : Cache) (a : Nat) : Bool := (decide (c.heap ≤ a) && decide (a < c.brk)) || inRegions c.regions a

/-- check_mem_region as it is: refresh on a miss, once -/
def checkCoded (c : Cache) (sp : Space) (a : Nat) : Bool × Cache :=
  if inCache c a then (true, c) else
  let c' := update c sp
  (inCache c' a, c')

/-- the repaired check: is the page of `a` readable now -/
def probe (sp : Space) (a : Nat) : Bool := readable sp (pageOf a)

def check (fixed : Bool) (c : Cache) (sp : Space) (a : Nat) : Bool × Cache :=
  if fixed then (probe sp a, c) else checkCoded c sp a

/-- the list lookup is the real verdict when no two entries overlap -/
def disjointFrom (r : Nat × Nat) (rs : List (Nat × Nat)) : Bool := rs.all (fun q => decide (r.2 ≤ q.1) || decide (q.2 ≤ r.1))
def tidyList : List (Nat × Nat) → Bool
  | [] => true
  | r :: rs => disjointFrom r rs && tidyList rs
def Cache.tidy (c : Cache) : Bool := tidyList c.regions

/-! ## the loads -/

/-- `for (i = 0; i < room; i++) { dst[i] = str[i]; if (i == ARG_STR_MAX) …; if (!dst[i]) break; }`:
    the addresses `&str[i]` that are loaded, in order.  The repaired loop stops before the load
    when `&str[i]` (i > 0) is the first byte of a page that cannot be read. -/
def loopFrom (fixed : Bool) (sp : Space) (get : Nat → MByte) (p room : Nat) : Nat → Nat → List Nat
  | 0, _ => []
  | fuel + 1, i =>
    if i < room then
      if fixed = true ∧ 0 < i ∧ (p + i) % PAGE = 0 ∧ probe sp (p + i) = false then []
      else (p + i) :: (if i = STR_MAX ∨ get (p + i) = 0 then [] else loopFrom fixed sp get p room fuel (i + 1))
    else []

def loopReads (fixed : Bool) (sp : Space) (get : Nat → MByte) (p room : Nat) : List Nat :=
  loopFrom fixed sp get p room 100 0

def firstFault (sp : Space) (reads : List Nat) : Option Nat := reads.find? (fun a => !readable sp a)

/-- the bytes the loop copied before its terminator (at most 99; the packer turns 99 into 95 + "...") -/
def copied (get : Nat → MByte) (reads : List Nat) : List MByte := (reads.map get).takeWhile (fun b => b != 0)

inductive Outcome
  | null                      -- NULL pointer
  | bad (a : Nat)             -- shown as an address
  | str (s : List MByte)       -- the bytes handed to the packer
  | fault (a : Nat)           -- SIGSEGV: load from `a`
  deriving DecidableEq, Repr, Inhabited

/-- a `char *` value `p` in save_to_argbuf (`room` = max_size - total_size) -/
def strCall (fixed : Bool) (c : Cache) (sp : Space) (get : Nat → MByte) (p room : Nat) : Outcome × Cache :=
  if p = 0 then (.null, c) else
  let k := check fixed c sp p
  if k.1 = false then (.bad p, k.2) else
  let rs := loopReads fixed sp get p room
  match firstFault sp rs with
  | some a => (.fault a, k.2)
  | none => (.str (copied get rs), k.2)

/-- little-endian 64-bit word at `a` -/
def word (get : Nat → MByte) (a : Nat) : Nat :=
  (List.range 8).foldr (fun j acc => (get (a + j)).toNat + 256 * acc) 0

/-- `*base` and `*(base + 1)` -/
def objReads (base : Nat) : List Nat := (List.range 16).map (fun j => base + j)

/-- a std::string value (`base` = address of the object) -/
def objCall (fixed : Bool) (c : Cache) (sp : Space) (get : Nat → MByte) (base room : Nat) : Outcome × Cache :=
  let k := check fixed c sp base
  let ok := if fixed then k.1 && (check fixed k.2 sp (base + 15)).1 else k.1
  if ok then
    match firstFault sp (objReads base) with
    | some a => (.fault a, k.2)
    | none => strCall fixed k.2 sp get (word get base) room
  else if base = 0 then (.null, k.2)
  else if fixed then (.bad base, k.2)
  else strCall fixed k.2 sp get base room       -- `str` is still the object pointer: checked again

/-- mcount_get_stack_arg / mcount_get_struct_arg: `n` bytes at `a` are copied when the check passes
    (repaired: first and last byte); `none` = not copied (zeros) -/
def rangeReads (fixed : Bool) (c : Cache) (sp : Space) (a n : Nat) : Option (List Nat) × Cache :=
  let k := check fixed c sp a
  let ok := if fixed then k.1 && (n = 0 || (check fixed k.2 sp (a + n - 1)).1) else k.1
  if ok then (some ((List.range n).map (fun j => a + j)), k.2) else (none, k.2)

/-! ## histories -/

inductive Ev
  | space (sp : Space) (get : Nat → MByte)   -- the address space / the contents are now these
  | str (p room : Nat)                        -- a traced call with a `char *` value
  | obj (base room : Nat)                     -- … with a std::string value

def isFault : Outcome → Bool
  | .fault _ => true
  | _ => false

/-- the outcomes of the traced calls of one thread, in order; a fault ends the program -/
def run (fixed : Bool) : Cache → Space → (Nat → MByte) → List Ev → List Outcome
  | _, _, _, [] => []
  | c, _, _, .space sp' get' :: r => run fixed c sp' get' r
  | c, sp, get, .str p room :: r =>
    let o := strCall fixed c sp get p room
    o.1 :: (if isFault o.1 then [] else run fixed o.2 sp get r)
  | c, sp, get, .obj b room :: r =>
    let o := objCall fixed c sp get b room
    o.1 :: (if isFault o.1 then [] else run fixed o.2 sp get r)

/-- every address space of a history is page-granular -/
def AlignedHist : Space → List Ev → Prop
  | sp, [] => Aligned sp
  | sp, .space sp' _ :: r => Aligned sp ∧ AlignedHist sp' r
  | sp, _ :: r => AlignedHist sp r

/-! ## concrete contents and address-space operations (driver, witnesses) -/

structure Contents where
  chunks : List (Nat × List MByte) := []
  fill : MByte := 0
  deriving Repr, Inhabited

def Contents.get (m : Contents) (a : Nat) : MByte :=
  match m.chunks.find? (fun c => decide (c.1 ≤ a) && decide (a < c.1 + c.2.length)) with
  | some c => c.2.getD (a - c.1) m.fill
  | none => m.fill

/-- munmap(s, e - s) -/
def munmap (sp : Space) (s e : Nat) : Space :=
  sp.flatMap fun m =>
    (if m.start < s then [{ m with stop := min m.stop s }] else []) ++
    (if e < m.stop then [{ m with start := max m.start e }] else [])

/-- mmap(s, e - s, prot, MAP_FIXED) / mprotect -/
def mmap (sp : Space) (s e : Nat) (r : Bool) : Space := munmap sp s e ++ [{ start := s, stop := e, r := r }]

/-- brk(newEnd) -/
def setBrk (sp : Space) (newEnd : Nat) : Space :=
  sp.map fun m => if m.kind = .heap then { m with stop := roundUp newEnd PAGE } else m

/-- why the code as it is loaded from an address that cannot be read (for the report) -/
def why (c : Cache) (sp : Space) (p : Nat) : String :=
  if readable sp p then "pagecross"
  else if c.heap ≤ p ∧ p < c.brk then "heapslack"
  else if sp.any (fun m => m.kind == .stack && decide (roundDown m.start STACK_UNIT ≤ p) && decide (p < m.start)) then "stackslack"
  else "stale"

end Uft.MemRegion
