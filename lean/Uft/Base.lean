/- Shared vocabulary (core-only). -/
namespace Uft
abbrev Addr := Nat
abbrev Time := Nat
abbrev Tid := Nat
end Uft
