"""C16 end to end: a real `uftrace recv` on a loopback port, real senders, real analysis commands.

Two families (used by checks/c16.py):

 * synthesized runs (deterministic per seed): a complete LOCAL data directory -- function records of 1-3
   tasks and the per-cpu perf files `uftrace record` leaves (a perf-cpuN.dat for EVERY cpu of the machine,
   empty for the cpus that saw no event; scheduling / task / comm events, also pre-emptions and
   migrations, on a few cpus chosen with holes and numbers >= 10) -- is sent by harness/c16_send.c (the
   real send_trace_* / write_buffer / host tail of record.c) to the real receiver.  The RECEIVED directory
   is compared file by file with the local one (same run, so byte for byte; the only documented
   difference: the receiver creates a per-cpu file when the first data for that cpu arrives, so the
   empty ones are absent; default.opts is made by create_directory), and replay / report / dump /
   dump --chrome / graph / info of both directories are compared byte for byte.

 * real recordings: a small program that blocks in usleep(), recorded with `uftrace record` locally and
   with `uftrace record --host` (with and without --no-event), pinned to the highest cpu the check may
   use.  Two runs differ in pids, times and load addresses: directory contents and command outputs
   are compared after canonicalising those.
"""
import os
import re
import shutil
import signal
import socket
import struct
import subprocess
import time

from lib import datadir as DD

T_INFO = 1790000000
PERF_FEAT = 0x100          # PERF_EVENT bit of the file header's feat_mask


# ---------------------------------------------------------------------------------------------
# the receiver
def _listening(port):
    want = ":%04X" % port
    for f in ("/proc/net/tcp", "/proc/net/tcp6"):
        try:
            for line in open(f).read().split("\n")[1:]:
                w = line.split()
                if len(w) > 3 and w[1].endswith(want) and w[3] == "0A":
                    return True
        except OSError:
            pass
    return False


def _free_port():
    s = socket.socket()
    s.bind(("127.0.0.1", 0))
    p = s.getsockname()[1]
    s.close()
    return p


class RecvServer:
    """`uftrace recv --port P` with `root` as working directory"""

    def __init__(self, uftrace, root):
        self.uftrace, self.root = uftrace, root
        self.proc, self.port = None, None

    def start(self):
        os.makedirs(self.root, exist_ok=True)
        for _ in range(6):
            port = _free_port()
            log = open(os.path.join(self.root, ".recv.log"), "ab")
            p = subprocess.Popen([self.uftrace, "recv", "--port", str(port)], cwd=self.root, stdout=log, stderr=log,
                                 stdin=subprocess.DEVNULL, start_new_session=True)
            t0 = time.time()
            while time.time() - t0 < 5 and p.poll() is None and not _listening(port):
                time.sleep(0.02)
            if p.poll() is None and _listening(port):
                self.proc, self.port = p, port
                return True
            try:
                p.kill()
            except OSError:
                pass
        return False

    def alive(self):
        return self.proc is not None and self.proc.poll() is None

    def log(self):
        try:
            return open(os.path.join(self.root, ".recv.log"), "rb").read()[-1500:].decode("latin-1")
        except OSError:
            return ""

    def stop(self):
        if self.proc is None:
            return
        try:
            os.killpg(self.proc.pid, signal.SIGTERM)
            self.proc.wait(timeout=3)
        except (OSError, subprocess.TimeoutExpired):
            try:
                os.killpg(self.proc.pid, signal.SIGKILL)
            except OSError:
                pass
        self.proc = None


# ---------------------------------------------------------------------------------------------
# perf-cpuN.dat records (utils/perf.h; what read_perf_event() reads)
def perf_switch(pid, tid, t, out, preempt=False):
    misc = (0x2000 if out else 0) | (0x4000 if (out and preempt) else 0)
    return struct.pack("<IHH", 14, misc, 24) + struct.pack("<IIQ", pid, tid, t)


def perf_task(typ, pid, ppid, tid, ptid, t):
    """typ 7 = PERF_RECORD_FORK, 4 = PERF_RECORD_EXIT"""
    return struct.pack("<IHH", typ, 0, 8 + 24 + 16) + struct.pack("<IIIIQ", pid, ppid, tid, ptid, t) + \
        struct.pack("<IIQ", pid, tid, t)


def perf_comm(pid, tid, comm, t, exec_=True):
    c = comm.encode()[:15] + b"\0"
    c += b"\0" * ((-len(c)) % 8)
    return struct.pack("<IHH", 3, 0x2000 if exec_ else 0, 8 + 8 + len(c) + 16) + struct.pack("<II", pid, tid) + c + \
        struct.pack("<IIQ", pid, tid, t)


NR_CPUS = [2, 4, 12, 16, 24, 64, 128, 300]
NAMES = ["main", "work", "io_wait", "helper", "leaf", "spin"]


class Run:
    """one synthesized recording"""

    def __init__(self, idx):
        self.idx = idx
        self.nr_cpu = 0
        self.tasks = []          # (tid, pid, [DD.Rec])
        self.perf = {}           # cpu -> bytes
        self.nev = {}            # kind -> count
        self.desc = ""
        self.raw = {}            # tid -> the bytes of TID.dat (large task files: no Rec objects)
        self.chunk = None        # size of the task buffers the sender hands to write_buffer (None: drawn by the caller)
        self.big = False

    def used_cpus(self):
        return sorted(c for c, b in self.perf.items() if b)

    def summary(self):
        return {"idx": self.idx, "nr_cpu": self.nr_cpu, "cpus_with_events": self.used_cpus(),
                "tasks": [(t, p, len(self.raw[t]) // 16 if t in self.raw else len(r)) for t, p, r in self.tasks],
                "task_file_bytes": {t: len(b) for t, b in self.raw.items()}, "task_buffer_bytes": self.chunk,
                "perf_events": self.nev, "desc": self.desc}

    def write_local(self, d, empty_files=True):
        syms = [(0x100 * (i + 1), 0x80, n) for i, n in enumerate(NAMES)]
        tasks = [DD.Task(tid, recs, pid=pid) for tid, pid, recs in self.tasks]
        shutil.rmtree(d, ignore_errors=True)
        DD.DataDir(syms, tasks, feat_extra=PERF_FEAT).write(d, overrides={"%d.dat" % t: b for t, b in self.raw.items()} or None)
        for c in range(self.nr_cpu):
            b = self.perf.get(c, b"")
            if b or empty_files:
                with open(os.path.join(d, "perf-cpu%d.dat" % c), "wb") as f:
                    f.write(b)
        # what create_directory() leaves in a fresh data directory
        open(os.path.join(d, "default.opts"), "wb").close()
        os.utime(os.path.join(d, "info"), (T_INFO, T_INFO))


def gen_run(rng, idx, force_cpus=None):
    r = Run(idx)
    r.nr_cpu = rng.choice(NR_CPUS)
    if force_cpus is not None:
        r.nr_cpu, cpus = force_cpus
    else:
        k = rng.choice([1, 1, 2, 3])
        pool = list(range(r.nr_cpu))
        cpus = sorted(rng.sample(pool, min(k, len(pool))))
        if rng.random() < 0.6 and r.nr_cpu > 1 and 0 in cpus:
            cpus = sorted(set(c for c in cpus if c != 0) | {rng.randrange(1, r.nr_cpu)})     # a hole at cpu 0
    nt = rng.choice([1, 1, 2, 3])
    base = rng.choice([100, 31000, 4194000])
    tids = [base + i for i in range(nt)]
    t = rng.choice([10 ** 9, 10 ** 13, 2 ** 53 + 12345]) + rng.randrange(1000)
    A = lambda i: DD.BASE + 0x100 * (i + 1)      # noqa
    recs = {tid: [] for tid in tids}
    stack = {tid: [] for tid in tids}
    left = {tid: rng.choice([6, 12, 24]) for tid in tids}
    oncpu = {tid: rng.choice(cpus) for tid in tids}
    blocked = {}
    perf = {c: [] for c in cpus}
    nev = {"comm": 0, "fork": 0, "exit": 0, "sched-out": 0, "sched-out-preempt": 0, "sched-in": 0, "migrate": 0, "foreign": 0}

    def emit(cpu, b):
        perf[cpu].append(b)
    # task-name events before the first record of each task; threads are forked by the first task
    for j, tid in enumerate(tids):
        t += rng.choice([3, 40, 500])
        if j:
            emit(oncpu[tids[0]], perf_task(7, base, base, tid, tids[0], t))
            nev["fork"] += 1
            t += 2
        emit(oncpu[tid], perf_comm(base, tid, "prog", t, exec_=(j == 0)))
        nev["comm"] += 1
    if rng.random() < 0.5:
        t += 5
        emit(rng.choice(cpus), perf_switch(1, 1, t, True))      # an event of a task that was not traced: skipped by the reader
        nev["foreign"] += 1
    while any(left[x] > 0 or stack[x] for x in tids) or blocked:
        tid = rng.choice([x for x in tids if left[x] > 0 or stack[x] or x in blocked])
        t += rng.choice([7, 150, 3000, 50000, 2000000])
        if tid in blocked:
            c = blocked.pop(tid)
            if len(cpus) > 1 and rng.random() < 0.3:
                c = rng.choice([x for x in cpus if x != c])       # woken up on another cpu
                nev["migrate"] += 1
            oncpu[tid] = c
            emit(c, perf_switch(base, tid, t, False))
            nev["sched-in"] += 1
            continue
        if stack[tid] and rng.random() < 0.3:
            pre = rng.random() < 0.3
            emit(oncpu[tid], perf_switch(base, tid, t, True, pre))
            nev["sched-out-preempt" if pre else "sched-out"] += 1
            blocked[tid] = oncpu[tid]
            continue
        if stack[tid] and (left[tid] <= 0 or len(stack[tid]) >= 5 or rng.random() < 0.45):
            s = stack[tid].pop()
            recs[tid].append(DD.Rec(t, "X", len(stack[tid]), A(s)))
        else:
            s = 0 if not stack[tid] and not recs[tid] else rng.randrange(1, len(NAMES))
            recs[tid].append(DD.Rec(t, "E", len(stack[tid]), A(s)))
            stack[tid].append(s)
        left[tid] -= 1
    for tid in tids:
        t += 9
        emit(oncpu[tid], perf_task(4, base, base, tid, tid, t))
        nev["exit"] += 1
    r.tasks = [(tid, base, recs[tid]) for tid in tids]
    r.perf = {c: b"".join(perf[c]) for c in cpus}
    r.nev = nev
    r.desc = "%d cpus, events on %s" % (r.nr_cpu, ",".join(map(str, r.used_cpus())))
    return r


# sizes: a task buffer (one flush of a shared-memory buffer, `record -b SIZE`) is sent as it is, whatever its size
MIB = 1 << 20
BIG_FIXED = [      # (bytes of the task file, bytes of one task buffer)
    (1 << 16, MIB),                       # one buffer of exactly 2^16
    (MIB, MIB),                           # one buffer of exactly 2^20
    (MIB + 16, 2 * MIB),                  # one buffer just above 2^20
    (2 * MIB + 512 * 1024 + 32, 8 * MIB),    # one buffer of several MiB (-b 8M)
]
BIG_FILE = [MIB - 16, MIB + 16, MIB + 4096, 2 * MIB, 2 * MIB + 16, 3 * MIB - 16, 3 * MIB + 48, 4 * MIB + 160, 5 * MIB]
BIG_BUF = [1 << 16, (1 << 16) + 8, MIB - 8, MIB - 4, MIB, MIB + 4, MIB + 8, MIB + 16, 2 * MIB, 3 * MIB + 24, 8 * MIB]


def gen_big_run(rng, idx, nbytes, chunk):
    """one task whose TID.dat has exactly `nbytes` bytes (16-byte records, properly nested calls, every record
    different: times strictly increase), a second small task, events on one cpu; sent in task buffers of `chunk`"""
    r = Run(idx)
    r.big, r.chunk = True, chunk
    r.nr_cpu = rng.choice([2, 4, 12])
    cpu = rng.randrange(r.nr_cpu)
    base = rng.choice([100, 31000, 4194000])
    t = 10 ** 9 + rng.randrange(1000)
    A = lambda i: DD.BASE + 0x100 * (i + 1)      # noqa
    nrec = nbytes // 16
    out = []
    stack = []
    pk = struct.Struct("<QQ").pack
    perf = [perf_comm(base, base, "prog", t, True)]
    choices = [rng.randrange(1 << 30) for _ in range(257)]
    for k in range(nrec):
        t += 3 + (choices[k % 257] & 0x3f)
        left = nrec - k
        c = choices[(k * 7 + (k >> 8)) % 257]
        if stack and (left <= len(stack) or len(stack) >= 6 or (c & 3) == 0):
            s = stack.pop()
            w = 1 | (5 << 3) | (len(stack) << 6) | (A(s) << 16)
        else:
            s = 0 if not stack and not out else 1 + (c >> 2) % (len(NAMES) - 1)
            w = 0 | (5 << 3) | (len(stack) << 6) | (A(s) << 16)
            stack.append(s)
        out.append(pk(t, w))
    raw = b"".join(out)
    assert len(raw) == nrec * 16
    t2 = 10 ** 9 + 2000
    small = [DD.Rec(t2, "E", 0, A(3)), DD.Rec(t2 + 50, "E", 1, A(4)), DD.Rec(t2 + 90, "X", 1, A(4)), DD.Rec(t2 + 200, "X", 0, A(3))]
    perf.append(perf_task(7, base, base, base + 1, base, t2 - 10))
    perf.append(perf_task(4, base, base, base, base, t + 9))
    r.tasks = [(base, base, []), (base + 1, base, small)]
    r.raw = {base: raw}
    r.perf = {cpu: b"".join(perf)}
    r.nev = {"comm": 1, "fork": 1, "exit": 1}
    r.desc = "task file of %d bytes sent in task buffers of %d bytes" % (len(raw), chunk)
    return r


def gen_big_runs(rng, idx0, extra):
    shapes = list(BIG_FIXED)
    for _ in range(extra):
        shapes.append((rng.choice(BIG_FILE), rng.choice(BIG_BUF)))
    return [gen_big_run(rng, idx0 + i, n, c) for i, (n, c) in enumerate(shapes)]


# ---------------------------------------------------------------------------------------------
def read_dir(d):
    out = {}
    for n in sorted(os.listdir(d)):
        p = os.path.join(d, n)
        if os.path.isfile(p):
            out[n] = open(p, "rb").read()
        else:
            out[n] = None
    return out


PERCPU = re.compile(r"^(perf|kernel)-cpu-?\d+\.dat$")


def expected_received(local_files):
    """the documented relation: every file of the local directory with its bytes, except that a per-cpu file
    exists only when data for that cpu was sent"""
    return {n: b for n, b in local_files.items() if not (PERCPU.match(n) and not b)}


def wait_received(d, expect, timeout=8.0):
    """the sender has exited; the receiver may still be writing: wait until the directory holds what is expected
    (or nothing changes any more)"""
    t0 = time.time()
    last, stable = None, 0
    while time.time() - t0 < timeout:
        cur = read_dir(d) if os.path.isdir(d) else {}
        if cur == expect:
            return cur
        sig = sorted((n, len(b or b"")) for n, b in cur.items())
        stable = stable + 1 if sig == last else 0
        last = sig
        if stable >= 25 and "info" in cur:
            return cur
        time.sleep(0.02)
    return read_dir(d) if os.path.isdir(d) else {}


def diff_files(got, want):
    for n in sorted(set(got) | set(want)):
        if n not in got:
            return "file %s was not received (%d bytes locally)" % (n, len(want[n] or b""))
        if n not in want:
            return "unexpected file %s in the received directory" % n
        if got[n] != want[n]:
            a, b = got[n] or b"", want[n] or b""
            k = next((i for i in range(0, min(len(a), len(b)), 4096) if a[i:i + 4096] != b[i:i + 4096]), None)
            if k is not None:
                k = next(i for i in range(k, min(len(a), len(b))) if a[i] != b[i])
            return "file %s differs: %d bytes received, %d bytes locally; first different byte at offset %s" % (
                n, len(a), len(b), k if k is not None else min(len(a), len(b)))
    return None


def send_dir(sender, port, local, name, scratch, chunk, flags="-", timeout=60):
    """copy `local` (c16_send's host block removes the directory it sends) and send it"""
    tmp = os.path.join(scratch, "send-" + name)
    shutil.rmtree(tmp, ignore_errors=True)
    shutil.copytree(local, tmp)
    try:
        p = subprocess.run([sender, "127.0.0.1", str(port), tmp, name, str(chunk), flags], stdout=subprocess.PIPE,
                           stderr=subprocess.PIPE, timeout=timeout, cwd=scratch)
        return p.returncode, p.stderr.decode("latin-1")[-600:]
    except subprocess.TimeoutExpired:
        return -999, "TIMEOUT"
    finally:
        shutil.rmtree(tmp, ignore_errors=True)


def send_dir_async(sender, port, local, name, scratch, chunk, flags="-"):
    tmp = os.path.join(scratch, "send-" + name)
    shutil.rmtree(tmp, ignore_errors=True)
    shutil.copytree(local, tmp)
    return subprocess.Popen([sender, "127.0.0.1", str(port), tmp, name, str(chunk), flags], stdout=subprocess.PIPE,
                            stderr=subprocess.PIPE, cwd=scratch), tmp


# ---------------------------------------------------------------------------------------------
# analysis commands on a directory
CMDS = [("replay", []), ("report", []), ("report", ["-f", "call", "-s", "func"]), ("dump", []), ("dump", ["--chrome"]),
        ("graph", []), ("info", [])]


def run_cmd(uftrace, cmd, d, args, timeout=30):
    e = dict(os.environ)
    e.pop("UFTRACE_DIR", None)
    e.update({"TZ": "UTC", "LC_ALL": "C"})
    try:
        p = subprocess.run([uftrace, cmd, "-d", d, "--no-pager", "--color=no"] + list(args), stdout=subprocess.PIPE,
                           stderr=subprocess.PIPE, timeout=timeout, env=e)
        return p.returncode, p.stdout, p.stderr.decode("latin-1")[-400:]
    except subprocess.TimeoutExpired:
        return -999, b"", "TIMEOUT"


def outputs(uftrace, d, cmds=None):
    for n in ("info",):
        try:
            os.utime(os.path.join(d, n), (T_INFO, T_INFO))     # dump --chrome prints the mtime of the info file
        except OSError:
            pass
    out = {}
    for cmd, args in (cmds or CMDS):
        rc, o, e = run_cmd(uftrace, cmd, d, args, timeout=(60 if cmds else 30))
        out[" ".join([cmd] + args)] = (rc, o.replace(d.encode(), b"<DIR>"), e.replace(d, "<DIR>"))
    return out


LABEL = re.compile(rb"^reading perf-cpu(\d+)\.dat$", re.M)


def dump_perf_blocks(text):
    """`uftrace dump`: [(N of the "reading perf-cpuN.dat" line, [event lines])]"""
    blocks, cur = [], None
    for line in text.split(b"\n"):
        m = LABEL.match(line)
        if m:
            cur = (int(m.group(1)), [])
            blocks.append(cur)
        elif line.startswith(b"reading "):
            cur = None
        elif cur is not None and line.strip():
            cur[1].append(line)
    return blocks


def strip_perf_labels(text):
    """the dump output with the per-cpu file labels (and the blank line printed before label 0) taken out"""
    return re.sub(rb"\n*reading perf-cpu\d+\.dat\n", b"\nreading perf-cpu#.dat\n", text)


def first_diff(a, b):
    la, lb = a.split(b"\n"), b.split(b"\n")
    for i, (x, y) in enumerate(zip(la, lb)):
        if x != y:
            return "line %d: local %r / received %r" % (i + 1, x[:160].decode("latin-1"), y[:160].decode("latin-1"))
    if len(la) != len(lb):
        k = min(len(la), len(lb))
        rest = (la[k:] or lb[k:])[0]
        return "%s output has %d more line(s), first %r" % ("local" if len(la) > len(lb) else "received", abs(len(la) - len(lb)),
                                                            rest[:160].decode("latin-1"))
    return None


# ---------------------------------------------------------------------------------------------
# real recordings
PROG_C = r"""
/* one task that blocks for a while inside a traced function; argument t...: a second one in a thread;
 * argument bN: N thousand calls of step() (-> compute() two times out of three) first, about 53 bytes of records
 * each: N = 70 gives 3.7 MB, one task buffer with `record -b 8M` */
#include <pthread.h>
#include <stdlib.h>
#include <unistd.h>
static volatile int sink;
__attribute__((noinline)) void wait_for_io(int us) { usleep(us); }
__attribute__((noinline)) void compute(int n) { int i; for (i = 0; i < n; i++) sink += i; }
__attribute__((noinline)) void *worker(void *arg) { compute(10); wait_for_io(20000); compute(20); return arg; }
__attribute__((noinline)) void step(int i) { if (i % 3) compute(1); if (i % 1000 == 0) compute(2); }
__attribute__((noinline)) void burst(int n) { int i; for (i = 0; i < n; i++) step(i); }
int main(int argc, char **argv)
{
	if (argc > 1 && argv[1][0] == 'b')
		burst(atoi(argv[1] + 1) * 1000);
	compute(1);
	wait_for_io(30000);
	if (argc > 1 && argv[1][0] == 't') {
		pthread_t th;
		pthread_create(&th, NULL, worker, NULL);
		pthread_join(th, NULL);
	}
	compute(2);
	return 0;
}
"""


def build_prog(workdir):
    src = os.path.join(workdir, "prog.c")
    exe = os.path.join(workdir, "prog")
    open(src, "w").write(PROG_C)
    r = subprocess.run(["gcc", "-O0", "-pg", "-pthread", "-o", exe, src], stdout=subprocess.PIPE, stderr=subprocess.STDOUT, text=True)
    return (exe if r.returncode == 0 else None), r.stdout


def pin_cpu():
    cpus = sorted(os.sched_getaffinity(0))
    return cpus[-1], len(cpus)


def record(uftrace, libmcount, cwd, dirname, prog, args, cpu, extra, timeout=40):
    def pre():
        try:
            os.sched_setaffinity(0, {cpu})
        except OSError:
            pass
    e = dict(os.environ)
    for k in list(e):
        if k.startswith("UFTRACE_"):
            e.pop(k)
    try:
        p = subprocess.run([uftrace, "record", "--libmcount-path=" + libmcount, "-d", dirname] + list(extra) + [prog] + list(args),
                           cwd=cwd, stdout=subprocess.PIPE, stderr=subprocess.PIPE, timeout=timeout, env=e, preexec_fn=pre)
        return p.returncode, p.stderr.decode("latin-1")[-600:]
    except subprocess.TimeoutExpired:
        return -999, "TIMEOUT"


NUM = re.compile(rb"\d+")


def canon_dir(files):
    """the contents of a directory of a real recording with what legitimately differs between two runs of the
    same program taken out: task ids (numbered by rank), session ids, time stamps, load addresses, the command
    line and the host's load / usage figures.  Per-cpu files: the set of cpus that have data."""
    tids = sorted(int(n[:-4]) for n in files if re.fullmatch(r"\d+\.dat", n))
    rank = {t: i for i, t in enumerate(tids)}

    def tidsub(b):
        return NUM.sub(lambda m: (b"T%d" % rank[int(m.group(0))]) if int(m.group(0)) in rank else m.group(0), b)
    out = {}
    for n, b in files.items():
        if b is None:
            out[n] = "directory"
            continue
        m = re.fullmatch(r"(\d+)\.dat", n)
        if m:
            # trace records: (type, depth, address relative to the lowest one) of every 16-byte record
            recs = [struct.unpack_from("<QQ", b, o) for o in range(0, len(b) - 15, 16)]
            out["T%d.dat" % rank[int(m.group(1))]] = ("records", len(b) % 16, [(w & 3, (w >> 6) & 0x3ff) for _, w in recs])
        elif re.fullmatch(r"sid-[0-9a-f]+\.map", n):
            out["sid-S.map"] = ("paths", sorted({l.split()[-1] for l in b.split(b"\n") if l.split()[5:]}))
        elif PERCPU.match(n):
            if b:
                out[n] = "non-empty"
        elif n == "task.txt":
            t = re.sub(rb"timestamp=\d+\.\d+", b"timestamp=T", b)
            t = re.sub(rb"sid=[0-9a-f]+", b"sid=S", t)
            out[n] = tidsub(t)
        elif n == "info":
            keep = []
            for l in b[40:].split(b"\n"):
                k = l.split(b":", 1)[0]
                if k in (b"exename", b"exit_status", b"pattern_type", b"uftrace_version"):     # (utc_offset is a time stamp)
                    keep.append(l)
                elif k == b"taskinfo":
                    keep.append(tidsub(l))
                elif k in (b"cpuinfo", b"osinfo"):
                    keep.append(l if b"lines=" in l or b"nr_cpus" in l or b"kernel" in l or b"hostname" in l else k)
                else:
                    keep.append(k)
            out[n] = (b[:16], b[32:40], keep)          # header without the feature / info masks (compared separately)
            out["info.masks"] = struct.unpack_from("<QQ", b, 16) if len(b) >= 32 else None
        else:
            out[n] = b
    return out, rank


DUR = re.compile(rb"^ *(?:\d+\.\d{3} +(?:us|ms|s|m|h))? *\[ *(\d+)\] \|")


def canon_replay(text, rank):
    """per task (by rank) the call structure replay shows, durations dropped.  Scheduling events depend on the
    machine's load except for one thing the program does itself: it blocks in usleep().  So schedule lines are
    taken out (a call that only held such lines is folded back to `name();`), and for every usleep call it is
    kept whether a linux:schedule event was shown inside."""
    per = {}
    for l in text.split(b"\n"):
        if not l or l.startswith(b"#"):
            continue
        m = DUR.match(l)
        if not m:
            per.setdefault("?", []).append(l)
            continue
        per.setdefault(rank.get(int(m.group(1)), "?"), []).append(l[m.end():].rstrip())
    out = {}
    for k, lines in per.items():
        res, opened = [], []          # opened: [index in res, name, saw schedule]
        for body in lines:
            txt = body.strip()
            if b"linux:" in txt:
                if b"linux:schedule" in txt and b"pre-empted" not in txt and opened:
                    opened[-1][2] = True
                continue
            m1 = re.fullmatch(rb"(\S+)\(\) \{", txt)
            if m1:
                opened.append([len(res), m1.group(1), False])
                res.append(body)
                continue
            if txt.startswith(b"}") and opened:
                i, name, sched = opened.pop()
                tag = b" [blocked]" if (name == b"usleep" and sched) else b""
                if i == len(res) - 1:
                    res[i] = res[i][:-2].rstrip() + b";" + tag          # nothing but schedule lines inside: a leaf
                else:
                    res.append(body + tag)
                continue
            if txt == b"usleep();":
                res.append(body)
                continue
            res.append(body)
        out[k] = res
    return out


def canon_report(text):
    rows, sched = [], False
    for l in text.split(b"\n"):
        w = l.split()
        if len(w) >= 2 and w[0].isdigit():
            name = b" ".join(w[1:])
            if name.startswith(b"linux:"):
                sched = sched or name == b"linux:schedule"
                continue
            rows.append((name, int(w[0])))
    return sorted(rows), sched


def canon_dump(text, rank):
    """function records per task (kind, name, depth), and which kinds of perf events are there at all"""
    fn, ev = [], set()
    for l in text.split(b"\n"):
        m = re.match(rb"^\d+\.\d+ +(\d+): \[(entry|exit ) *\] (\S+)\([0-9a-f]+\) depth: (\d+)", l)
        if m:
            fn.append((rank.get(int(m.group(1)), "?"), m.group(2), m.group(3), int(m.group(4))))
            continue
        m = re.match(rb"^\d+\.\d+ +(\d+): \[event\] (.*)\(\d+\)$", l)
        if m and b"pre-empted" not in m.group(2):
            ev.add(m.group(2))
    return fn, sorted(ev)
